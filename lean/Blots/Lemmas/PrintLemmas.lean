import Blots.Lemmas.PrattRoundTrip
/-
  Lemmas about the single-line printer (`Model/Print.lean`, mirror of `ast_to_source.rs`):

  * `readString`   : a character-level model of the grammar rule
                       `string = ${ PUSH("\"" | "'") ~ string_value ~ POP }`,
                       `string_value = @{ (!PEEK ~ ANY)* }`
                     and the read-back of every literal `stringToSource` emits (three branches);
  * `formatRecordKey`, `protectStatementStart`, `numberToSource` : case analyses;
  * `EndsOpen`     : inductive characterisation of `endsOpen` + "never exposed on the right";
  * `ChainExposed` : inductive characterisation of `lambdaBodyNeedsParens`;
  * do-block comments are emitted exactly once, in order (`doComments` / `srcLines`).
-/
namespace Blots
namespace PrintL

/-! ### (1) string literals, character level -/

/-- the grammar rule `string`: an opening quote `q` (either kind), then every character up
    to (not including) the next `q` — `(!PEEK ~ ANY)*` is greedy and cannot skip a `q` —,
    then that `q` (`POP`).  Result: (content, remaining input); `none` = the rule fails. -/
def readString : List Char → Option (List Char × List Char)
  | [] => none
  | q :: cs =>
    if q == '"' || q == '\'' then
      match cs.dropWhile (· != q) with
      | [] => none
      | _ :: rest => some (cs.takeWhile (· != q), rest)
    else none

theorem takeWhile_until (q : Char) (rest : List Char) :
    ∀ s : List Char, q ∉ s → (s ++ q :: rest).takeWhile (· != q) = s
  | [], _ => by simp
  | c :: s, h => by
    have hc : c ≠ q := fun e => h (by simp [e])
    have hs : q ∉ s := fun m => h (List.mem_cons_of_mem _ m)
    simp [hc, takeWhile_until q rest s hs]

theorem dropWhile_until (q : Char) (rest : List Char) :
    ∀ s : List Char, q ∉ s → (s ++ q :: rest).dropWhile (· != q) = q :: rest
  | [], _ => by simp
  | c :: s, h => by
    have hc : c ≠ q := fun e => h (by simp [e])
    have hs : q ∉ s := fun m => h (List.mem_cons_of_mem _ m)
    simp [hc, dropWhile_until q rest s hs]

/-- a text `q s q` whose content is free of `q` reads back as `s` -/
theorem readString_quoted (q : Char) (hq : q = '"' ∨ q = '\'') (s rest : List Char) (h : q ∉ s) :
    readString (q :: (s ++ q :: rest)) = some (s, rest) := by
  unfold readString
  have : (q == '"' || q == '\'') = true := by rcases hq with rfl | rfl <;> rfl
  simp only [this, if_true, dropWhile_until q rest s h, takeWhile_until q rest s h]

theorem dropWhile_cons_split (q : Char) : ∀ (cs : List Char) (d : Char) (rest' : List Char),
    cs.dropWhile (· != q) = d :: rest' →
    d = q ∧ cs = cs.takeWhile (· != q) ++ q :: rest' ∧ q ∉ cs.takeWhile (· != q)
  | [], d, rest', h => by simp at h
  | c :: cs, d, rest', h => by
    by_cases hc : c = q
    · subst hc
      simp only [List.dropWhile_cons, bne_self_eq_false, Bool.false_eq_true, if_false,
        List.cons.injEq] at h
      simp [h.1.symm, h.2]
    · have hb : (c != q) = true := by simpa using hc
      simp only [List.dropWhile_cons, hb, if_true] at h
      obtain ⟨h1, h2, h3⟩ := dropWhile_cons_split q cs d rest' h
      refine ⟨h1, ?_, ?_⟩
      · simp only [List.takeWhile_cons, hb, if_true, List.cons_append]
        rw [← h2]
      · simp only [List.takeWhile_cons, hb, if_true, List.mem_cons, not_or]
        exact ⟨fun e => hc e.symm, h3⟩

/-- … and the content it returns never contains the delimiter (so a literal cannot denote a
    string with its own quote: the grammar has no escapes) -/
theorem readString_content_free (inp c rest : List Char) (h : readString inp = some (c, rest)) :
    ∃ q, (q = '"' ∨ q = '\'') ∧ inp = q :: (c ++ q :: rest) ∧ q ∉ c := by
  cases inp with
  | nil => simp [readString] at h
  | cons q cs =>
    unfold readString at h
    by_cases hq : (q == '"' || q == '\'') = true
    · simp only [hq, if_true] at h
      cases hd : cs.dropWhile (· != q) with
      | nil => simp [hd] at h
      | cons d rest' =>
        rw [hd] at h
        simp only [Option.some.injEq, Prod.mk.injEq] at h
        obtain ⟨h1, h2⟩ := h
        obtain ⟨_, h4, h5⟩ := dropWhile_cons_split q cs d rest' hd
        subst h1; subst h2
        exact ⟨q, by simpa using hq, by rw [← h4], h5⟩
    · simp [hq] at h

theorem dq_toList : "\"".toList = ['"'] := rfl
theorem sq_toList : "'".toList = ['\''] := rfl

theorem stringToSource_dq (s : String) (h : '"' ∉ s.toList) :
    stringToSource s = "\"" ++ s ++ "\"" := by
  unfold stringToSource
  simp [h]

theorem stringToSource_sq (s : String) (h : '"' ∈ s.toList) (h2 : '\'' ∉ s.toList) :
    stringToSource s = "'" ++ s ++ "'" := by
  unfold stringToSource
  simp [h, h2]

/-- branch 1: no `"` in the string → `"s"` -/
theorem readString_dq (s rest : List Char) (h : '"' ∉ s) :
    readString ((stringToSource (String.ofList s)).toList ++ rest) = some (s, rest) := by
  rw [stringToSource_dq _ (by simpa using h)]
  simp only [String.toList_append, String.toList_ofList, dq_toList, List.cons_append,
    List.nil_append, List.append_assoc]
  exact readString_quoted '"' (Or.inl rfl) s rest h

/-- branch 2: a `"` but no `'` → `'s'` -/
theorem readString_sq (s rest : List Char) (h1 : '"' ∈ s) (h2 : '\'' ∉ s) :
    readString ((stringToSource (String.ofList s)).toList ++ rest) = some (s, rest) := by
  rw [stringToSource_sq _ (by simpa using h1) (by simpa using h2)]
  simp only [String.toList_append, String.toList_ofList, sq_toList, List.cons_append,
    List.nil_append, List.append_assoc]
  exact readString_quoted '\'' (Or.inr rfl) s rest h2

/-! branch 3: both quote kinds occur → `( piece + piece + … )` -/

/-- the (delimiter, content) pairs of one split piece: the text before a `"` (if non-empty)
    in double quotes, then the `"` itself in single quotes -/
def quotedOf (pq : List Char × Bool) : List (Char × List Char) :=
  (if pq.1.isEmpty then [] else [('"', pq.1)]) ++ (if pq.2 then [('\'', ['"'])] else [])

/-- all (delimiter, content) pairs of the third branch, in order -/
def quotedPieces (cs : List Char) : List (Char × List Char) := (splitQuotes cs).flatMap quotedOf

/-- the contents only -/
def pieces (cs : List Char) : List (List Char) := (quotedPieces cs).map (·.2)

/-- the literal text of a (delimiter, content) pair -/
def litOf (qc : Char × List Char) : String := String.ofList (qc.1 :: (qc.2 ++ [qc.1]))

theorem pieceLit_eq (p : List Char) (q : Bool) :
    (if q = true then (if p.isEmpty = true then [] else ["\"" ++ String.ofList p ++ "\""]) ++ ["'\"'"]
      else (if p.isEmpty = true then [] else ["\"" ++ String.ofList p ++ "\""])) =
    (quotedOf (p, q)).map litOf := by
  have e1 : "\"" ++ String.ofList p ++ "\"" = litOf ('"', p) := by
    apply String.toList_inj.mp
    simp [litOf, dq_toList]
  have e2 : "'\"'" = litOf ('\'', ['"']) := rfl
  cases q <;> cases hp : p.isEmpty <;> simp [quotedOf, hp, e1, e2]

/-- the third branch of `stringToSource`, in terms of `quotedPieces` -/
theorem stringToSource_both (s : String) (h1 : '"' ∈ s.toList) (h2 : '\'' ∈ s.toList) :
    stringToSource s = "(" ++ " + ".intercalate ((quotedPieces s.toList).map litOf) ++ ")" := by
  unfold stringToSource
  simp only [List.contains_iff_mem.mpr h1, List.contains_iff_mem.mpr h2, Bool.not_true,
    Bool.false_eq_true, if_false]
  have hf : (fun x : List Char × Bool => match x with
        | (p, q) =>
          if q = true then (if p.isEmpty = true then [] else ["\"" ++ String.ofList p ++ "\""]) ++ ["'\"'"]
          else (if p.isEmpty = true then [] else ["\"" ++ String.ofList p ++ "\""])) =
      fun x => (quotedOf x).map litOf := by
    funext x
    obtain ⟨p, q⟩ := x
    exact pieceLit_eq p q
  simp only [quotedPieces, hf, List.map_flatMap]

/-- re-assembly of split pieces -/
def unsplit (l : List (List Char × Bool)) : List Char :=
  l.flatMap fun pq => pq.1 ++ (if pq.2 then ['"'] else [])

theorem unsplit_append (a b) : unsplit (a ++ b) = unsplit a ++ unsplit b := by
  simp [unsplit]

theorem unsplit_go : ∀ (cs cur : List Char) (acc : List (List Char × Bool)),
    unsplit (splitQuotes.go cs cur acc) = unsplit acc.reverse ++ (cur.reverse ++ cs)
  | [], cur, acc => by
    unfold splitQuotes.go
    cases cur with
    | nil => simp
    | cons c cur => simp [unsplit]
  | c :: rest, cur, acc => by
    unfold splitQuotes.go
    by_cases hc : c = '"'
    · subst hc
      simp only [beq_self_eq_true, if_true]
      rw [unsplit_go rest [] _]
      simp [unsplit]
    · simp only [beq_iff_eq, hc, if_false]
      rw [unsplit_go rest (c :: cur) acc]
      simp

theorem unsplit_splitQuotes (cs : List Char) : unsplit (splitQuotes cs) = cs := by
  unfold splitQuotes
  rw [unsplit_go]
  simp [unsplit]

theorem go_noquote : ∀ (cs cur : List Char) (acc : List (List Char × Bool)),
    (∀ pq ∈ acc, '"' ∉ pq.1) → '"' ∉ cur → ∀ pq ∈ splitQuotes.go cs cur acc, '"' ∉ pq.1
  | [], cur, acc, ha, hc => by
    unfold splitQuotes.go
    intro pq hpq
    cases hcur : cur.isEmpty
    · simp only [hcur, Bool.false_eq_true, if_false, List.mem_reverse, List.mem_cons] at hpq
      rcases hpq with rfl | hpq
      · simpa using hc
      · exact ha pq hpq
    · simp only [hcur, if_true, List.mem_reverse] at hpq
      exact ha pq hpq
  | c :: rest, cur, acc, ha, hc => by
    unfold splitQuotes.go
    by_cases hq : c = '"'
    · subst hq
      simp only [beq_self_eq_true, if_true]
      refine go_noquote rest [] _ ?_ (by simp)
      intro pq hpq
      rcases List.mem_cons.mp hpq with rfl | hpq
      · simpa using hc
      · exact ha pq hpq
    · simp only [beq_iff_eq, hq, if_false]
      refine go_noquote rest (c :: cur) acc ha ?_
      intro hm
      rcases List.mem_cons.mp hm with h | h
      · exact hq h.symm
      · exact hc h

theorem splitQuotes_noquote (cs : List Char) : ∀ pq ∈ splitQuotes cs, '"' ∉ pq.1 := by
  unfold splitQuotes
  exact go_noquote cs [] [] (by simp) (by simp)

/-- the contents of the pieces, concatenated in order, are the string -/
theorem pieces_flatten (cs : List Char) : (pieces cs).flatten = cs := by
  have : ∀ L : List (List Char × Bool), ((L.flatMap quotedOf).map (·.2)).flatten = unsplit L := by
    intro L
    induction L with
    | nil => rfl
    | cons x L ih =>
      obtain ⟨p, q⟩ := x
      simp only [List.flatMap_cons, List.map_append, List.flatten_append, ih]
      have : unsplit ((p, q) :: L) = (p ++ if q then ['"'] else []) ++ unsplit L := by
        simp [unsplit]
      rw [this]
      congr 1
      cases q <;> cases hp : p.isEmpty <;> simp [quotedOf, hp]
      all_goals simpa using hp
  unfold pieces quotedPieces
  rw [this, unsplit_splitQuotes]

/-- every piece is delimited by a quote character that does not occur in its content -/
theorem quotedPieces_ok (cs : List Char) :
    ∀ qc ∈ quotedPieces cs, (qc.1 = '"' ∨ qc.1 = '\'') ∧ qc.1 ∉ qc.2 := by
  intro qc hqc
  unfold quotedPieces at hqc
  obtain ⟨pq, hpq, hin⟩ := List.mem_flatMap.mp hqc
  have hn := splitQuotes_noquote cs pq hpq
  unfold quotedOf at hin
  rcases List.mem_append.mp hin with h | h
  · split at h
    · cases h
    · rw [List.mem_singleton] at h; subst h; exact ⟨Or.inl rfl, hn⟩
  · split at h
    · rw [List.mem_singleton] at h; subst h; exact ⟨Or.inr rfl, by decide⟩
    · cases h

/-- … hence every emitted piece is a literal that `readString` reads back to its content -/
theorem litOf_reads (qc : Char × List Char) (hq : qc.1 = '"' ∨ qc.1 = '\'') (hf : qc.1 ∉ qc.2)
    (rest : List Char) : readString ((litOf qc).toList ++ rest) = some (qc.2, rest) := by
  unfold litOf
  simp only [String.toList_ofList, List.cons_append, List.append_assoc, List.nil_append]
  exact readString_quoted qc.1 hq qc.2 rest hf

/-- there is at least one piece when the string contains a `"` -/
theorem quotedPieces_ne_nil (cs : List Char) (h : '"' ∈ cs) : quotedPieces cs ≠ [] := by
  intro he
  have h1 := pieces_flatten cs
  simp [pieces, he] at h1
  subst h1
  cases h

/-! ### (2) record keys -/

theorem formatRecordKey_ident (k : String) (h : isValidIdentifier k = true) :
    formatRecordKey k = k := by
  unfold formatRecordKey; simp [h]

theorem formatRecordKey_string (k : String) (h : isValidIdentifier k = false)
    (hq : ¬ ('"' ∈ k.toList ∧ '\'' ∈ k.toList)) : formatRecordKey k = stringToSource k := by
  unfold formatRecordKey
  simp only [h, Bool.false_eq_true, if_false]
  have : (k.toList.contains '"' && k.toList.contains '\'') = false := by
    cases h1 : k.toList.contains '"' <;> cases h2 : k.toList.contains '\'' <;> simp
    exact hq ⟨List.contains_iff_mem.mp h1, List.contains_iff_mem.mp h2⟩
  simp only [this, Bool.not_false, if_true]

theorem formatRecordKey_computed (k : String) (h : isValidIdentifier k = false)
    (h1 : '"' ∈ k.toList) (h2 : '\'' ∈ k.toList) :
    formatRecordKey k = "[" ++ stringToSource k ++ "]" := by
  unfold formatRecordKey
  simp [h, h1, h2]

/-- a string key that is printed as a literal reads back to the key -/
theorem formatRecordKey_reads (k : String) (h : isValidIdentifier k = false)
    (hq : ¬ ('"' ∈ k.toList ∧ '\'' ∈ k.toList)) (rest : List Char) :
    readString ((formatRecordKey k).toList ++ rest) = some (k.toList, rest) := by
  rw [formatRecordKey_string k h hq]
  have e : k = String.ofList k.toList := String.ofList_toList.symm
  by_cases h1 : '"' ∈ k.toList
  · have h2 : '\'' ∉ k.toList := fun h2 => hq ⟨h1, h2⟩
    have := readString_sq k.toList rest h1 h2
    rwa [← e] at this
  · have := readString_dq k.toList rest h1
    rwa [← e] at this

/-- what a bare key looks like: not a reserved word (of the printer's list, which is the
    grammar's list), first character a letter or `_`, then letters, digits, `_` -/
theorem isValidIdentifier_spec (k : String) (h : isValidIdentifier k = true) :
    k ∉ Gen.printerReserved ∧
    ∃ c rest, k.toList = c :: rest ∧ (isAsciiAlpha c = true ∨ c = '_') ∧
      ∀ d ∈ rest, isAsciiAlpha d = true ∨ isAsciiDigit d = true ∨ d = '_' := by
  unfold isValidIdentifier at h
  split at h
  · cases h
  · rename_i c rest hk
    simp only [Bool.and_eq_true, Bool.not_eq_true', Bool.or_eq_true, beq_iff_eq,
      List.all_eq_true] at h
    refine ⟨?_, c, rest, hk, h.1.2, fun d hd => ?_⟩
    · intro hm
      have := List.contains_iff_mem.mpr hm
      rw [h.1.1] at this; cases this
    · rcases h.2 d hd with (h | h) | h
      · exact Or.inl h
      · exact Or.inr (Or.inl h)
      · exact Or.inr (Or.inr h)

theorem reserved_lists_agree : Gen.printerReserved = Gen.grammarReserved := by decide

/-! ### (3) statement start -/

theorem protectDecide_paren (cs : List Char) : protectDecide ('(' :: cs) = false := by
  simp [protectDecide, wordOperatorStart, List.isPrefixOf]

theorem protectDecide_false {cs : List Char} (h : protectDecide cs = false) :
    cs.head? ≠ some '-' ∧ wordOperatorStart cs = false := by
  simp only [protectDecide, Bool.or_eq_false_iff, beq_eq_false_iff_ne, ne_eq] at h
  exact h

theorem protectStatementStart_head (s : String) :
    (protectStatementStart s).toList.head? ≠ some '-' := by
  unfold protectStatementStart
  split
  · simp
  · rename_i h
    exact (protectDecide_false (by simpa using h)).1

/-- … nor does it start with `via` / `into` / `where` followed by a blank or a tab -/
theorem protectStatementStart_word (s : String) :
    wordOperatorStart (protectStatementStart s).toList = false := by
  unfold protectStatementStart
  split
  · simp [wordOperatorStart, List.isPrefixOf]
  · rename_i h
    exact (protectDecide_false (by simpa using h)).2

theorem protectStatementStart_id (s : String) (h : s.toList.head? ≠ some '-')
    (hw : wordOperatorStart s.toList = false) : protectStatementStart s = s := by
  have : protectDecide s.toList = false := by
    simp only [protectDecide, Bool.or_eq_false_iff, beq_eq_false_iff_ne, ne_eq]
    exact ⟨h, hw⟩
  simp [protectStatementStart, this]

theorem protectStatementStart_minus (s : String) (h : s.toList.head? = some '-') :
    protectStatementStart s = "(" ++ s ++ ")" := by
  have : protectDecide s.toList = true := by simp [protectDecide, h]
  simp [protectStatementStart, this]

theorem protectStatementStart_wordStart (s : String) (hw : wordOperatorStart s.toList = true) :
    protectStatementStart s = "(" ++ s ++ ")" := by
  have : protectDecide s.toList = true := by simp [protectDecide, hw]
  simp [protectStatementStart, this]

/-! ### (4) open-ended forms -/

/-- the rightmost leaf along bin-right / unary-operand edges is a lambda, conditional,
    assignment or output -/
inductive EndsOpen : Expr → Prop
  | lambda (a b) : EndsOpen (.lambda a b)
  | cond (c t e) : EndsOpen (.cond c t e)
  | assign (n v) : EndsOpen (.assign n v)
  | output (e) : EndsOpen (.output e)
  | binRight (op l) {r} : EndsOpen r → EndsOpen (.bin op l r)
  | unOperand (op) {e} : EndsOpen e → EndsOpen (.un op e)

theorem endsOpen_iff : ∀ e : Expr, endsOpen e = true ↔ EndsOpen e
  | .lambda a b => by simp [endsOpen, EndsOpen.lambda]
  | .cond c t e => by simp [endsOpen, EndsOpen.cond]
  | .assign n v => by simp [endsOpen, EndsOpen.assign]
  | .output e => by simp [endsOpen, EndsOpen.output]
  | .bin op l r => by
    simp only [endsOpen]
    rw [endsOpen_iff r]
    exact ⟨EndsOpen.binRight op l, fun h => by cases h; assumption⟩
  | .un op e => by
    simp only [endsOpen]
    rw [endsOpen_iff e]
    exact ⟨EndsOpen.unOperand op, fun h => by cases h; assumption⟩
  | .num _ | .str _ | .bool _ | .null | .ident _ | .inref _ | .builtin _ | .list _ | .record _
  | .doBlock _ _ | .call _ _ | .access _ _ | .dot _ _ | .fact _ | .spread _ => by
    simp only [endsOpen]
    constructor
    · intro h; cases h
    · intro h; cases h

/-- an open-ended child is parenthesised wherever something follows it -/
theorem endsOpen_needsParens (c : Expr) (op : BinOp) (h : endsOpen c = true) :
    needsParens c (.binLeft op) = true ∧ needsParens c .postfix_ = true := by
  constructor <;> (unfold needsParens; simp [h])

/-! ### (5) lambda bodies -/

/-- the left spine of loosest-level binary operators reaches a `via` / `into` / `where` -/
inductive ChainExposed : Expr → Prop
  | via (l r) : ChainExposed (.bin .via l r)
  | into (l r) : ChainExposed (.bin .into l r)
  | where_ (l r) : ChainExposed (.bin .where_ l r)
  | left {op l} (r) : (opInfo op).1 = (opInfo .via).1 → ChainExposed l → ChainExposed (.bin op l r)

theorem lambdaBodyNeedsParens_bin (op : BinOp) (l r : Expr) :
    lambdaBodyNeedsParens (.bin op l r) =
      (op == .via || op == .into || op == .where_ ||
        ((opInfo op).1 == (opInfo .via).1 && lambdaBodyNeedsParens l)) := by
  simp only [lambdaBodyNeedsParens]

theorem lambdaBodyNeedsParens_iff : ∀ e : Expr, lambdaBodyNeedsParens e = true ↔ ChainExposed e
  | .bin op l r => by
    rw [lambdaBodyNeedsParens_bin]
    simp only [Bool.or_eq_true, Bool.and_eq_true, beq_iff_eq]
    rw [lambdaBodyNeedsParens_iff l]
    constructor
    · rintro (((h | h) | h) | ⟨h1, h2⟩)
      · subst h; exact .via l r
      · subst h; exact .into l r
      · subst h; exact .where_ l r
      · exact .left r h1 h2
    · intro h
      cases h with
      | via => exact Or.inl (Or.inl (Or.inl rfl))
      | into => exact Or.inl (Or.inl (Or.inr rfl))
      | where_ => exact Or.inl (Or.inr rfl)
      | left _ h1 h2 => exact Or.inr ⟨h1, h2⟩
  | .num _ | .str _ | .bool _ | .null | .ident _ | .inref _ | .builtin _ | .list _ | .record _
  | .lambda _ _ | .cond _ _ _ | .doBlock _ _ | .assign _ _ | .output _ | .call _ _
  | .access _ _ | .dot _ _ | .un _ _ | .fact _ | .spread _ => by
    simp only [lambdaBodyNeedsParens]
    constructor
    · intro h; cases h
    · intro h; cases h

/-- which operators share the level of `via` (evaluated over the generated table): exactly
    `&&`, `and`, `||`, `or`, `via`, `into`, `where`; and no operator is looser -/
def chainLevelOk (op : BinOp) : Bool :=
  (decide ((opInfo op).1 = (opInfo .via).1) ==
    [BinOp.and, .nand, .or, .nor, .via, .into, .where_].contains op) &&
  decide ((opInfo .via).1 ≤ (opInfo op).1)

theorem all_chainLevelOk : BinOp.all.all chainLevelOk = true := by decide +kernel

theorem chain_level (op : BinOp) :
    ((opInfo op).1 = (opInfo .via).1 ↔ op ∈ [BinOp.and, .nand, .or, .nor, .via, .into, .where_]) ∧
    (opInfo .via).1 ≤ (opInfo op).1 := by
  have h := List.all_eq_true.mp all_chainLevelOk op (PrattRT.BinOp.mem_all op)
  simp only [chainLevelOk, Bool.and_eq_true, beq_iff_eq, decide_eq_true_eq] at h
  refine ⟨?_, h.2⟩
  rw [← List.contains_iff_mem, ← h.1]
  simp

/-! ### (6) numbers -/

theorem numberToSource_inf (x : F64) (h1 : x.isInf = true) (h2 : x.neg = false) :
    numberToSource x = "1e999" := by
  unfold numberToSource; simp [h1, h2]

theorem numberToSource_int (x : F64) (h0 : ¬ (x.isInf = true ∧ x.neg = false))
    (h1 : x.isIntegral = true) (h2 : F64.flt x.abs f64_1e15 = true) :
    numberToSource x = x.toFixed 0 := by
  unfold numberToSource
  have : (x.isInf && !x.neg) = false := by
    cases hi : x.isInf <;> cases hn : x.neg <;> simp
    exact h0 ⟨hi, hn⟩
  simp [this, h1, h2]

theorem numberToSource_other (x : F64) (h0 : ¬ (x.isInf = true ∧ x.neg = false))
    (h1 : ¬ (x.isIntegral = true ∧ F64.flt x.abs f64_1e15 = true)) :
    numberToSource x = x.toDisplay := by
  unfold numberToSource
  have : (x.isInf && !x.neg) = false := by
    cases hi : x.isInf <;> cases hn : x.neg <;> simp
    exact h0 ⟨hi, hn⟩
  have h3 : (x.isIntegral && F64.flt x.abs f64_1e15) = false := by
    cases hi : x.isIntegral <;> cases hn : F64.flt x.abs f64_1e15 <;> simp
    exact h1 ⟨hi, hn⟩
  simp [this, h3]

theorem natDigits_no_minus (n : Nat) : '-' ∉ (F64.natDigits n).toList := by
  intro h
  simp only [F64.natDigits, Nat.toString_eq_repr, Nat.repr_eq_ofList_toDigits, String.toList_ofList] at h
  have := Nat.isDigit_of_mem_toDigits (by decide) (by decide) h
  revert this; decide

theorem zeros_no_minus (n : Nat) : '-' ∉ (F64.zeros n).toList := by
  simp [F64.zeros]

theorem positional_no_minus (ds : String) (e : Int) (h : '-' ∉ ds.toList) :
    '-' ∉ (F64.positional ds e).toList := by
  unfold F64.positional
  have hz := zeros_no_minus
  split
  · simp [h, hz]
  · simp only []
    split
    · simp only [String.toList_append, String.toList_ofList, List.mem_append, not_or]
      exact ⟨⟨fun hm => h (List.mem_of_mem_take hm), by decide⟩, fun hm => h (List.mem_of_mem_drop hm)⟩
    · simp only [String.toList_append, List.mem_append, not_or]
      exact ⟨⟨by decide, hz _⟩, h⟩

theorem toDisplay_no_minus (x : F64) (hn : x.neg = false) : '-' ∉ x.toDisplay.toList := by
  unfold F64.toDisplay
  simp only [hn, Bool.false_eq_true, if_false]
  split
  · decide
  · split
    · decide
    · split
      · decide
      · simp only [String.toList_append, List.mem_append, not_or]
        exact ⟨by decide, positional_no_minus _ _ (natDigits_no_minus _)⟩

theorem toFixed0_no_minus (x : F64) (hn : x.neg = false) : '-' ∉ (x.toFixed 0).toList := by
  unfold F64.toFixed
  simp only [hn, Bool.false_eq_true, if_false, if_true]
  split
  · decide
  · split
    · decide
    · simp only [String.toList_append, List.mem_append, not_or]
      refine ⟨by decide, ?_⟩
      split
      · simp only [String.toList_append, List.mem_append, not_or]
        exact ⟨zeros_no_minus _, natDigits_no_minus _⟩
      · exact natDigits_no_minus _

/-- a number without the sign bit prints without a minus sign anywhere -/
theorem numberToSource_no_minus (x : F64) (hn : x.neg = false) :
    '-' ∉ (numberToSource x).toList := by
  unfold numberToSource
  split
  · decide
  · split
    · exact toFixed0_no_minus x hn
    · exact toDisplay_no_minus x hn

/-! ### (7) do-block comments are emitted exactly once, in order -/

/-- a piece of emitted text: a comment copied from the tree, or anything else -/
inductive Chunk where
  | comment : String → Chunk
  | code : String → Chunk

def Chunk.text : Chunk → String
  | .comment c => c
  | .code s => s

def Chunk.comment? : Chunk → Option String
  | .comment c => some c
  | .code _ => none

def joinChunks (l : List Chunk) : String := String.join (l.map Chunk.text)

/-- leading comments: each on its own line -/
def leadChunks : List String → List Chunk
  | [] => []
  | c :: cs => .code "\n  " :: .comment c :: leadChunks cs

/-- trailing comment: on the line of its statement -/
def trailChunks : Option String → List Chunk
  | some t => [.code "  ", .comment t]
  | none => []

def stmtChunks (sc : Scope) : Item → List Chunk
  | .mk lead e tr =>
    leadChunks lead ++ [.code ("\n  " ++ protectStatementStart (exprSrc sc e))] ++ trailChunks tr

def stmtsChunks (sc : Scope) : List Item → List Chunk
  | [] => []
  | i :: rest => stmtChunks sc i ++ stmtsChunks (scopeAfterStmt sc i) rest

def retChunks (sc : Scope) : Item → List Chunk
  | .mk lead e _ => leadChunks lead ++ [.code ("\n  return " ++ exprSrc sc e ++ "\n}")]

def doChunks (sc : Scope) (stmts : List Item) (ret : Item) : List Chunk :=
  .code "do {" :: (stmtsChunks sc stmts ++ retChunks (scopeAfterStmts sc stmts) ret)

/-- the comments of the statements of a do-block, in source order: leading comments of a
    statement, then its trailing comment; last the leading comments of the `return`
    (the parser never gives the `return` item a trailing comment: `None` at the
    `Rule::return_statement` arm of `pairs_to_expr_inner`) -/
def stmtComments : Item → List String
  | .mk lead _ tr => lead ++ tr.toList

def doComments (stmts : List Item) (ret : Item) : List String :=
  stmts.flatMap stmtComments ++ ret.leading

theorem joinChunks_nil : joinChunks [] = "" := rfl

theorem comment?_code (s : String) : Chunk.comment? (.code s) = none := rfl
theorem comment?_comment (s : String) : Chunk.comment? (.comment s) = some s := rfl

theorem filterMap_code (s : String) (l : List Chunk) :
    (Chunk.code s :: l).filterMap Chunk.comment? = l.filterMap Chunk.comment? :=
  List.filterMap_cons_none rfl
theorem filterMap_comment (s : String) (l : List Chunk) :
    (Chunk.comment s :: l).filterMap Chunk.comment? = s :: l.filterMap Chunk.comment? :=
  List.filterMap_cons_some rfl

theorem joinChunks_append (a b : List Chunk) : joinChunks (a ++ b) = joinChunks a ++ joinChunks b := by
  apply String.toList_inj.mp
  simp [joinChunks, String.toList_join]

theorem joinChunks_cons (c : Chunk) (l : List Chunk) : joinChunks (c :: l) = c.text ++ joinChunks l := by
  apply String.toList_inj.mp
  simp [joinChunks, String.toList_join]

theorem commentLines_chunks : ∀ cs : List String, commentLines cs = joinChunks (leadChunks cs)
  | [] => rfl
  | c :: cs => by
    have ih := commentLines_chunks cs
    apply String.toList_inj.mp
    have ih' := congrArg String.toList ih
    simp only [commentLines, joinChunks, String.toList_join] at ih' ⊢
    simp [leadChunks, Chunk.text, ih']

theorem stmtSrc_chunks (sc : Scope) (i : Item) : stmtSrc sc i = joinChunks (stmtChunks sc i) := by
  obtain ⟨lead, e, tr⟩ := i
  cases tr <;>
  simp only [stmtSrc, stmtChunks, trailChunks, joinChunks_append, joinChunks_cons, joinChunks_nil,
    Chunk.text, commentLines_chunks, String.append_empty, String.append_assoc]

theorem doStmtsSrc_chunks : ∀ (stmts : List Item) (sc : Scope),
    doStmtsSrc sc stmts = joinChunks (stmtsChunks sc stmts)
  | [], _ => by simp only [doStmtsSrc, stmtsChunks, joinChunks_nil]
  | i :: rest, sc => by
    simp only [doStmtsSrc, stmtsChunks, joinChunks_append, stmtSrc_chunks,
      doStmtsSrc_chunks rest (scopeAfterStmt sc i)]

theorem retSrc_chunks (sc : Scope) (r : Item) : retSrc sc r = joinChunks (retChunks sc r) := by
  obtain ⟨lead, e, tr⟩ := r
  simp only [retSrc, retChunks, joinChunks_append, joinChunks_cons, joinChunks_nil, Chunk.text,
    commentLines_chunks, String.append_empty, String.append_assoc]

/-- the text of a do-block is the concatenation of its chunks -/
theorem doBlock_chunks (sc : Scope) (stmts : List Item) (ret : Item) :
    exprSrc sc (.doBlock stmts ret) = joinChunks (doChunks sc stmts ret) := by
  simp only [exprSrc, doChunks, joinChunks_cons, joinChunks_append, Chunk.text,
    doStmtsSrc_chunks, retSrc_chunks, String.append_assoc]

theorem leadChunks_comments : ∀ cs : List String, (leadChunks cs).filterMap Chunk.comment? = cs
  | [] => rfl
  | c :: cs => by
    simp only [leadChunks, filterMap_code, filterMap_comment, leadChunks_comments cs]

theorem stmtChunks_comments (sc : Scope) (i : Item) :
    (stmtChunks sc i).filterMap Chunk.comment? = stmtComments i := by
  obtain ⟨lead, e, tr⟩ := i
  cases tr <;>
    simp [stmtChunks, stmtComments, trailChunks, List.filterMap_append, leadChunks_comments,
      filterMap_code, filterMap_comment]

theorem stmtsChunks_comments : ∀ (stmts : List Item) (sc : Scope),
    (stmtsChunks sc stmts).filterMap Chunk.comment? = stmts.flatMap stmtComments
  | [], _ => rfl
  | i :: rest, sc => by
    simp only [stmtsChunks, List.filterMap_append, stmtChunks_comments,
      stmtsChunks_comments rest _, List.flatMap_cons]

/-- … and the comment chunks are exactly the comments of the do-block, each once, in order -/
theorem doChunks_comments (sc : Scope) (stmts : List Item) (ret : Item) :
    (doChunks sc stmts ret).filterMap Chunk.comment? = doComments stmts ret := by
  obtain ⟨lead, e, tr⟩ := ret
  simp only [doChunks, doComments, retChunks, List.filterMap_append, stmtsChunks_comments,
    leadChunks_comments, filterMap_code, Item.leading, List.filterMap_nil, List.append_nil]


end PrintL
end Blots
