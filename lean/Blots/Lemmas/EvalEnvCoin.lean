import Blots.Lemmas.EvalEnvCall
import Blots.Lemmas.EvalEnvWeak
/-
  Coincidence (C04 item 5) for bodies that never run the body of a function value: the outcome
  of `eval` at depth > 0 does not depend on the frames below the ones the call itself pushed,
  as long as the names free in the expression (and `inputs`) are resolved identically.
-/
namespace Blots

/-! ### bodies without application of function values -/

mutual
/-- no `output`, no `via` / `into` / `where`, and the only calls are calls of a literal pure
    (not higher-order) built-in: evaluating such an expression never runs the body of a
    function value -/
def plain : Expr → Bool
  | .output _ => false
  | .call (.builtin name) args => !isHof name && plainList args
  | .call _ _ => false
  | .bin op l r => op != .via && op != .into && op != .where_ && plain l && plain r
  | .lambda _ body => plain body
  | .assign _ v => plain v
  | .un _ e => plain e
  | .fact e => plain e
  | .spread e => plain e
  | .access e i => plain e && plain i
  | .dot e _ => plain e
  | .cond c a b => plain c && plain a && plain b
  | .list items => plainItems items
  | .record es => plainEntries es
  | .doBlock stmts ret => plainItems stmts && plainItem ret
  | _ => true
def plainList : List Expr → Bool
  | [] => true
  | e :: es => plain e && plainList es
def plainItem : Item → Bool
  | .mk _ e _ => plain e
def plainItems : List Item → Bool
  | [] => true
  | i :: is => plainItem i && plainItems is
def plainEntry : Entry → Bool
  | .mk _ k v _ => plainKey k && plain v
def plainEntries : List Entry → Bool
  | [] => true
  | e :: es => plainEntry e && plainEntries es
def plainKey : Key → Bool
  | .dyn e => plain e
  | .spread e => plain e
  | _ => true
end

mutual
theorem plain_noOutput : ∀ (e : Expr), plain e = true → noOutput e = true
  | .num _, _ | .str _, _ | .bool _, _ | .null, _ | .ident _, _ | .inref _, _ | .builtin _, _ => by
    simp [noOutput]
  | .output _, h => by simp [plain] at h
  | .call f args, h => by
    cases f <;> simp only [plain, Bool.false_eq_true] at h
    simp only [Bool.and_eq_true] at h
    simp [noOutput, plainList_noOutput args h.2]
  | .bin _ l r, h => by
    simp only [plain, Bool.and_eq_true] at h
    simp [noOutput, plain_noOutput l h.1.2, plain_noOutput r h.2]
  | .lambda _ body, h => by simp only [plain] at h; simp [noOutput, plain_noOutput body h]
  | .assign _ v, h => by simp only [plain] at h; simp [noOutput, plain_noOutput v h]
  | .un _ e, h => by simp only [plain] at h; simp [noOutput, plain_noOutput e h]
  | .fact e, h => by simp only [plain] at h; simp [noOutput, plain_noOutput e h]
  | .spread e, h => by simp only [plain] at h; simp [noOutput, plain_noOutput e h]
  | .access e i, h => by
    simp only [plain, Bool.and_eq_true] at h
    simp [noOutput, plain_noOutput e h.1, plain_noOutput i h.2]
  | .dot e _, h => by simp only [plain] at h; simp [noOutput, plain_noOutput e h]
  | .cond c a b, h => by
    simp only [plain, Bool.and_eq_true] at h
    simp [noOutput, plain_noOutput c h.1.1, plain_noOutput a h.1.2, plain_noOutput b h.2]
  | .list items, h => by simp only [plain] at h; simp [noOutput, plainItems_noOutput items h]
  | .record es, h => by simp only [plain] at h; simp [noOutput, plainEntries_noOutput es h]
  | .doBlock stmts (.mk _ re _), h => by
    simp only [plain, plainItem, Bool.and_eq_true] at h
    simp [noOutput, noOutputItem, plainItems_noOutput stmts h.1, plain_noOutput re h.2]
theorem plainList_noOutput : ∀ (es : List Expr), plainList es = true → noOutputList es = true
  | [], _ => rfl
  | e :: es, h => by
    simp only [plainList, Bool.and_eq_true] at h
    simp [noOutputList, plain_noOutput e h.1, plainList_noOutput es h.2]
theorem plainItems_noOutput : ∀ (is : List Item), plainItems is = true → noOutputItems is = true
  | [], _ => rfl
  | .mk _ e _ :: is, h => by
    simp only [plainItems, plainItem, Bool.and_eq_true] at h
    simp [noOutputItems, noOutputItem, plain_noOutput e h.1, plainItems_noOutput is h.2]
theorem plainEntries_noOutput : ∀ (es : List Entry), plainEntries es = true → noOutputEntries es = true
  | [], _ => rfl
  | .mk _ k v _ :: es, h => by
    simp only [plainEntries, plainEntry, Bool.and_eq_true] at h
    have hk : noOutputKey k = true := by
      cases k with
      | static _ => rfl
      | short _ => rfl
      | dyn ke => simp only [plainKey] at h; simp [noOutputKey, plain_noOutput ke h.1.1]
      | spread se => simp only [plainKey] at h; simp [noOutputKey, plain_noOutput se h.1.1]
    simp [noOutputEntries, noOutputEntry, hk, plain_noOutput v h.1.2, plainEntries_noOutput es h.2]
end

/-! ### replacing the frames below a prefix -/

/-- the first `n` frames kept, the rest replaced by `tl'` -/
def retailE (n : Nat) (tl' : List Frame) (E : List Frame) : List Frame := E.take n ++ tl'

def retail (n : Nat) (tl' : List Frame) (s : ES) : ES := { s with env := retailE n tl' s.env }

/-- `x` is resolved identically with the original and with the replaced lower frames -/
def Agree (n : Nat) (tl' : List Frame) (E : List Frame) (x : String) : Prop :=
  envGet (retailE n tl' E) x = envGet E x

theorem retailE_cons (n : Nat) (tl' : List Frame) (f : Frame) (R : List Frame) :
    retailE (n + 1) tl' (f :: R) = f :: retailE n tl' R := rfl

/-- keys of the innermost frame are kept, frames below are the same -/
structure KeysExt (e e' : List Frame) : Prop where
  below : SameBelow e e'
  keys : ∀ k, (lookupAL k (e.headD [])).isSome → (lookupAL k (e'.headD [])).isSome

theorem KeysExt.refl (e : List Frame) : KeysExt e e := ⟨SameBelow.refl e, fun _ h => h⟩
theorem KeysExt.trans {a b c : List Frame} (h1 : KeysExt a b) (h2 : KeysExt b c) : KeysExt a c :=
  ⟨h1.below.trans h2.below, fun k h => h2.keys k (h1.keys k h)⟩
theorem TopExt.toKeys {a b : List Frame} (h : TopExt a b) : KeysExt a b :=
  ⟨h.below, fun k hk => by
    cases hl : lookupAL k (a.headD []) with
    | none => rw [hl] at hk; cases hk
    | some v => rw [h.top k v hl]; rfl⟩

theorem lookupAL_insertAL_isSome {α} (k k2 : String) (v : α) (f : List (String × α))
    (h : (lookupAL k2 f).isSome) : (lookupAL k2 (insertAL k v f)).isSome := by
  by_cases hk : k2 = k
  · subst hk; rw [lookupAL_insertAL_self]; rfl
  · rw [lookupAL_insertAL_ne k k2 v hk]; exact h

theorem KeysExt.insert (e : List Frame) (n : String) (v : Value) : KeysExt e (envInsert e n v) := by
  refine ⟨SameBelow.insert e n v, ?_⟩
  cases e with
  | nil => intro k hk; simp [lookupAL] at hk
  | cons f r => intro k hk; exact lookupAL_insertAL_isSome n k v f hk

/-- agreement survives an evaluation step (frames below the innermost unchanged, its keys kept) -/
theorem Agree.mono {n : Nat} {tl' : List Frame} {E E1 : List Frame} {x : String}
    (hn : 0 < n) (hE : E ≠ []) (h : KeysExt E E1) (ha : Agree n tl' E x) : Agree n tl' E1 x := by
  obtain ⟨n, rfl⟩ : ∃ m, n = m + 1 := ⟨n - 1, by omega⟩
  cases E with
  | nil => exact absurd rfl hE
  | cons f R =>
    have hk := h.keys x
    rcases h.below with he | ⟨f1, he⟩
    · rw [he]; exact ha
    · rw [he]
      simp only [List.tail_cons]
      rw [he] at hk
      simp only [List.headD_cons] at hk
      unfold Agree at ha ⊢
      rw [retailE_cons, envGet_cons, envGet_cons] at ha ⊢
      cases h1 : lookupAL x f1 with
      | some v1 => rfl
      | none =>
        simp only
        cases h0 : lookupAL x f with
        | some v0 => rw [h0] at hk; rw [h1] at hk; exact absurd (hk rfl) (by simp)
        | none => rw [h0] at ha; exact ha

theorem Agree.push {n : Nat} {tl' : List Frame} {E : List Frame} {x : String} (g : Frame)
    (hg : lookupAL x g = none) (ha : Agree n tl' E x) : Agree (n + 1) tl' (g :: E) x := by
  unfold Agree at ha ⊢
  rw [retailE_cons, envGet_cons, envGet_cons, hg]; exact ha

/-- a name bound in the innermost frame is always agreed on -/
theorem Agree.of_top {n : Nat} {tl' : List Frame} {f : Frame} {R : List Frame} {x : String}
    (hn : 0 < n) (h : (lookupAL x f).isSome) : Agree n tl' (f :: R) x := by
  obtain ⟨n, rfl⟩ : ∃ m, n = m + 1 := ⟨n - 1, by omega⟩
  unfold Agree
  rw [retailE_cons, envGet_cons, envGet_cons]
  cases hl : lookupAL x f with
  | none => rw [hl] at h; cases h
  | some v => rfl

theorem retailE_insert (n : Nat) (tl' : List Frame) (E : List Frame) (k : String) (v : Value)
    (hn : 0 < n) (hE : E ≠ []) :
    envInsert (retailE n tl' E) k v = retailE n tl' (envInsert E k v) := by
  obtain ⟨n, rfl⟩ : ∃ m, n = m + 1 := ⟨n - 1, by omega⟩
  cases E with
  | nil => exact absurd rfl hE
  | cons f R => rfl

theorem retailE_alreadyDefined (n : Nat) (tl' : List Frame) (E : List Frame) (k : String) (depth : Nat)
    (hd : 0 < depth) (hn : 0 < n) (hE : E ≠ []) :
    alreadyDefined depth (retailE n tl' E) k = alreadyDefined depth E k := by
  obtain ⟨n, rfl⟩ : ∃ m, n = m + 1 := ⟨n - 1, by omega⟩
  cases E with
  | nil => exact absurd rfl hE
  | cons f R =>
    unfold alreadyDefined
    rw [if_pos hd, if_pos hd]; rfl

theorem retailE_drop (n : Nat) (tl' : List Frame) (E : List Frame) (hE : E ≠ []) :
    (retailE (n + 1) tl' E).drop 1 = retailE n tl' (E.drop 1) := by
  cases E with
  | nil => exact absurd rfl hE
  | cons f R => rfl

theorem setNameIfLambda_retail (n : Nat) (tl' : List Frame) (s : ES) (k : String) (v : Value) :
    setNameIfLambda (retail n tl' s) k v = retail n tl' (setNameIfLambda s k v) := by
  cases v with
  | lambda id a b sc =>
    simp only [setNameIfLambda, retail]
    cases nameOf s.names id <;> rfl
  | _ => rfl

/-! ### do-block statements keep the keys of the block frame -/

theorem evalDoStmt_keys (ops : NumOps) (fuel depth : Nat) (e : Expr) (s : ES) :
    KeysExt s.env (evalDoStmt ops fuel depth e s).2.env := by
  cases fuel with
  | zero => rw [evalDoStmt]; exact KeysExt.refl _
  | succ fuel =>
    rw [evalDoStmt.eq_def]; dsimp only
    split
    · split
      · exact KeysExt.refl _
      · have h1 := (eval_topExt ops fuel depth ‹Expr› s).toKeys
        generalize eval ops fuel depth _ s = p at h1 ⊢
        obtain ⟨r, s1⟩ := p
        cases r with
        | ok val =>
          dsimp only
          refine h1.trans ?_
          rw [setNameIfLambda_env]
          exact KeysExt.insert ..
        | _ => exact h1
    · exact (eval_topExt ops fuel depth _ s).toKeys

theorem evalDo_keys (ops : NumOps) : ∀ (fuel depth : Nat) (stmts : List Item) (ret : Item) (s : ES),
    KeysExt s.env (evalDo ops fuel depth stmts ret s).2.env
  | 0, _, _, _, s => by rw [evalDo]; exact KeysExt.refl _
  | fuel + 1, depth, [], .mk _ e _, s => by rw [evalDo]; exact evalDoStmt_keys ops fuel depth e s
  | fuel + 1, depth, .mk _ e _ :: rest, ret, s => by
    rw [evalDo]
    have h1 := evalDoStmt_keys ops fuel depth e s
    generalize evalDoStmt ops fuel depth e s = p at h1 ⊢
    obtain ⟨r, s1⟩ := p
    cases r with
    | ok v => exact h1.trans (evalDo_keys ops fuel depth rest ret s1)
    | _ => exact h1

/-! ### pure built-ins ignore the state -/

theorem callFn_builtin_pure (ops : NumOps) (fuel : Nat) (name : String) (this : Value) (args : List Value)
    (depth : Nat) (s s0 : ES) (hn : isHof name = false) :
    callFn ops fuel (.builtin name) this args depth s =
      ((callFn ops fuel (.builtin name) this args depth s0).1, s) := by
  cases fuel with
  | zero => simp [callFn]
  | succ fuel =>
    rw [callFn, callFn]
    cases builtinArity name with
    | none => rfl
    | some ar =>
      dsimp only
      cases checkArity ar args.length with
      | ok u =>
        dsimp only
        split
        · rfl
        · simp only [hn, Bool.false_eq_true, if_false]
          cases callPure ops name args <;> rfl
      | _ => rfl

/-! ### the induction -/

theorem step_of_keys {n : Nat} {tl' : List Frame} {E E1 : List Frame} (h : KeysExt E E1)
    (hn : 0 < n) (hk : n ≤ E.length) :
    n ≤ E1.length ∧ ∀ x, Agree n tl' E x → Agree n tl' E1 x := by
  have hE : E ≠ [] := by intro e; subst e; simp at hk; omega
  exact ⟨by rw [h.below.length hE]; exact hk, fun x ha => ha.mono hn hE h⟩

theorem ne_nil_of_le {n : Nat} {E : List Frame} (hn : 0 < n) (hk : n ≤ E.length) : E ≠ [] := by
  intro e; subst e; simp at hk; omega

theorem evalDoStmt_assign_binds (ops : NumOps) (fuel depth : Nat) (x : String) (v : Expr) (s s1 : ES)
    (val : Value) (h : evalDoStmt ops fuel depth (.assign x v) s = (.ok val, s1)) :
    (lookupAL x (s1.env.headD [])).isSome := by
  cases fuel with
  | zero => simp [evalDoStmt] at h
  | succ fuel =>
    rw [evalDoStmt.eq_def] at h
    dsimp only at h
    split at h
    · cases h
    · generalize eval ops fuel depth v s = p at h
      obtain ⟨r, s2⟩ := p
      cases r with
      | ok val2 =>
        dsimp only at h
        cases h
        simp only
        generalize (setNameIfLambda s2 x _).env = E
        cases E with
        | nil => simp [envInsert, lookupAL]
        | cons f R => simp [envInsert, lookupAL_insertAL_self]
      | _ => cases h

section
variable (ops : NumOps) (tl' : List Frame)

theorem coin_group : ∀ fuel : Nat,
    (∀ depth e n s, 0 < depth → 0 < n → n ≤ s.env.length → plain e = true →
      (∀ x, (FreeIn x e ∨ x = "inputs") → Agree n tl' s.env x) →
      eval ops fuel depth e (retail n tl' s) =
        ((eval ops fuel depth e s).1, retail n tl' (eval ops fuel depth e s).2)) ∧
    (∀ depth es n s, 0 < depth → 0 < n → n ≤ s.env.length → plainList es = true →
      (∀ x, (FreeInList x es ∨ x = "inputs") → Agree n tl' s.env x) →
      evalList ops fuel depth es (retail n tl' s) =
        ((evalList ops fuel depth es s).1, retail n tl' (evalList ops fuel depth es s).2)) ∧
    (∀ depth is n s, 0 < depth → 0 < n → n ≤ s.env.length → plainItems is = true →
      (∀ x, (FreeInItems x is ∨ x = "inputs") → Agree n tl' s.env x) →
      evalItems ops fuel depth is (retail n tl' s) =
        ((evalItems ops fuel depth is s).1, retail n tl' (evalItems ops fuel depth is s).2)) ∧
    (∀ depth es acc n s, 0 < depth → 0 < n → n ≤ s.env.length → plainEntries es = true →
      (∀ x, (FreeInEntries x es ∨ x = "inputs") → Agree n tl' s.env x) →
      evalEntries ops fuel depth es acc (retail n tl' s) =
        ((evalEntries ops fuel depth es acc s).1, retail n tl' (evalEntries ops fuel depth es acc s).2)) ∧
    (∀ depth e n s, 0 < depth → 0 < n → n ≤ s.env.length → plain e = true →
      (∀ x, (FreeIn x e ∨ x = "inputs") → Agree n tl' s.env x) →
      evalDoStmt ops fuel depth e (retail n tl' s) =
        ((evalDoStmt ops fuel depth e s).1, retail n tl' (evalDoStmt ops fuel depth e s).2)) ∧
    (∀ depth stmts ret n s, 0 < depth → 0 < n → n ≤ s.env.length →
      plainItems stmts = true → plainItem ret = true →
      (∀ x, (FreeInDo x stmts ret ∨ x = "inputs") → Agree n tl' s.env x) →
      evalDo ops fuel depth stmts ret (retail n tl' s) =
        ((evalDo ops fuel depth stmts ret s).1, retail n tl' (evalDo ops fuel depth stmts ret s).2)) := by
  intro fuel
  induction fuel with
  | zero =>
    refine ⟨?_, ?_, ?_, ?_, ?_, ?_⟩ <;> intros <;>
      simp [eval, evalList, evalItems, evalEntries, evalDoStmt, evalDo]
  | succ fuel ih =>
    obtain ⟨ihE, ihL, ihI, ihR, ihS, ihD⟩ := ih
    have stepE : ∀ depth e (s : ES) n, 0 < n → n ≤ s.env.length →
        n ≤ (eval ops fuel depth e s).2.env.length ∧
          ∀ x, Agree n tl' s.env x → Agree n tl' (eval ops fuel depth e s).2.env x :=
      fun depth e s n hn hk => step_of_keys (eval_topExt ops fuel depth e s).toKeys hn hk
    refine ⟨?_, ?_, ?_, ?_, ?_, ?_⟩
    · intro depth e n s hd hn hk hp hA
      have hE := ne_nil_of_le hn hk
      cases e with
      | num x => simp [eval]
      | str x => simp [eval]
      | bool x => simp [eval]
      | null => simp [eval]
      | builtin nm => simp [eval]
      | output inner => simp [plain] at hp
      | ident nm =>
        rw [eval, eval]
        split
        · rfl
        rename_i h1
        split
        · rfl
        rename_i h2
        have hns : nm ∉ Gen.specialIdents := by
          simp only [Bool.or_eq_true, beq_iff_eq, not_or] at h1 h2
          simp [Gen.specialIdents, h1.1, h1.2, h2]
        have := hA nm (Or.inl (.ident hns))
        unfold Agree at this
        simp only [retail, this]
        split <;> rfl
      | inref field =>
        rw [eval, eval]
        have := hA "inputs" (Or.inr rfl)
        unfold Agree at this
        simp only [retail, this]
        repeat' split
        all_goals first | rfl | simp_all
      | un op inner =>
        simp only [plain] at hp
        rw [eval, eval, ihE depth inner n s hd hn hk hp (fun x hx => hA x (hx.imp_left .un))]
        generalize eval ops fuel depth inner s = p
        obtain ⟨r, s1⟩ := p
        cases r <;> try rfl
        dsimp only
        split <;> rfl
      | fact inner =>
        simp only [plain] at hp
        rw [eval, eval, ihE depth inner n s hd hn hk hp (fun x hx => hA x (hx.imp_left .fact))]
        generalize eval ops fuel depth inner s = p
        obtain ⟨r, s1⟩ := p
        cases r <;> try rfl
        rename_i v
        cases v <;> try rfl
        dsimp only
        split <;> rfl
      | spread inner =>
        simp only [plain] at hp
        rw [eval, eval, ihE depth inner n s hd hn hk hp (fun x hx => hA x (hx.imp_left .spread))]
        generalize eval ops fuel depth inner s = p
        obtain ⟨r, s1⟩ := p
        cases r <;> try rfl
        rename_i v
        cases v <;> rfl
      | dot inner field =>
        simp only [plain] at hp
        rw [eval, eval, ihE depth inner n s hd hn hk hp (fun x hx => hA x (hx.imp_left .dot))]
        generalize eval ops fuel depth inner s = p
        obtain ⟨r, s1⟩ := p
        cases r <;> try rfl
        rename_i v
        cases v <;> rfl
      | cond c a b =>
        simp only [plain, Bool.and_eq_true] at hp
        rw [eval, eval, ihE depth c n s hd hn hk hp.1.1 (fun x hx => hA x (hx.imp_left .condC))]
        obtain ⟨hk1, hm1⟩ := stepE depth c s n hn hk
        generalize eval ops fuel depth c s = p at hk1 hm1 ⊢
        obtain ⟨r, s1⟩ := p
        cases r <;> try rfl
        rename_i v
        cases v <;> try rfl
        rename_i bv
        cases bv
        · exact ihE depth b n s1 hd hn hk1 hp.2 (fun x hx => hm1 x (hA x (hx.imp_left .condE)))
        · exact ihE depth a n s1 hd hn hk1 hp.1.2 (fun x hx => hm1 x (hA x (hx.imp_left .condT)))
      | access e i =>
        simp only [plain, Bool.and_eq_true] at hp
        rw [eval, eval, ihE depth e n s hd hn hk hp.1 (fun x hx => hA x (hx.imp_left .accessE))]
        obtain ⟨hk1, hm1⟩ := stepE depth e s n hn hk
        generalize eval ops fuel depth e s = p at hk1 hm1 ⊢
        obtain ⟨r, s1⟩ := p
        cases r <;> try rfl
        dsimp only
        rw [ihE depth i n s1 hd hn hk1 hp.2 (fun x hx => hm1 x (hA x (hx.imp_left .accessI)))]
        generalize eval ops fuel depth i s1 = q
        obtain ⟨r2, s2⟩ := q
        cases r2 <;> try rfl
        dsimp only
        repeat' split
        all_goals rfl
      | bin op l r =>
        simp only [plain, Bool.and_eq_true] at hp
        rw [eval, eval, ihE depth l n s hd hn hk hp.1.2 (fun x hx => hA x (hx.imp_left .binL))]
        obtain ⟨hk1, hm1⟩ := stepE depth l s n hn hk
        generalize eval ops fuel depth l s = p at hk1 hm1 ⊢
        obtain ⟨r1, s1⟩ := p
        cases r1 <;> try rfl
        dsimp only
        rw [ihE depth r n s1 hd hn hk1 hp.2 (fun x hx => hm1 x (hA x (hx.imp_left .binR)))]
        generalize eval ops fuel depth r s1 = q
        obtain ⟨r2, s2⟩ := q
        cases r2 <;> try rfl
        dsimp only
        rw [evalBin_nocall ops fuel depth op _ _ s2 (retail n tl' s2) (by simpa using hp.1.1),
          evalBin_nocall ops fuel depth op _ _ s2 s2 (by simpa using hp.1.1)]
      | list items =>
        simp only [plain] at hp
        rw [eval, eval, ihI depth items n s hd hn hk hp (fun x hx => hA x (hx.imp_left .list))]
        generalize evalItems ops fuel depth items s = p
        obtain ⟨r, s1⟩ := p
        cases r <;> rfl
      | record es =>
        simp only [plain] at hp
        rw [eval, eval, ihR depth es [] n s hd hn hk hp (fun x hx => hA x (hx.imp_left .record))]
        generalize evalEntries ops fuel depth es [] s = p
        obtain ⟨r, s1⟩ := p
        cases r <;> rfl
      | assign nm v =>
        simp only [plain] at hp
        have hcont : ∀ s : ES, s.env ≠ [] →
            alreadyDefined depth (retail n tl' s).env nm = alreadyDefined depth s.env nm :=
          fun s hs => retailE_alreadyDefined n tl' s.env nm depth hd hn hs
        rw [eval, eval, hcont s hE]
        split
        · rfl
        split
        · rfl
        split
        · rfl
        rw [ihE depth v n s hd hn hk hp (fun x hx => hA x (hx.imp_left .assign))]
        obtain ⟨hk1, _⟩ := stepE depth v s n hn hk
        generalize eval ops fuel depth v s = p at hk1 ⊢
        obtain ⟨r, s1⟩ := p
        cases r <;> try rfl
        dsimp only
        rw [hcont s1 (ne_nil_of_le hn hk1)]
        split
        · rfl
        · rename_i val _
          rw [setNameIfLambda_retail]
          simp only [show (retail n tl' s).nextId = s.nextId from rfl]
          generalize createdSince s.nextId val = cv
          have hk2 : (setNameIfLambda s1 nm cv).env ≠ [] := by
            rw [setNameIfLambda_env]; exact ne_nil_of_le hn hk1
          generalize setNameIfLambda s1 nm cv = s2 at hk2
          simp only [retail, retailE_insert n tl' s2.env nm val hn hk2]
      | lambda args body =>
        simp only [plain] at hp
        rw [eval, eval]
        split
        · rfl
        have : captureScope (retail n tl' s).env (freeVars (args.map LArg.name) body) =
            captureScope s.env (freeVars (args.map LArg.name) body) := by
          unfold captureScope
          apply captureScope_congr
          intro y hy
          have hfy := (freeVars_iff body _ y (plain_noOutput body hp)).mp hy
          exact hA y (Or.inl (.lambda hfy.1 hfy.2))
        simp only [this]
        rfl
      | doBlock stmts ret =>
        simp only [plain, Bool.and_eq_true] at hp
        rw [eval, eval]
        have h1 := ihD depth stmts ret (n + 1) { s with env := [] :: s.env } hd (by omega)
          (by simp; omega) hp.1 hp.2
          (fun x hx => (hA x (hx.imp_left .doBlock)).push [] rfl)
        have e1 : ({ retail n tl' s with env := [] :: (retail n tl' s).env } : ES) =
            retail (n + 1) tl' { s with env := [] :: s.env } := rfl
        rw [e1, h1]
        have hne : (evalDo ops fuel depth stmts ret { s with env := [] :: s.env }).2.env ≠ [] := by
          have := (evalDo_keys ops fuel depth stmts ret { s with env := [] :: s.env }).below.length
            (by simp)
          intro e; rw [e] at this; simp at this
        generalize evalDo ops fuel depth stmts ret { s with env := [] :: s.env } = p at hne ⊢
        obtain ⟨r, s1⟩ := p
        simp only [retail, retailE_drop n tl' s1.env hne]
      | call f args =>
        cases f <;> simp only [plain, Bool.false_eq_true] at hp
        rename_i name
        simp only [Bool.and_eq_true, Bool.not_eq_true'] at hp
        rw [eval, eval]
        rw [ihE depth (.builtin name) n s hd hn hk rfl (fun x hx => hA x (hx.imp_left .callF))]
        obtain ⟨hk1, hm1⟩ := stepE depth (.builtin name) s n hn hk
        have hfv : ∀ fv s1, eval ops fuel depth (.builtin name) s = (.ok fv, s1) → fv = .builtin name := by
          intro fv s1 h
          cases fuel with
          | zero => simp [eval] at h
          | succ f' => simp [eval] at h; exact h.1.symm
        generalize eval ops fuel depth (.builtin name) s = p at hk1 hm1 hfv ⊢
        obtain ⟨r1, s1⟩ := p
        cases r1 <;> try rfl
        rename_i fv
        have := hfv fv s1 rfl
        subst this
        dsimp only
        rw [ihL depth args n s1 hd hn hk1 hp.2 (fun x hx => hm1 x (hA x (hx.imp_left .callA)))]
        generalize evalList ops fuel depth args s1 = q
        obtain ⟨r2, s2⟩ := q
        cases r2 <;> try rfl
        rename_i raw
        dsimp only
        simp only [Value.isCallable, Bool.not_true, Bool.false_eq_true, if_false]
        rw [callFn_builtin_pure ops fuel name _ _ depth (retail n tl' s2) s2 hp.1]
        have e2 : (callFn ops fuel (.builtin name) (.builtin name) (flattenSpreads raw) depth s2).2 = s2 := by
          rw [callFn_builtin_pure ops fuel name _ _ depth s2 s2 hp.1]
        rw [e2]
    · -- evalList
      intro depth es n s hd hn hk hp hA
      cases es with
      | nil => simp [evalList]
      | cons e es =>
        simp only [plainList, Bool.and_eq_true] at hp
        rw [evalList, evalList, ihE depth e n s hd hn hk hp.1 (fun x hx => hA x (hx.imp_left .head))]
        obtain ⟨hk1, hm1⟩ := stepE depth e s n hn hk
        generalize eval ops fuel depth e s = p at hk1 hm1 ⊢
        obtain ⟨r, s1⟩ := p
        cases r <;> try rfl
        dsimp only
        rw [ihL depth es n s1 hd hn hk1 hp.2 (fun x hx => hm1 x (hA x (hx.imp_left .tail)))]
        generalize evalList ops fuel depth es s1 = q
        obtain ⟨r2, s2⟩ := q
        cases r2 <;> rfl
    · -- evalItems
      intro depth is n s hd hn hk hp hA
      cases is with
      | nil => simp [evalItems]
      | cons i is =>
        obtain ⟨_, e, _⟩ := i
        simp only [plainItems, plainItem, Bool.and_eq_true] at hp
        rw [evalItems, evalItems, ihE depth e n s hd hn hk hp.1 (fun x hx => hA x (hx.imp_left .head))]
        obtain ⟨hk1, hm1⟩ := stepE depth e s n hn hk
        generalize eval ops fuel depth e s = p at hk1 hm1 ⊢
        obtain ⟨r, s1⟩ := p
        cases r <;> try rfl
        dsimp only
        rw [ihI depth is n s1 hd hn hk1 hp.2 (fun x hx => hm1 x (hA x (hx.imp_left .tail)))]
        generalize evalItems ops fuel depth is s1 = q
        obtain ⟨r2, s2⟩ := q
        cases r2 <;> rfl
    · -- evalEntries
      intro depth es acc n s hd hn hk hp hA
      cases es with
      | nil => simp [evalEntries]
      | cons en es =>
        obtain ⟨_, key, value, _⟩ := en
        simp only [plainEntries, plainEntry, Bool.and_eq_true] at hp
        have hAt : ∀ x, (FreeInEntries x es ∨ x = "inputs") → Agree n tl' s.env x :=
          fun x hx => hA x (hx.imp_left .tail)
        cases key with
        | static kk =>
          rw [evalEntries, evalEntries, ihE depth value n s hd hn hk hp.1.2
            (fun x hx => hA x (hx.imp_left (fun h => .head (.static h))))]
          obtain ⟨hk1, hm1⟩ := stepE depth value s n hn hk
          generalize eval ops fuel depth value s = p at hk1 hm1 ⊢
          obtain ⟨r, s1⟩ := p
          cases r <;> try rfl
          exact ihR depth es _ n s1 hd hn hk1 hp.2 (fun x hx => hm1 x (hAt x hx))
        | dyn ke =>
          simp only [plainKey] at hp
          rw [evalEntries, evalEntries, ihE depth ke n s hd hn hk hp.1.1
            (fun x hx => hA x (hx.imp_left (fun h => .head (.dynK h))))]
          obtain ⟨hk1, hm1⟩ := stepE depth ke s n hn hk
          generalize eval ops fuel depth ke s = p at hk1 hm1 ⊢
          obtain ⟨r, s1⟩ := p
          cases r <;> try rfl
          rename_i kv
          cases kv <;> try rfl
          dsimp only
          rw [ihE depth value n s1 hd hn hk1 hp.1.2
            (fun x hx => hm1 x (hA x (hx.imp_left (fun h => .head (.dynV h)))))]
          obtain ⟨hk2, hm2⟩ := stepE depth value s1 n hn hk1
          generalize eval ops fuel depth value s1 = q at hk2 hm2 ⊢
          obtain ⟨r2, s2⟩ := q
          cases r2 <;> try rfl
          exact ihR depth es _ n s2 hd hn hk2 hp.2 (fun x hx => hm2 x (hm1 x (hAt x hx)))
        | short nm =>
          rw [evalEntries, evalEntries]
          have := hA nm (Or.inl (.head .short))
          unfold Agree at this
          simp only [retail, this]
          cases envGet s.env nm with
          | none => rfl
          | some v => exact ihR depth es _ n s hd hn hk hp.2 hAt
        | spread se =>
          simp only [plainKey] at hp
          rw [evalEntries, evalEntries, ihE depth se n s hd hn hk hp.1.1
            (fun x hx => hA x (hx.imp_left (fun h => .head (.spread h))))]
          obtain ⟨hk1, hm1⟩ := stepE depth se s n hn hk
          generalize eval ops fuel depth se s = p at hk1 hm1 ⊢
          obtain ⟨r, s1⟩ := p
          cases r <;> try rfl
          rename_i sv
          cases sv <;> exact ihR depth es _ n s1 hd hn hk1 hp.2 (fun x hx => hm1 x (hAt x hx))
    · -- evalDoStmt
      intro depth e n s hd hn hk hp hA
      rw [evalDoStmt.eq_def, evalDoStmt.eq_def]
      dsimp only
      cases e with
      | assign nm v =>
        simp only [plain] at hp
        dsimp only
        split
        · rfl
        rw [ihE depth v n s hd hn hk hp (fun x hx => hA x (hx.imp_left .assign))]
        obtain ⟨hk1, _⟩ := stepE depth v s n hn hk
        generalize eval ops fuel depth v s = p at hk1 ⊢
        obtain ⟨r, s1⟩ := p
        cases r <;> try rfl
        dsimp only
        rename_i val
        rw [setNameIfLambda_retail]
        simp only [show (retail n tl' s).nextId = s.nextId from rfl]
        generalize createdSince s.nextId val = cv
        have hk2 : (setNameIfLambda s1 nm cv).env ≠ [] := by
          rw [setNameIfLambda_env]; exact ne_nil_of_le hn hk1
        generalize setNameIfLambda s1 nm cv = s2 at hk2
        simp only [retail, retailE_insert n tl' s2.env nm val hn hk2]
      | _ => exact ihE depth _ n s hd hn hk hp hA
    · -- evalDo
      intro depth stmts ret n s hd hn hk hp1 hp2 hA
      cases stmts with
      | nil =>
        obtain ⟨_, e, _⟩ := ret
        rw [evalDo, evalDo]
        exact ihS depth e n s hd hn hk hp2 (fun x hx => hA x (hx.imp_left .ret))
      | cons i rest =>
        obtain ⟨_, e, _⟩ := i
        simp only [plainItems, plainItem, Bool.and_eq_true] at hp1
        rw [evalDo, evalDo, ihS depth e n s hd hn hk hp1.1 (fun x hx => hA x (hx.imp_left .here))]
        obtain ⟨hk1, hm1⟩ := step_of_keys (tl' := tl') (evalDoStmt_keys ops fuel depth e s) hn hk
        have hb : ∀ val s1, evalDoStmt ops fuel depth e s = (.ok val, s1) →
            ∀ x v, e = .assign x v → (lookupAL x (s1.env.headD [])).isSome := by
          intro val s1 h x v he
          subst he
          exact evalDoStmt_assign_binds ops fuel depth x v s s1 val h
        generalize evalDoStmt ops fuel depth e s = p at hk1 hm1 hb ⊢
        obtain ⟨r, s1⟩ := p
        cases r <;> try rfl
        rename_i val
        refine ihD depth rest ret n s1 hd hn hk1 hp1.2 hp2 ?_
        intro x hx
        rcases hx with hx | hx
        · by_cases hbx : ∃ v, e = .assign x v
          · obtain ⟨v, hv⟩ := hbx
            have h1 := hb val s1 rfl x v hv
            have hne := ne_nil_of_le hn hk1
            cases hs1 : s1.env with
            | nil => exact absurd hs1 hne
            | cons f1 R =>
              rw [hs1] at h1
              exact Agree.of_top hn h1
          · exact hm1 x (hA x (Or.inl (.later hx (fun v hv => hbx ⟨v, hv⟩))))
        · exact hm1 x (hA x (Or.inr hx))
end

/-! ### call-site independence for plain bodies -/

theorem callEnv_retail (names : List (Nat × String)) (id : Nat) (scope : Frame) (this : Value) (pf : Frame)
    (caller caller' : List Frame) (hin : envGet caller "inputs" = envGet caller' "inputs") :
    callEnv names id scope this pf caller' =
      retailE (if scope.isEmpty then 1 else 2) caller' (callEnv names id scope this pf caller) := by
  unfold callEnv
  rw [hin]
  cases scope with
  | nil => simp [retailE]
  | cons a b => simp [retailE]

/-- a function closed after capture whose body never runs the body of a function value (`plain`)
    gives the same outcome for the same arguments from every call site -/
theorem callFn_site_independent_plain (ops : NumOps) (fuel id : Nat) (ps : List LArg) (body : Expr)
    (scope : Frame) (this : Value) (args : List Value) (depth : Nat) (s s' : ES)
    (hid : s.nextId = s'.nextId) (hnames : s.names = s'.names)
    (hin : envGet s.env "inputs" = envGet s'.env "inputs")
    (hclosed : ClosedFn s.names id ps body scope) (hplain : plain body = true) :
    (callFn ops fuel (.lambda id ps body scope) this args depth s).1 =
      (callFn ops fuel (.lambda id ps body scope) this args depth s').1 := by
  cases fuel with
  | zero => simp [callFn]
  | succ fuel =>
    cases ha : checkArity (lambdaArity ps) args.length with
    | err k => rw [callFn, callFn, ha]
    | panic p => rw [callFn, callFn, ha]
    | fuel => rw [callFn, callFn, ha]
    | ok u =>
      by_cases hd : depth > MAX_DEPTH
      · rw [callFn, callFn, ha]; simp only [hd, if_true]
      · cases hb : bindParams ps args with
        | err k => rw [callFn, callFn, ha]; simp only [hd, if_false, hb]
        | panic p => rw [callFn, callFn, ha]; simp only [hd, if_false, hb]
        | fuel => rw [callFn, callFn, ha]; simp only [hd, if_false, hb]
        | ok pf =>
          rw [callFn_lambda_eq ops fuel id ps body scope this args depth s pf ha hd hb,
            callFn_lambda_eq ops fuel id ps body scope this args depth s' pf ha hd hb]
          simp only
          let n := if scope.isEmpty then 1 else 2
          have hn : 0 < n := by simp only [n]; split <;> omega
          let S : ES := { s with env := callEnv s.names id scope this pf s.env }
          have hS' : ({ s' with env := callEnv s'.names id scope this pf s'.env } : ES) =
              retail n s'.env S := by
            simp only [retail, S, n, ← hnames, ← hid]
            rw [← callEnv_retail s.names id scope this pf s.env s'.env hin]
          have hk : n ≤ S.env.length := by
            simp only [S, n, callEnv]
            cases scope <;> simp
          have hA : ∀ x, (FreeIn x body ∨ x = "inputs") → Agree n s'.env S.env x := by
            intro x hx
            unfold Agree
            simp only [S, n]
            rw [← callEnv_retail s.names id scope this pf s.env s'.env hin]
            refine (callEnv_agree s.names id scope this pf s.env s'.env hin x ?_).symm
            rcases hx with hx | hx
            · rcases hclosed x hx with h | h | h | h
              · exact Or.inl (bindParams_lookup_isSome ps args pf hb x h)
              · exact Or.inr (Or.inl h)
              · exact Or.inr (Or.inr (Or.inl h))
              · exact Or.inr (Or.inr (Or.inr h))
            · exact Or.inr (Or.inr (Or.inr hx))
          have key := (coin_group ops s'.env fuel).1 (depth + 1) body n S (by omega) hn hk hplain hA
          rw [hS', key]

end Blots
