import Blots.Model.Display
import Blots.Lemmas.Rounding
import Mathlib.Tactic.LinearCombination
/-
  Error of `round_to_significant_figures(x, 15)` (`values.rs`, modelled by
  `Display.roundToSignificantFigures`) under the standard model of floating-point arithmetic
  (`RoundingModel ops u`, `Lemmas/Rounding.lean`).

      scale = 10^(14 − e)            (e = ⌊log10 |x|⌋, hypotheses H1 + H2)
      p     = fl(x · scale)          = x · scale · (1 + δ₁)
      r     = round(p)               = p + ρ,  |ρ| ≤ ½          (hypothesis H3)
      y     = fl(r / scale)          = r / scale · (1 + δ₂)

  so  y − x = x·((1+δ₁)(1+δ₂) − 1) + ρ·(1+δ₂)/scale  and with |x| < 10^(e+1) = 10^15·10^(e−14)

      |y − x| ≤ (½ + 3·u·10^15) · 10^(e−14)            (u ≤ ½).

  Contents
  * `sig_round_error_core/_rat`, `roundToSignificantFigures_decomp`,
    `roundToSignificantFigures_error`        the bound above (`PowiExactAt`, `RoundExactAt` are
                                             the hypotheses H2, H3);
  * `displayOps`, `displayOps_model`         a concrete `NumOps` meeting all hypotheses;
  * `formatDisplayNumber_fraction`           what the fraction path computes;
  * `grid_unique`, `sig_display_error_core/_grid`, `display_value_error`
                                             a rendering of `y` on the grid `10^(e−14)·ℤ` within
                                             half a mesh of `y` IS `n/10^(14−e)`, hence within
                                             `(½ + u·10^15)·10^(e−14)` of `x`;
  * `round_int_bounds`, `sig_display_error_any_decade`, `decimalPlaces_of_exponent`,
    `display_value_error_any_decade`         the same when `y` falls in decade `e−1` or `e+1`
                                             (`dp = max(0, 14 − e')`).
-/
namespace Blots.Display

open Blots

/-! ### the pure rational computation -/

theorem ten_zpow_split (e : ℤ) : (10 : ℚ) ^ (e + 1) = 10 ^ 15 * (10 : ℚ) ^ (e - 14) := by
  have h : (10 : ℚ) ^ 15 = (10 : ℚ) ^ (15 : ℤ) := by norm_cast
  rw [h, ← zpow_add₀ (by norm_num : (10 : ℚ) ≠ 0)]
  congr 1; ring

theorem ten_zpow_inv (e : ℤ) : ((10 : ℚ) ^ (14 - e))⁻¹ = (10 : ℚ) ^ (e - 14) := by
  rw [← zpow_neg]; congr 1; ring

/-- the error of scale–round–unscale in ℚ, `S·T = 1` -/
theorem sig_round_error_core {u x S T p r y δ₁ δ₂ : ℚ} (hu : 0 ≤ u) (hu2 : u ≤ 1 / 2)
    (hST : S * T = 1) (hT : 0 < T)
    (hx : |x| < 10 ^ 15 * T) (hδ₁ : |δ₁| ≤ u) (hδ₂ : |δ₂| ≤ u)
    (hp : p = x * S * (1 + δ₁)) (hr : |r - p| ≤ 1 / 2)
    (hy : y = r * T * (1 + δ₂)) :
    |y - x| ≤ (1 / 2 + 3 * u * 10 ^ 15) * T := by
  have e1 : y - x = x * (δ₁ + δ₂ + δ₁ * δ₂) + (r - p) * (1 + δ₂) * T := by
    subst hy hp
    linear_combination (x * (1 + δ₁) * (1 + δ₂)) * hST
  have h3 : |δ₁ + δ₂ + δ₁ * δ₂| ≤ 5 / 2 * u := by
    have a1 : |δ₁ + δ₂ + δ₁ * δ₂| ≤ |δ₁ + δ₂| + |δ₁ * δ₂| := abs_add_le _ _
    have a2 : |δ₁ + δ₂| ≤ |δ₁| + |δ₂| := abs_add_le _ _
    have a3 : |δ₁ * δ₂| ≤ u * u := by
      rw [abs_mul]; exact mul_le_mul hδ₁ hδ₂ (abs_nonneg _) hu
    have a4 : u * u ≤ u * (1 / 2) := mul_le_mul_of_nonneg_left hu2 hu
    linarith
  have h4 : |1 + δ₂| ≤ 1 + u := by
    calc |1 + δ₂| ≤ |1| + |δ₂| := abs_add_le _ _
      _ ≤ 1 + u := by rw [abs_one]; linarith
  have hA : |x * (δ₁ + δ₂ + δ₁ * δ₂)| ≤ (10 ^ 15 * T) * (5 / 2 * u) := by
    rw [abs_mul]; exact mul_le_mul hx.le h3 (abs_nonneg _) (by positivity)
  have hB : |(r - p) * (1 + δ₂) * T| ≤ 1 / 2 * (1 + u) * T := by
    rw [abs_mul, abs_mul, abs_of_pos hT]
    exact mul_le_mul_of_nonneg_right (mul_le_mul hr h4 (abs_nonneg _) (by norm_num)) hT.le
  have huT : 0 ≤ u * T := by positivity
  rw [e1]
  refine (abs_add_le _ _).trans ?_
  linarith

/-- the same with the powers of ten spelled out -/
theorem sig_round_error_rat {u x p r y δ₁ δ₂ : ℚ} {e : ℤ} (hu : 0 ≤ u) (hu2 : u ≤ 1 / 2)
    (hx : |x| < (10 : ℚ) ^ (e + 1)) (hδ₁ : |δ₁| ≤ u) (hδ₂ : |δ₂| ≤ u)
    (hp : p = x * (10 : ℚ) ^ (14 - e) * (1 + δ₁)) (hr : |r - p| ≤ 1 / 2)
    (hy : y = r / (10 : ℚ) ^ (14 - e) * (1 + δ₂)) :
    |y - x| ≤ (1 / 2 + 3 * u * 10 ^ 15) * (10 : ℚ) ^ (e - 14) := by
  have hS : (0 : ℚ) < (10 : ℚ) ^ (14 - e) := zpow_pos (by norm_num) _
  have hT : (0 : ℚ) < (10 : ℚ) ^ (e - 14) := zpow_pos (by norm_num) _
  rw [ten_zpow_split] at hx
  rw [div_eq_mul_inv, ten_zpow_inv] at hy
  have hST : (10 : ℚ) ^ (14 - e) * (10 : ℚ) ^ (e - 14) = 1 := by
    rw [← ten_zpow_inv, mul_inv_cancel₀ hS.ne']
  exact sig_round_error_core hu hu2 hST hT hx hδ₁ hδ₂ hp hr hy

/-! ### the float steps -/

/-- (H2) `powi ten k` is finite and is the exact power of ten (true of `f64::powi` for
    `|k| ≤ 22`, where every intermediate product is an exactly representable integer) -/
def PowiExactAt (ops : NumOps) (k : ℤ) : Prop :=
  (ops.powi ten k).isFinite = true ∧ (ops.powi ten k).toRat = (10 : ℚ) ^ k

/-- (H3) `round` returns, at `p`, a finite integer-valued double within ½ of `p` (what
    round-half-away-from-zero does on every finite double; the tie rule is irrelevant here) -/
def RoundExactAt (ops : NumOps) (p : F64) : Prop :=
  (ops.round p).isFinite = true ∧ ∃ n : ℤ, (ops.round p).toRat = (n : ℚ) ∧ |(n : ℚ) - p.toRat| ≤ 1 / 2

/-- the model's value once the magnitude is known -/
theorem roundToSignificantFigures_eq (ops : NumOps) (x : F64) (e : ℤ)
    (hz : F64.feq x F64.zero = false) (H1 : decimalExponent ops x.abs = e) :
    roundToSignificantFigures ops x 15 =
      ops.div (ops.round (ops.mul x (ops.powi ten (14 - e)))) (ops.powi ten (14 - e)) := by
  have hk : Int.ofNat 15 - 1 - e = 14 - e := by
    show ((15 : ℕ) : ℤ) - 1 - e = 14 - e
    omega
  unfold roundToSignificantFigures
  simp only [hz, H1, hk, Bool.false_eq_true, if_false]

/-- the three float steps written out: `p = x·10^(14−e)·(1+δ₁)`, `n` the integer that
    `round` returns (`|n − p| ≤ ½`), result `= n/10^(14−e)·(1+δ₂)` -/
theorem roundToSignificantFigures_decomp {ops : NumOps} {u : ℚ} (M : RoundingModel ops u)
    (hu2 : u ≤ 1 / 2) (x : F64) (e : ℤ) (hfin : x.isFinite = true)
    (hz : F64.feq x F64.zero = false)
    (hlo : (10 : ℚ) ^ e ≤ |x.toRat|) (he : -5 ≤ e)
    (H1 : decimalExponent ops x.abs = e)
    (H2 : PowiExactAt ops (14 - e))
    (H3 : RoundExactAt ops (ops.mul x (ops.powi ten (14 - e))))
    (hmf : (ops.mul x (ops.powi ten (14 - e))).isFinite = true)
    (hdf : (roundToSignificantFigures ops x 15).isFinite = true) :
    ∃ (n : ℤ) (p δ₁ δ₂ : ℚ), |δ₁| ≤ u ∧ |δ₂| ≤ u ∧
      p = x.toRat * (10 : ℚ) ^ (14 - e) * (1 + δ₁) ∧ |(n : ℚ) - p| ≤ 1 / 2 ∧
      (roundToSignificantFigures ops x 15).toRat = (n : ℚ) / (10 : ℚ) ^ (14 - e) * (1 + δ₂) := by
  rw [roundToSignificantFigures_eq ops x e hz H1] at hdf ⊢
  obtain ⟨hsf, hsr⟩ := H2
  obtain ⟨hrf, n, hrn, hrb⟩ := H3
  have hS : (0 : ℚ) < (10 : ℚ) ^ (14 - e) := zpow_pos (by norm_num) _
  have hT : (0 : ℚ) < (10 : ℚ) ^ (e - 14) := zpow_pos (by norm_num) _
  have hST : (10 : ℚ) ^ e * (10 : ℚ) ^ (14 - e) = 10 ^ 14 := by
    rw [← zpow_add₀ (by norm_num : (10 : ℚ) ≠ 0)]
    have : e + (14 - e) = ((14 : ℕ) : ℤ) := by push_cast; ring
    rw [this, zpow_natCast]
  -- the multiplication
  have hnu1 : NoUnderflow (x.toRat * (ops.powi ten (14 - e)).toRat) := by
    right
    rw [hsr, abs_mul, abs_of_pos hS]
    have : (10 : ℚ) ^ 14 ≤ |x.toRat| * (10 : ℚ) ^ (14 - e) := by
      rw [← hST]; exact mul_le_mul_of_nonneg_right hlo hS.le
    refine le_trans ?_ this
    have h2 : (1 : ℚ) / 2 ^ 1022 ≤ 1 := by
      rw [div_le_one (by positivity)]; exact one_le_pow₀ (by norm_num)
    have h3 : (1 : ℚ) ≤ 10 ^ 14 := one_le_pow₀ (by norm_num)
    exact h2.trans h3
  obtain ⟨δ₁, hδ₁, hp⟩ := M.mul x _ hfin hsf hmf hnu1
  rw [hsr] at hp
  -- the size of the rounded product
  have hδ₁' : 1 / 2 ≤ 1 + δ₁ := by have := (abs_le.mp hδ₁).1; linarith
  have hpabs : (10 : ℚ) ^ 14 / 2 ≤ |(ops.mul x (ops.powi ten (14 - e))).toRat| := by
    rw [hp, abs_mul, abs_mul, abs_of_pos hS, abs_of_pos (by linarith : (0 : ℚ) < 1 + δ₁)]
    have h1 : (10 : ℚ) ^ 14 ≤ |x.toRat| * (10 : ℚ) ^ (14 - e) := by
      rw [← hST]; exact mul_le_mul_of_nonneg_right hlo hS.le
    nlinarith
  have hn1 : (1 : ℚ) ≤ |(n : ℚ)| := by
    have h1 : |(ops.mul x (ops.powi ten (14 - e))).toRat| ≤
        |(n : ℚ)| + |(n : ℚ) - (ops.mul x (ops.powi ten (14 - e))).toRat| := by
      have := abs_sub_abs_le_abs_sub ((ops.mul x (ops.powi ten (14 - e))).toRat) (n : ℚ)
      rw [abs_sub_comm] at this
      linarith
    have : (2 : ℚ) ≤ 10 ^ 14 / 2 := by norm_num
    linarith
  -- the division
  have hs0 : (ops.powi ten (14 - e)).toRat ≠ 0 := by rw [hsr]; exact hS.ne'
  have hnu2 : NoUnderflow ((ops.round (ops.mul x (ops.powi ten (14 - e)))).toRat /
      (ops.powi ten (14 - e)).toRat) := by
    right
    have h0 : |(n : ℚ)| / (10 : ℚ) ^ (14 - e) = |(n : ℚ)| * (10 : ℚ) ^ (e - 14) := by
      rw [div_eq_mul_inv, ten_zpow_inv]
    rw [hsr, hrn, abs_div, abs_of_pos hS, h0]
    have h1 : (10 : ℚ) ^ (-19 : ℤ) ≤ (10 : ℚ) ^ (e - 14) :=
      zpow_le_zpow_right₀ (by norm_num) (by omega)
    have h2 : (1 : ℚ) / 2 ^ 1022 ≤ (10 : ℚ) ^ (-19 : ℤ) := by
      have h4 : (10 : ℚ) ^ (-19 : ℤ) = 1 / 10 ^ 19 := by
        rw [zpow_neg, one_div]; norm_cast
      rw [h4]
      have h5 : (10 : ℚ) ^ 19 ≤ 2 ^ 64 := by norm_num
      have h6 : (2 : ℚ) ^ 64 ≤ 2 ^ 1022 := pow_le_pow_right₀ (by norm_num) (by norm_num)
      exact one_div_le_one_div_of_le (by positivity) (h5.trans h6)
    have h3 : (10 : ℚ) ^ (e - 14) ≤ |(n : ℚ)| * (10 : ℚ) ^ (e - 14) := by nlinarith
    exact h2.trans (h1.trans h3)
  obtain ⟨δ₂, hδ₂, hy⟩ := M.div _ _ hrf hsf hs0 hdf hnu2
  rw [hsr, hrn] at hy
  exact ⟨n, _, δ₁, δ₂, hδ₁, hδ₂, hp, hrb, hy⟩

/-- THE BOUND on `round_to_significant_figures(x, 15)`: half a unit of the 15th significant
    digit from `round`, relative errors `u` each from `*` and `/` -/
theorem roundToSignificantFigures_error {ops : NumOps} {u : ℚ} (M : RoundingModel ops u)
    (hu2 : u ≤ 1 / 2) (x : F64) (e : ℤ) (hfin : x.isFinite = true)
    (hz : F64.feq x F64.zero = false)
    (hlo : (10 : ℚ) ^ e ≤ |x.toRat|) (hhi : |x.toRat| < (10 : ℚ) ^ (e + 1)) (he : -5 ≤ e)
    (H1 : decimalExponent ops x.abs = e)
    (H2 : PowiExactAt ops (14 - e))
    (H3 : RoundExactAt ops (ops.mul x (ops.powi ten (14 - e))))
    (hmf : (ops.mul x (ops.powi ten (14 - e))).isFinite = true)
    (hdf : (roundToSignificantFigures ops x 15).isFinite = true) :
    |(roundToSignificantFigures ops x 15).toRat - x.toRat| ≤
      (1 / 2 + 3 * u * 10 ^ 15) * (10 : ℚ) ^ (e - 14) := by
  obtain ⟨n, p, δ₁, δ₂, hδ₁, hδ₂, hp, hrb, hy⟩ :=
    roundToSignificantFigures_decomp M hu2 x e hfin hz hlo he H1 H2 H3 hmf hdf
  exact sig_round_error_rat M.u_nonneg hu2 hhi hδ₁ hδ₂ hp hrb hy

end Blots.Display

namespace Blots.Display

/-! ### a concrete `NumOps` for the examples -/

/-- ⌊|q| + ½⌋ with the sign of `q`: round half away from zero, on ℚ -/
def halfAwayRat (q : ℚ) : ℤ :=
  let m : ℤ := ((2 * q.num.natAbs + q.den) / (2 * q.den) : ℕ)
  if q < 0 then -m else m

/-- `guardedOps` (correct rounding of `+ × /`, `Lemmas/Rounding.lean`) with an exact
    round-half-away `round`; `log10` / `floor` stay the identity of `intOps`, so that
    `decimalExponent` is decided by its correction step alone -/
def displayOps : NumOps :=
  { guardedOps with
    round := fun p => if p.isFinite = true then roundRat ((halfAwayRat p.toRat : ℤ) : ℚ) else p }

theorem displayOps_model : RoundingModel displayOps u64 :=
  ⟨guardedOps_model.u_nonneg, guardedOps_model.u_lt_one, guardedOps_model.add,
    guardedOps_model.mul, guardedOps_model.div⟩

/-- `0.1 + 0.2 = 0.30000000000000004` -/
def dbl0304 : F64 := F64.ofNatBits 0x3FD3333333333334

end Blots.Display

namespace Blots.Display

/-! ### the fraction path of `format_display_number` -/

theorem formatDisplayNumber_fraction (ops : NumOps) (x : F64) (h : path x = .fraction) :
    formatDisplayNumber ops x =
      addThousandSeparators (formatFloatSignificant ops (roundToSignificantFigures ops x 15) 15) ∧
    x.isNaN = false ∧ x.isInf = false ∧ F64.feq x F64.zero = false := by
  unfold path at h
  unfold formatDisplayNumber formatStandard
  split at h
  · cases h
  · split at h
    · cases h
    · split at h
      · cases h
      · split at h
        · cases h
        · split at h
          · cases h
          · rename_i h1 h2 h3 h4 h5
            simp only [h1, h2, h3, h4, h5]
            simp

theorem isFinite_of_not_nan_inf {x : F64} (h1 : x.isNaN = false) (h2 : x.isInf = false) :
    x.isFinite = true := by
  unfold F64.isFinite
  unfold F64.isNaN at h1
  unfold F64.isInf at h2
  by_cases h : x.expField = 2047
  · by_cases hf : x.frac = 0 <;> simp [h, hf] at h1 h2
  · simp [h]

/-! ### two points of the same grid closer than the mesh are equal -/

theorem grid_unique {g a b : ℚ} (hg : 0 < g) (ma mb : ℤ) (ha : a = ma * g) (hb : b = mb * g)
    (h : |a - b| < g) : a = b := by
  have e1 : a - b = ((ma - mb : ℤ) : ℚ) * g := by rw [ha, hb]; push_cast; ring
  rw [e1, abs_mul, abs_of_pos hg] at h
  have h1 : |((ma - mb : ℤ) : ℚ)| < 1 := by
    by_contra hc
    have := mul_le_mul_of_nonneg_right (not_lt.mp hc) hg.le
    linarith
  have h2 : |ma - mb| < 1 := by exact_mod_cast h1
  have h3 : ma - mb = 0 := Int.abs_lt_one_iff.mp h2
  have h4 : ma = mb := by omega
  rw [ha, hb, h4]

/-- ℚ: if the rendering `v` is a point of the grid `T·ℤ` within `T/2` of the unscaled `y`,
    it IS the rounded integer over the scale, and is within `(½ + u·10^15)·T` of `x` -/
theorem sig_display_error_core {u x S T p y v δ₁ δ₂ : ℚ} {n m : ℤ}
    (hu3 : u * (5 * 10 ^ 15) < 1) (hST : S * T = 1) (hT : 0 < T)
    (hx : |x| < 10 ^ 15 * T) (hδ₁ : |δ₁| ≤ u) (hδ₂ : |δ₂| ≤ u)
    (hp : p = x * S * (1 + δ₁)) (hr : |(n : ℚ) - p| ≤ 1 / 2)
    (hy : y = (n : ℚ) * T * (1 + δ₂)) (hv : v = (m : ℚ) * T) (hvy : |v - y| ≤ 1 / 2 * T) :
    v = (n : ℚ) * T ∧ |v - x| ≤ (1 / 2 + u * 10 ^ 15) * T := by
  have hu : 0 ≤ u := (abs_nonneg δ₁).trans hδ₁
  have hu1 : u ≤ 1 := by linarith
  have hxS : |x * S| < 10 ^ 15 := by
    have hSpos : (0 : ℚ) < S := by
      by_contra hc
      have : S * T ≤ 0 := mul_nonpos_of_nonpos_of_nonneg (not_lt.mp hc) hT.le
      linarith
    rw [abs_mul, abs_of_pos hSpos]
    calc |x| * S < 10 ^ 15 * T * S := mul_lt_mul_of_pos_right hx hSpos
      _ = 10 ^ 15 * (S * T) := by ring
      _ = 10 ^ 15 := by rw [hST, mul_one]
  have h1δ : |1 + δ₁| ≤ 2 := by
    calc |1 + δ₁| ≤ |1| + |δ₁| := abs_add_le _ _
      _ ≤ 2 := by rw [abs_one]; linarith
  have hpabs : |p| ≤ 2 * 10 ^ 15 := by
    rw [hp, abs_mul]
    have := mul_le_mul hxS.le h1δ (abs_nonneg _) (by norm_num)
    linarith
  have hnabs : |(n : ℚ)| ≤ 2 * 10 ^ 15 + 1 / 2 := by
    have : (n : ℚ) = ((n : ℚ) - p) + p := by ring
    rw [this]
    exact (abs_add_le _ _).trans (by linarith)
  -- `y` is close to the grid point `n·T`
  have hyn : |y - (n : ℚ) * T| ≤ (2 * 10 ^ 15 + 1 / 2) * u * T := by
    have : y - (n : ℚ) * T = (n : ℚ) * δ₂ * T := by rw [hy]; ring
    rw [this, abs_mul, abs_mul, abs_of_pos hT]
    exact mul_le_mul_of_nonneg_right (mul_le_mul hnabs hδ₂ (abs_nonneg _) (by norm_num)) hT.le
  have hvn : v = (n : ℚ) * T := by
    refine grid_unique hT m n hv rfl ?_
    have : v - (n : ℚ) * T = (v - y) + (y - (n : ℚ) * T) := by ring
    rw [this]
    refine lt_of_le_of_lt (abs_add_le _ _) ?_
    have h5 : (2 * 10 ^ 15 + 1 / 2) * u < 1 / 2 := by linarith
    have h6 : (2 * 10 ^ 15 + 1 / 2) * u * T < 1 / 2 * T := mul_lt_mul_of_pos_right h5 hT
    linarith
  refine ⟨hvn, ?_⟩
  have e1 : v - x = ((n : ℚ) - p) * T + x * δ₁ := by
    rw [hvn, hp]
    linear_combination (x * (1 + δ₁)) * hST
  have hA : |((n : ℚ) - p) * T| ≤ 1 / 2 * T := by
    rw [abs_mul, abs_of_pos hT]; exact mul_le_mul_of_nonneg_right hr hT.le
  have hB : |x * δ₁| ≤ 10 ^ 15 * T * u := by
    rw [abs_mul]; exact mul_le_mul hx.le hδ₁ (abs_nonneg _) (by positivity)
  rw [e1]
  refine (abs_add_le _ _).trans ?_
  linarith

end Blots.Display

namespace Blots.Display

/-- THE DISPLAYED VALUE: a rendering `v` of `y = round_to_significant_figures(x, 15)` that is
    a multiple of `10^(e−14)` within half of it of `y` (what `{:.(14−e)}` produces) is within
    `(½ + u·10^15)` units of the 15th significant digit of `x` -/
theorem display_value_error {ops : NumOps} {u : ℚ} (M : RoundingModel ops u)
    (hu3 : u * (5 * 10 ^ 15) < 1) (x : F64) (e : ℤ) (hfin : x.isFinite = true)
    (hz : F64.feq x F64.zero = false)
    (hlo : (10 : ℚ) ^ e ≤ |x.toRat|) (hhi : |x.toRat| < (10 : ℚ) ^ (e + 1)) (he : -5 ≤ e)
    (H1 : decimalExponent ops x.abs = e)
    (H2 : PowiExactAt ops (14 - e))
    (H3 : RoundExactAt ops (ops.mul x (ops.powi ten (14 - e))))
    (hmf : (ops.mul x (ops.powi ten (14 - e))).isFinite = true)
    (hdf : (roundToSignificantFigures ops x 15).isFinite = true)
    (v : ℚ) (m : ℤ) (hv : v = (m : ℚ) * (10 : ℚ) ^ (e - 14))
    (hvy : |v - (roundToSignificantFigures ops x 15).toRat| ≤ 1 / 2 * (10 : ℚ) ^ (e - 14)) :
    |v - x.toRat| ≤ (1 / 2 + u * 10 ^ 15) * (10 : ℚ) ^ (e - 14) := by
  have hu2 : u ≤ 1 / 2 := by linarith [M.u_nonneg]
  obtain ⟨n, p, δ₁, δ₂, hδ₁, hδ₂, hp, hrb, hy⟩ :=
    roundToSignificantFigures_decomp M hu2 x e hfin hz hlo he H1 H2 H3 hmf hdf
  have hS : (0 : ℚ) < (10 : ℚ) ^ (14 - e) := zpow_pos (by norm_num) _
  have hT : (0 : ℚ) < (10 : ℚ) ^ (e - 14) := zpow_pos (by norm_num) _
  rw [ten_zpow_split] at hhi
  rw [div_eq_mul_inv, ten_zpow_inv] at hy
  have hST : (10 : ℚ) ^ (14 - e) * (10 : ℚ) ^ (e - 14) = 1 := by
    rw [← ten_zpow_inv, mul_inv_cancel₀ hS.ne']
  exact (sig_display_error_core hu3 hST hT hhi hδ₁ hδ₂ hp hrb hy hv hvy).2

end Blots.Display

namespace Blots.Display

/-! ### the rounded value may leave the decade of `x`

  `y = n/10^(14−e)·(1+δ₂)` with `10^14 ≤ |n| ≤ 10^15`, so `⌊log10 |y|⌋ ∈ {e−1, e, e+1}`:
  `e − 1` only for `|n|` just above `10^14` and `δ₂ < 0` (grid `10^(e−15)`), `e + 1` only
  for `|n| = 10^15` (grid `10^(e−13)`, or `1` when `e = 14`).  In every case `n/10^(14−e)`
  is a point of the grid of `{:.dp}` and `y` is closer to it than half the mesh. -/

theorem ten_zpow_shift (k : ℕ) (b : ℤ) : (10 : ℚ) ^ ((k : ℤ) + b) = 10 ^ k * (10 : ℚ) ^ b := by
  rw [zpow_add₀ (by norm_num : (10 : ℚ) ≠ 0), zpow_natCast]

/-- the integer returned by `round` has 15 digits, or is `10^15` -/
theorem round_int_bounds {u xs p δ₁ : ℚ} {n : ℤ} (hu3 : u * (5 * 10 ^ 15) < 1)
    (hlo : 10 ^ 14 ≤ |xs|) (hhi : |xs| < 10 ^ 15) (hδ₁ : |δ₁| ≤ u)
    (hp : p = xs * (1 + δ₁)) (hr : |(n : ℚ) - p| ≤ 1 / 2) :
    (10 : ℤ) ^ 14 ≤ |n| ∧ |n| ≤ (10 : ℤ) ^ 15 := by
  have hu : 0 ≤ u := (abs_nonneg δ₁).trans hδ₁
  obtain ⟨d1, d2⟩ := abs_le.mp hδ₁
  have h1 : |1 + δ₁| = 1 + δ₁ := abs_of_pos (by linarith)
  have hpabs : |p| = |xs| * (1 + δ₁) := by rw [hp, abs_mul, h1]
  have hA : |(n : ℚ)| ≤ |p| + 1 / 2 := by
    have : (n : ℚ) = ((n : ℚ) - p) + p := by ring
    calc |(n : ℚ)| = |((n : ℚ) - p) + p| := by rw [← this]
      _ ≤ |(n : ℚ) - p| + |p| := abs_add_le _ _
      _ ≤ |p| + 1 / 2 := by linarith
  have hB : |p| ≤ |(n : ℚ)| + 1 / 2 := by
    have : p = (p - (n : ℚ)) + n := by ring
    have h2 : |p - (n : ℚ)| ≤ 1 / 2 := by rw [abs_sub_comm]; exact hr
    calc |p| = |(p - (n : ℚ)) + n| := by rw [← this]
      _ ≤ |p - (n : ℚ)| + |(n : ℚ)| := abs_add_le _ _
      _ ≤ |(n : ℚ)| + 1 / 2 := by linarith
  have hup : |(n : ℚ)| < 10 ^ 15 + 1 := by
    have a1 : |xs| * (1 + δ₁) ≤ |xs| * (1 + u) :=
      mul_le_mul_of_nonneg_left (by linarith) (abs_nonneg _)
    have a2 : |xs| * (1 + u) < 10 ^ 15 * (1 + u) := mul_lt_mul_of_pos_right hhi (by linarith)
    linarith
  have hdn : (10 : ℚ) ^ 14 - 1 < |(n : ℚ)| := by
    have a1 : |xs| * (1 - u) ≤ |xs| * (1 + δ₁) :=
      mul_le_mul_of_nonneg_left (by linarith) (abs_nonneg _)
    have a2 : (10 : ℚ) ^ 14 * (1 - u) ≤ |xs| * (1 - u) :=
      mul_le_mul_of_nonneg_right hlo (by linarith)
    linarith
  rw [← Int.cast_abs] at hup hdn
  constructor
  · have : ((10 : ℤ) ^ 14 - 1 : ℤ) < |n| := by exact_mod_cast hdn
    omega
  · have : |n| < (10 : ℤ) ^ 15 + 1 := by exact_mod_cast hup
    omega

/-- grid form of `sig_display_error_core`: `v` on the grid `g·ℤ` that also contains `n·T` -/
theorem sig_display_error_grid {u x S T p y v δ₁ g : ℚ} {n m k : ℤ}
    (hST : S * T = 1) (hT : 0 < T) (hg : 0 < g)
    (hx : |x| < 10 ^ 15 * T) (hδ₁ : |δ₁| ≤ u)
    (hp : p = x * S * (1 + δ₁)) (hr : |(n : ℚ) - p| ≤ 1 / 2)
    (hv : v = (m : ℚ) * g) (hk : (n : ℚ) * T = (k : ℚ) * g)
    (hvy : |v - y| ≤ 1 / 2 * g) (hyn : |y - (n : ℚ) * T| < 1 / 2 * g) :
    |v - x| ≤ (1 / 2 + u * 10 ^ 15) * T := by
  have hvn : v = (n : ℚ) * T := by
    refine grid_unique hg m k hv hk ?_
    have : v - (n : ℚ) * T = (v - y) + (y - (n : ℚ) * T) := by ring
    rw [this]
    refine lt_of_le_of_lt (abs_add_le _ _) ?_
    linarith
  have e1 : v - x = ((n : ℚ) - p) * T + x * δ₁ := by
    rw [hvn, hp]
    linear_combination (x * (1 + δ₁)) * hST
  have hA : |((n : ℚ) - p) * T| ≤ 1 / 2 * T := by
    rw [abs_mul, abs_of_pos hT]; exact mul_le_mul_of_nonneg_right hr hT.le
  have hB : |x * δ₁| ≤ 10 ^ 15 * T * u := by
    rw [abs_mul]; exact mul_le_mul hx.le hδ₁ (abs_nonneg _) (by positivity)
  rw [e1]
  refine (abs_add_le _ _).trans ?_
  linarith

theorem sig_display_error_any_decade {u x p y v δ₁ δ₂ : ℚ} {n m : ℤ} {e e' : ℤ} {dp : ℕ}
    (hu3 : u * (5 * 10 ^ 15) < 1) (he14 : e ≤ 14)
    (hlo : (10 : ℚ) ^ e ≤ |x|) (hhi : |x| < (10 : ℚ) ^ (e + 1))
    (hδ₁ : |δ₁| ≤ u) (hδ₂ : |δ₂| ≤ u)
    (hp : p = x * (10 : ℚ) ^ (14 - e) * (1 + δ₁)) (hr : |(n : ℚ) - p| ≤ 1 / 2)
    (hy : y = (n : ℚ) / (10 : ℚ) ^ (14 - e) * (1 + δ₂))
    (hy1 : (10 : ℚ) ^ e' ≤ |y|) (hy2 : |y| < (10 : ℚ) ^ (e' + 1))
    (hdp : (dp : ℤ) = if 14 - e' < 0 then 0 else 14 - e')
    (hv : v = (m : ℚ) / (10 : ℚ) ^ dp) (hvy : |v - y| ≤ 1 / 2 / (10 : ℚ) ^ dp) :
    |v - x| ≤ (1 / 2 + u * 10 ^ 15) * (10 : ℚ) ^ (e - 14) := by
  have hu : 0 ≤ u := (abs_nonneg δ₁).trans hδ₁
  have h10 : (1 : ℚ) < 10 := by norm_num
  have hS : (0 : ℚ) < (10 : ℚ) ^ (14 - e) := zpow_pos (by norm_num) _
  have hT : (0 : ℚ) < (10 : ℚ) ^ (e - 14) := zpow_pos (by norm_num) _
  have hST : (10 : ℚ) ^ (14 - e) * (10 : ℚ) ^ (e - 14) = 1 := by
    rw [← ten_zpow_inv, mul_inv_cancel₀ hS.ne']
  rw [div_eq_mul_inv, ten_zpow_inv] at hy
  -- powers of ten in units of T
  have hTe : (10 : ℚ) ^ e = 10 ^ 14 * (10 : ℚ) ^ (e - 14) := by
    rw [← ten_zpow_shift]; congr 1; push_cast; ring
  have hTe1 : (10 : ℚ) ^ (e + 1) = 10 ^ 15 * (10 : ℚ) ^ (e - 14) := ten_zpow_split e
  have hTem1 : (10 : ℚ) ^ (e - 1) = 10 ^ 13 * (10 : ℚ) ^ (e - 14) := by
    rw [← ten_zpow_shift]; congr 1; push_cast; ring
  have hTe2 : (10 : ℚ) ^ (e + 2) = 10 ^ 16 * (10 : ℚ) ^ (e - 14) := by
    rw [← ten_zpow_shift]; congr 1; push_cast; ring
  set S := (10 : ℚ) ^ (14 - e) with hSdef
  set T := (10 : ℚ) ^ (e - 14) with hTdef
  -- the scaled value and the rounded integer
  have hxs : |x * S| = |x| * S := by rw [abs_mul, abs_of_pos hS]
  have hxs_lo : (10 : ℚ) ^ 14 ≤ |x * S| := by
    rw [hxs]
    calc (10 : ℚ) ^ 14 = 10 ^ 14 * (S * T) := by rw [hST, mul_one]
      _ = (10 ^ 14 * T) * S := by ring
      _ ≤ |x| * S := mul_le_mul_of_nonneg_right (by rw [← hTe]; exact hlo) hS.le
  have hxs_hi : |x * S| < (10 : ℚ) ^ 15 := by
    rw [hxs]
    calc |x| * S < (10 ^ 15 * T) * S := mul_lt_mul_of_pos_right (by rw [← hTe1]; exact hhi) hS
      _ = 10 ^ 15 * (S * T) := by ring
      _ = 10 ^ 15 := by rw [hST, mul_one]
  obtain ⟨hn1, hn2⟩ := round_int_bounds hu3 hxs_lo hxs_hi hδ₁ hp hr
  have hA1 : (10 : ℚ) ^ 14 ≤ |(n : ℚ)| := by rw [← Int.cast_abs]; exact_mod_cast hn1
  have hA2 : |(n : ℚ)| ≤ (10 : ℚ) ^ 15 := by rw [← Int.cast_abs]; exact_mod_cast hn2
  obtain ⟨d1, d2⟩ := abs_le.mp hδ₂
  have h1δ : |1 + δ₂| = 1 + δ₂ := abs_of_pos (by linarith)
  have hyabs : |y| = |(n : ℚ)| * (1 + δ₂) * T := by
    rw [hy, abs_mul, abs_mul, h1δ, abs_of_pos hT]; ring
  have hyn : |y - (n : ℚ) * T| ≤ |(n : ℚ)| * u * T := by
    have : y - (n : ℚ) * T = (n : ℚ) * δ₂ * T := by rw [hy]; ring
    rw [this, abs_mul, abs_mul, abs_of_pos hT]
    exact mul_le_mul_of_nonneg_right (mul_le_mul_of_nonneg_left hδ₂ (abs_nonneg _)) hT.le
  rw [hTe1] at hhi
  -- the decade of y
  have hup : e' < e + 2 := by
    have h1 : (10 : ℚ) ^ e' < (10 : ℚ) ^ (e + 2) := by
      rw [hTe2]
      have : |(n : ℚ)| * (1 + δ₂) * T ≤ 10 ^ 15 * 2 * T :=
        mul_le_mul_of_nonneg_right (mul_le_mul hA2 (by linarith) (by linarith) (by norm_num)) hT.le
      nlinarith
    exact (zpow_lt_zpow_iff_right₀ h10).mp h1
  have hdn : e - 1 < e' + 1 := by
    have h1 : (10 : ℚ) ^ (e - 1) < (10 : ℚ) ^ (e' + 1) := by
      rw [hTem1]
      have : 10 ^ 14 * (1 / 2) * T ≤ |(n : ℚ)| * (1 + δ₂) * T :=
        mul_le_mul_of_nonneg_right (mul_le_mul hA1 (by linarith) (by norm_num) (abs_nonneg _)) hT.le
      nlinarith
    exact (zpow_lt_zpow_iff_right₀ h10).mp h1
  have hpow : (10 : ℚ) ^ dp = (10 : ℚ) ^ ((dp : ℕ) : ℤ) := (zpow_natCast _ _).symm
  have hAu : |(n : ℚ)| * u ≤ 1 / 5 := by
    have := mul_le_mul_of_nonneg_right hA2 hu
    linarith
  have hcases : e' = e ∨ e' = e - 1 ∨ e' = e + 1 := by omega
  rcases hcases with rfl | rfl | rfl
  · -- same decade: grid T
    have hd : ((dp : ℕ) : ℤ) = 14 - e' := by rw [hdp, if_neg (by omega)]
    rw [hpow, hd] at hv hvy
    rw [div_eq_mul_inv, ten_zpow_inv] at hv hvy
    refine sig_display_error_grid (k := n) hST hT hT hhi hδ₁ hp hr hv rfl hvy ?_
    have : |(n : ℚ)| * u * T ≤ 1 / 5 * T := mul_le_mul_of_nonneg_right hAu hT.le
    linarith
  · -- one decade down: grid T/10
    have hd : ((dp : ℕ) : ℤ) = 14 - (e - 1) := by rw [hdp, if_neg (by omega)]
    rw [hpow, hd] at hv hvy
    have hg : ((10 : ℚ) ^ (14 - (e - 1)))⁻¹ = T / 10 := by
      rw [← zpow_neg, hTdef]
      have : e - 14 = ((1 : ℕ) : ℤ) + -(14 - (e - 1)) := by push_cast; ring
      rw [this, ten_zpow_shift]; ring
    rw [div_eq_mul_inv, hg] at hv hvy
    have hg0 : (0 : ℚ) < T / 10 := by positivity
    refine sig_display_error_grid (k := 10 * n) hST hT hg0 hhi hδ₁ hp hr hv
      (by push_cast; ring) hvy ?_
    -- |n| < 2·10^14 here
    have h2 : |(n : ℚ)| * (1 + δ₂) * T < 10 ^ 14 * T := by
      rw [← hyabs, ← hTe]
      have : e - 1 + 1 = e := by ring
      rw [this] at hy2; exact hy2
    have h3 : |(n : ℚ)| * (1 + δ₂) < 10 ^ 14 := lt_of_mul_lt_mul_right h2 hT.le
    have h4 : |(n : ℚ)| * (1 / 2) ≤ |(n : ℚ)| * (1 + δ₂) :=
      mul_le_mul_of_nonneg_left (by linarith) (abs_nonneg _)
    have h5 : |(n : ℚ)| * u ≤ 2 * 10 ^ 14 * u := mul_le_mul_of_nonneg_right (by linarith) hu
    have h6 : |(n : ℚ)| * u * T ≤ 1 / 25 * T := mul_le_mul_of_nonneg_right (by linarith) hT.le
    linarith
  · -- y reached the next power of ten: n = ±10^15
    have h2 : (10 : ℚ) ^ 15 * T ≤ |(n : ℚ)| * (1 + δ₂) * T := by
      rw [← hyabs, ← hTe1]; exact hy1
    have h3 : (10 : ℚ) ^ 15 ≤ |(n : ℚ)| * (1 + δ₂) := le_of_mul_le_mul_right h2 hT
    have h4 : |(n : ℚ)| * (1 + δ₂) ≤ |(n : ℚ)| * (1 + u) :=
      mul_le_mul_of_nonneg_left (by linarith) (abs_nonneg _)
    have h5 : (10 : ℚ) ^ 15 - 1 < |(n : ℚ)| := by linarith
    have h6 : |n| = (10 : ℤ) ^ 15 := by
      rw [← Int.cast_abs] at h5
      have : ((10 : ℤ) ^ 15 - 1 : ℤ) < |n| := by exact_mod_cast h5
      omega
    have hyn' : |y - (n : ℚ) * T| < 1 / 2 * T := by
      have : |(n : ℚ)| * u * T ≤ 1 / 5 * T := mul_le_mul_of_nonneg_right hAu hT.le
      linarith
    by_cases h13 : e ≤ 13
    · have hd : ((dp : ℕ) : ℤ) = 14 - (e + 1) := by rw [hdp, if_neg (by omega)]
      rw [hpow, hd] at hv hvy
      have hg : ((10 : ℚ) ^ (14 - (e + 1)))⁻¹ = 10 * T := by
        rw [← zpow_neg, hTdef]
        have : -(14 - (e + 1)) = ((1 : ℕ) : ℤ) + (e - 14) := by push_cast; ring
        rw [this, ten_zpow_shift]; ring
      rw [div_eq_mul_inv, hg] at hv hvy
      have hg0 : (0 : ℚ) < 10 * T := by positivity
      have hk : ∃ k : ℤ, n = 10 * k := by
        rcases abs_eq (by norm_num : (0 : ℤ) ≤ 10 ^ 15) |>.mp h6 with h | h
        · exact ⟨10 ^ 14, by rw [h]; norm_num⟩
        · exact ⟨-10 ^ 14, by rw [h]; norm_num⟩
      obtain ⟨k, hk⟩ := hk
      refine sig_display_error_grid (k := k) hST hT hg0 hhi hδ₁ hp hr hv
        (by rw [hk]; push_cast; ring) hvy ?_
      linarith
    · have he : e = 14 := by omega
      have hd : ((dp : ℕ) : ℤ) = 0 := by rw [hdp, if_pos (by omega)]
      rw [hpow, hd, zpow_zero] at hv hvy
      have hT1 : T = 1 := by rw [hTdef, he]; norm_num
      have hv' : v = (m : ℚ) * T := by rw [hv, hT1]; ring
      have hvy' : |v - y| ≤ 1 / 2 * T := by rw [hT1]; linarith
      exact sig_display_error_grid (k := n) hST hT hT hhi hδ₁ hp hr hv' rfl hvy' hyn'


/-- the number of decimals chosen by `format_float_significant(y, 15)` once the magnitude of
    `y` is known: `max(0, 14 − e')`, on both branches (`|y| ≥ 1` or not) -/
theorem decimalPlaces_of_exponent (ops : NumOps) (y : F64) (e' : ℤ)
    (h : decimalExponent ops y.abs = e') :
    ((decimalPlaces ops y 15 : ℕ) : ℤ) = if 14 - e' < 0 then 0 else 14 - e' := by
  unfold decimalPlaces
  simp only [h, Int.ofNat_eq_natCast]
  split_ifs <;> omega

/-- THE DISPLAYED VALUE, any decade: a rendering `v` of `y = round_to_significant_figures(x, 15)`
    that is a multiple of `10^-dp` within half of it of `y`, `dp = decimalPlaces ops y 15`
    computed from the exact magnitude `e'` of `y`, is within `(½ + u·10^15)` units of the
    15th significant digit of `x` -/
theorem display_value_error_any_decade {ops : NumOps} {u : ℚ} (M : RoundingModel ops u)
    (hu3 : u * (5 * 10 ^ 15) < 1) (x : F64) (e e' : ℤ) (hfin : x.isFinite = true)
    (hz : F64.feq x F64.zero = false)
    (hlo : (10 : ℚ) ^ e ≤ |x.toRat|) (hhi : |x.toRat| < (10 : ℚ) ^ (e + 1))
    (he : -5 ≤ e) (he14 : e ≤ 14)
    (H1 : decimalExponent ops x.abs = e)
    (H2 : PowiExactAt ops (14 - e))
    (H3 : RoundExactAt ops (ops.mul x (ops.powi ten (14 - e))))
    (hmf : (ops.mul x (ops.powi ten (14 - e))).isFinite = true)
    (hdf : (roundToSignificantFigures ops x 15).isFinite = true)
    (H1y : decimalExponent ops (roundToSignificantFigures ops x 15).abs = e')
    (hy1 : (10 : ℚ) ^ e' ≤ |(roundToSignificantFigures ops x 15).toRat|)
    (hy2 : |(roundToSignificantFigures ops x 15).toRat| < (10 : ℚ) ^ (e' + 1))
    (v : ℚ) (m : ℤ)
    (hv : v = (m : ℚ) / (10 : ℚ) ^ decimalPlaces ops (roundToSignificantFigures ops x 15) 15)
    (hvy : |v - (roundToSignificantFigures ops x 15).toRat| ≤
      1 / 2 / (10 : ℚ) ^ decimalPlaces ops (roundToSignificantFigures ops x 15) 15) :
    |v - x.toRat| ≤ (1 / 2 + u * 10 ^ 15) * (10 : ℚ) ^ (e - 14) := by
  have hu2 : u ≤ 1 / 2 := by linarith [M.u_nonneg]
  obtain ⟨n, p, δ₁, δ₂, hδ₁, hδ₂, hp, hrb, hy⟩ :=
    roundToSignificantFigures_decomp M hu2 x e hfin hz hlo he H1 H2 H3 hmf hdf
  exact sig_display_error_any_decade hu3 he14 hlo hhi hδ₁ hδ₂ hp hrb hy hy1 hy2
    (decimalPlaces_of_exponent ops _ e' H1y) hv hvy

end Blots.Display
