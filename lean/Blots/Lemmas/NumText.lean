import Blots.Lemmas.NumSpec
/-
  Helper lemmas for C16 / C20 about the literal conversion (`Model/NumText.lean`) and the
  path selection of `format_display_number` (`Model/Display.lean`).
-/
namespace Blots.NumText

open Blots Blots.NumSpec

/-! ### radix literals -/

theorem digitsRadix_eq (radix : Nat) :
    ∀ (ds : List Char) (vs : List Nat) (acc : Nat),
      ds.map (digitOf radix) = vs.map some →
      digitsRadix radix ds acc = some (vs.foldl (fun a d => a * radix + d) acc) := by
  intro ds
  induction ds with
  | nil =>
    intro vs acc h
    cases vs with
    | nil => rfl
    | cons v vs => simp at h
  | cons c cs ih =>
    intro vs acc h
    cases vs with
    | nil => simp at h
    | cons v vs =>
      simp only [List.map_cons, List.cons.injEq] at h
      obtain ⟨hc, hrest⟩ := h
      simp only [digitsRadix, hc, List.foldl_cons]
      exact ih vs _ hrest

theorem digitOf_ne_sign (radix : Nat) (c : Char) (v : Nat) (h : digitOf radix c = some v) :
    c ≠ '-' ∧ c ≠ '+' := by
  constructor
  · intro hc
    subst hc
    simp [digitOf, hexVal] at h
  · intro hc
    subst hc
    simp [digitOf, hexVal] at h

theorem fromStrRadixI64_unsigned (radix : Nat) (c : Char) (cs : List Char) (h1 : c ≠ '-') (h2 : c ≠ '+') :
    fromStrRadixI64 radix (c :: cs) =
      match digitsRadix radix (c :: cs) 0 with
      | none => none
      | some n => if (Int.ofNat n) < -(2 ^ 63) || (Int.ofNat n) > 2 ^ 63 - 1 then none else some (Int.ofNat n) := by
  unfold fromStrRadixI64
  simp only [List.isEmpty_cons, Bool.false_eq_true, ↓reduceIte]
  split
  · rename_i h; simp only [List.cons.injEq] at h; exact absurd h.1 h1
  · rename_i h; simp only [List.cons.injEq] at h; exact absurd h.1 h2
  · cases digitsRadix radix (c :: cs) 0 <;> simp

/-- `i64::from_str_radix` on an unsigned, non-empty digit string: the exact value if it fits
    in an i64, an error otherwise -/
theorem fromStrRadixI64_digits (radix : Nat) (ds : List Char) (vs : List Nat)
    (hne : ds ≠ []) (hdig : ds.map (digitOf radix) = vs.map some) :
    fromStrRadixI64 radix ds =
      if radixValue radix vs < 2 ^ 63 then some (Int.ofNat (radixValue radix vs)) else none := by
  cases ds with
  | nil => exact absurd rfl hne
  | cons c cs =>
    cases vs with
    | nil => simp at hdig
    | cons v vs' =>
      have hc : digitOf radix c = some v := by
        simp only [List.map_cons, List.cons.injEq] at hdig
        exact hdig.1
      obtain ⟨h1, h2⟩ := digitOf_ne_sign radix c v hc
      rw [fromStrRadixI64_unsigned radix c cs h1 h2, digitsRadix_eq radix (c :: cs) (v :: vs') 0 hdig]
      simp only [radixValue]
      by_cases hlt : List.foldl (fun a d => a * radix + d) 0 (v :: vs') < 2 ^ 63
      · simp only [hlt, ↓reduceIte]
        rw [if_neg]
        simp only [Bool.or_eq_true, decide_eq_true_eq, Int.ofNat_eq_natCast]
        omega
      · simp only [hlt, ↓reduceIte]
        rw [if_pos]
        simp only [Bool.or_eq_true, decide_eq_true_eq, Int.ofNat_eq_natCast]
        omega

theorem removeUnderscores_idem (cs : List Char) :
    removeUnderscores (removeUnderscores cs) = removeUnderscores cs := by
  simp [removeUnderscores, List.filter_filter]

theorem ofInt_ofNat (n : Nat) : F64.ofInt (Int.ofNat n) = F64.ofRatio false n 1 := by
  have h : ¬ ((n : Int) < 0) := by omega
  simp [F64.ofInt, h]

theorem ofInt_natCast (n : Nat) : F64.ofInt (n : Int) = F64.ofRatio false n 1 := ofInt_ofNat n

/-- sign prefix of a radix literal -/
def signPrefix : Option Bool → List Char
  | none => []
  | some false => ['+']
  | some true => ['-']

theorem radixSplit_b (sg : Option Bool) (body : List Char) :
    radixSplit 'b' (signPrefix sg ++ '0' :: 'b' :: body) = some (sg == some true, body) := by
  rcases sg with _ | _ | _ <;> simp [signPrefix, radixSplit]

theorem radixSplit_x (sg : Option Bool) (body : List Char) :
    radixSplit 'x' (signPrefix sg ++ '0' :: 'x' :: body) = some (sg == some true, body) := by
  rcases sg with _ | _ | _ <;> simp [signPrefix, radixSplit]

theorem radixSplit_b_x (sg : Option Bool) (body : List Char) :
    radixSplit 'b' (signPrefix sg ++ '0' :: 'x' :: body) = none := by
  rcases sg with _ | _ | _ <;> simp [signPrefix, radixSplit]

theorem literalValue_binary (sg : Option Bool) (body : List Char) (vs : List Nat)
    (hne : removeUnderscores body ≠ [])
    (hdig : (removeUnderscores body).map (digitOf 2) = vs.map some) :
    literalValue (String.ofList (signPrefix sg ++ '0' :: 'b' :: body)) =
      if radixValue 2 vs < 2 ^ 63
      then some (mulSign (sg == some true) (F64.ofRatio false (radixValue 2 vs) 1)) else none := by
  unfold literalValue
  simp only [String.toList_ofList, radixSplit_b, fromStrRadixI64_digits 2 _ vs hne hdig]
  by_cases hlt : radixValue 2 vs < 2 ^ 63 <;> simp [hlt, ofInt_natCast]

theorem literalValue_hex (sg : Option Bool) (body : List Char) (vs : List Nat)
    (hne : removeUnderscores body ≠ [])
    (hdig : (removeUnderscores body).map (digitOf 16) = vs.map some) :
    literalValue (String.ofList (signPrefix sg ++ '0' :: 'x' :: body)) =
      if radixValue 16 vs < 2 ^ 63
      then some (mulSign (sg == some true) (F64.ofRatio false (radixValue 16 vs) 1)) else none := by
  unfold literalValue
  simp only [String.toList_ofList, radixSplit_b_x, radixSplit_x, fromStrRadixI64_digits 16 _ vs hne hdig]
  by_cases hlt : radixValue 16 vs < 2 ^ 63 <;> simp [hlt, ofInt_natCast]

theorem literalValue_decimal (cs : List Char) (hb : radixSplit 'b' cs = none) (hx : radixSplit 'x' cs = none) :
    literalValue (String.ofList cs) = F64.parseDec (String.ofList (removeUnderscores cs)) := by
  unfold literalValue
  simp only [String.toList_ofList, hb, hx]


end Blots.NumText

namespace Blots.Display

open Blots

/-! ### path selection of `format_display_number` -/

theorem formatDisplayNumber_nan (ops : NumOps) (x : F64) (h : x.isNaN = true) :
    formatDisplayNumber ops x = "NaN".toList := by
  simp [formatDisplayNumber, h]

theorem isNaN_false_of_isInf {x : F64} (h : x.isInf = true) : x.isNaN = false := by
  simp only [F64.isInf, F64.isNaN, Bool.and_eq_true, decide_eq_true_eq] at *
  simp [h.2]

theorem formatDisplayNumber_inf (ops : NumOps) (x : F64) (h : x.isInf = true) :
    formatDisplayNumber ops x = (if x.neg then "-Infinity".toList else "Infinity".toList) := by
  have hn := isNaN_false_of_isInf h
  cases hneg : x.neg <;> simp [formatDisplayNumber, h, hn, hneg]

/-- on the integer path the output does not depend on any float operation -/
theorem formatDisplayNumber_integer (ops : NumOps) (x : F64) (h : path x = .integer) :
    formatDisplayNumber ops x = formatIntegerWithSeparators x.toI64 := by
  unfold path at h
  unfold formatDisplayNumber formatStandard
  split at h
  · cases h
  · split at h
    · cases h
    · split at h
      · cases h
      · split at h
        · cases h
        · split at h
          · rename_i h1 h2 h3 h4 h5
            simp only [h1, h2, h3, h4, h5]
            simp
          · cases h

theorem formatDisplayNumber_scientific (ops : NumOps) (x : F64) (h : path x = .scientific) :
    formatDisplayNumber ops x = formatScientific x := by
  unfold path at h
  unfold formatDisplayNumber
  split at h
  · cases h
  · split at h
    · cases h
    · split at h
      · cases h
      · split at h
        · rename_i h1 h2 h3 h4
          simp only [h1, h2, h3, h4]
          simp
        · split at h <;> cases h

end Blots.Display
