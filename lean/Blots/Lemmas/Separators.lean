import Blots.Lemmas.NumSpec
/-
  Facts about the text helpers of `Model/Display.lean`, for all inputs:

  A. comma grouping (`groupRev`, `withCommas`): removing the commas gives the digits
     back, the result is grouped in threes from the right, the first character is
     unchanged, only commas are added;
  B. `addThousandSeparators` / `formatIntegerWithSeparators` in terms of `withCommas`;
  C. trailing-zero trimming (`trimEnd`, `trimFraction`, the two trims of
     `formatMantissa`) keeps the denoted rational.
-/
namespace Blots.Display

open Blots Blots.NumSpec

/-! ## A. comma grouping -/

/-- a comma after every complete group of three that is followed by something -/
def interc : List Char → List Char
  | a :: b :: c :: d :: rest => a :: b :: c :: ',' :: interc (d :: rest)
  | l => l

/-- the comma emitted in front of position `i` -/
def sepBefore (i : Nat) : List Char := if i > 0 then [','] else []

private theorem groupRev_cons_mod0 (c : Char) (cs : List Char) (i : Nat) (h : i % 3 = 0) :
    groupRev (c :: cs) i = sepBefore i ++ c :: groupRev cs (i + 1) := by
  rw [groupRev, sepBefore]
  by_cases hi : i > 0 <;> simp [hi, h]

private theorem groupRev_cons_mod_ne (c : Char) (cs : List Char) (i : Nat) (h : i % 3 ≠ 0) :
    groupRev (c :: cs) i = c :: groupRev cs (i + 1) := by
  rw [groupRev]
  simp [h]

theorem groupRev_eq_interc (r : List Char) :
    ∀ i, i % 3 = 0 → groupRev r i = (if r = [] then [] else sepBefore i) ++ interc r := by
  induction r using interc.induct with
  | case1 a b c d rest ih =>
    intro i hi
    rw [groupRev_cons_mod0 _ _ _ hi, groupRev_cons_mod_ne _ _ _ (by omega),
      groupRev_cons_mod_ne _ _ _ (by omega), ih (i + 1 + 1 + 1) (by omega)]
    simp [interc, sepBefore]
  | case2 l hl =>
    intro i hi
    match l, hl with
    | [], _ => simp [groupRev, interc]
    | [a], _ =>
      rw [groupRev_cons_mod0 _ _ _ hi]; simp [groupRev, interc]
    | [a, b], _ =>
      rw [groupRev_cons_mod0 _ _ _ hi, groupRev_cons_mod_ne _ _ _ (by omega)]
      simp [groupRev, interc]
    | [a, b, c], _ =>
      rw [groupRev_cons_mod0 _ _ _ hi, groupRev_cons_mod_ne _ _ _ (by omega),
        groupRev_cons_mod_ne _ _ _ (by omega)]
      simp [groupRev, interc]
    | a :: b :: c :: d :: rest, hl => exact absurd rfl (hl a b c d rest)

theorem groupRev_zero (r : List Char) : groupRev r 0 = interc r := by
  rw [groupRev_eq_interc r 0 rfl]; simp [sepBefore]

theorem withCommas_eq (ds : List Char) : withCommas ds = (interc ds.reverse).reverse := by
  unfold withCommas; rw [groupRev_zero]

/-! ### facts about `interc` -/

theorem interc_nil : interc [] = [] := by simp [interc]

theorem interc_cons (d : Char) (rest : List Char) :
    ∃ t, interc (d :: rest) = d :: t := by
  match rest with
  | [] => exact ⟨[], by simp [interc]⟩
  | [b] => exact ⟨[b], by simp [interc]⟩
  | [b, c] => exact ⟨[b, c], by simp [interc]⟩
  | b :: c :: e :: r => exact ⟨b :: c :: ',' :: interc (e :: r), by simp [interc]⟩

theorem interc_filter (r : List Char) :
    (interc r).filter (· ≠ ',') = r.filter (· ≠ ',') := by
  induction r using interc.induct with
  | case1 a b c d rest ih =>
    rw [interc]
    simp only [List.filter_cons, ih]
    simp
  | case2 l hl => rw [interc]; exact hl

theorem mem_interc (r : List Char) : ∀ x ∈ interc r, x = ',' ∨ x ∈ r := by
  induction r using interc.induct with
  | case1 a b c d rest ih =>
    intro x hx
    rw [interc] at hx
    simp only [List.mem_cons] at hx ⊢
    rcases hx with h | h | h | h | h
    · exact Or.inr (Or.inl h)
    · exact Or.inr (Or.inr (Or.inl h))
    · exact Or.inr (Or.inr (Or.inr (Or.inl h)))
    · exact Or.inl h
    · rcases ih x h with h | h
      · exact Or.inl h
      · simp only [List.mem_cons] at h
        exact Or.inr (Or.inr (Or.inr (Or.inr h)))
  | case2 l hl =>
    intro x hx
    rw [interc] at hx
    · exact Or.inr hx
    · exact hl

theorem interc_getLast? (r : List Char) : (interc r).getLast? = r.getLast? := by
  induction r using interc.induct with
  | case1 a b c d rest ih =>
    rw [interc]
    obtain ⟨t, ht⟩ := interc_cons d rest
    rw [ht] at ih ⊢
    simp only [List.getLast?_cons_cons]
    exact ih
  | case2 l hl => rw [interc]; exact hl

theorem groupedRev_interc (r : List Char) (hne : r ≠ []) (hd : ∀ c ∈ r, isDigit c = true) :
    groupedRev (interc r) = true := by
  induction r using interc.induct with
  | case1 a b c d rest ih =>
    rw [interc]
    have ih' := ih (by simp) (fun x hx => hd x (by simp [hx]))
    obtain ⟨t, ht⟩ := interc_cons d rest
    rw [ht] at ih' ⊢
    rw [groupedRev]
    simp [ih', hd a (by simp), hd b (by simp), hd c (by simp)]
  | case2 l hl =>
    match l, hl with
    | [], _ => exact absurd rfl hne
    | [a], _ => simp [interc, groupedRev, hd a (by simp)]
    | [a, b], _ => simp [interc, groupedRev, hd a (by simp), hd b (by simp)]
    | [a, b, c], _ =>
      simp [interc, groupedRev, hd a (by simp), hd b (by simp), hd c (by simp)]
    | a :: b :: c :: d :: rest, hl => exact absurd rfl (hl a b c d rest)

/-! ### A1 – A4 -/

theorem withCommas_nil : withCommas [] = [] := by
  simp [withCommas_eq, interc]

/-- A1: removing the separators gives the digits back -/
theorem withCommas_strip (ds : List Char) (h : ∀ c ∈ ds, c ≠ ',') :
    stripCommas (withCommas ds) = ds := by
  unfold stripCommas
  rw [withCommas_eq, List.filter_reverse, interc_filter, ← List.filter_reverse,
    List.reverse_reverse]
  exact List.filter_eq_self.mpr (fun c hc => by simpa using h c hc)

/-- A2: the result is grouped in threes from the right -/
theorem withCommas_grouped (ds : List Char) (hne : ds ≠ [])
    (hd : ∀ c ∈ ds, isDigit c = true) : isGrouped (withCommas ds) = true := by
  unfold isGrouped
  rw [withCommas_eq, List.reverse_reverse]
  exact groupedRev_interc _ (by simpa using hne) (fun c hc => hd c (by simpa using hc))

/-- A3: the first character is unchanged -/
theorem withCommas_head (ds : List Char) : (withCommas ds).head? = ds.head? := by
  rw [withCommas_eq, List.head?_reverse, interc_getLast?, List.getLast?_reverse]

/-- A4: only commas are added -/
theorem mem_withCommas (ds : List Char) : ∀ c ∈ withCommas ds, c = ',' ∨ c ∈ ds := by
  intro c hc
  rw [withCommas_eq, List.mem_reverse] at hc
  rcases mem_interc _ c hc with h | h
  · exact Or.inl h
  · exact Or.inr (by simpa using h)

theorem withCommas_no_minus (ds : List Char) (h : '-' ∉ ds) : '-' ∉ withCommas ds := by
  intro hc
  rcases mem_withCommas ds _ hc with h' | h'
  · exact absurd h' (by decide)
  · exact h h'

theorem withCommas_ne_nil (ds : List Char) (hne : ds ≠ []) : withCommas ds ≠ [] := by
  intro h
  have := withCommas_head ds
  rw [h] at this
  cases ds with
  | nil => exact hne rfl
  | cons a t => simp at this

/-- no leading zero is introduced -/
theorem withCommas_noLeadingZero (ds : List Char) (h : noLeadingZero ds = true) :
    noLeadingZero (withCommas ds) = true := by
  match ds, h with
  | [], _ => rw [withCommas_nil]; rfl
  | [a], _ => simp [withCommas, groupRev, noLeadingZero]
  | a :: b :: t, h =>
    have ha : a ≠ '0' := by
      intro ha; subst ha; simp [noLeadingZero] at h
    have hh := withCommas_head (a :: b :: t)
    match hw : withCommas (a :: b :: t) with
    | [] => rfl
    | x :: w =>
      rw [hw] at hh
      simp only [List.head?_cons, Option.some.injEq] at hh
      subst hh
      unfold noLeadingZero
      split
      · next heq => simp only [List.cons.injEq] at heq; exact absurd heq.1 ha
      · rfl

/-! ## B. `addThousandSeparators`, `formatIntegerWithSeparators` -/

theorem takeWhile_ne_append (c : Char) (ip rest : List Char) (h1 : ∀ x ∈ ip, x ≠ c)
    (h3 : rest = [] ∨ rest.head? = some c) :
    (ip ++ rest).takeWhile (· ≠ c) = ip := by
  induction ip with
  | nil =>
    rcases h3 with h | h
    · subst h; rfl
    · match rest, h with
      | d :: r, h =>
        simp only [List.head?_cons, Option.some.injEq] at h
        subst h; simp
  | cons a t ih =>
    have ha : a ≠ c := h1 a (by simp)
    simp only [List.cons_append, List.takeWhile_cons, ha, ne_eq, not_false_eq_true,
      decide_true, if_true]
    rw [ih (fun x hx => h1 x (by simp [hx]))]

theorem dropWhile_ne_append (c : Char) (ip rest : List Char) (h1 : ∀ x ∈ ip, x ≠ c)
    (h3 : rest = [] ∨ rest.head? = some c) :
    (ip ++ rest).dropWhile (· ≠ c) = rest := by
  induction ip with
  | nil =>
    rcases h3 with h | h
    · subst h; rfl
    · match rest, h with
      | d :: r, h =>
        simp only [List.head?_cons, Option.some.injEq] at h
        subst h; simp
  | cons a t ih =>
    have ha : a ≠ c := h1 a (by simp)
    simp only [List.cons_append, List.dropWhile_cons, ha, ne_eq, not_false_eq_true,
      decide_true, if_true]
    exact ih (fun x hx => h1 x (by simp [hx]))

/-- `addThousandSeparators` on a text that does not start with '-' -/
theorem addThousandSeparators_of_not_minus (s : List Char) (h : s.head? ≠ some '-') :
    addThousandSeparators s =
      withCommas (s.takeWhile (· ≠ '.')) ++ s.dropWhile (· ≠ '.') := by
  unfold addThousandSeparators
  split
  next neg ds heq =>
    split at heq
    · simp at h
    · cases heq; simp

/-- `addThousandSeparators` on a text that starts with '-' -/
theorem addThousandSeparators_minus (s : List Char) :
    addThousandSeparators ('-' :: s) =
      '-' :: (withCommas (s.takeWhile (· ≠ '.')) ++ s.dropWhile (· ≠ '.')) := by
  unfold addThousandSeparators
  simp

/-- B5 (unsigned) -/
theorem addThousandSeparators_unsigned (ip rest : List Char) (h1 : ∀ c ∈ ip, c ≠ '.')
    (h2 : ip.head? ≠ some '-') (h3 : rest = [] ∨ rest.head? = some '.') :
    addThousandSeparators (ip ++ rest) = withCommas ip ++ rest := by
  have hh : (ip ++ rest).head? ≠ some '-' := by
    cases ip with
    | cons a t => simpa using h2
    | nil =>
      rcases h3 with h | h
      · subst h; simp
      · simp [h]
  rw [addThousandSeparators_of_not_minus _ hh, takeWhile_ne_append _ _ _ h1 h3,
    dropWhile_ne_append _ _ _ h1 h3]

/-- B5 (signed) -/
theorem addThousandSeparators_signed (ip rest : List Char) (h1 : ∀ c ∈ ip, c ≠ '.')
    (h3 : rest = [] ∨ rest.head? = some '.') :
    addThousandSeparators ('-' :: ip ++ rest) = '-' :: (withCommas ip ++ rest) := by
  rw [List.cons_append, addThousandSeparators_minus, takeWhile_ne_append _ _ _ h1 h3,
    dropWhile_ne_append _ _ _ h1 h3]

/-- B6 -/
theorem formatIntegerWithSeparators_eq (i : Int) :
    formatIntegerWithSeparators i =
      (if i < 0 then ['-'] else []) ++ withCommas (F64.natDigits i.natAbs).toList := by
  unfold formatIntegerWithSeparators
  by_cases h : i < 0 <;> simp [h]

/-! ## C. trailing-character trimming -/

theorem dropLeading_spec (c : Char) (l : List Char) :
    ∃ n, l = List.replicate n c ++ dropLeading c l ∧ (dropLeading c l).head? ≠ some c := by
  induction l with
  | nil => exact ⟨0, by simp [dropLeading]⟩
  | cons d ds ih =>
    by_cases hd : d = c
    · obtain ⟨n, h1, h2⟩ := ih
      refine ⟨n + 1, ?_, ?_⟩
      · rw [dropLeading, if_pos hd, List.replicate_succ, List.cons_append, ← h1, hd]
      · rw [dropLeading, if_pos hd]; exact h2
    · refine ⟨0, ?_, ?_⟩
      · rw [dropLeading, if_neg hd]; rfl
      · rw [dropLeading, if_neg hd]; simpa using hd

theorem dropLeading_of_head_ne (c : Char) (l : List Char) (h : l.head? ≠ some c) :
    dropLeading c l = l := by
  cases l with
  | nil => rfl
  | cons d ds =>
    have hd : d ≠ c := by simpa using h
    rw [dropLeading, if_neg hd]

theorem dropLeading_replicate_append (c : Char) (n : Nat) (l : List Char) :
    dropLeading c (List.replicate n c ++ l) = dropLeading c l := by
  induction n with
  | zero => rfl
  | succ n ih => rw [List.replicate_succ, List.cons_append, dropLeading, if_pos rfl, ih]

theorem dropLeading_append_cons (c d : Char) (x y : List Char) (h : d ≠ c) :
    dropLeading c (x ++ d :: y) = dropLeading c x ++ d :: y := by
  induction x with
  | nil => simp [dropLeading, h]
  | cons a t ih =>
    by_cases ha : a = c
    · rw [List.cons_append, dropLeading, if_pos ha, ih, dropLeading, if_pos ha]
    · rw [List.cons_append, dropLeading, if_neg ha, dropLeading, if_neg ha]; rfl

/-- C7 -/
theorem trimEnd_nil (c : Char) : trimEnd c [] = [] := rfl

/-- C7: the structure of the result: only a block of `c` is removed, and what remains
    does not end in `c` -/
theorem trimEnd_spec (c : Char) (s : List Char) :
    ∃ n, s = trimEnd c s ++ List.replicate n c ∧ (trimEnd c s).getLast? ≠ some c := by
  obtain ⟨n, h1, h2⟩ := dropLeading_spec c s.reverse
  refine ⟨n, ?_, ?_⟩
  · have := congrArg List.reverse h1
    rw [List.reverse_reverse, List.reverse_append, List.reverse_replicate] at this
    exact this
  · unfold trimEnd; rw [List.getLast?_reverse]; exact h2

theorem trimEnd_replicate (c : Char) (s : List Char) :
    ∃ n, s = trimEnd c s ++ List.replicate n c :=
  let ⟨n, h, _⟩ := trimEnd_spec c s; ⟨n, h⟩

/-- C7 -/
theorem trimEnd_append_same (c : Char) (s : List Char) :
    trimEnd c (s ++ [c]) = trimEnd c s := by
  unfold trimEnd
  rw [List.reverse_append, List.reverse_singleton, List.singleton_append, dropLeading,
    if_pos rfl]

theorem trimEnd_append_replicate (c : Char) (n : Nat) (s : List Char) :
    trimEnd c (s ++ List.replicate n c) = trimEnd c s := by
  unfold trimEnd
  rw [List.reverse_append, List.reverse_replicate, dropLeading_replicate_append]

theorem trimEnd_of_getLast?_ne (c : Char) (s : List Char) (h : s.getLast? ≠ some c) :
    trimEnd c s = s := by
  unfold trimEnd
  rw [dropLeading_of_head_ne c s.reverse (by rw [List.head?_reverse]; exact h),
    List.reverse_reverse]

/-- C7 -/
theorem trimEnd_of_getLast_ne (c d : Char) (t : List Char) (h : d ≠ c) :
    trimEnd c (t ++ [d]) = t ++ [d] :=
  trimEnd_of_getLast?_ne c _ (by simpa using h)

theorem trimEnd_of_not_mem (c : Char) (s : List Char) (h : c ∉ s) : trimEnd c s = s :=
  trimEnd_of_getLast?_ne c s (fun hl => h (List.mem_of_getLast? hl))

theorem trimEnd_append_cons (c d : Char) (a b : List Char) (h : d ≠ c) :
    trimEnd c (a ++ d :: b) = a ++ d :: trimEnd c b := by
  unfold trimEnd
  rw [List.reverse_append, List.reverse_cons, List.append_assoc, List.singleton_append,
    dropLeading_append_cons c d _ _ h, List.reverse_append, List.reverse_cons,
    List.reverse_reverse, List.append_assoc, List.singleton_append]

private theorem getLast?_append_ne_nil (a l : List Char) (h : l ≠ []) :
    (a ++ l).getLast? = l.getLast? := by
  rw [List.getLast?_append]
  cases l with
  | nil => exact absurd rfl h
  | cons x t => rw [List.getLast?_cons]; rfl

theorem mem_of_mem_trimEnd (c : Char) (s : List Char) : ∀ x ∈ trimEnd c s, x ∈ s := by
  intro x hx
  obtain ⟨n, h⟩ := trimEnd_replicate c s
  rw [h]; exact List.mem_append_left _ hx

theorem trimEnd_idem (c : Char) (s : List Char) : trimEnd c (trimEnd c s) = trimEnd c s :=
  let ⟨_, _, h⟩ := trimEnd_spec c s; trimEnd_of_getLast?_ne c _ h

/-! ### digit values -/

private theorem foldl_digits (b : List Char) : ∀ acc : Nat,
    b.foldl (fun a c => a * 10 + (c.toNat - 48)) acc =
      acc * 10 ^ b.length + b.foldl (fun a c => a * 10 + (c.toNat - 48)) 0 := by
  induction b with
  | nil => intro acc; simp
  | cons x t ih =>
    intro acc
    rw [List.foldl_cons, ih, List.foldl_cons, ih (0 * 10 + (x.toNat - 48)), List.length_cons,
      Nat.pow_succ]
    grind

theorem digitsVal_append (a b : List Char) :
    digitsVal (a ++ b) = digitsVal a * 10 ^ b.length + digitsVal b := by
  unfold digitsVal F64.digitsVal
  rw [List.foldl_append, foldl_digits]

theorem digitsVal_replicate_zero (n : Nat) : digitsVal (List.replicate n '0') = 0 := by
  induction n with
  | zero => rfl
  | succ n ih =>
    rw [List.replicate_succ']
    rw [digitsVal_append, ih]; rfl

theorem digitsVal_append_zero (a : List Char) : digitsVal (a ++ ['0']) = digitsVal a * 10 := by
  rw [digitsVal_append]; rfl

theorem digitsVal_append_zeros (a : List Char) (n : Nat) :
    digitsVal (a ++ List.replicate n '0') = digitsVal a * 10 ^ n := by
  rw [digitsVal_append, digitsVal_replicate_zero, List.length_replicate, Nat.add_zero]

/-! ### `decValue` of the two shapes -/

theorem decValue_no_dot (ip : List Char) (h : '.' ∉ ip) : decValue ip = (digitsVal ip, 1) := by
  have h1 : ∀ x ∈ ip, x ≠ '.' := fun x hx hxe => h (hxe ▸ hx)
  have ht := takeWhile_ne_append '.' ip [] h1 (Or.inl rfl)
  have hd := dropWhile_ne_append '.' ip [] h1 (Or.inl rfl)
  rw [List.append_nil] at ht hd
  unfold decValue
  simp only [ht, hd, List.drop_nil, List.append_nil, List.length_nil, Nat.pow_zero]

theorem decValue_dot (ip fp : List Char) (h : '.' ∉ ip) :
    decValue (ip ++ '.' :: fp) = (digitsVal (ip ++ fp), 10 ^ fp.length) := by
  have h1 : ∀ x ∈ ip, x ≠ '.' := fun x hx hxe => h (hxe ▸ hx)
  have ht := takeWhile_ne_append '.' ip ('.' :: fp) h1 (Or.inr rfl)
  have hd := dropWhile_ne_append '.' ip ('.' :: fp) h1 (Or.inr rfl)
  unfold decValue
  simp only [ht, hd, List.drop_succ_cons, List.drop_zero]

/-! ### C8 / C9: `trimFraction` and the two trims of `formatMantissa` -/

/-- C9 -/
theorem trimFraction_no_dot (s : List Char) (h : '.' ∉ s) : trimFraction s = s := by
  unfold trimFraction
  rw [if_neg (by simpa using h)]

/-- with a '.' present, `trimFraction` is exactly the two trims of `formatMantissa` -/
theorem trimFraction_of_dot (s : List Char) (h : '.' ∈ s) :
    trimFraction s = trimEnd '.' (trimEnd '0' s) := by
  unfold trimFraction
  rw [if_pos (by simpa using h)]
  by_cases hl : (trimEnd '0' s).getLast? = some '.'
  · simp only [hl, if_true]
  · simp only [hl, if_false]
    exact (trimEnd_of_getLast?_ne '.' _ hl).symm

/-- the result of the two trims on `ip.fp` -/
theorem trim2_dot (ip fp : List Char) (h1 : '.' ∉ ip) (h2 : '.' ∉ fp) :
    trimEnd '.' (trimEnd '0' (ip ++ '.' :: fp)) =
      if trimEnd '0' fp = [] then ip else ip ++ '.' :: trimEnd '0' fp := by
  rw [trimEnd_append_cons '0' '.' ip fp (by decide)]
  by_cases hfp : trimEnd '0' fp = []
  · rw [hfp, if_pos rfl, trimEnd_append_same, trimEnd_of_not_mem _ _ h1]
  · rw [if_neg hfp]
    apply trimEnd_of_getLast?_ne
    intro hl
    rw [show ip ++ '.' :: trimEnd '0' fp = (ip ++ ['.']) ++ trimEnd '0' fp by simp,
      getLast?_append_ne_nil _ _ hfp] at hl
    exact h2 (mem_of_mem_trimEnd '0' fp _ (List.mem_of_getLast? hl))

/-- C8 for the two trims of `formatMantissa`: the denoted rational is unchanged.
    (Only "no '.' in either part" is needed, digits or not.) -/
theorem trim2_value (ip fp : List Char) (h1 : '.' ∉ ip) (h2 : '.' ∉ fp) :
    ratEq (decValue (trimEnd '.' (trimEnd '0' (ip ++ '.' :: fp)))) (decValue (ip ++ '.' :: fp)) := by
  have key : decValue (trimEnd '.' (trimEnd '0' (ip ++ '.' :: fp))) =
      (digitsVal (ip ++ trimEnd '0' fp), 10 ^ (trimEnd '0' fp).length) := by
    rw [trim2_dot ip fp h1 h2]
    by_cases hfp : trimEnd '0' fp = []
    · rw [if_pos hfp, hfp, decValue_no_dot ip h1]; simp
    · rw [if_neg hfp, decValue_dot _ _ h1]
  rw [key, decValue_dot ip fp h1]
  obtain ⟨n, hn⟩ := trimEnd_replicate '0' fp
  generalize trimEnd '0' fp = fp' at hn
  subst hn
  unfold ratEq
  simp only
  rw [← List.append_assoc, digitsVal_append_zeros, List.length_append, List.length_replicate,
    Nat.pow_add]
  grind

/-- C8: `trimFraction` keeps the denoted rational -/
theorem trimFraction_value (ip fp : List Char) (h1 : '.' ∉ ip) (h2 : '.' ∉ fp) :
    ratEq (decValue (trimFraction (ip ++ '.' :: fp))) (decValue (ip ++ '.' :: fp)) := by
  rw [trimFraction_of_dot _ (by simp)]
  exact trim2_value ip fp h1 h2

theorem not_dot_of_isDigit (l : List Char) (h : ∀ c ∈ l, isDigit c = true) : '.' ∉ l :=
  fun hm => absurd (h _ hm) (by decide)

/-- C8 as stated for digit lists -/
theorem trimFraction_value_digits (ip fp : List Char) (hi : ∀ c ∈ ip, isDigit c = true)
    (hf : ∀ c ∈ fp, isDigit c = true) :
    ratEq (decValue (trimFraction (ip ++ '.' :: fp))) (decValue (ip ++ '.' :: fp)) :=
  trimFraction_value ip fp (not_dot_of_isDigit ip hi) (not_dot_of_isDigit fp hf)

theorem formatMantissa_trims_value_digits (ip fp : List Char) (hi : ∀ c ∈ ip, isDigit c = true)
    (hf : ∀ c ∈ fp, isDigit c = true) :
    ratEq (decValue (trimEnd '.' (trimEnd '0' (ip ++ '.' :: fp)))) (decValue (ip ++ '.' :: fp)) :=
  trim2_value ip fp (not_dot_of_isDigit ip hi) (not_dot_of_isDigit fp hf)

/-! ## corollaries for the callers -/

theorem isDigit_eq_core (c : Char) : isDigit c = c.isDigit := by
  unfold isDigit F64.isDigit Char.isDigit
  rfl

theorem natDigits_isDigit (n : Nat) : ∀ c ∈ (F64.natDigits n).toList, isDigit c = true := by
  intro c hc
  unfold F64.natDigits at hc
  rw [Nat.toString_eq_repr, Nat.toList_repr] at hc
  rw [isDigit_eq_core]
  exact Nat.isDigit_of_mem_toDigits (by decide) (by decide) hc

theorem natDigits_ne_nil (n : Nat) : (F64.natDigits n).toList ≠ [] := by
  unfold F64.natDigits
  rw [Nat.toString_eq_repr, Nat.toList_repr]
  exact Nat.toDigits_ne_nil

theorem not_comma_of_isDigit (l : List Char) (h : ∀ c ∈ l, isDigit c = true) :
    ∀ c ∈ l, c ≠ ',' :=
  fun c hc he => absurd (h c hc) (by rw [he]; decide)

theorem stripCommas_append (a b : List Char) :
    stripCommas (a ++ b) = stripCommas a ++ stripCommas b := by
  unfold stripCommas; exact List.filter_append ..

theorem stripCommas_of_no_comma (l : List Char) (h : ∀ c ∈ l, c ≠ ',') : stripCommas l = l :=
  List.filter_eq_self.mpr (fun c hc => by simpa using h c hc)

/-- the integer path: sign, then the grouped digits of |i|; removing the commas gives
    `i.to_string()` back -/
theorem formatIntegerWithSeparators_spec (i : Int) :
    ∃ body, formatIntegerWithSeparators i = (if i < 0 then ['-'] else []) ++ body ∧
      isGrouped body = true ∧
      stripCommas body = (F64.natDigits i.natAbs).toList ∧
      body.head? = (F64.natDigits i.natAbs).toList.head? :=
  ⟨withCommas (F64.natDigits i.natAbs).toList, formatIntegerWithSeparators_eq i,
    withCommas_grouped _ (natDigits_ne_nil _) (natDigits_isDigit _),
    withCommas_strip _ (not_comma_of_isDigit _ (natDigits_isDigit _)),
    withCommas_head _⟩

theorem formatIntegerWithSeparators_strip (i : Int) :
    stripCommas (formatIntegerWithSeparators i) = intToString i := by
  rw [formatIntegerWithSeparators_eq, stripCommas_append,
    withCommas_strip _ (not_comma_of_isDigit _ (natDigits_isDigit _))]
  unfold intToString
  by_cases h : i < 0 <;> simp [h, stripCommas]

/-- removing the commas undoes `addThousandSeparators` on `digits[.digits]` -/
theorem addThousandSeparators_strip_unsigned (ip rest : List Char) (h1 : ∀ c ∈ ip, c ≠ '.')
    (h2 : ip.head? ≠ some '-') (h3 : rest = [] ∨ rest.head? = some '.')
    (hi : ∀ c ∈ ip, c ≠ ',') (hr : ∀ c ∈ rest, c ≠ ',') :
    stripCommas (addThousandSeparators (ip ++ rest)) = ip ++ rest := by
  rw [addThousandSeparators_unsigned ip rest h1 h2 h3, stripCommas_append,
    withCommas_strip ip hi, stripCommas_of_no_comma rest hr]

theorem addThousandSeparators_strip_signed (ip rest : List Char) (h1 : ∀ c ∈ ip, c ≠ '.')
    (h3 : rest = [] ∨ rest.head? = some '.')
    (hi : ∀ c ∈ ip, c ≠ ',') (hr : ∀ c ∈ rest, c ≠ ',') :
    stripCommas (addThousandSeparators ('-' :: ip ++ rest)) = '-' :: ip ++ rest := by
  rw [addThousandSeparators_signed ip rest h1 h3]
  rw [show '-' :: (withCommas ip ++ rest) = ['-'] ++ (withCommas ip ++ rest) from rfl,
    stripCommas_append, stripCommas_append, withCommas_strip ip hi,
    stripCommas_of_no_comma rest hr]
  rfl

/-- `formatMantissa` keeps the value of the `{:.14}` text it trims -/
theorem formatMantissa_value (m : F64) (ip fp : List Char)
    (hs : (F64.toFixed m 14).toList = ip ++ '.' :: fp)
    (hi : ∀ c ∈ ip, isDigit c = true) (hf : ∀ c ∈ fp, isDigit c = true) :
    ratEq (decValue (formatMantissa m)) (decValue (ip ++ '.' :: fp)) := by
  unfold formatMantissa; rw [hs]
  exact formatMantissa_trims_value_digits ip fp hi hf

/-- `formatFloatSignificant` keeps the value of the `{:.N}` text it trims -/
theorem formatFloatSignificant_value (ops : NumOps) (v : F64) (k : Nat) (ip fp : List Char)
    (hs : (F64.toFixed v (decimalPlaces ops v k)).toList = ip ++ '.' :: fp)
    (hi : ∀ c ∈ ip, isDigit c = true) (hf : ∀ c ∈ fp, isDigit c = true) :
    ratEq (decValue (formatFloatSignificant ops v k)) (decValue (ip ++ '.' :: fp)) := by
  unfold formatFloatSignificant; rw [hs]
  exact trimFraction_value_digits ip fp hi hf

/-! ## non-vacuity: the statements on concrete values -/

example : withCommas "1234567".toList = "1,234,567".toList := by decide
example : withCommas "123".toList = "123".toList := by decide
example : withCommas "1000".toList = "1,000".toList := by decide
example : groupRev "7654321".toList 0 = interc "7654321".toList := by decide
example : isGrouped "1,234".toList = true := by decide
example : isGrouped "1234".toList = false := by decide
example : isGrouped ",123".toList = false := by decide
example : isGrouped "1,23".toList = false := by decide
example : isGrouped "".toList = false := by decide
-- hypotheses of A1 / A2 are met by "1234567"
example : ∀ c ∈ "1234567".toList, c ≠ ',' := by decide
example : ∀ c ∈ "1234567".toList, isDigit c = true := by decide
example : stripCommas (withCommas "1234567".toList) = "1234567".toList :=
  withCommas_strip _ (by decide)
example : isGrouped (withCommas "1234567".toList) = true :=
  withCommas_grouped _ (by decide) (by decide)
-- the digit hypothesis of A2 is needed: a non-digit is not grouped
example : isGrouped (withCommas "12a4".toList) = false := by decide
-- B5
example : addThousandSeparators "1234567.25".toList = "1,234,567.25".toList := by decide
example : addThousandSeparators "-1234.5".toList = "-1,234.5".toList := by decide
example : addThousandSeparators "-1234.5".toList = '-' :: (withCommas "1234".toList ++ ".5".toList) :=
  addThousandSeparators_signed "1234".toList ".5".toList (by decide) (by decide)
example : addThousandSeparators "999".toList = "999".toList :=
  addThousandSeparators_unsigned "999".toList [] (by decide) (by decide) (Or.inl rfl)
-- B6
example : formatIntegerWithSeparators (-1234567) = "-1,234,567".toList := by decide
example : formatIntegerWithSeparators 0 = "0".toList := by decide
-- C7
example : trimEnd '0' "12.500".toList = "12.5".toList := by decide
example : trimEnd '0' "000".toList = [] := by decide
example : ∃ n, "12.500".toList = trimEnd '0' "12.500".toList ++ List.replicate n '0' :=
  trimEnd_replicate _ _
-- C8 / C9
example : trimFraction "12.500".toList = "12.5".toList := by decide
example : trimFraction "12.000".toList = "12".toList := by decide
example : trimFraction "1200".toList = "1200".toList := by decide
example : trimFraction "0.00012300".toList = "0.000123".toList := by decide
example : decValue "12.500".toList = (12500, 1000) := by decide
example : decValue "12.5".toList = (125, 10) := by decide
example : ratEq (decValue (trimFraction "12.500".toList)) (decValue "12.500".toList) :=
  trimFraction_value_digits "12".toList "500".toList (by decide) (by decide)
example : ratEq (decValue (trimEnd '.' (trimEnd '0' "3.00000000000000".toList)))
    (decValue "3.00000000000000".toList) :=
  formatMantissa_trims_value_digits "3".toList "00000000000000".toList (by decide) (by decide)
-- `ratEq` separates different values
example : ¬ ratEq (decValue "12.5".toList) (decValue "12.05".toList) := by decide

end Blots.Display
