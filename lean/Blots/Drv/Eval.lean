import Blots.Model.Eval
/- Driver handlers: the evaluator. -/
namespace Blots.Drv

def outcomeWire (r : Outcome Value) : String :=
  match r with
  | .ok v => "(ok " ++ v.toSx.toStr ++ ")"
  | .err .depth => "(err depth)"
  | .err .alreadyDefined => "(err already-defined)"
  | .err _ => "(err)"
  | .panic p => "(panic " ++ encStr p ++ ")"
  | .fuel => "(fuel)"

def frameWire (f : Frame) : String :=
  "(env" ++ String.join ((sortKV f).map fun (k, v) => " (" ++ encStr k ++ " " ++ v.toSx.toStr ++ ")") ++ ")"

/-- evaluate statements in order in one root environment (continuing after failures, like a
    REPL session); returns the outcome of each and the final root frame -/
def runSession (ops : NumOps) (fuel : Nat) (s0 : ES) (stmts : List Expr) : List (Outcome Value) × ES :=
  stmts.foldl (fun (acc, s) e =>
    let (r, s1) := eval ops fuel 0 e s
    (acc ++ [r], s1)) ([], s0)

def initialES (inputs : Option Value) : ES :=
  { env := [match inputs with | some v => [("inputs", v)] | none => []], nextId := 1, names := [] }

def handleEval (req : List Sx) : Option String :=
  match req with
  | [.atom "session", .atom fuel, inputs, .list stmts] =>
    let inp : Option (Option Value) := match inputs with
      | .atom "-" => some none
      | v => (Value.ofSx v).map some
    match fuel.toNat?, inp, stmts.mapM Expr.ofSx with
    | some f, some i, some es =>
      let (rs, s) := runSession NumOps.native f (initialES i) es
      some ("(" ++ " ".intercalate (rs.map outcomeWire) ++ ") " ++ frameWire (s.env.headD []))
    | _, _, _ => some "bad-request"
  | [.atom "session-negnan", .atom fuel, inputs, .list stmts] =>
    -- the same session under the other NaN-sign convention (see `NumOps.nativeNegNaN`)
    let inp : Option (Option Value) := match inputs with
      | .atom "-" => some none
      | v => (Value.ofSx v).map some
    match fuel.toNat?, inp, stmts.mapM Expr.ofSx with
    | some f, some i, some es =>
      let (rs, s) := runSession NumOps.nativeNegNaN f (initialES i) es
      some ("(" ++ " ".intercalate (rs.map outcomeWire) ++ ") " ++ frameWire (s.env.headD []))
    | _, _, _ => some "bad-request"
  | [.atom "binop", .atom o, a, b] =>
    -- operator applied to two data values (no callable operands)
    match BinOp.ofWire o, Value.ofSx a, Value.ofSx b with
    | some op, some x, some y =>
      some (outcomeWire (evalBin NumOps.native 1000 0 op x y (initialES none)).1)
    | _, _, _ => some "bad-request"
  | [.atom "builtin", .atom name, .list args] =>
    match args.mapM Value.ofSx with
    | some vs =>
      some (outcomeWire (callFn NumOps.native 100000 (.builtin name) (.builtin name) vs 0 (initialES none)).1)
    | none => some "bad-request"
  | [.atom "freevars", e] =>
    match Expr.ofSx e with
    | some x => some ("(" ++ " ".intercalate ((freeVars [] x).map encStr) ++ ")")
    | none => some "bad-request"
  | [.atom "stringify", v] =>
    match Value.ofSx v with
    | some x => some (encStr (stringifyInternal NumOps.native x))
    | none => some "bad-request"
  | _ => none

end Blots.Drv
