import Blots.Model.Units
/-
  Driver handlers for the unit model (C17).

    unit-resolve <hstr>                     → (ok <unit index>) | (err unknown) | (err ambiguous)
    unit-convert <bits> <hstr from> <hstr to>
                                            → (ok <bits>) | (err from-unknown) | (err from-ambiguous)
                                              | (err to-unknown) | (err to-ambiguous) | (err category)
        over doubles with `NumOps.native` (bit-exact against `units::convert`)
    unit-convert-q <bits> <hstr from> <hstr to>
                                            → (ok <bits>)  the double nearest to the EXACT rational
                                              result of converting the exact value of <bits> with the
                                              literal coefficients | (inf) | (nonfinite) | (err …)
    unit-lower <hstr>                       → <hstr>   the model's `to_lowercase`
    unit-lower-table                        → ((<cp> <cp>…) …) (<alphabet cp> …)
    unit-table                              → ((<hstr category name> <kind> <a> <b> (<hstr id> …) (<hstr lower> …)) …)
        kind = linear | reciprocal : a = coefficient bits, b = plain|expr
        kind = temperature          : a = to_kelvin fn name, b = from_kelvin fn name
-/
namespace Blots.Drv
open Blots Blots.Gen Blots.Units

def resolvedWire : Resolved → String
  | .ok i => s!"(ok {i})"
  | .unknown => "(err unknown)"
  | .ambiguous => "(err ambiguous)"

def convertedErrWire {α} : Converted α → String
  | .ok _ => "(ok)"
  | .fromUnknown => "(err from-unknown)"
  | .fromAmbiguous => "(err from-ambiguous)"
  | .toUnknown => "(err to-unknown)"
  | .toAmbiguous => "(err to-ambiguous)"
  | .category => "(err category)"

def unitRowWire (u : UnitRow) : String :=
  let cat := encStr ((categories.getD u.cat ("?", "?")).2)
  let ids := " ".intercalate (u.ids.map fun c => encStr (strOfCodes c))
  let lows := " ".intercalate (u.lowers.map fun c => encStr (strOfCodes c))
  let conv := match u.conv with
    | .linear _ _ bits plain => s!"linear {hex64 (UInt64.ofNat bits)} {if plain then "plain" else "expr"}"
    | .reciprocal _ _ bits plain => s!"reciprocal {hex64 (UInt64.ofNat bits)} {if plain then "plain" else "expr"}"
    | .temperature a b => s!"temperature {a.name} {b.name}"
  s!"({cat} {conv} ({ids}) ({lows}))"

def natsWire (l : List Nat) : String := " ".intercalate (l.map toString)

def handleUnits (req : List Sx) : Option String :=
  match req with
  | [.atom "unit-resolve", .atom s] =>
    match decStr s with
    | some str => some (resolvedWire (resolveUnit str))
    | none => some "bad-request"
  | [.atom "unit-convert", .atom b, .atom f, .atom t] =>
    match parseHex64 b, decStr f, decStr t with
    | some bits, some fs, some ts =>
      match convertF NumOps.native ⟨bits⟩ (codesOf fs) (codesOf ts) with
      | .ok r => some s!"(ok {hex64 r.bits})"
      | e => some (convertedErrWire e)
    | _, _, _ => some "bad-request"
  | [.atom "unit-convert-q", .atom b, .atom f, .atom t] =>
    match parseHex64 b, decStr f, decStr t with
    | some bits, some fs, some ts =>
      let x : F64 := ⟨bits⟩
      if !x.isFinite then some "(nonfinite)" else
      match convertQ (f64ToRat x) (codesOf fs) (codesOf ts) with
      | .ok (some q) => some s!"(ok {hex64 (ratToF64 q).bits})"
      | .ok none => some "(inf)"
      | e => some (convertedErrWire e)
    | _, _, _ => some "bad-request"
  | [.atom "unit-lower", .atom s] =>
    match decStr s with
    | some str => some (encStr (strOfCodes (lowerCodes (codesOf str))))
    | none => some "bad-request"
  | [.atom "unit-lower-table"] =>
    some ("(" ++ " ".intercalate (lowerTable.map fun (c, l) => s!"({c} {natsWire l})") ++ ") ("
          ++ natsWire lowerAlphabet ++ ")")
  | [.atom "unit-table"] =>
    some ("(" ++ " ".intercalate (units.map unitRowWire) ++ ")")
  | _ => none

end Blots.Drv
