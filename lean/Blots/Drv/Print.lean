import Blots.Model.Format
import Blots.Model.Pratt
/- Driver handlers: printers, formatter, Pratt parser. -/
namespace Blots.Drv

partial def svOfSx : Sx → Option SV
  | .list [.atom "num", .atom b] => (parseHex64 b).map fun u => .num ⟨u⟩
  | .list [.atom "bool", .atom "t"] => some (.bool true)
  | .list [.atom "bool", .atom "f"] => some (.bool false)
  | .list [.atom "null"] => some .null
  | .list [.atom "str", .atom a] => (decStr a).map .str
  | .list (.atom "list" :: xs) => (xs.mapM svOfSx).map .list
  | .list (.atom "record" :: kvs) =>
      (kvs.mapM fun
        | Sx.list [.atom k, v] => do pure ((← decStr k), (← svOfSx v))
        | _ => none).map .record
  | .list [.atom "svlambda", .list as, .atom body] => do
      pure (.lambda (← as.mapM decArg) (← decStr body))
  | .list [.atom "builtin", .atom n] => some (.builtin n)
  | _ => none

def scopeOfSx : Sx → Option Scope
  | .list (.atom "scope" :: kvs) =>
      kvs.mapM fun
        | Sx.list [.atom k, v] => do pure ((← decStr k), (← svOfSx v))
        | _ => none
  | _ => none

def handlePrint (req : List Sx) : Option String :=
  match req with
  | [.atom "src", e] =>
    match Expr.ofSx e with
    | some x => some (encStr (exprToSource x))
    | none => some "bad-request"
  | [.atom "src-scope", e, sc] =>
    match Expr.ofSx e, scopeOfSx sc with
    | some x, some s => some (encStr (exprSrc s x))
    | _, _ => some "bad-request"
  | [.atom "sv-src", v] =>
    match svOfSx v with
    | some x => some (encStr (svToSource x))
    | none => some "bad-request"
  | [.atom "fmt", .atom w, e] =>
    match w.toNat?, Expr.ofSx e with
    | some n, some x => some (encStr (formatExpr x (some n)))
    | _, _ => some "bad-request"
  | [.atom "fmt-comments", .atom w, e] =>
    -- the comment pieces of `format_expr`'s output, as shown there, in output order
    match w.toNat?, Expr.ofSx e with
    | some n, some x =>
      some ("(" ++ " ".intercalate ((commentPieces (formatExprP x (some n))).map encStr) ++ ")")
    | _, _ => some "bad-request"
  | [.atom "fmt-single", e] =>
    match Expr.ofSx e with
    | some x => some (encStr (fmtSingle x))
    | none => some "bad-request"
  | [.atom "pratt", .list items] =>
    match items.mapM PItem.ofSx with
    | some its =>
      match prattParse its with
      | some e => some ("(ok " ++ e.toSx.toStr ++ ")")
      | none => some "(none)"
    | none => some "bad-request"
  | [.atom "join", .list stmts] =>
    match stmts.mapM (fun
        | Sx.list [.atom s, .atom a, .atom b] => do pure ((← decStr s), (← a.toNat?), (← b.toNat?))
        | _ => none) with
    | some xs => some (encStr (joinStatementsWithSpacing xs))
    | none => some "bad-request"
  | [.atom "key-src", .atom k] =>
    match decStr k with
    | some s => some (encStr (formatRecordKey s))
    | none => some "bad-request"
  | _ => none

end Blots.Drv
