import Blots.Model.Outcome
/-
  Driver handlers for the core model (values, numbers, wire echo).
  A handler takes the request (the inside of an S-expression list) and answers `some
  response` when the command is its own.  `Driver/Main.lean` tries the handlers in turn.
-/
namespace Blots.Drv

def ordStr : Option Ordering → String
  | none => "none"
  | some .lt => "lt"
  | some .eq => "eq"
  | some .gt => "gt"

def boolStr (b : Bool) : String := if b then "t" else "f"

def handleCore (req : List Sx) : Option String :=
  match req with
  | [.atom "ping"] => some "pong"
  | [.atom "veq", a, b] =>
    match Value.ofSx a, Value.ofSx b with
    | some x, some y => some (boolStr (veq x y))
    | _, _ => some "bad-request"
  | [.atom "vcmp", a, b] =>
    match Value.ofSx a, Value.ofSx b with
    | some x, some y => some (ordStr (vcmp x y))
    | _, _ => some "bad-request"
  | [.atom "cmpop", .atom o, a, b] =>
    match BinOp.ofWire o, Value.ofSx a, Value.ofSx b with
    | some op, some x, some y => some (compareOp op x y).wire
    | _, _, _ => some "bad-request"
  | [.atom "ucmp", .atom n, a, b] =>
    match Value.ofSx a, Value.ofSx b with
    | some x, some y => some (uncheckedCmp n x y).wire
    | _, _ => some "bad-request"
  | [.atom "echo-expr", e] =>
    match Expr.ofSx e with
    | some x => some x.toSx.toStr
    | none => some "bad-request"
  | [.atom "echo-value", e] =>
    match Value.ofSx e with
    | some x => some x.toSx.toStr
    | none => some "bad-request"
  | [.atom "num-display", .atom b] =>
    match parseHex64 b with
    | some u => some (encStr (F64.toDisplay ⟨u⟩))
    | none => some "bad-request"
  | [.atom "num-fixed", .atom b, .atom p] =>
    match parseHex64 b, p.toNat? with
    | some u, some n => some (encStr (F64.toFixed ⟨u⟩ n))
    | _, _ => some "bad-request"
  | [.atom "num-exp", .atom b, .atom p] =>
    match parseHex64 b, p.toNat? with
    | some u, some n => some (encStr (F64.toExp ⟨u⟩ n))
    | _, _ => some "bad-request"
  | [.atom "num-parse", .atom s] =>
    match decStr s with
    | some str => match F64.parseDec str with
      | some x => some (hex64 x.bits)
      | none => some "none"
    | none => some "bad-request"
  | [.atom "num-cast", .atom b] =>
    match parseHex64 b with
    | some u =>
      let x : F64 := ⟨u⟩
      some s!"{x.toI64} {x.toU64} {x.toI32} {boolStr x.isIntegral}"
    | none => some "bad-request"
  | [.atom "num-cmp", .atom a, .atom b] =>
    match parseHex64 a, parseHex64 b with
    | some x, some y => some s!"{ordStr (F64.pcmp ⟨x⟩ ⟨y⟩)} {boolStr (F64.feq ⟨x⟩ ⟨y⟩)}"
    | _, _ => some "bad-request"
  | _ => none

end Blots.Drv
