import Blots.Drv.Core
import Blots.Model.Display
import Blots.Model.NumText
/-
  Driver handlers for number display (C20) and number ↔ text (C16).

    display <bits>                → `<hstr> <path>`   model of format_display_number
    literal <hstr>                → `(ok <bits>)` | `(err)`
    src-number <bits>             → `<hstr>`
    json-number <bits>            → `<hstr>`
    shortest-found <bits>         → `<t|f> <t|f>`   hypothesis ShortestFound (tie up / tie even)
    display-judge <bits> <hstr>   → the exact referee, INDEPENDENT of the code model:
        `wf=<t|f> kind=<nan|inf|-inf|std|sci|none> exact=<t|f> lt1=<t|f> half=<t|f> err=<n>/<d>`
      wf     the text is a well-formed numeral (grammar below)
      exact  the numeral denotes exactly the double
      lt1    |numeral − x| < one unit in the 15th significant digit of x, 10^(⌊log10|x|⌋−14)
      half   |numeral − x| ≤ half that unit (what correct rounding would give)
      err    the distance in those units, as a reduced fraction
    All arithmetic is exact on `Nat`/`Int`.
-/
namespace Blots.Drv

open Blots

/-! ### the referee's own numeral grammar

    numeral  := "NaN" | "Infinity" | "-Infinity" | "-"? (standard | scientific)
    standard := grouped ("." digit+)?
    grouped  := "0" | nonzero digit{0,2} ("," digit{3})*
    scientific := digit ("." digit+)? "e" "-"? digit+          -/

structure Judged where
  negative : Bool
  /-- numerator of the magnitude -/
  num : Nat
  /-- denominator of the magnitude (> 0) -/
  den : Nat
  sci : Bool

private def jIsDigit (c : Char) : Bool := c.toNat ≥ 48 && c.toNat ≤ 57
private def jVal (cs : List Char) : Nat := cs.foldl (fun a c => a * 10 + (c.toNat - 48)) 0

/-- split at every `sep` -/
private def jSplit (sep : Char) (cs : List Char) : List (List Char) :=
  let rec go (cs : List Char) (cur : List Char) (acc : List (List Char)) : List (List Char) :=
    match cs with
    | [] => (cur.reverse :: acc).reverse
    | c :: r => if c = sep then go r [] (cur.reverse :: acc) else go r (c :: cur) acc
  go cs [] []

/-- integer part with comma groups → its digits, if well-formed -/
private def jGrouped (cs : List Char) : Option (List Char) :=
  match jSplit ',' cs with
  | [] => none
  | g :: gs =>
    if g.isEmpty || g.length > 3 || !g.all jIsDigit then none
    else if !gs.all (fun h => h.length == 3 && h.all jIsDigit) then none
    else if g.head? == some '0' && !(g.length == 1 && gs.isEmpty) then none   -- leading zero
    else some (g ++ gs.flatten)

private def jStandard (cs : List Char) : Option (Nat × Nat) :=
  match jSplit '.' cs with
  | [ip] => (jGrouped ip).map fun ds => (jVal ds, 1)
  | [ip, fp] =>
    if fp.isEmpty || !fp.all jIsDigit then none
    else (jGrouped ip).map fun ds => (jVal (ds ++ fp), 10 ^ fp.length)
  | _ => none

private def jScientific (cs : List Char) : Option (Nat × Nat) :=
  match jSplit 'e' cs with
  | [m, e] =>
    let mant : Option (Nat × Nat) :=
      match jSplit '.' m with
      | [ip] => if ip.length == 1 && ip.all jIsDigit then some (jVal ip, 1) else none
      | [ip, fp] =>
        if ip.length == 1 && ip.all jIsDigit && !fp.isEmpty && fp.all jIsDigit
        then some (jVal (ip ++ fp), 10 ^ fp.length) else none
      | _ => none
    let (eneg, ed) := match e with
      | '-' :: r => (true, r)
      | r => (false, r)
    if ed.isEmpty || !ed.all jIsDigit || ed.length > 4 then none
    else
      let ev := jVal ed
      mant.map fun (n, d) => if eneg then (n, d * 10 ^ ev) else (n * 10 ^ ev, d)
  | _ => none

def judgeParse (cs : List Char) : Option Judged :=
  let (negative, body) := match cs with
    | '-' :: r => (true, r)
    | r => (false, r)
  match jStandard body with
  | some (n, d) => some ⟨negative, n, d, false⟩
  | none => match jScientific body with
    | some (n, d) => some ⟨negative, n, d, true⟩
    | none => none

/-- ⌊log10 (n/d)⌋ for n, d > 0, by exact comparison -/
def floorLog10 (n d : Nat) : Int :=
  let ge10 (k : Int) : Bool := if k ≥ 0 then n ≥ d * 10 ^ k.toNat else n * 10 ^ (-k).toNat ≥ d
  let est : Int := (Int.ofNat n.log2 - Int.ofNat d.log2) * 30103 / 100000
  let rec up (k : Int) (fuel : Nat) : Int :=
    match fuel with
    | 0 => k
    | fuel + 1 => if ge10 (k + 1) then up (k + 1) fuel else k
  let rec down (k : Int) (fuel : Nat) : Int :=
    match fuel with
    | 0 => k
    | fuel + 1 => if ge10 k then k else down (k - 1) fuel
  up (down est 8) 8

def judge (x : F64) (text : String) : String :=
  let cs := text.toList
  if text = "NaN" then s!"wf=t kind=nan exact={boolStr x.isNaN} lt1={boolStr x.isNaN} half={boolStr x.isNaN} err=0/1"
  else if text = "Infinity" then
    let ok := x.isInf && !x.neg
    s!"wf=t kind=inf exact={boolStr ok} lt1={boolStr ok} half={boolStr ok} err=0/1"
  else if text = "-Infinity" then
    let ok := x.isInf && x.neg
    s!"wf=t kind=-inf exact={boolStr ok} lt1={boolStr ok} half={boolStr ok} err=0/1"
  else
    match judgeParse cs with
    | none => "wf=f kind=none exact=f lt1=f half=f err=0/1"
    | some j =>
      let kind := if j.sci then "sci" else "std"
      if !x.isFinite then s!"wf=t kind={kind} exact=f lt1=f half=f err=0/1"
      else
        let (xn, xd) := x.ratio
        -- signed difference numerator over the common denominator j.den * xd
        let a : Int := (if j.negative then -1 else 1) * Int.ofNat (j.num * xd)
        let b : Int := (if x.neg then -1 else 1) * Int.ofNat (xn * j.den)
        let diffN : Nat := (a - b).natAbs
        let diffD : Nat := j.den * xd
        if xn = 0 then
          let ex := diffN == 0      -- value equality: "0" and "-0" both denote a zero
          s!"wf=t kind={kind} exact={boolStr ex} lt1={boolStr ex} half={boolStr ex} err={diffN}/{diffD}"
        else
          let k := floorLog10 xn xd
          let u : Int := k - 14
          let (en, ed) : Nat × Nat :=
            if u ≥ 0 then (diffN, diffD * 10 ^ u.toNat) else (diffN * 10 ^ (-u).toNat, diffD)
          let g := Nat.gcd en ed
          let (en, ed) := if g = 0 then (en, ed) else (en / g, ed / g)
          s!"wf=t kind={kind} exact={boolStr (diffN == 0)} lt1={boolStr (en < ed)} half={boolStr (2 * en ≤ ed)} err={en}/{ed}"

def pathStr : Display.Path → String
  | .nan => "nan" | .inf => "inf" | .zero => "zero" | .scientific => "scientific"
  | .integer => "integer" | .fraction => "fraction"

def handleNumText (req : List Sx) : Option String :=
  match req with
  | [.atom "display", .atom b] =>
    match parseHex64 b with
    | some u => some (encStr (Display.display NumOps.native ⟨u⟩) ++ " " ++ pathStr (Display.path ⟨u⟩))
    | none => some "bad-request"
  | [.atom "literal", .atom s] =>
    match decStr s with
    | some str => match NumText.literalValue str with
      | some x => some ("(ok " ++ hex64 x.bits ++ ")")
      | none => some "(err)"
    | none => some "bad-request"
  | [.atom "src-number", .atom b] =>
    match parseHex64 b with
    | some u => some (encStr (NumText.srcNumber ⟨u⟩))
    | none => some "bad-request"
  | [.atom "json-number", .atom b] =>
    match parseHex64 b with
    | some u => some (encStr (NumText.jsonNumber ⟨u⟩))
    | none => some "bad-request"
  | [.atom "shortest-found", .atom b] =>
    -- the hypothesis `ShortestFound` of the C16 round-trip theorems, for both tie rules
    match parseHex64 b with
    | some u =>
      let x : F64 := ⟨u⟩
      some (boolStr ((x.shortestDigitsWith true).1 != 0) ++ " " ++ boolStr ((x.shortestDigitsWith false).1 != 0))
    | none => some "bad-request"
  | [.atom "display-judge", .atom b, .atom s] =>
    match parseHex64 b, decStr s with
    | some u, some str => some (judge ⟨u⟩ str)
    | _, _ => some "bad-request"
  | _ => none

end Blots.Drv
