import Blots.Model.Ident
/-
  Driver handler for the character-level word model (C10, names).

    ident-class <hstr word>   → bool-t | bool-f | null | input | ident | none
        `Ident.termWord` on the characters of the word: what the one-word program is
        (`none`: not a bool / null / input-reference / identifier term)
    ident-munch <hstr text>   → none | <n>
        `Ident.identifier` on the text: number of characters (code points) consumed
-/
namespace Blots.Drv
open Blots

def handleIdent (req : List Sx) : Option String :=
  match req with
  | [.atom "ident-class", .atom s] =>
    match decStr s with
    | some str => some (Ident.termWord str.toList).wire
    | none => some "bad-request"
  | [.atom "ident-munch", .atom s] =>
    match decStr s with
    | some str =>
      let cs := str.toList
      match Ident.identifier cs with
      | some r => some (toString (cs.length - r.length))
      | none => some "none"
    | none => some "bad-request"
  | _ => none

end Blots.Drv
