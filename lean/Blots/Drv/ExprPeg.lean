import Blots.Model.ExprPeg
/-
  Driver handler for the character-level model of the `expression` rule (C10: operators,
  calls, index and field accesses, list literals, lambdas, conditionals, string and record
  literals, do-blocks, assignments).

    expr-items <hstr text>   → ((pre RULE) (prim EXPR) (post fact) (post access EXPR)
                                (post dot HSTR) (post call (EXPR …)) (inf RULE) …) | none
        `ExprPeg.exprItems` with the fuel `ExprPeg.fuelFor` on the characters of the text;
        the item sequence in the wire form the harness builds from the real pest pairs
        (`fmtcommon.rs::pitems`) when the `expression` rule consumes the WHOLE text, `none`
        otherwise (no match, or characters left over).
-/
namespace Blots.Drv
open Blots

def pitemWire : PItem → String
  | .pre r => "(pre " ++ r ++ ")"
  | .prim e => "(prim " ++ e.toSx.toStr ++ ")"
  | .postFact => "(post fact)"
  | .postAccess i => "(post access " ++ i.toSx.toStr ++ ")"
  | .postDot f => "(post dot " ++ encStr f ++ ")"
  | .postCall args => "(post call (" ++ " ".intercalate (args.map fun a => a.toSx.toStr) ++ "))"
  | .inf r => "(inf " ++ r ++ ")"

def handleExprPeg (req : List Sx) : Option String :=
  match req with
  | [.atom "expr-items", .atom s] =>
    match decStr s with
    | some str =>
      let cs := str.toList
      match ExprPeg.exprItems (ExprPeg.fuelFor cs) cs with
      | some (its, []) => some ("(" ++ " ".intercalate (its.map pitemWire) ++ ")")
      | _ => some "none"
    | none => some "bad-request"
  | _ => none

end Blots.Drv
