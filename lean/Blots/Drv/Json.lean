import Blots.Model.Cli
/-
  Driver handlers for the JSON layer and the CLI state machine (C06, C19).

  Wire forms (see also `Json.toSx`, `SV.toSx` in Model/Json.lean):
    json   ::= (jnull) | (jbool t|f) | (jnum <16 hex>) | (jstr h<hex>) | (jarr json*)
             | (jobj (h<key> json)*)                       -- members in document order
    fns    ::= (fns (h<source> (larg*) h<body>)*)          -- the strings that parse as a lambda
    event  ::= (expr ok|err|panic) | (comment)
             | (out-ident h<name> err|panic unbound) | (out-ident h<name> ok unbound <value> p|u)
             | (out-ident h<name> ok|err|panic bound <value> p|u)   -- p = portable
             | (out-assign h<name> ok <value> p|u) | (out-assign h<name> err|panic)
-/
namespace Blots.Drv

def fnsOfSx : Sx → Option ParseFn
  | .list (.atom "fns" :: rows) => do
      let tbl ← rows.mapM fun
        | Sx.list [.atom s, .list as, .atom b] => do
            pure ((← decStr s), ((← as.mapM decArg), (← decStr b)))
        | _ => none
      pure fun s => lookupAL s tbl
  | _ => none

def resOfAtom (a : String) : Option (Outcome Value) :=
  match a with
  | "ok" => some (.ok .null)
  | "err" => some (.err .other)
  | "panic" => some (.panic "")
  | _ => none

def flagOfAtom : String → Option Bool
  | "p" => some true
  | "u" => some false
  | _ => none

def eventOfSx : Sx → Option Event
  | .list [.atom "expr", .atom r] => (resOfAtom r).map .expr
  | .list [.atom "comment"] => some .comment
  | .list [.atom "out-ident", .atom n, .atom r, .atom "unbound"] => do
      let res ← resOfAtom r
      match res with
      | .ok _ => none            -- a successful evaluation needs its value: next form
      | o => pure (.outIdent (← decStr n) o none true)
  | .list [.atom "out-ident", .atom n, .atom "ok", .atom "unbound", v, .atom p] => do
      pure (.outIdent (← decStr n) (.ok (← Value.ofSx v)) none (← flagOfAtom p))
  | .list [.atom "out-ident", .atom n, .atom r, .atom "bound", v, .atom p] => do
      let val ← Value.ofSx v
      let res ← resOfAtom r
      let res := match res with | .ok _ => .ok val | o => o
      pure (.outIdent (← decStr n) res (some val) (← flagOfAtom p))
  | .list [.atom "out-assign", .atom n, .atom "ok", v, .atom p] => do
      pure (.outAssign (← decStr n) (.ok (← Value.ofSx v)) (← flagOfAtom p))
  | .list [.atom "out-assign", .atom n, .atom r] => do
      let res ← resOfAtom r
      match res with
      | .ok _ => none
      | o => pure (.outAssign (← decStr n) o true)
  | _ => none

def objToSx (o : OutObject) : Sx :=
  .list (.atom "obj" :: o.map fun (k, v) => Sx.list [.atom (encStr k), v.toSx])

def recordSx (r : List (String × Value)) : Sx := (Value.record r).toSx

def noBody : ParseBody := fun _ => none

def handleJson (req : List Sx) : Option String :=
  match req with
  | [.atom "fn-source", .list es] =>
    match es.mapM Expr.ofSx with
    | some xs =>
      (match parseFunctionSource xs with
       | some (args, body) => some (Sx.list [.atom "fn", .list (args.map LArg.toSx), .atom (encStr body)]).toStr
       | none => some "none")
    | none => some "bad-request"
  | [.atom "to-sv", v] =>
    match Value.ofSx v with
    | some x =>
      (match fromValue x with
       | .ok sv => some sv.toSx.toStr
       | _ => some "err")
    | none => some "bad-request"
  | [.atom "json-norm", j] =>
    match Json.ofSx j with
    | some x => some x.norm.toSx.toStr
    | none => some "bad-request"
  | [.atom "json-from", fns, j] =>
    match fnsOfSx fns, Json.ofSx j with
    | some pf, some x => some (fromJson pf x.norm).toSx.toStr
    | _, _ => some "bad-request"
  | [.atom "json-echo", fns, j] =>
    match fnsOfSx fns, Json.ofSx j with
    | some pf, some x => some (toJson (fromJson pf x.norm)).toSx.toStr
    | _, _ => some "bad-request"
  | [.atom "json-jeq", a, b] =>
    match Json.ofSx a, Json.ofSx b with
    | some x, some y => some (if jeq x y then "t" else "f")
    | _, _ => some "bad-request"
  | [.atom "value-to-json", v] =>
    match Value.ofSx v with
    | some x =>
      match writeJson x with
      | .ok j => some ("(ok " ++ j.toSx.toStr ++ ")")
      | .err k => some ("(err " ++ k.wire ++ ")")
      | .panic s => some ("(panic " ++ encStr s ++ ")")
      | .fuel => some "(fuel)"
    | none => some "bad-request"
  | [.atom "json-roundtrip", fns, v] =>
    match fnsOfSx fns, Value.ofSx v with
    | some pf, some x =>
      match writeJson x with
      | .ok j => some (readJson pf noBody j).wire
      | .err k => some ("(err " ++ k.wire ++ ")")
      | .panic s => some ("(panic " ++ encStr s ++ ")")
      | .fuel => some "(fuel)"
    | _, _ => some "bad-request"
  | .atom "json-merge" :: fns :: stdin :: flags =>
    match fnsOfSx fns, flags.mapM Json.ofSx with
    | some pf, some fl =>
      match stdin with
      | .atom "-" => some (recordSx (mergeInputs pf noBody none fl)).toStr
      | s =>
        match Json.ofSx s with
        | some sj => some (recordSx (mergeInputs pf noBody (some sj) fl)).toStr
        | none => some "bad-request"
    | _, _ => some "bad-request"
  | .atom "cli-run" :: evs =>
    match evs.mapM eventOfSx with
    | some es =>
      let r := runEvents [] es
      some (s!"{r.exit} " ++ (match r.object with | some o => (objToSx o).toStr | none => "none"))
    | none => some "bad-request"
  | [.atom "inref", b, .atom n] =>
    match decStr n with
    | some name =>
      let go (ib : Option Value) : String :=
        (evalInputRef ib name).wire ++ " " ++ (evalDotAccess (evalInputsIdent ib) name).wire
      match b with
      | .atom "-" => some (go none)
      | v => match Value.ofSx v with
        | some x => some (go (some x))
        | none => some "bad-request"
    | none => some "bad-request"
  | _ => none

end Blots.Drv
