import Blots.Model.JsonText
/-
  Driver handlers for the JSON text layer (C06):
    json-write <json>         → h<hex of the text `jsonWrite` produces>
    json-read h<text>         → the document tree (`Json.toSx`, members in document order,
                                duplicates kept) or `none`
    json-read-norm h<text>    → `Json.norm` of that tree (what `serde_json::Value` holds) or `none`
  (`json` wire form: see Drv/Json.lean.)
-/
namespace Blots.Drv

def handleJsonText (req : List Sx) : Option String :=
  match req with
  | [.atom "json-write", j] =>
    match Json.ofSx j with
    | some x => some (encStr (jsonWrite x))
    | none => some "bad-request"
  | [.atom "json-read", .atom t] =>
    match decStr t with
    | some s =>
      (match jsonRead s with
       | some j => some j.toSx.toStr
       | none => some "none")
    | none => some "bad-request"
  | [.atom "json-read-norm", .atom t] =>
    match decStr t with
    | some s =>
      (match jsonRead s with
       | some j => some j.norm.toSx.toStr
       | none => some "none")
    | none => some "bad-request"
  | _ => none

end Blots.Drv
