import Blots.Model.Num
/-
  Model of `blots-core/src/values.rs:18-210`: `format_display_number` and its helpers,
  step by step.

  * float steps (`log10`, `floor`, `round`, `*`, `/`, `powi`) go through the `NumOps`
    parameter; comparisons, `abs`, `fract() == 0.0`, `as i64`, `as i32` are exact on the
    bit pattern (`Model/Num.lean`);
  * `format!("{:.14e}")`, `format!("{:.N}")`, `to_string`, `str::parse::<f64>` are the
    exact specifications `toExp`, `toFixed`, `toDisplay`, `parseDec`;
  * string manipulation is on `List Char`.

  i32 arithmetic (`sig_figs as i32 - 1 - magnitude`, `-(… as i32)`) is modelled on `Int`
  without wrap-around: inside `format_display_number` the operands are finite and
  non-zero with |magnitude| ≤ 324, so no overflow can occur (the private helpers are
  only reachable through it).  `value.abs()` on `i64::MIN` likewise cannot occur (the
  integer path requires |value| < 2^53).
-/
namespace Blots.Display

open Blots

/-! ### constants (bit patterns of the literals in the Rust source) -/

/-- `0.0001` -/
def lowThreshold : F64 := F64.ofNatBits 0x3F1A36E2EB1C432D
/-- `1e15` -/
def highThreshold : F64 := F64.ofNatBits 0x430C6BF526340000
/-- `9007199254740992.0` = 2^53 -/
def twoPow53 : F64 := F64.ofNatBits 0x4340000000000000
/-- `10_f64` -/
def ten : F64 := F64.ofNatBits 0x4024000000000000

/-! ### string helpers (`str::trim_end_matches(char)`, `split_once`, `find`) -/

/-- drop every leading `c` -/
def dropLeading (c : Char) : List Char → List Char
  | [] => []
  | d :: ds => if d = c then dropLeading c ds else d :: ds

/-- `s.trim_end_matches(c)` -/
def trimEnd (c : Char) (s : List Char) : List Char := (dropLeading c s.reverse).reverse

/-- `s.split_once(c)` -/
def splitOnce (c : Char) : List Char → Option (List Char × List Char)
  | [] => none
  | d :: ds =>
    if d = c then some ([], ds)
    else match splitOnce c ds with
      | some (a, b) => some (d :: a, b)
      | none => none

/-- `str::parse::<i32>()` : optional sign, at least one digit, in range -/
def parseI32 (cs : List Char) : Option Int :=
  let (negative, ds) := match cs with
    | '-' :: r => (true, r)
    | '+' :: r => (false, r)
    | r => (false, r)
  if ds.isEmpty || !ds.all F64.isDigit then none
  else
    let v : Int := Int.ofNat (F64.digitsVal ds)
    let v := if negative then -v else v
    if v < -(2 ^ 31) || v > 2 ^ 31 - 1 then none else some v

/-- `i32::to_string` / `i64::to_string` -/
def intToString (i : Int) : List Char :=
  if i < 0 then '-' :: (F64.natDigits i.natAbs).toList else (F64.natDigits i.natAbs).toList

/-! ### thousands separators -/

/-- `.chars().rev().enumerate().flat_map(|(i, c)| if i > 0 && i % 3 == 0 {[',', c]} else {[c]})`
    on the already reversed characters, `i` the running index -/
def groupRev : List Char → Nat → List Char
  | [], _ => []
  | c :: cs, i => (if i > 0 && i % 3 == 0 then [',', c] else [c]) ++ groupRev cs (i + 1)

/-- the comma-grouping pipeline shared by both functions: reverse, insert, reverse -/
def withCommas (ds : List Char) : List Char := (groupRev ds.reverse 0).reverse

/-- `format_integer_with_separators(value: i64)` -/
def formatIntegerWithSeparators (value : Int) : List Char :=
  let isNegative := value < 0
  let absStr := (F64.natDigits value.natAbs).toList
  let wc := withCommas absStr
  if isNegative then '-' :: wc else wc

/-- `add_thousand_separators(s)` -/
def addThousandSeparators (s : List Char) : List Char :=
  let (isNegative, s) := match s with
    | '-' :: r => (true, r)
    | r => (false, r)
  let intPart := s.takeWhile (· ≠ '.')
  let decPart := s.dropWhile (· ≠ '.')      -- empty, or starts with the '.'
  let result := withCommas intPart ++ decPart
  if isNegative then '-' :: result else result

/-! ### the float steps -/

/-- `decimal_exponent`: `floor(log10 x)`, corrected when `log10` rounded up to the next
    integer (values a few ulps below a power of ten) -/
def decimalExponent (ops : NumOps) (absValue : F64) : Int :=
  let exponent : Int := (ops.floor (ops.log10 absValue)).toI32
  if F64.flt absValue (ops.powi ten exponent) then exponent - 1 else exponent

/-- `round_to_significant_figures(value, sig_figs)` -/
def roundToSignificantFigures (ops : NumOps) (value : F64) (sigFigs : Nat) : F64 :=
  if F64.feq value F64.zero then F64.zero
  else
    let magnitude : Int := decimalExponent ops value.abs
    let scale := ops.powi ten (Int.ofNat sigFigs - 1 - magnitude)
    ops.div (ops.round (ops.mul value scale)) scale

/-- number of decimal places chosen by `format_float_significant` -/
def decimalPlaces (ops : NumOps) (value : F64) (maxSigFigs : Nat) : Nat :=
  let absValue := value.abs
  let ge1 := F64.fle F64.one absValue
  let fl : Int := decimalExponent ops absValue
  let magnitude : Int := if ge1 then fl + 1 else -fl
  let dp : Int := if ge1 then Int.ofNat maxSigFigs - magnitude else Int.ofNat maxSigFigs + magnitude - 1
  (if dp < 0 then 0 else dp).toNat

/-- the trailing-zero removal of `format_float_significant` -/
def trimFraction (formatted : List Char) : List Char :=
  if formatted.contains '.' then
    let trimmed := trimEnd '0' formatted
    if trimmed.getLast? = some '.' then trimEnd '.' trimmed else trimmed
  else formatted

/-- `format_float_significant(value, max_sig_figs)` -/
def formatFloatSignificant (ops : NumOps) (value : F64) (maxSigFigs : Nat) : List Char :=
  trimFraction (F64.toFixed value (decimalPlaces ops value maxSigFigs)).toList

/-- `format_standard(value)` -/
def formatStandard (ops : NumOps) (value : F64) : List Char :=
  if value.isIntegral && F64.flt value.abs twoPow53 then
    formatIntegerWithSeparators value.toI64
  else
    let rounded := roundToSignificantFigures ops value 15
    let formatted := formatFloatSignificant ops rounded 15
    addThousandSeparators formatted

/-- `format_mantissa(mantissa)` -/
def formatMantissa (mantissa : F64) : List Char :=
  trimEnd '.' (trimEnd '0' (F64.toFixed mantissa 14).toList)

/-- `format_scientific(value)` -/
def formatScientific (value : F64) : List Char :=
  let formatted := (F64.toExp value 14).toList
  match splitOnce 'e' formatted with
  | some (mantissaStr, expStr) =>
    let mantissa := (F64.parseDec (String.ofList mantissaStr)).getD value
    let exp := (parseI32 expStr).getD 0
    formatMantissa mantissa ++ 'e' :: intToString exp
  | none => formatted

/-- which path `format_display_number` takes (also the coverage tag) -/
inductive Path where
  | nan | inf | zero | scientific | integer | fraction
  deriving DecidableEq, Repr

def path (value : F64) : Path :=
  if value.isNaN then .nan
  else if value.isInf then .inf
  else if F64.feq value F64.zero then .zero
  else if !(F64.fle lowThreshold value.abs && F64.flt value.abs highThreshold) then .scientific
  else if value.isIntegral && F64.flt value.abs twoPow53 then .integer
  else .fraction

/-- `format_display_number(value)` -/
def formatDisplayNumber (ops : NumOps) (value : F64) : List Char :=
  if value.isNaN then "NaN".toList
  else if value.isInf then (if !value.neg then "Infinity".toList else "-Infinity".toList)
  else if F64.feq value F64.zero then (F64.toDisplay value).toList
  else
    let absValue := value.abs
    if !(F64.fle lowThreshold absValue && F64.flt absValue highThreshold) then formatScientific value
    else formatStandard ops value

def display (ops : NumOps) (value : F64) : String := String.ofList (formatDisplayNumber ops value)

end Blots.Display
