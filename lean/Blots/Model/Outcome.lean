import Blots.Model.Value
/-
  `Result<Value, RuntimeError>` plus the two outcomes Rust code can have besides:
  a panic (every `[]`, `unwrap`, unchecked subtraction … in the modelled code is a checked
  operation here that yields `panic`) and exhaustion of the model's fuel.
-/
namespace Blots

/-- Coarse classification of `RuntimeError`s.  The correspondence compares only ok/err
    (messages may be reworded freely), except for the kinds a property names. -/
inductive ErrKind where
  | type_           -- "expected a …, but got a …", "can't add …"
  | compare         -- "cannot compare … with …"
  | arity           -- "takes exactly/at least/between … arguments"
  | depth           -- "maximum call depth of 1000 exceeded"
  | unknownIdent
  | alreadyDefined  -- "… is already defined, and cannot be reassigned"
  | keyword         -- "… is a keyword, and cannot be reassigned"
  | builtinName     -- "… is the name of a built-in function, and cannot be reassigned"
  | notCallable
  | length          -- "lists must be the same length"
  | domain          -- value-level precondition of a built-in (range, chunk size, slice bounds, …)
  | other
  deriving DecidableEq, Repr, Inhabited

def ErrKind.wire : ErrKind → String
  | .type_ => "type" | .compare => "compare" | .arity => "arity" | .depth => "depth"
  | .unknownIdent => "unknown-ident" | .alreadyDefined => "already-defined"
  | .keyword => "keyword" | .builtinName => "builtin-name" | .notCallable => "not-callable"
  | .length => "length" | .domain => "domain" | .other => "other"

inductive Outcome (α : Type) where
  | ok : α → Outcome α
  | err : ErrKind → Outcome α
  | panic : String → Outcome α
  | fuel : Outcome α
  deriving Repr, Inhabited

namespace Outcome

@[inline] def bind {α β} (x : Outcome α) (f : α → Outcome β) : Outcome β :=
  match x with
  | ok a => f a
  | err k => err k
  | panic s => panic s
  | fuel => fuel

instance : Monad Outcome where
  pure := ok
  bind := bind

def isOk {α} : Outcome α → Bool | ok _ => true | _ => false
def isErr {α} : Outcome α → Bool | err _ => true | _ => false
def isPanic {α} : Outcome α → Bool | panic _ => true | _ => false

/-- `xs.iter().map(f).collect::<Result<Vec<_>,_>>()` : left to right, first failure wins -/
def mapM' {α β} (f : α → Outcome β) : List α → Outcome (List β)
  | [] => ok []
  | x :: xs =>
    match f x with
    | ok y => (match mapM' f xs with
               | ok ys => ok (y :: ys)
               | err k => err k
               | panic s => panic s
               | fuel => fuel)
    | err k => err k
    | panic s => panic s
    | fuel => fuel

end Outcome

def Outcome.wire : Outcome Value → String
  | .ok v => "(ok " ++ v.toSx.toStr ++ ")"
  | .err k => "(err " ++ k.wire ++ ")"
  | .panic s => "(panic " ++ encStr s ++ ")"
  | .fuel => "(fuel)"

/-! ### typed accessors (`as_number`, `as_bool`, …) -/

def asNumber : Value → Outcome F64
  | .num x => .ok x
  | _ => .err .type_

def asBool : Value → Outcome Bool
  | .bool b => .ok b
  | _ => .err .type_

def asString : Value → Outcome String
  | .str s => .ok s
  | _ => .err .type_

def asList : Value → Outcome (List Value)
  | .list l => .ok l
  | _ => .err .type_

def asRecord : Value → Outcome (List (String × Value))
  | .record r => .ok r
  | _ => .err .type_

/-! ### comparison operators (`check_ordering`, the six dot operators, `ugt…ulte`) -/

/-- expressions.rs:31 `check_ordering` -/
def checkOrdering (o : Option Ordering) (expected : List Ordering) : Outcome Bool :=
  match o with
  | some x => .ok (expected.contains x)
  | none => .err .compare

def orderingsOf : BinOp → Option (List Ordering)
  | .lt | .dlt => some [.lt]
  | .le | .dle => some [.lt, .eq]
  | .gt | .dgt => some [.gt]
  | .ge | .dge => some [.gt, .eq]
  | _ => none

/-- The scalar meaning of the six comparison spellings (dot or plain) on two values. -/
def compareOp (op : BinOp) (a b : Value) : Outcome Value :=
  match op with
  | .eq | .deq => .ok (.bool (veq a b))
  | .ne | .dne => .ok (.bool (!veq a b))
  | _ =>
    match orderingsOf op with
    | some exp => (checkOrdering (vcmp a b) exp).bind fun r => .ok (.bool r)
    | none => .err .other

/-- functions.rs:1536 `ugt / ult / ugte / ulte` -/
def uncheckedCmp (name : String) (a b : Value) : Outcome Value :=
  let o := vcmp a b
  match name with
  | "ugt" => .ok (.bool (o == some .gt))
  | "ult" => .ok (.bool (o == some .lt))
  | "ugte" => .ok (.bool (o == some .gt || o == some .eq))
  | "ulte" => .ok (.bool (o == some .lt || o == some .eq))
  | _ => .err .other

end Blots
