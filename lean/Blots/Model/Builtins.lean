import Blots.Model.Outcome
import Blots.Model.Print
import Blots.Model.Display
import Blots.Model.Units
import Blots.Gen.Builtins
/-
  The built-in functions that do not call back into the evaluator (functions.rs:380-1280,
  1536-1556), arity checking (functions.rs:1660-1745), value → text (`stringify`) and
  value → `SerializableValue` (values.rs:673-724).
-/
namespace Blots

/-! ### SerializableValue::from_value and stringify -/

mutual
/-- `SerializableValue::from_captured_value` (`from_value_at(.., captured = true)`): the value
    will be written into the source of the function that captured it, where a captured
    function appears as `((args) => body)`: a body that is a via / into / where chain gets
    parentheses of its own (`lambda_body_to_source`) -/
def capturedToSV : Value → Option SV
  | .num x => some (.num x)
  | .bool b => some (.bool b)
  | .null => some .null
  | .str s => some (.str s)
  | .list xs => (capturedsToSV xs).map .list
  | .record kvs => (capturedRecToSV kvs).map .record
  | .lambda _ args body scope =>
    match capturedRecToSV scope with
    | some sc => some (.lambda args (parenIf (lambdaBodyNeedsParens body) (exprSrc sc body)))
    | none => none
  | .builtin n => some (.builtin n)
  | .spread _ => none
def capturedsToSV : List Value → Option (List SV)
  | [] => some []
  | v :: vs =>
    match capturedToSV v, capturedsToSV vs with
    | some x, some xs => some (x :: xs)
    | _, _ => none
def capturedRecToSV : List (String × Value) → Option (List (String × SV))
  | [] => some []
  | (k, v) :: r =>
    match capturedToSV v, capturedRecToSV r with
    | some x, some xs => some ((k, x) :: xs)
    | _, _ => none
end

mutual
/-- `SerializableValue::from_value`: `none` = "cannot serialize a spread value".  The lambda
    case inlines the captured scope into the body text (`expr_to_source_with_scope`); the
    text of the emitted function itself is not parenthesised. -/
def valueToSV : Value → Option SV
  | .num x => some (.num x)
  | .bool b => some (.bool b)
  | .null => some .null
  | .str s => some (.str s)
  | .list xs => (valuesToSV xs).map .list
  | .record kvs => (recordToSV kvs).map .record
  | .lambda _ args body scope =>
    match capturedRecToSV scope with
    | some sc => some (.lambda args (exprSrc sc body))
    | none => none
  | .builtin n => some (.builtin n)
  | .spread _ => none
def valuesToSV : List Value → Option (List SV)
  | [] => some []
  | v :: vs =>
    match valueToSV v, valuesToSV vs with
    | some x, some xs => some (x :: xs)
    | _, _ => none
def recordToSV : List (String × Value) → Option (List (String × SV))
  | [] => some []
  | (k, v) :: r =>
    match valueToSV v, recordToSV r with
    | some x, some xs => some ((k, x) :: xs)
    | _, _ => none
end

/-- the scope of a lambda as `stringify` sees it: entries that fail to serialise are dropped
    (`filter_map`) -/
def scopeForStringify : List (String × Value) → List (String × SV)
  | [] => []
  | (k, v) :: r =>
    match capturedToSV v with
    | some x => (k, x) :: scopeForStringify r
    | none => scopeForStringify r

mutual
/-- `Value::stringify(heap, wrap_strings, display_format)` -/
def stringify (ops : NumOps) (wrap disp : Bool) : Value → String
  | .str s => if wrap then "\"" ++ s ++ "\"" else s
  | .list xs => "[" ++ ", ".intercalate (stringifyList ops wrap disp xs) ++ "]"
  | .record kvs => "{" ++ ", ".intercalate (stringifyRec ops wrap disp kvs) ++ "}"
  | .lambda _ args body scope =>
    "(" ++ ", ".intercalate (args.map lambdaArgToSource) ++ ") => " ++
      exprSrc (scopeForStringify scope) body
  | .builtin n => n ++ " (built-in)"
  | .spread (.list xs) => "..." ++ String.join (stringifyList ops wrap disp xs)
  | .spread (.str s) => "..." ++ s
  | .spread (.record kvs) => "...{" ++ ", ".intercalate (stringifyRec ops wrap disp kvs) ++ "}"
  | .spread _ => "..."
  | .num x => if disp then Display.display ops x else x.toDisplay
  | .bool b => if b then "true" else "false"
  | .null => "null"
def stringifyList (ops : NumOps) (wrap disp : Bool) : List Value → List String
  | [] => []
  | v :: vs => stringify ops wrap disp v :: stringifyList ops wrap disp vs
def stringifyRec (ops : NumOps) (wrap disp : Bool) : List (String × Value) → List String
  | [] => []
  | (k, v) :: r => (k ++ ": " ++ stringify ops wrap disp v) :: stringifyRec ops wrap disp r
end

def stringifyInternal (ops : NumOps) (v : Value) : String := stringify ops false false v
def stringifyForDisplay (ops : NumOps) (v : Value) : String := stringify ops false true v

/-! ### arity -/

def builtinArity (name : String) : Option Gen.Arity :=
  (Gen.builtins.find? (fun r => r.2.1 == name)).map (·.2.2)

def isBuiltinIdent (name : String) : Bool := (Gen.fromIdent.find? (fun r => r.1 == name)).isSome

/-- `LambdaDef::get_arity` -/
def lambdaArity (args : List LArg) : Gen.Arity :=
  let hasRest := args.any fun | .rest _ => true | _ => false
  let min := (args.filter fun | .req _ => true | _ => false).length
  let max := args.length
  if hasRest then .atLeast min else if min == max then .exact min else .between min max

def Gen.Arity.canAccept : Gen.Arity → Nat → Bool
  | .exact k, n => n == k
  | .between a b, n => a ≤ n && n ≤ b
  | .atLeast a, n => a ≤ n

def arityOf : Value → Option Gen.Arity
  | .lambda _ args _ _ => some (lambdaArity args)
  | .builtin n => builtinArity n
  | _ => none

/-- `check_arity` -/
def checkArity (a : Gen.Arity) (n : Nat) : Outcome Unit :=
  if a.canAccept n then .ok () else .err .arity

/-! ### helpers -/

def numList (xs : List Value) : Outcome (List F64) := Outcome.mapM' asNumber xs

/-- the list-or-varargs prologue shared by min / max / avg / sum / prod / median -/
def aggArgs (args : List Value) : Outcome (List F64) :=
  match args with
  | [.list xs] => numList xs
  | [v] => (asNumber v).bind fun x => .ok [x]
  | _ => numList args

/-- `f64::min` / `f64::max` (a NaN operand is ignored) -/
def fmin (a b : F64) : F64 := if a.isNaN then b else if b.isNaN then a else if F64.flt b a then b else a
def fmax (a b : F64) : F64 := if a.isNaN then b else if b.isNaN then a else if F64.flt a b then b else a

/-- `f64::total_cmp` key -/
def totalKey (x : F64) : Int := if x.neg then - (Int.ofNat x.mag) - 1 else Int.ofNat x.mag

def insertSortedF64 (le : F64 → F64 → Bool) (x : F64) : List F64 → List F64
  | [] => [x]
  | y :: ys => if le x y then x :: y :: ys else y :: insertSortedF64 le x ys

/-- numbers in `total_cmp` order (the result of a stable sort with a total order is unique
    up to elements with identical bit patterns) -/
def sortTotal (xs : List F64) : List F64 :=
  xs.foldr (insertSortedF64 (fun a b => totalKey a ≤ totalKey b)) []

/-- stable merge of two runs: take from the right only when strictly smaller -/
def mergeBy {α} (lt : α → α → Bool) : List α → List α → List α
  | [], r => r
  | l, [] => l
  | a :: l, b :: r =>
    if lt b a then b :: mergeBy lt (a :: l) r else a :: mergeBy lt l (b :: r)

/-- `stable_sort_by` (functions.rs): top-down merge sort splitting at `len / 2`, with fuel
    (= length) for the recursion -/
def mergeSortBy {α} (lt : α → α → Bool) : Nat → List α → List α
  | 0, xs => xs
  | fuel + 1, xs =>
    if xs.length < 2 then xs
    else
      let mid := xs.length / 2
      mergeBy lt (mergeSortBy lt fuel (xs.take mid)) (mergeSortBy lt fuel (xs.drop mid))

/-- comparison used by `sort`: incomparable = equal -/
def sortLt (b a : Value) : Bool := vcmp b a == some .lt

def chars (s : String) : List Char := s.toList

def strOfChars (cs : List Char) : String := String.ofList cs

/-- is `p` a prefix of `s` -/
def isPrefixL : List Char → List Char → Bool
  | [], _ => true
  | _ :: _, [] => false
  | a :: p, b :: s => a == b && isPrefixL p s

/-- `str::split(&str)` -/
def splitOnL (delim : List Char) (s : List Char) : List (List Char) :=
  if delim.isEmpty then
    -- an empty pattern matches at every character boundary
    [[]] ++ s.map (fun c => [c]) ++ [[]]
  else
    let rec go (fuel : Nat) (s cur : List Char) (acc : List (List Char)) : List (List Char) :=
      match fuel with
      | 0 => (cur.reverse :: acc).reverse
      | fuel + 1 =>
        match s with
        | [] => (cur.reverse :: acc).reverse
        | c :: rest =>
          if isPrefixL delim s then go fuel (s.drop delim.length) [] (cur.reverse :: acc)
          else go fuel rest (c :: cur) acc
    go (s.length + 1) s [] []

/-- `str::replace` -/
def replaceL (old new s : List Char) : List Char :=
  let parts := splitOnL old s
  match parts with
  | [] => []
  | p :: ps => ps.foldl (fun acc q => acc ++ new ++ q) p

def containsL (needle hay : List Char) : Bool :=
  if needle.isEmpty then true
  else
    let rec go : List Char → Bool
      | [] => false
      | c :: rest => isPrefixL needle (c :: rest) || go rest
    go hay

def isAsciiWs (c : Char) : Bool := c == ' ' || c == '\t' || c == '\n' || c == '\r' || c == '\x0b' || c == '\x0c'

/-- `str::trim` on ASCII white space (the harness restricts `trim` / case mapping
    correspondence to characters on which this is exact) -/
def trimL (s : List Char) : List Char :=
  ((s.dropWhile isAsciiWs).reverse.dropWhile isAsciiWs).reverse

def upperAscii (c : Char) : Char := if 'a' ≤ c && c ≤ 'z' then Char.ofNat (c.toNat - 32) else c

/-- `dyn_fmt`'s `format` on format strings whose braces are exactly `{}` pairs: the k-th
    `{}` is replaced by the k-th argument (nothing when there are not enough).  `none` =
    outside the modelled fragment (any other use of `{` or `}`). -/
def dynFormat (fmt : List Char) (args : List String) : Option String :=
  let rec go (fuel : Nat) (cs : List Char) (args : List String) (acc : List Char) : Option String :=
    match fuel with
    | 0 => none
    | fuel + 1 =>
      match cs with
      | [] => some (String.ofList acc.reverse)
      | '{' :: '}' :: rest =>
        (match args with
         | a :: as => go fuel rest as (a.toList.reverse ++ acc)
         | [] => go fuel rest [] acc)
      | '{' :: _ => none
      | '}' :: _ => none
      | c :: rest => go fuel rest args (c :: acc)
  go (fmt.length + 1) fmt args []

/-- `fastrand::Rng::with_seed(seed).f64()` (WyRand) -/
def fastrandF64 (ops : NumOps) (seed : Nat) : F64 :=
  let m64 := 2 ^ 64
  let s := (seed + 0x2d358dccaa6c78a5) % m64
  let t := s * (Nat.xor s 0x8bb84b93962eacc9)
  let r := Nat.xor (t % m64) (t / m64)
  let bits := 2 ^ 62 - 2 ^ 52 + r / 2 ^ 12
  ops.sub (F64.ofNatBits bits) F64.one

def hundred : F64 := F64.ofNat 100
def f64Two : F64 := F64.ofNat 2
def u32Max : Int := 4294967295

def listGetD (xs : List Value) (i : Nat) : Value := (xs[i]?).getD .null

/-- zip: i-th tuple of the argument lists, padded with null -/
def zipRows (lists : List (List Value)) (n : Nat) : List Value :=
  (List.range n).map fun i => .list (lists.map fun l => listGetD l i)

def chunkList (n : Nat) : Nat → List Value → List Value
  | 0, _ => []
  | fuel + 1, xs => if xs.isEmpty then [] else .list (xs.take n) :: chunkList n fuel (xs.drop n)

def uniqueBy (xs : List Value) : List Value :=
  xs.foldl (fun acc x => if acc.any (fun y => veq x y) then acc else acc ++ [x]) []

/-- list / string index: `as i64`, negative from the end, `none` = null -/
def indexOf (len : Nat) (idx : F64) : Option Nat :=
  let raw := idx.toI64
  if raw < 0 then
    let adj := Int.ofNat len + raw
    if adj < 0 then none else some adj.toNat
  else some raw.toNat

/-! ### the built-ins without callbacks -/

/-- `BuiltInFunction::call` for every built-in that does not call a function argument.
    `none` = this built-in takes callbacks (handled by the evaluator).  Arity has been checked
    by the caller, but every `args[i]` is still a checked access here (`panic` if absent). -/
def callPure (ops : NumOps) (name : String) (args : List Value) : Option (Outcome Value) :=
  let arg (i : Nat) : Outcome Value :=
    match args[i]? with
    | some v => .ok v
    | none => .panic ("args[" ++ toString i ++ "] in " ++ name)
  let num1 (f : F64 → F64) : Outcome Value := do
    let x ← asNumber (← arg 0)
    pure (.num (f x))
  match name with
  | "sqrt" => some (num1 ops.sqrt) | "sin" => some (num1 ops.sin) | "cos" => some (num1 ops.cos)
  | "tan" => some (num1 ops.tan) | "asin" => some (num1 ops.asin) | "acos" => some (num1 ops.acos)
  | "atan" => some (num1 ops.atan) | "log" => some (num1 ops.ln) | "log10" => some (num1 ops.log10)
  | "exp" => some (num1 ops.exp) | "abs" => some (num1 F64.abs) | "floor" => some (num1 ops.floor)
  | "ceil" => some (num1 ops.ceil) | "trunc" => some (num1 ops.trunc)
  | "random" => some do
      let x ← asNumber (← arg 0)
      pure (.num (fastrandF64 ops x.toU64))
  | "round" => some do
      let x ← asNumber (← arg 0)
      if args.length == 1 then pure (.num (ops.round x))
      else
        let d ← asNumber (← arg 1)
        let m := ops.powi (F64.ofNat 10) d.toI32
        pure (.num (ops.div (ops.round (ops.mul x m)) m))
  | "min" => some do
      let ns ← aggArgs args
      if ns.isEmpty then .err .domain else pure (.num (ns.foldl fmin F64.inf))
  | "max" => some do
      let ns ← aggArgs args
      if ns.isEmpty then .err .domain else pure (.num (ns.foldl fmax F64.negInf))
  | "avg" => some do
      let ns ← aggArgs args
      if ns.isEmpty then .err .domain
      else pure (.num (ops.div (ns.foldl ops.add F64.negZero) (F64.ofNat ns.length)))
  | "sum" => some do
      let ns ← aggArgs args
      if ns.isEmpty then .err .domain else pure (.num (ns.foldl ops.add F64.negZero))
  | "prod" => some do
      let ns ← aggArgs args
      if ns.isEmpty then .err .domain else pure (.num (ns.foldl ops.mul F64.one))
  | "median" => some do
      let ns ← aggArgs args
      if ns.isEmpty then .err .domain
      else
        let s := sortTotal ns
        let len := s.length
        if len % 2 == 0 then
          pure (.num (ops.div (ops.add (s.getD (len / 2 - 1) F64.zero) (s.getD (len / 2) F64.zero)) f64Two))
        else pure (.num (s.getD (len / 2) F64.zero))
  | "percentile" => some do
      let p ← asNumber (← arg 1)
      let l ← asList (← arg 0)
      if !(F64.fle F64.zero p && F64.fle p hundred) then .err .domain
      else
        let ns ← numList l
        if ns.isEmpty then .err .domain
        else
          let s := sortTotal ns
          let idx := (ops.round (ops.mul (ops.div p hundred) (F64.ofNat (s.length - 1)))).toU64
          match s[idx]? with
          | some x => pure (.num x)
          | none => .panic "nums[index] in percentile"
  | "range" => some (
      let bounds : Outcome (F64 × F64) :=
        match args with
        | [.num a] => .ok (F64.zero, a)
        | [.num a, .num b] => .ok (a, b)
        | _ => .err .type_
      bounds.bind fun (start, stop) =>
        if F64.flt stop start then .err .domain
        else if !start.isFinite || !stop.isFinite then .err .domain
        else
          let s := start.toI64
          let e := stop.toI64
          let diff := e - s
          let len : Int := if diff > 2 ^ 63 - 1 || diff < -(2 ^ 63) then 2 ^ 63 - 1 else diff
          if len > u32Max then .err .domain
          else .ok (.list ((List.range (e - s).toNat).map fun i => .num (F64.ofInt (s + Int.ofNat i)))))
  | "len" => some do
      match ← arg 0 with
      | .list l => pure (.num (F64.ofNat l.length))
      | .str s => pure (.num (F64.ofNat (chars s).length))
      | _ => .err .type_
  | "head" => some do
      match ← arg 0 with
      | .list l => pure (l.headD .null)
      | .str s => pure (.str (strOfChars ((chars s).take 1)))
      | _ => .err .type_
  | "tail" => some do
      match ← arg 0 with
      | .list l => pure (.list (l.drop 1))
      | .str s => pure (.str (strOfChars ((chars s).drop 1)))
      | _ => .err .type_
  | "slice" => some do
      let a ← asNumber (← arg 1)
      let b ← asNumber (← arg 2)
      let (i, j) := (a.toU64, b.toU64)
      match ← arg 0 with
      | .list l => if i ≤ j && j ≤ l.length then pure (.list ((l.take j).drop i)) else .err .domain
      | .str s =>
        let cs := chars s
        if i ≤ j && j ≤ cs.length then pure (.str (strOfChars ((cs.take j).drop i))) else .err .domain
      | _ => .err .type_
  | "concat" => some (.ok (.list (args.flatMap fun
      | .list l => l
      | .spread (.list l) => l
      | .spread (.str s) => (chars s).map fun c => .str (String.singleton c)
      | v => [v])))
  | "dot" => some do
      let a ← asList (← arg 0)
      let b ← asList (← arg 1)
      if a.length != b.length then .err .domain
      else
        let rec go : List Value → List Value → F64 → Outcome F64
          | x :: xs, y :: ys, acc => do
            let p ← asNumber x
            let q ← asNumber y
            go xs ys (ops.add acc (ops.mul p q))
          | _, _, acc => .ok acc
        (go a b F64.zero).bind fun s => .ok (.num s)
  | "unique" => some do
      let l ← asList (← arg 0)
      pure (.list (uniqueBy l))
  | "sort" => some do
      let l ← asList (← arg 0)
      pure (.list (mergeSortBy sortLt l.length l))
  | "reverse" => some do
      let l ← asList (← arg 0)
      pure (.list l.reverse)
  | "any" => some do
      let l ← asList (← arg 0)
      pure (.bool (l.any fun | .bool true => true | _ => false))
  | "all" => some do
      let l ← asList (← arg 0)
      pure (.bool (l.all fun | .bool true => true | _ => false))
  | "split" => some do
      let s ← asString (← arg 0)
      let d ← asString (← arg 1)
      pure (.list ((splitOnL (chars d) (chars s)).map fun p => .str (strOfChars p)))
  | "join" => some do
      let d ← asString (← arg 1)
      let l ← asList (← arg 0)
      pure (.str (d.intercalate (l.map (stringifyInternal ops))))
  | "replace" => some do
      let old ← asString (← arg 1)
      let new ← asString (← arg 2)
      let s ← asString (← arg 0)
      pure (.str (strOfChars (replaceL (chars old) (chars new) (chars s))))
  | "trim" => some do
      let s ← asString (← arg 0)
      pure (.str (strOfChars (trimL (chars s))))
  | "uppercase" => some do
      let s ← asString (← arg 0)
      pure (.str (strOfChars ((chars s).map upperAscii)))
  | "lowercase" => some do
      let s ← asString (← arg 0)
      pure (.str (strOfChars ((chars s).map F64.lowerAscii)))
  | "includes" => some do
      match ← arg 0 with
      | .list l =>
        let needle ← arg 1
        pure (.bool (l.any fun x => veq x needle))
      | .str s =>
        let n ← asString (← arg 1)
        pure (.bool (containsL (chars n) (chars s)))
      | _ => .err .type_
  | "format" => some do
      let f ← asString (← arg 0)
      match dynFormat (chars f) ((args.drop 1).map (stringifyForDisplay ops)) with
      | some s => pure (.str s)
      | none => .err .other   -- outside the modelled fragment of dyn_fmt
  | "typeof" => some do
      let v ← arg 0
      pure (.str v.typeName)
  | "arity" => some do
      let v ← arg 0
      match arityOf v with
      | some (.exact n) => pure (.num (F64.ofNat n))
      | some (.atLeast n) => pure (.num (F64.ofNat n))
      | some (.between a _) => pure (.num (F64.ofNat a))
      | none => .err .type_
  | "keys" => some do
      let r ← asRecord (← arg 0)
      pure (.list (r.map fun kv => .str kv.1))
  | "values" => some do
      let r ← asRecord (← arg 0)
      pure (.list (r.map fun kv => kv.2))
  | "entries" => some do
      let r ← asRecord (← arg 0)
      pure (.list (r.map fun kv => .list [.str kv.1, kv.2]))
  | "flatten" => some do
      let l ← asList (← arg 0)
      pure (.list (l.flatMap fun | .list inner => inner | v => [v]))
  | "zip" => some (
      match Outcome.mapM' (fun v => match v with | .list l => Outcome.ok l | _ => .err .type_) args with
      | .ok lists => .ok (.list (zipRows lists (lists.foldl (fun m l => max m l.length) 0)))
      | .err k => .err k
      | .panic s => .panic s
      | .fuel => .fuel)
  | "chunk" => some do
      let n ← asNumber (← arg 1)
      let k := n.toU64
      if k == 0 then .err .domain
      else
        let l ← asList (← arg 0)
        pure (.list (chunkList k (l.length + 1) l))
  | "to_string" => some do
      match ← arg 0 with
      | .str s => pure (.str s)
      | v => pure (.str (stringifyInternal ops v))
  | "to_number" => some do
      match ← arg 0 with
      | .num x => pure (.num x)
      | .bool b => pure (.num (if b then F64.one else F64.zero))
      | v =>
        let s ← asString v
        match F64.parseDec s with
        | some x => pure (.num x)
        | none => .err .domain
  | "to_bool" => some do
      match ← arg 0 with
      | .bool b => pure (.bool b)
      | .num x => pure (.bool (!F64.feq x F64.zero))
      | _ => .err .type_
  | "convert" => some do
      let v ← asNumber (← arg 0)
      let f ← asString (← arg 1)
      let t ← asString (← arg 2)
      match Units.convertF ops v (Units.codesOf f) (Units.codesOf t) with
      | Units.Converted.ok x => pure (.num x)
      | _ => .err .domain
  | "ugt" | "ult" | "ugte" | "ulte" => some do
      let a ← arg 0
      let b ← arg 1
      uncheckedCmp name a b
  | "print" => some (
      if args.length == 1 then .ok .null
      else match args[0]? with
        | some (Value.str _) => .ok .null
        | some _ => .err .type_
        | none => .panic "args[0] in print")
  | _ => none

end Blots
