import Blots.Model.Print
/-
  pest's `PrattParser` (pest 2.8.3 `pratt_parser.rs`: `expr / nud / led / lbp`) configured
  as `build_pratt_parser` (precedence.rs) does from the generated table, with the
  `map_prefix / map_postfix / map_infix` closures of `pairs_to_expr_inner`
  (expressions.rs:2232-2340).

  The parser works on the flat sequence of pairs pest produces for one `expression`:
  prefix operators, primaries (already converted terms), postfix operators (with their
  payload already converted) and infix operators, each identified by its grammar rule.
-/
namespace Blots

inductive PItem where
  | pre : String → PItem                 -- prefix operator rule
  | prim : Expr → PItem                  -- a term (converted)
  | postFact : PItem                     -- `factorial`
  | postAccess : Expr → PItem            -- `access` with its index expression
  | postDot : String → PItem             -- `dot_access` with its field
  | postCall : List Expr → PItem         -- `call_list` with its arguments
  | inf : String → PItem                 -- infix operator rule
  deriving Inhabited

inductive Affix where
  | prefix_ | postfix_ | infixL | infixR
  deriving DecidableEq, Repr, Inhabited

/-- groups of `build_pratt_parser`: rows grouped by (prec, assoc) in order of first
    appearance -/
def groupRows (rows : List (Nat × Bool × BinOp × String)) : List (Nat × Bool × List String) :=
  rows.foldl (fun gs r =>
    let (p, a, _, rule) := r
    if gs.any (fun g => g.1 == p && g.2.1 == a) then
      gs.map (fun g => if g.1 == p && g.2.1 == a then (g.1, g.2.1, g.2.2 ++ [rule]) else g)
    else gs ++ [(p, a, [rule])]) []

/-- stable insertion sort by precedence (`sort_by_key` is stable) -/
def insertGroup (g : Nat × Bool × List String) : List (Nat × Bool × List String) → List (Nat × Bool × List String)
  | [] => [g]
  | h :: t => if g.1 < h.1 then g :: h :: t else h :: insertGroup g t

def sortGroups (gs : List (Nat × Bool × List String)) : List (Nat × Bool × List String) :=
  gs.foldl (fun acc g => insertGroup g acc) []

/-- the operator map of the Pratt parser: rule ↦ (affix, binding power).  `PrattParser::new`
    starts at `PREC_STEP = 10` and every `.op(...)` adds 10 before inserting. -/
def prattOps : List (String × Affix × Nat) :=
  let infixLevels := (sortGroups (groupRows Gen.precTable)).map fun g =>
    g.2.2.map fun rule => (rule, if g.2.1 then Affix.infixR else Affix.infixL)
  let tailLevels := Gen.prattTail.map fun lvl =>
    lvl.map fun (kind, rule) => (rule, if kind == "prefix" then Affix.prefix_ else if kind == "postfix" then Affix.postfix_ else Affix.infixL)
  let levels := infixLevels ++ tailLevels
  let rec number (lvls : List (List (String × Affix))) (prec : Nat) : List (String × Affix × Nat) :=
    match lvls with
    | [] => []
    | l :: rest => (l.map fun (r, a) => (r, a, prec + 10)) ++ number rest (prec + 10)
  number levels 10

/-- later insertions of the same rule overwrite earlier ones (HashMap::insert) -/
def opLookup (rule : String) : Option (Affix × Nat) :=
  (prattOps.reverse.find? (fun r => r.1 == rule)).map (·.2)

def PItem.rule : PItem → Option String
  | .pre r => some r
  | .prim _ => none
  | .postFact => some "factorial"
  | .postAccess _ => some "access"
  | .postDot _ => some "dot_access"
  | .postCall _ => some "call_list"
  | .inf r => some r

/-- `lbp`: binding power of the next pair (0 at the end; a primary here is a panic) -/
def lbp : List PItem → Option Nat
  | [] => some 0
  | it :: _ =>
    match it.rule with
    | none => none
    | some r => (opLookup r).map (·.2)

/-- `map_prefix` -/
def mapPrefix (rule : String) (rhs : Expr) : Option Expr :=
  match rule with
  | "negation" => some (.un .negate rhs)
  | "spread_operator" => some (.spread rhs)
  | "invert" => some (.un .not rhs)
  | "natural_not" => some (.un .not rhs)
  | _ => none

/-- `map_infix` -/
def mapInfix (rule : String) (l r : Expr) : Option Expr :=
  match Gen.infixMap.find? (fun x => x.1 == rule) with
  | some x => some (.bin x.2 l r)
  | none => none

mutual
/-- `expr(pairs, rbp)`.  `fuel` bounds the number of pairs consumed (every call consumes
    at least one); `none` = pest would panic (malformed sequence) or fuel ran out. -/
def prattExpr : Nat → Nat → List PItem → Option (Expr × List PItem)
  | 0, _, _ => none
  | fuel + 1, rbp, items =>
    -- nud
    match items with
    | [] => none
    | .prim e :: rest => prattLoop fuel rbp e rest
    | .pre r :: rest =>
      (match opLookup r with
       | some (.prefix_, prec) =>
         (match prattExpr fuel (prec - 1) rest with
          | some (rhs, rest') =>
            (match mapPrefix r rhs with
             | some e => prattLoop fuel rbp e rest'
             | none => none)
          | none => none)
       | _ => none)
    | _ => none
/-- the `while rbp < lbp` loop with `led` -/
def prattLoop : Nat → Nat → Expr → List PItem → Option (Expr × List PItem)
  | 0, _, _, _ => none
  | fuel + 1, rbp, lhs, items =>
    match lbp items with
    | none => none
    | some l =>
      if rbp < l then
        match items with
        | [] => some (lhs, [])
        | .postFact :: rest => prattLoop fuel rbp (.fact lhs) rest
        | .postAccess i :: rest => prattLoop fuel rbp (.access lhs i) rest
        | .postDot f :: rest => prattLoop fuel rbp (.dot lhs f) rest
        | .postCall args :: rest => prattLoop fuel rbp (.call lhs args) rest
        | .inf r :: rest =>
          (match opLookup r with
           | some (.infixL, prec) =>
             (match prattExpr fuel prec rest with
              | some (rhs, rest') =>
                (match mapInfix r lhs rhs with
                 | some e => prattLoop fuel rbp e rest'
                 | none => none)
              | none => none)
           | some (.infixR, prec) =>
             (match prattExpr fuel (prec - 1) rest with
              | some (rhs, rest') =>
                (match mapInfix r lhs rhs with
                 | some e => prattLoop fuel rbp e rest'
                 | none => none)
              | none => none)
           | _ => none)
        | _ => none
      else some (lhs, items)
end

/-- `PRATT.parse(pairs)`: the whole sequence must be consumed -/
def prattParse (items : List PItem) : Option Expr :=
  match prattExpr (2 * items.length + 2) 0 items with
  | some (e, []) => some e
  | _ => none

/-! ### wire -/

def PItem.ofSx : Sx → Option PItem
  | .list [.atom "pre", .atom r] => some (.pre r)
  | .list [.atom "prim", e] => (Expr.ofSx e).map .prim
  | .list [.atom "post", .atom "fact"] => some .postFact
  | .list [.atom "post", .atom "access", e] => (Expr.ofSx e).map .postAccess
  | .list [.atom "post", .atom "dot", .atom f] => (decStr f).map .postDot
  | .list [.atom "post", .atom "call", .list args] => (args.mapM Expr.ofSx).map .postCall
  | .list [.atom "inf", .atom r] => some (.inf r)
  | _ => none

end Blots
