import Blots.Model.Builtins
import Blots.Gen.Reserved
/-
  The tree-walking evaluator: `evaluate_ast` / `evaluate_do_block_expr` /
  `evaluate_binary_op_ast` / `collect_free_variables` (expressions.rs:67-1821),
  `FunctionDef::call` and the higher-order built-ins (functions.rs).

  State: the environment is a stack of frames (innermost first).  Only the innermost frame
  is ever written (`Environment::insert` on the current environment), so a callee or a
  do-block works on extra frames pushed on top of the caller's, which are dropped on exit.
  The only other mutable thing is the display name of a lambda cell (`id ↦ name`).
  Because a failing evaluation keeps the writes it made before failing, every function
  returns the state together with the outcome.
-/
namespace Blots

abbrev Frame := List (String × Value)

structure ES where
  env : List Frame
  nextId : Nat
  names : List (Nat × String)
  deriving Inhabited

abbrev R (α : Type) := Outcome α × ES

def envGet : List Frame → String → Option Value
  | [], _ => none
  | f :: rest, k =>
    match lookupAL k f with
    | some v => some v
    | none => envGet rest k

def envContains (env : List Frame) (k : String) : Bool := (envGet env k).isSome

/-- `Environment::insert`: into the innermost frame (HashMap insert: replace or add) -/
def envInsert (env : List Frame) (k : String) (v : Value) : List Frame :=
  match env with
  | [] => [[(k, v)]]
  | f :: rest => insertAL k v f :: rest

/-- the immutability check of an assignment: inside a function call (`call_depth > 0`)
    only the innermost frame counts (`contains_key_local`), at top level the whole chain -/
def alreadyDefined (depth : Nat) (env : List Frame) (k : String) : Bool :=
  if depth > 0 then
    match env with
    | [] => false
    | f :: _ => (lookupAL k f).isSome
  else envContains env k

def nameOf (names : List (Nat × String)) (id : Nat) : Option String :=
  (names.find? (fun p => p.1 == id)).map (·.2)

/-- `if lambda_def.name.is_none() { lambda_def.name = Some(ident) }` on the heap cell: a
    function is named after the first variable it is bound to -/
def setNameIfLambda (s : ES) (ident : String) (v : Value) : ES :=
  match v with
  | .lambda id _ _ _ =>
    match nameOf s.names id with
    | none => { s with names := (id, ident) :: s.names }
    | some _ => s
  | _ => s

/-- `lambda_ptr.index() >= first_new_cell`: an assignment names only a function that its own
    right-hand side created (`first` = the next cell index before the right-hand side was
    evaluated); any other value is passed to `setNameIfLambda` as a non-function -/
def createdSince (first : Nat) (v : Value) : Value :=
  match v with
  | .lambda id _ _ _ => if first ≤ id then v else .null
  | _ => v

/-! ### free variables (`collect_free_variables`) -/

/-- names bound by the direct assignments of do-block statements -/
def boundAfterStmt (bound : List String) : Item → List String
  | .mk _ (.assign n _) _ => n :: bound
  | _ => bound

def boundAfterStmts (bound : List String) (stmts : List Item) : List String :=
  stmts.foldl boundAfterStmt bound

mutual
def freeVars (bound : List String) : Expr → List String
  | .ident n =>
    if bound.contains n || Gen.specialIdents.contains n then [] else [n]
  | .lambda args body => freeVars (args.map LArg.name ++ bound) body
  | .bin _ l r => freeVars bound l ++ freeVars bound r
  | .un _ e => freeVars bound e
  | .fact e => freeVars bound e
  | .spread e => freeVars bound e
  | .call f args => freeVars bound f ++ freeVarsList bound args
  | .access e i => freeVars bound e ++ freeVars bound i
  | .dot e _ => freeVars bound e
  | .cond c t e => freeVars bound c ++ freeVars bound t ++ freeVars bound e
  | .assign _ v => freeVars bound v
  | .list items => freeVarsItems bound items
  | .record es => freeVarsEntries bound es
  | .doBlock stmts ret =>
    -- sequential scoping: an assignment binds its name for what follows
    freeVarsStmts bound stmts ++ freeVarsItem (boundAfterStmts bound stmts) ret
  | _ => []
def freeVarsList (bound : List String) : List Expr → List String
  | [] => []
  | e :: es => freeVars bound e ++ freeVarsList bound es
def freeVarsItem (bound : List String) : Item → List String
  | .mk _ e _ => freeVars bound e
def freeVarsItems (bound : List String) : List Item → List String
  | [] => []
  | i :: is => freeVarsItem bound i ++ freeVarsItems bound is
def freeVarsStmts (bound : List String) : List Item → List String
  | [] => []
  | i :: rest => freeVarsItem bound i ++ freeVarsStmts (boundAfterStmt bound i) rest
def freeVarsEntry (bound : List String) : Entry → List String
  | .mk _ k v _ => freeVarsKey bound k (freeVars bound v)
def freeVarsEntries (bound : List String) : List Entry → List String
  | [] => []
  | e :: es => freeVarsEntry bound e ++ freeVarsEntries bound es
/-- a record entry, given the free variables of its value -/
def freeVarsKey (bound : List String) : Key → List String → List String
  | .static _, vfv => vfv
  | .dyn k, vfv => freeVars bound k ++ vfv
  | .short n, _ => if bound.contains n then [] else [n]
  | .spread e, _ => freeVars bound e
end

/-- the captured scope of a new lambda: every free name bound now.  (A free name can be spelled
    like a built-in only through the record shorthand `{sqrt}` — a plain identifier of that
    spelling parses as the built-in —, and the shorthand reads the variable: it is captured like
    any other name.) -/
def captureScope (env : List Frame) (vars : List String) : Frame :=
  vars.foldl (fun sc x =>
    match envGet env x with
    | some v => insertAL x v sc
    | none => sc) []

/-! ### spreads -/

/-- `flatten_spread_value` -/
def spreadValues : Value → List Value
  | .list l => l
  | .str s => (chars s).map fun c => .str (String.singleton c)
  | .record r => r.map fun kv => .list [.str kv.1, kv.2]
  | _ => []

def flattenSpreads (vs : List Value) : List Value :=
  vs.flatMap fun
    | .spread inner => spreadValues inner
    | v => [v]

def spreadIntoRecord (rec : Frame) : Value → Frame
  | .list l => (l.zipIdx).foldl (fun r (v, i) => insertAL (toString i) v r) rec
  | .str s => ((chars s).zipIdx).foldl (fun r (c, i) => insertAL (toString i) (.str (String.singleton c)) r) rec
  | .record r2 => r2.foldl (fun r kv => insertAL kv.1 kv.2 r) rec
  | _ => rec

/-! ### scalar operators (the last arm of `evaluate_binary_op_ast`) without calls -/

def isCompare : BinOp → Bool
  | .eq | .ne | .lt | .le | .gt | .ge | .deq | .dne | .dlt | .dle | .dgt | .dge => true
  | _ => false

def isDot : BinOp → Bool
  | .deq | .dne | .dlt | .dle | .dgt | .dge => true
  | _ => false

/-- `logical_operands`: both operands must be booleans, left checked first -/
def logicalOperands (a b : Value) : Outcome (Bool × Bool) := do
  let x ← asBool a
  let y ← asBool b
  pure (x, y)

/-- the operators whose scalar meaning needs no function call (everything except via / into /
    where).  `elementwise = true` selects the per-element rule of the list arms for `+`
    (which insists on (string,string) or (number,number)). -/
def scalarOp (ops : NumOps) (elementwise : Bool) (op : BinOp) (a b : Value) : Outcome Value :=
  match op with
  | .eq | .ne | .lt | .le | .gt | .ge | .deq | .dne | .dlt | .dle | .dgt | .dge => compareOp op a b
  | .and | .nand => (logicalOperands a b).bind fun (x, y) => .ok (.bool (x && y))
  | .or | .nor => (logicalOperands a b).bind fun (x, y) => .ok (.bool (x || y))
  | .add =>
    if elementwise then
      match a, b with
      | .str x, .str y => .ok (.str (x ++ y))
      | .num x, .num y => .ok (.num (ops.add x y))
      | _, _ => .err .type_
    else
      match a with
      | .str x => (asString b).bind fun y => .ok (.str (x ++ y))
      | _ => do
        let x ← asNumber a
        let y ← asNumber b
        pure (.num (ops.add x y))
  | .sub => do let x ← asNumber a; let y ← asNumber b; pure (.num (ops.sub x y))
  | .mul => do let x ← asNumber a; let y ← asNumber b; pure (.num (ops.mul x y))
  | .div => do let x ← asNumber a; let y ← asNumber b; pure (.num (ops.div x y))
  | .mod => do let x ← asNumber a; let y ← asNumber b; pure (.num (ops.rem x y))
  | .pow => do let x ← asNumber a; let y ← asNumber b; pure (.num (ops.powf x y))
  | .coalesce => .ok (match a with | .null => b | _ => a)
  | .via | .into | .where_ => .err .other

/-- factorial: product of 1..n as doubles, left to right; beyond 171 the product is +inf and
    stays there, so the loop is cut at 200 -/
def factorial (ops : NumOps) (n : Nat) : F64 :=
  (List.range (min n 200)).foldl (fun acc i => ops.mul acc (F64.ofNat (i + 1))) F64.one

def isListV : Value → Bool | .list _ => true | _ => false

def MAX_DEPTH : Nat := 1000

/-- positional binding of parameters (functions.rs:1793-1812); later parameters with the
    same name overwrite earlier ones -/
def bindParams (params : List LArg) (args : List Value) : Outcome Frame :=
  let rec go (ps : List LArg) (idx : Nat) (frame : Frame) : Outcome Frame :=
    match ps with
    | [] => .ok frame
    | .req n :: rest =>
      (match args[idx]? with
       | some v => go rest (idx + 1) (insertAL n v frame)
       | none => .err .arity)
    | .opt n :: rest => go rest (idx + 1) (insertAL n ((args[idx]?).getD .null) frame)
    | .rest n :: rest => go rest (idx + 1) (insertAL n (.list (args.drop idx)) frame)
  go params 0 []

def isHof (name : String) : Bool :=
  name == "map" || name == "filter" || name == "reduce" || name == "every" || name == "some" ||
  name == "sort_by" || name == "group_by" || name == "count_by"

/-- key comparison of `sort_by`: both keys ok and comparable, else equal -/
def sortByLt (b a : Value × Outcome Value) : Bool :=
  match b.2, a.2 with
  | .ok kb, .ok ka => vcmp kb ka == some .lt
  | _, _ => false

/-- heap cell 0: the `constants` record (heap.rs `CONSTANTS`) -/
def constantsRecord : Frame := [
  ("pi", .num (F64.ofNatBits 0x400921FB54442D18)),
  ("e", .num (F64.ofNatBits 0x4005BF0A8B145769)),
  ("max_value", .num (F64.ofNatBits 0x7FEFFFFFFFFFFFFF)),
  ("min_value", .num (F64.ofNatBits 0x0010000000000000))]

/-- list ∘ list: element by element in order, first failure wins -/
def zipScalar (ops : NumOps) (op : BinOp) : List Value → List Value → Outcome Value
  | x :: xs, y :: ys =>
    match scalarOp ops true op x y with
    | .ok v =>
      (match zipScalar ops op xs ys with
       | .ok (.list vs) => .ok (.list (v :: vs))
       | r => r)
    | r => r
  | _, _ => .ok (.list [])

/-- one element of a list ∘ scalar broadcast.  `*` and `==`/`!=` are written with the list
    element first in the Rust code whichever side the list is on. -/
def elemScalar (ops : NumOps) (op : BinOp) (listFirst : Bool) (v sc : Value) : Outcome Value :=
  match op with
  | .mul | .eq | .ne => scalarOp ops true op v sc
  | _ => if listFirst then scalarOp ops true op v sc else scalarOp ops true op sc v

def mapScalar (ops : NumOps) (op : BinOp) (listFirst : Bool) : List Value → Value → Outcome Value
  | [], _ => .ok (.list [])
  | v :: vs, sc =>
    match elemScalar ops op listFirst v sc with
    | .ok r =>
      (match mapScalar ops op listFirst vs sc with
       | .ok (.list rs) => .ok (.list (r :: rs))
       | x => x)
    | x => x

/-- group_by: keys must be strings; groups in order of first appearance -/
def groupByKeys : List Value → List Value → Option Frame
  | x :: xs, .str k :: ks =>
    (groupByKeys xs ks).map fun rest =>
      -- prepend x to k's group, keeping first-appearance order of keys
      match lookupAL k rest with
      | some (Value.list g) => (k, Value.list (x :: g)) :: rest.filter (fun kv => kv.1 != k)
      | _ => (k, Value.list [x]) :: rest
  | [], [] => some []
  | _, _ => none

def countByKeys (ops : NumOps) : List Value → Option Frame
  | .str k :: ks =>
    (countByKeys ops ks).map fun rest =>
      match lookupAL k rest with
      | some (Value.num c) => (k, Value.num (ops.add c F64.one)) :: rest.filter (fun kv => kv.1 != k)
      | _ => (k, Value.num F64.one) :: rest
  | [] => some []
  | _ => none

/-! ### the evaluator -/

mutual
/-- `evaluate_ast` -/
def eval (ops : NumOps) : Nat → Nat → Expr → ES → R Value
  | 0, _, _, s => (.fuel, s)
  | fuel + 1, depth, e, s =>
    match e with
    | .num x => (.ok (.num x), s)
    | .str x => (.ok (.str x), s)
    | .bool b => (.ok (.bool b), s)
    | .null => (.ok .null, s)
    | .ident n =>
      if n == "infinity" || n == "inf" then (.ok (.num F64.inf), s)
      else if n == "constants" then (.ok (.record constantsRecord), s)
      else
        (match envGet s.env n with
         | some v => (.ok v, s)
         | none => (.err .unknownIdent, s))
    | .inref field =>
      (match envGet s.env "inputs" with
       | none => (.err .other, s)
       | some (.record r) => (.ok ((lookupAL field r).getD .null), s)
       | some _ => (.err .type_, s))
    | .builtin n => (.ok (.builtin n), s)
    | .list items =>
      (match evalItems ops fuel depth items s with
       | (.ok vs, s1) => (.ok (.list (flattenSpreads vs)), s1)
       | (.err k, s1) => (.err k, s1)
       | (.panic p, s1) => (.panic p, s1)
       | (.fuel, s1) => (.fuel, s1))
    | .record entries =>
      (match evalEntries ops fuel depth entries [] s with
       | (.ok r, s1) => (.ok (.record r), s1)
       | (.err k, s1) => (.err k, s1)
       | (.panic p, s1) => (.panic p, s1)
       | (.fuel, s1) => (.fuel, s1))
    | .lambda args body =>
      if args.any (fun a => a.name == "inputs") then (.err .keyword, s) else
      let vars := freeVars (args.map LArg.name) body
      let scope := captureScope s.env vars
      (.ok (.lambda s.nextId args body scope), { s with nextId := s.nextId + 1 })
    | .assign n v =>
      if isBuiltinIdent n then (.err .builtinName, s)
      else if Gen.assignKeywords.contains n then (.err .keyword, s)
      else if alreadyDefined depth s.env n then (.err .alreadyDefined, s)
      else
        (match eval ops fuel depth v s with
         | (.ok val, s1) =>
           -- the right-hand side may itself have bound `n`: checked again before inserting
           if alreadyDefined depth s1.env n then (.err .alreadyDefined, s1)
           else
             let s2 := setNameIfLambda s1 n (createdSince s.nextId val)
             (.ok val, { s2 with env := envInsert s2.env n val })
         | r => r)
    | .output inner => eval ops fuel depth inner s
    | .cond c t el =>
      (match eval ops fuel depth c s with
       | (.ok (.bool true), s1) => eval ops fuel depth t s1
       | (.ok (.bool false), s1) => eval ops fuel depth el s1
       | (.ok _, s1) => (.err .type_, s1)
       | r => r)
    | .doBlock stmts ret =>
      -- child environment: a fresh innermost frame, dropped afterwards
      let (r, s1) := evalDo ops fuel depth stmts ret { s with env := [] :: s.env }
      (r, { s1 with env := s1.env.drop 1 })
    | .call f args =>
      (match eval ops fuel depth f s with
       | (.ok fv, s1) =>
         (match evalList ops fuel depth args s1 with
          | (.ok raw, s2) =>
            let argv := flattenSpreads raw
            if !fv.isCallable then (.err .notCallable, s2)
            else callFn ops fuel fv fv argv depth s2
          | (.err k, s2) => (.err k, s2)
          | (.panic p, s2) => (.panic p, s2)
          | (.fuel, s2) => (.fuel, s2))
       | r => r)
    | .access e i =>
      (match eval ops fuel depth e s with
       | (.ok v, s1) =>
         (match eval ops fuel depth i s1 with
          | (.ok iv, s2) =>
            (match v with
             | .record r =>
               (match iv with
                | .str k => (.ok ((lookupAL k r).getD .null), s2)
                | _ => (.err .type_, s2))
             | .list l =>
               (match iv with
                | .num x => (.ok (match indexOf l.length x with
                                  | some k => listGetD l k
                                  | none => .null), s2)
                | _ => (.err .type_, s2))
             | .str str =>
               (match iv with
                | .num x =>
                  let cs := chars str
                  (.ok (match indexOf cs.length x with
                        | some k => (match cs[k]? with
                                     | some c => .str (String.singleton c)
                                     | none => .null)
                        | none => .null), s2)
                | _ => (.err .type_, s2))
             | _ => (.err .type_, s2))
          | r => r)
       | r => r)
    | .dot e field =>
      (match eval ops fuel depth e s with
       | (.ok (.record r), s1) => (.ok ((lookupAL field r).getD .null), s1)
       | (.ok _, s1) => (.err .type_, s1)
       | r => r)
    | .bin op l r =>
      (match eval ops fuel depth l s with
       | (.ok a, s1) =>
         (match eval ops fuel depth r s1 with
          | (.ok b, s2) => evalBin ops fuel depth op a b s2
          | x => x)
       | x => x)
    | .un op inner =>
      (match eval ops fuel depth inner s with
       | (.ok v, s1) =>
         (match op, v with
          | .negate, .num x => (.ok (.num x.negate), s1)
          | .not, .bool b => (.ok (.bool (!b)), s1)
          | .invert, .bool b => (.ok (.bool (!b)), s1)
          | _, _ => (.err .type_, s1))
       | r => r)
    | .fact inner =>
      (match eval ops fuel depth inner s with
       | (.ok (.num x), s1) =>
         if F64.fle F64.zero x && F64.feq x (F64.ofNat x.toU64) then (.ok (.num (factorial ops x.toU64)), s1)
         else (.err .domain, s1)
       | (.ok _, s1) => (.err .type_, s1)
       | r => r)
    | .spread inner =>
      (match eval ops fuel depth inner s with
       | (.ok (.list l), s1) => (.ok (.spread (.list l)), s1)
       | (.ok (.str x), s1) => (.ok (.spread (.str x)), s1)
       | (.ok (.record r), s1) => (.ok (.spread (.record r)), s1)
       | (.ok _, s1) => (.err .type_, s1)
       | r => r)

/-- arguments / list items left to right, stopping at the first failure -/
def evalList (ops : NumOps) : Nat → Nat → List Expr → ES → R (List Value)
  | 0, _, _, s => (.fuel, s)
  | _ + 1, _, [], s => (.ok [], s)
  | fuel + 1, depth, e :: es, s =>
    match eval ops fuel depth e s with
    | (.ok v, s1) =>
      (match evalList ops fuel depth es s1 with
       | (.ok vs, s2) => (.ok (v :: vs), s2)
       | r => r)
    | (.err k, s1) => (.err k, s1)
    | (.panic p, s1) => (.panic p, s1)
    | (.fuel, s1) => (.fuel, s1)

def evalItems (ops : NumOps) : Nat → Nat → List Item → ES → R (List Value)
  | 0, _, _, s => (.fuel, s)
  | _ + 1, _, [], s => (.ok [], s)
  | fuel + 1, depth, (.mk _ e _) :: es, s =>
    match eval ops fuel depth e s with
    | (.ok v, s1) =>
      (match evalItems ops fuel depth es s1 with
       | (.ok vs, s2) => (.ok (v :: vs), s2)
       | r => r)
    | (.err k, s1) => (.err k, s1)
    | (.panic p, s1) => (.panic p, s1)
    | (.fuel, s1) => (.fuel, s1)

/-- record entries in order into an IndexMap -/
def evalEntries (ops : NumOps) : Nat → Nat → List Entry → Frame → ES → R Frame
  | 0, _, _, _, s => (.fuel, s)
  | _ + 1, _, [], acc, s => (.ok acc, s)
  | fuel + 1, depth, (.mk _ key value _) :: es, acc, s =>
    match key with
    | .static k =>
      (match eval ops fuel depth value s with
       | (.ok v, s1) => evalEntries ops fuel depth es (insertAL k v acc) s1
       | (.err k, s1) => (.err k, s1)
       | (.panic p, s1) => (.panic p, s1)
       | (.fuel, s1) => (.fuel, s1))
    | .dyn ke =>
      (match eval ops fuel depth ke s with
       | (.ok (.str k), s1) =>
         (match eval ops fuel depth value s1 with
          | (.ok v, s2) => evalEntries ops fuel depth es (insertAL k v acc) s2
          | (.err k, s2) => (.err k, s2)
          | (.panic p, s2) => (.panic p, s2)
          | (.fuel, s2) => (.fuel, s2))
       | (.ok _, s1) => (.err .type_, s1)
       | (.err k, s1) => (.err k, s1)
       | (.panic p, s1) => (.panic p, s1)
       | (.fuel, s1) => (.fuel, s1))
    | .short n =>
      (match envGet s.env n with
       | some v => evalEntries ops fuel depth es (insertAL n v acc) s
       | none => (.err .unknownIdent, s))
    | .spread se =>
      (match eval ops fuel depth se s with
       | (.ok (.spread inner), s1) => evalEntries ops fuel depth es (spreadIntoRecord acc inner) s1
       | (.ok _, s1) => evalEntries ops fuel depth es acc s1
       | (.err k, s1) => (.err k, s1)
       | (.panic p, s1) => (.panic p, s1)
       | (.fuel, s1) => (.fuel, s1))

/-- `evaluate_do_block_expr` on one direct statement of a do-block: an assignment may
    shadow (no "already defined" check, and no built-in name check) -/
def evalDoStmt (ops : NumOps) : Nat → Nat → Expr → ES → R Value
  | 0, _, _, s => (.fuel, s)
  | fuel + 1, depth, e, s =>
    match e with
    | .assign n v =>
      if Gen.doAssignKeywords.contains n then (.err .keyword, s)
      else
        (match eval ops fuel depth v s with
         | (.ok val, s1) =>
           let s2 := setNameIfLambda s1 n (createdSince s.nextId val)
           (.ok val, { s2 with env := envInsert s2.env n val })
         | r => r)
    | other => eval ops fuel depth other s

def evalDo (ops : NumOps) : Nat → Nat → List Item → Item → ES → R Value
  | 0, _, _, _, s => (.fuel, s)
  | fuel + 1, depth, [], .mk _ e _, s => evalDoStmt ops fuel depth e s
  | fuel + 1, depth, (.mk _ e _) :: rest, ret, s =>
    match evalDoStmt ops fuel depth e s with
    | (.ok _, s1) => evalDo ops fuel depth rest ret s1
    | r => r

/-- `FunctionDef::call(this_value, args, heap, bindings, call_depth)`.  `fv` is the function
    being called, `this` the value bound to its own name. -/
def callFn (ops : NumOps) : Nat → Value → Value → List Value → Nat → ES → R Value
  | 0, _, _, _, _, s => (.fuel, s)
  | fuel + 1, fv, this, args, depth, s =>
    match fv with
    | .lambda id params body scope =>
      (match checkArity (lambdaArity params) args.length with
       | .ok _ =>
         if depth > MAX_DEPTH then (.err .depth, s)
         else
           let name := nameOf s.names id
           let f0 : Frame :=
             match name with
             | some n => if (lookupAL n scope).isSome then [] else [(n, this)]
             | none => []
           let f1 : Frame :=
             match envGet s.env "inputs" with
             | some v => insertAL "inputs" v f0
             | none => f0
           (match bindParams params args with
            | .ok pf =>
              let frame : Frame := pf.foldl (fun f kv => insertAL kv.1 kv.2 f) f1
              let parent := if scope.isEmpty then s.env else scope :: s.env
              let (r, s1) := eval ops fuel (depth + 1) body { s with env := frame :: parent }
              (r, { s1 with env := s.env })
            | .err k => (.err k, s)
            | .panic p => (.panic p, s)
            | .fuel => (.fuel, s))
       | .err k => (.err k, s)
       | .panic p => (.panic p, s)
       | .fuel => (.fuel, s))
    | .builtin name =>
      (match builtinArity name with
       | none => (.err .other, s)
       | some ar =>
         (match checkArity ar args.length with
          | .ok _ =>
            if depth > MAX_DEPTH then (.err .depth, s)
            else if isHof name then callHof ops fuel name args (depth + 1) s
            else
              (match callPure ops name args with
               | some r => (r, s)
               | none => (.err .other, s))
          | .err k => (.err k, s)
          | .panic p => (.panic p, s)
          | .fuel => (.fuel, s)))
    | _ => (.err .notCallable, s)

/-- the callbacks of map / filter / every / some / via / where over the elements, in list
    order, with the 0-based index when the function accepts one more argument; results in
    order, stopping at the first failure.  `start` is the index of the first element. -/
def mapCalls (ops : NumOps) : Nat → Value → Bool → List Value → Nat → Nat → ES → R (List Value)
  | 0, _, _, _, _, _, s => (.fuel, s)
  | _ + 1, _, _, [], _, _, s => (.ok [], s)
  | fuel + 1, f, withIdx, x :: xs, start, depth, s =>
    let args := if withIdx then [x, .num (F64.ofNat start)] else [x]
    match callFn ops fuel f f args depth s with
    | (.ok v, s1) =>
      (match mapCalls ops fuel f withIdx xs (start + 1) depth s1 with
       | (.ok vs, s2) => (.ok (v :: vs), s2)
       | r => r)
    | (.err k, s1) => (.err k, s1)
    | (.panic p, s1) => (.panic p, s1)
    | (.fuel, s1) => (.fuel, s1)

/-- every / some: stop at the first deciding element -/
def quantCalls (ops : NumOps) : Nat → Value → Bool → Bool → List Value → Nat → Nat → ES → R Value
  | 0, _, _, _, _, _, _, s => (.fuel, s)
  | _ + 1, _, _, isEvery, [], _, _, s => (.ok (.bool isEvery), s)
  | fuel + 1, f, withIdx, isEvery, x :: xs, start, depth, s =>
    let args := if withIdx then [x, .num (F64.ofNat start)] else [x]
    match callFn ops fuel f f args depth s with
    | (.ok (.bool b), s1) =>
      if isEvery && !b then (.ok (.bool false), s1)
      else if !isEvery && b then (.ok (.bool true), s1)
      else quantCalls ops fuel f withIdx isEvery xs (start + 1) depth s1
    | (.ok _, s1) => (.err .type_, s1)
    | r => r

/-- reduce: left fold -/
def foldCalls (ops : NumOps) : Nat → Value → Bool → Value → List Value → Nat → Nat → ES → R Value
  | 0, _, _, _, _, _, _, s => (.fuel, s)
  | _ + 1, _, _, acc, [], _, _, s => (.ok acc, s)
  | fuel + 1, f, withIdx, acc, x :: xs, start, depth, s =>
    let args := if withIdx then [acc, x, .num (F64.ofNat start)] else [acc, x]
    match callFn ops fuel f f args depth s with
    | (.ok v, s1) => foldCalls ops fuel f withIdx v xs (start + 1) depth s1
    | r => r

/-- keys of `sort_by`: the callback applied to each element once (it is a function of the
    element), failures kept as such -/
def keyCalls (ops : NumOps) : Nat → Value → List Value → Nat → ES → (List (Value × Outcome Value)) × ES
  | 0, _, xs, _, s => (xs.map fun x => (x, Outcome.fuel), s)
  | _ + 1, _, [], _, s => ([], s)
  | fuel + 1, f, x :: xs, depth, s =>
    let (r, s1) := callFn ops fuel f f [x] depth s
    let (rest, s2) := keyCalls ops fuel f xs depth s1
    ((x, r) :: rest, s2)

/-- the higher-order built-ins (`depth` is already the built-in's own depth) -/
def callHof (ops : NumOps) : Nat → String → List Value → Nat → ES → R Value
  | 0, _, _, _, s => (.fuel, s)
  | fuel + 1, name, args, depth, s =>
    let a0 := args[0]?
    let a1 := args[1]?
    match a0, a1 with
    | some lv, some f =>
      (match name with
       | "sort_by" =>
         (match lv with
          | .list l =>
            if !f.isCallable then (.ok (.list l), s)
            else
              let (keyed, s1) := keyCalls ops fuel f l (depth + 1) s
              -- model artefact: running out of fuel inside a key call is not an error the
              -- real code swallows, so it is propagated
              if keyed.any (fun kr => match kr.2 with | .fuel => true | _ => false) then (.fuel, s1)
              else (.ok (.list ((mergeSortBy sortByLt keyed.length keyed).map (·.1))), s1)
          | _ => (.err .type_, s))
       | _ =>
         (match lv with
          | .list l =>
            (match arityOf f with
             | none => (.err .type_, s)
             | some ar =>
               (match name with
                | "map" =>
                  (match mapCalls ops fuel f (ar.canAccept 2) l 0 (depth + 1) s with
                   | (.ok vs, s1) => (.ok (.list vs), s1)
                   | (.err k, s1) => (.err k, s1)
                   | (.panic p, s1) => (.panic p, s1)
                   | (.fuel, s1) => (.fuel, s1))
                | "filter" => whereCalls ops fuel f (ar.canAccept 2) l 0 (depth + 1) s
                | "every" => quantCalls ops fuel f (ar.canAccept 2) true l 0 (depth + 1) s
                | "some" => quantCalls ops fuel f (ar.canAccept 2) false l 0 (depth + 1) s
                | "reduce" =>
                  (match args[2]? with
                   | some init => foldCalls ops fuel f (ar.canAccept 3) init l 0 (depth + 1) s
                   | none => (.panic "args[2] in reduce", s))
                | "group_by" =>
                  (match mapCalls ops fuel f false l 0 (depth + 1) s with
                   | (.ok ks, s1) =>
                     (match groupByKeys l ks with
                      | some r => (.ok (.record r), s1)
                      | none => (.err .type_, s1))
                   | (.err k, s1) => (.err k, s1)
                   | (.panic p, s1) => (.panic p, s1)
                   | (.fuel, s1) => (.fuel, s1))
                | "count_by" =>
                  (match mapCalls ops fuel f false l 0 (depth + 1) s with
                   | (.ok ks, s1) =>
                     (match countByKeys ops ks with
                      | some r => (.ok (.record r), s1)
                      | none => (.err .type_, s1))
                   | (.err k, s1) => (.err k, s1)
                   | (.panic p, s1) => (.panic p, s1)
                   | (.fuel, s1) => (.fuel, s1))
                | _ => (.err .other, s)))
          | _ => (.err .type_, s)))
    | _, _ => (.panic "args[i] in higher-order built-in", s)

/-- `evaluate_binary_op_ast` after both operands are evaluated -/
def evalBin (ops : NumOps) : Nat → Nat → BinOp → Value → Value → ES → R Value
  | 0, _, _, _, _, s => (.fuel, s)
  | fuel + 1, depth, op, a, b, s =>
    if isDot op then (compareOp op a b, s)
    else if op == .into && isListV b then (.err .type_, s)
    else
      match a, b with
      | .list la, .list lb =>
        if la.length != lb.length then (.err .length, s)
        else
          (match op with
           | .via => viaPairs ops fuel la lb depth s
           | .where_ => (.err .type_, s)
           | .into => (.err .type_, s)
           | _ => (zipScalar ops op la lb, s))
      | .list la, sc =>
        (match op with
         | .via =>
           if !sc.isCallable then (.err .notCallable, s)
           else
             (match arityOf sc with
              | none => (.err .other, s)
              | some ar =>
                (match mapCalls ops fuel sc (ar.canAccept 2) la 0 depth s with
                 | (.ok vs, s1) => (.ok (.list vs), s1)
                 | (.err k, s1) => (.err k, s1)
                 | (.panic p, s1) => (.panic p, s1)
                 | (.fuel, s1) => (.fuel, s1)))
         | .into =>
           if !sc.isCallable then (.err .notCallable, s)
           else callFn ops fuel sc sc [.list la] depth s
         | .where_ =>
           if !sc.isCallable then (.err .notCallable, s)
           else
             (match arityOf sc with
              | none => (.err .other, s)
              | some ar => whereCalls ops fuel sc (ar.canAccept 2) la 0 depth s)
         | _ => (mapScalar ops op true la sc, s))
      | sc, .list lb =>
        (match op with
         | .via | .into | .where_ => (.err .type_, s)
         | _ => (mapScalar ops op false lb sc, s))
      | x, y =>
        (match op with
         | .via | .into =>
           if !y.isCallable then (.err .notCallable, s)
           else callFn ops fuel y y [x] depth s
         | .where_ => (.err .type_, s)
         | _ => (scalarOp ops false op x y, s))

/-- list-list `via`: the i-th function applied to the i-th element (no index) -/
def viaPairs (ops : NumOps) : Nat → List Value → List Value → Nat → ES → R Value
  | 0, _, _, _, s => (.fuel, s)
  | fuel + 1, la, lb, depth, s =>
    match la, lb with
    | x :: xs, f :: fs =>
      if !f.isCallable then (.err .notCallable, s)
      else
        (match callFn ops fuel f f [x] depth s with
         | (.ok v, s1) =>
           (match viaPairs ops fuel xs fs depth s1 with
            | (.ok (.list vs), s2) => (.ok (.list (v :: vs)), s2)
            | r => r)
         | r => r)
    | _, _ => (.ok (.list []), s)

/-- `where`: keep the elements on which the predicate returns true; a non-boolean result is
    an error at that element -/
def whereCalls (ops : NumOps) : Nat → Value → Bool → List Value → Nat → Nat → ES → R Value
  | 0, _, _, _, _, _, s => (.fuel, s)
  | _ + 1, _, _, [], _, _, s => (.ok (.list []), s)
  | fuel + 1, f, withIdx, x :: xs, start, depth, s =>
    let args := if withIdx then [x, .num (F64.ofNat start)] else [x]
    match callFn ops fuel f f args depth s with
    | (.ok (.bool b), s1) =>
      (match whereCalls ops fuel f withIdx xs (start + 1) depth s1 with
       | (.ok (.list vs), s2) => (.ok (.list (if b then x :: vs else vs)), s2)
       | r => r)
    | (.ok _, s1) => (.err .type_, s1)
    | r => r
end

end Blots
