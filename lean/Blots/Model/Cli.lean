import Blots.Model.Json
/-
  The CLI driver `blots/src/main.rs` as a state machine: inputs (stdin and `--input`)
  are parsed and merged, the program text is parsed as a whole, the statements run in
  order, the first failure ends the process with a non-zero status and nothing is written,
  otherwise exactly one outputs object is written (stdout, or the `--output` file).

  The expression evaluator is ABSTRACT here (`Evaluator`): the driver only observes, per
  statement, whether evaluation succeeded, with which value, what `bindings.get(name)`
  answers afterwards, and whether `validate_portable_value` accepts the value.  Those
  observations are an `Event`; `stepEvent` is the body of the `for_each` in
  `evaluate_source` (main.rs:107-194).
-/
namespace Blots

/-- what the driver observes of one statement -/
inductive Event where
  /-- `Rule::expression`: the result of `evaluate_pairs` -/
  | expr : Outcome Value → Event
  /-- `output name`: the result of evaluating the identifier, `bindings.get(name)`
      AFTER the evaluation, and whether `validate_portable_value` accepts that value
      (irrelevant when the name is not bound) -/
  | outIdent : (name : String) → Outcome Value → (bound : Option Value) → (portable : Bool) → Event
  /-- `output name = e`: the result of evaluating the assignment, and whether
      `validate_portable_value` accepts the value -/
  | outAssign : (name : String) → Outcome Value → (portable : Bool) → Event
  /-- a comment statement -/
  | comment : Event
  deriving Inhabited

/-- outputs collected so far: `IndexMap<String, SerializableValue>` -/
abbrev Outputs := List (String × SV)

inductive Step where
  | next : Outputs → Step
  /-- `std::process::exit(code)` -/
  | exit : Nat → Step

/-- exit status of a failed evaluation: 1 for a reported error, 101 for a Rust panic -/
def failCode {α} : Outcome α → Nat
  | .panic _ => 101
  | _ => 1

/-- `reject_non_finite` lets the value through: its serialisation contains no NaN / ±inf
    in numbers, lists or records (`contains_non_finite`, main.rs; function source text is
    not looked into).  A value that cannot be serialised at all is not rejected here. -/
def writable (v : Value) : Bool :=
  match fromValue v with
  | .ok sv => sv.finite
  | _ => true

/-- `outputs.insert(name, serializable)` when `to_serializable_value` succeeds; a value
    that cannot be serialised is skipped silently -/
def declare (outs : Outputs) (name : String) (v : Value) : Outputs :=
  match fromValue v with
  | .ok sv => insertAL name sv outs
  | _ => outs

/-- the value an `output` statement tries to emit.  `output name`: `bindings.get(name)`,
    or else the value the identifier evaluated to (a built-in such as `map`, `inf`,
    `constants`); `output name = e`: the value of the assignment. -/
def Event.declared : Event → Option Value
  | .outIdent _ r bound _ =>
    (match bound with
     | some v => some v
     | none => (match r with | .ok v => some v | _ => none))
  | .outAssign _ r _ => (match r with | .ok v => some v | _ => none)
  | _ => none

/-- the common part of both `output` forms: validate, serialise, refuse non-finite
    numbers, insert; then the evaluation error, if any, ends the run -/
def stepOutput (outs : Outputs) (name : String) (r : Outcome Value) (declared : Option Value)
    (portable : Bool) : Step :=
  match declared with
  | some v =>
    if !portable then .exit 1                           -- "[output error] Function contains unbound …"
    else if !writable v then .exit 1                    -- "[output error] … is not finite …"
    else if r.isOk then .next (declare outs name v) else .exit (failCode r)
  | none => if r.isOk then .next outs else .exit (failCode r)

/-- one iteration of the statement loop of `evaluate_source` -/
def stepEvent (outs : Outputs) : Event → Step
  | .expr r => if r.isOk then .next outs else .exit (failCode r)
  | .outIdent name r bound portable =>
    stepOutput outs name r (Event.declared (.outIdent name r bound portable)) portable
  | .outAssign name r portable =>
    stepOutput outs name r (Event.declared (.outAssign name r portable)) portable
  | .comment => .next outs

/-- the outputs object: member order = `IndexMap` order -/
abbrev OutObject := List (String × Json)

def writeOutputs (outs : Outputs) : OutObject := outs.map fun kv => (kv.1, toJson kv.2)

structure CliResult where
  exit : Nat
  /-- the single JSON object emitted (stdout or `--output` file), if any -/
  object : Option OutObject

/-- the statement loop followed by `write_outputs` and `exit(0)` -/
def runEvents : Outputs → List Event → CliResult
  | outs, [] => ⟨0, some (writeOutputs outs)⟩
  | outs, e :: rest =>
    match stepEvent outs e with
    | .next outs' => runEvents outs' rest
    | .exit c => ⟨c, none⟩

/-! ### the same loop over an abstract evaluator -/

/-- a top-level statement; `Code` is whatever the evaluator runs -/
inductive Stmt (Code : Type) where
  | expr : Code → Stmt Code
  /-- `output name` (the code is the identifier expression) -/
  | outIdent : String → Code → Stmt Code
  /-- `output name = e` (the code is the assignment) -/
  | outAssign : String → Code → Stmt Code
  | comment : Stmt Code

structure Evaluator (Env Code : Type) where
  /-- `evaluate_pairs`: result and the bindings afterwards -/
  eval : Env → Code → Outcome Value × Env
  /-- `bindings.get(name)` -/
  lookup : Env → String → Option Value
  /-- `validate_portable_value(v, heap, bindings).is_ok()` -/
  portable : Env → Value → Bool

/-- what the driver observes when it runs one statement in `env` -/
def observe {Env Code} (ev : Evaluator Env Code) (env : Env) : Stmt Code → Event × Env
  | .expr c => let (r, env') := ev.eval env c; (.expr r, env')
  | .outIdent n c =>
    let (r, env') := ev.eval env c
    let bound := ev.lookup env' n
    let declared := match bound with | some v => some v | none => (match r with | .ok v => some v | _ => none)
    (.outIdent n r bound (match declared with | some v => ev.portable env' v | none => true), env')
  | .outAssign n c =>
    let (r, env') := ev.eval env c
    (.outAssign n r (match r with | .ok v => ev.portable env' v | _ => true), env')
  | .comment => (.comment, env)

/-- `evaluate_source` after a successful parse -/
def runStmts {Env Code} (ev : Evaluator Env Code) : Env → Outputs → List (Stmt Code) → CliResult
  | _, outs, [] => ⟨0, some (writeOutputs outs)⟩
  | env, outs, s :: rest =>
    let (e, env') := observe ev env s
    match stepEvent outs e with
    | .next outs' => runStmts ev env' outs' rest
    | .exit c => ⟨c, none⟩

/-- the observations of a whole program (those after the first failure are never made by
    the real driver; `runEvents` ignores them) -/
def trace {Env Code} (ev : Evaluator Env Code) : Env → List (Stmt Code) → List Event
  | _, [] => []
  | env, s :: rest => let (e, env') := observe ev env s; e :: trace ev env' rest

/-- the whole run.  `sources`: stdin (if piped and non-blank) then every `--input`, each
    `none` when the text is not JSON (`[input error]`, exit 1 before anything runs);
    `program`: `none` when `get_pairs` rejects the source text (`Parse error`, exit 1
    before any statement runs). -/
def cliRun {Env Code} (ev : Evaluator Env Code) (pf : ParseFn) (pb : ParseBody)
    (mkEnv : List (String × Value) → Env)
    (sources : List (Option Json)) (program : Option (List (Stmt Code))) : CliResult :=
  match sources.mapM id with
  | none => ⟨1, none⟩
  | some docs =>
    match program with
    | none => ⟨1, none⟩
    | some stmts => runStmts ev (mkEnv (mergeFrom pf pb 0 [] docs)) [] stmts

/-! ### vocabulary for the statements of C19 -/

/-- the statement "parsed and evaluated successfully" (for an `output` this includes the two
    checks whose failure is reported as `[output error]`: a function must be portable, and
    the value must not contain NaN / ±inf) -/
def Event.succeeded : Event → Bool
  | .expr r => r.isOk
  | .outIdent n r bound portable =>
    r.isOk && (match Event.declared (.outIdent n r bound portable) with
               | some v => portable && writable v
               | none => true)
  | .outAssign n r portable =>
    r.isOk && (match Event.declared (.outAssign n r portable) with
               | some v => portable && writable v
               | none => true)
  | .comment => true

/-- the name an `output` statement declares -/
def Event.declaredName : Event → Option String
  | .outIdent n _ _ _ => some n
  | .outAssign n _ _ => some n
  | _ => none

/-- name and value of the declaration -/
def Event.declaredValue (e : Event) : Option (String × Value) :=
  match e.declaredName, e.declared with
  | some n, some v => some (n, v)
  | _, _ => none

/-- the entry a successful `output` statement stores -/
def Event.stored (e : Event) : Option (String × SV) :=
  match e.declaredValue with
  | some (n, v) => (match fromValue v with | .ok sv => some (n, sv) | _ => none)
  | none => none

/-- what a successful statement does to the collected outputs -/
def storeEvent (outs : Outputs) (e : Event) : Outputs :=
  match e.stored with
  | some (n, sv) => insertAL n sv outs
  | none => outs

/-- append a key unless it is already there -/
def addKey (acc : List String) (k : String) : List String := if acc.contains k then acc else acc ++ [k]

/-- keys in order of first occurrence -/
def firstOccurrences (ks : List String) : List String := ks.foldl addKey []

end Blots
