/-
  Basic plumbing shared by the executable model: S-expressions used on the line
  protocol, hex coding of strings (UTF-8 bytes), small list helpers.
  Import-free (core only) so that the driver links as a native executable.
-/
namespace Blots

/-- S-expressions: atoms and lists.  Everything that crosses the model/harness boundary
    (ASTs, values, outcomes) is one of these, printed on a single line. -/
inductive Sx where
  | atom : String → Sx
  | list : List Sx → Sx
  deriving Repr, Inhabited, BEq

namespace Sx

partial def toStr : Sx → String
  | atom s => s
  | list xs => "(" ++ " ".intercalate (xs.map toStr) ++ ")"

/-- Tokenise on spaces and parentheses. -/
def tokens (s : String) : List String :=
  let rec go (cs : List Char) (cur : List Char) (acc : List String) : List String :=
    match cs with
    | [] => (if cur.isEmpty then acc else String.ofList cur.reverse :: acc).reverse
    | c :: rest =>
      if c = '(' || c = ')' then
        let acc := if cur.isEmpty then acc else String.ofList cur.reverse :: acc
        go rest [] (String.singleton c :: acc)
      else if c = ' ' || c = '\n' || c = '\r' || c = '\t' then
        let acc := if cur.isEmpty then acc else String.ofList cur.reverse :: acc
        go rest [] acc
      else go rest (c :: cur) acc
  go s.toList [] []

/-- Parse a token list with an explicit stack (total, no fuel needed). -/
def parseToks (toks : List String) : Option Sx :=
  let rec go (toks : List String) (stack : List (List Sx)) (cur : List Sx) : Option Sx :=
    match toks with
    | [] => match stack, cur with
      | [], [x] => some x
      | _, _ => none
    | "(" :: rest => go rest (cur :: stack) []
    | ")" :: rest => match stack with
      | [] => none
      | top :: stack' => go rest stack' (Sx.list cur.reverse :: top)
    | t :: rest => go rest stack (Sx.atom t :: cur)
  go toks [] []

def parse (s : String) : Option Sx := parseToks (tokens s)

end Sx

/-! ### hex coding -/

def hexDigit (n : Nat) : Char :=
  if n < 10 then Char.ofNat (48 + n) else Char.ofNat (87 + n)

def hexVal (c : Char) : Option Nat :=
  if '0' ≤ c ∧ c ≤ '9' then some (c.toNat - 48)
  else if 'a' ≤ c ∧ c ≤ 'f' then some (c.toNat - 87)
  else if 'A' ≤ c ∧ c ≤ 'F' then some (c.toNat - 55)
  else none

def bytesToHex (bs : List UInt8) : String :=
  String.ofList (bs.flatMap fun b => [hexDigit (b.toNat / 16), hexDigit (b.toNat % 16)])

def hexToBytes (s : String) : Option (List UInt8) :=
  let rec go : List Char → Option (List UInt8)
    | [] => some []
    | [_] => none
    | a :: b :: rest => do
      let x ← hexVal a
      let y ← hexVal b
      let tl ← go rest
      pure (UInt8.ofNat (x * 16 + y) :: tl)
  go s.toList

/-- A string atom on the wire: `h` followed by the hex of its UTF-8 bytes (so the empty
    string is the atom `h`). -/
def encStr (s : String) : String := "h" ++ bytesToHex s.toUTF8.toList

def decStr (a : String) : Option String :=
  match a.toList with
  | 'h' :: rest => do
    let bs ← hexToBytes (String.ofList rest)
    String.fromUTF8? (ByteArray.mk bs.toArray)
  | _ => none

def hex64 (n : UInt64) : String :=
  String.ofList ((List.range 16).map fun i => hexDigit ((n.toNat / 16 ^ (15 - i)) % 16))

def parseHex64 (s : String) : Option UInt64 :=
  if s.length ≠ 16 then none else
  s.toList.foldlM (fun acc c => do let v ← hexVal c; pure (acc * 16 + v)) 0 |>.map UInt64.ofNat

/-! ### list helpers -/

def joinStr (sep : String) (xs : List String) : String := sep.intercalate xs

def lookupAL {α} (k : String) : List (String × α) → Option α
  | [] => none
  | (k', v) :: rest => if k' = k then some v else lookupAL k rest

/-- IndexMap-style insert: replace in place if the key exists, else append. -/
def insertAL {α} (k : String) (v : α) : List (String × α) → List (String × α)
  | [] => [(k, v)]
  | (k', v') :: rest => if k' = k then (k, v) :: rest else (k', v') :: insertAL k v rest

end Blots
