import Blots.Model.Num
import Blots.Gen.Units
/-
  Executable model of `blots-core/src/units.rs`:

    * `resolveIn` / `resolveCodes` / `resolveUnit`   — `resolve_unit`   (units.rs:1133-1202)
    * `toBaseF` / `fromBaseF` / `convertF`           — `Unit::convert_to_base`,
      `Unit::convert_from_base`, `convert`            (units.rs:127-155, 1208-1228) over doubles,
      arithmetic through the `NumOps` parameter (bit-exact against the Rust code with
      `NumOps.native`)
    * `QConv`, `convQ`, `convertQ`                   — the same conversions over exact rationals
      (`Rat` is in core Lean), coefficients = the exact value of the source literal

  over the table `Gen.units` translated from `get_all_units()` on every run.

  Strings.  An identifier is the list of its Unicode scalar values, each as a `Nat`
  (`codesOf`); string equality in Rust is equality of these lists.

  Lower-casing.  `str::to_lowercase` of an ARBITRARY query string is modelled as: ASCII
  `A-Z ↦ a-z`; the generated table `Gen.lowerTable` for the non-ASCII characters whose
  lower-case differs from themselves and lies inside the alphabet of the lower-cased
  identifiers (`Μ Ω Ω(ohm sign) K(kelvin sign)` on the pinned tree); every other character
  unchanged.  The last clause is not what Rust does for e.g. `É`, but such a character
  lower-cases to something that occurs in no lower-cased identifier, so the strings still
  cannot match: for the only use made of it (comparison against lower-cased identifiers)
  the model is exact, provided the per-character facts hold.  Those are validated by the
  harness against `char::to_lowercase` for EVERY Unicode scalar value on every run, and
  `to_lowercase` of every identifier against `UnitRow.lowers`.  The context rule of
  `to_lowercase` (final sigma) is irrelevant: the translator fails if a sigma occurs.

  Kernel-friendliness: the functions used by the whole-table `decide +kernel` proofs are
  structural recursions over lists with `Nat.beq`/`Nat.ble` tests.
-/
namespace Blots.Units
open Blots Blots.Gen

/-! ### strings as code lists -/

def codesOf (s : String) : List Nat := s.toList.map Char.toNat

def strOfCodes (cs : List Nat) : String := String.ofList (cs.map Char.ofNat)

def codesEq : List Nat → List Nat → Bool
  | [], [] => true
  | a :: as, b :: bs => Nat.beq a b && codesEq as bs
  | _, _ => false

def isPrefixCodes : List Nat → List Nat → Option (List Nat)
  | [], rest => some rest
  | _ :: _, [] => none
  | p :: ps, c :: cs => if Nat.beq p c then isPrefixCodes ps cs else none

/-! ### lower-casing -/

def lookupLower : List (Nat × List Nat) → Nat → Option (List Nat)
  | [], _ => none
  | (k, v) :: rest, c => if Nat.beq k c then some v else lookupLower rest c

/-- `char::to_lowercase` as far as it matters for matching identifiers (see the header) -/
def lowerCode (c : Nat) : List Nat :=
  if Nat.ble 65 c && Nat.ble c 90 then [c + 32]
  else if Nat.ble c 127 then [c]
  else match lookupLower lowerTable c with
    | some l => l
    | none => [c]

def lowerCodes : List Nat → List Nat
  | [] => []
  | c :: cs => lowerCode c ++ lowerCodes cs

/-! ### `resolve_unit` -/

/-- `Unit::matches_exact`: `self.identifiers.contains(&identifier)` -/
def matchesExact (u : UnitRow) (q : List Nat) : Bool := u.ids.any (codesEq q)

/-- `unit.identifiers.iter().any(|alias| alias.to_lowercase() == identifier_lower)` -/
def matchesCase (u : UnitRow) (ql : List Nat) : Bool :=
  u.ids.any (fun a => codesEq (lowerCodes a) ql)

/-- positions (counted from `i`) of the rows satisfying `p`, in table order -/
def indicesFrom (p : UnitRow → Bool) : Nat → List UnitRow → List Nat
  | _, [] => []
  | i, u :: us => if p u then i :: indicesFrom p (i + 1) us else indicesFrom p (i + 1) us

/-- result of `resolve_unit`: the index of the unit in the table, or one of the two errors -/
inductive Resolved where
  | ok (i : Nat)
  | unknown      -- Err "Unknown unit: …"
  | ambiguous    -- Err "Ambiguous unit '…'; try …"
  deriving DecidableEq, Repr, Inhabited

/-- `resolve_unit` over a table.
    exact matches first: one ↦ it, several ↦ ambiguity error; otherwise case-insensitive
    matches: none ↦ unknown error, one ↦ it, several ↦ ambiguity error. -/
def resolveIn (us : List UnitRow) (q : List Nat) : Resolved :=
  match indicesFrom (fun u => matchesExact u q) 0 us with
  | [i] => .ok i
  | _ :: _ :: _ => .ambiguous
  | [] =>
    match indicesFrom (fun u => matchesCase u (lowerCodes q)) 0 us with
    | [] => .unknown
    | [i] => .ok i
    | _ :: _ :: _ => .ambiguous

def resolveCodes (q : List Nat) : Resolved := resolveIn units q

def resolveUnit (s : String) : Resolved := resolveCodes (codesOf s)

/-! ### conversions over doubles -/

def coefF (bits : Nat) : F64 := F64.ofNatBits bits

/-- `Unit::convert_to_base` -/
def toBaseF (ops : NumOps) (c : Conv) (v : F64) : F64 :=
  match c with
  | .linear _ _ bits _ => ops.mul v (coefF bits)
  | .reciprocal _ _ bits _ => if F64.feq v F64.zero then F64.inf else ops.div (coefF bits) v
  | .temperature toK _ => toK.evalF ops v

/-- `Unit::convert_from_base` -/
def fromBaseF (ops : NumOps) (c : Conv) (v : F64) : F64 :=
  match c with
  | .linear _ _ bits _ => ops.div v (coefF bits)
  | .reciprocal _ _ bits _ => if F64.feq v F64.zero then F64.inf else ops.div (coefF bits) v
  | .temperature _ fromK => fromK.evalF ops v

/-- result of `convert`: a value, or which step failed -/
inductive Converted (α : Type) where
  | ok (v : α)
  | fromUnknown | fromAmbiguous     -- `resolve_unit(from_unit)?`
  | toUnknown | toAmbiguous         -- `resolve_unit(to_unit)?`
  | category                        -- Err "Cannot convert … to …"
  deriving DecidableEq, Repr, Inhabited

def Converted.isErr {α} : Converted α → Bool
  | .ok _ => false
  | _ => true

/-- resolve both identifiers (source first) and check the categories — the prologue of
    `convert` — then apply `k` to the two rows -/
def withPair {α} (us : List UnitRow) (fromId toId : List Nat) (k : UnitRow → UnitRow → α) :
    Converted α :=
  match resolveIn us fromId with
  | .unknown => .fromUnknown
  | .ambiguous => .fromAmbiguous
  | .ok i =>
    match resolveIn us toId with
    | .unknown => .toUnknown
    | .ambiguous => .toAmbiguous
    | .ok j =>
      let a := us.getD i default
      let b := us.getD j default
      if Nat.beq a.cat b.cat then .ok (k a b) else .category

/-- `units::convert` -/
def convertFIn (ops : NumOps) (us : List UnitRow) (v : F64) (fromId toId : List Nat) : Converted F64 :=
  withPair us fromId toId fun a b => fromBaseF ops b.conv (toBaseF ops a.conv v)

def convertF (ops : NumOps) (v : F64) (fromId toId : List Nat) : Converted F64 :=
  convertFIn ops units v fromId toId

/-! ### conversions over exact rationals

  `none` stands for the `+∞` the float code returns from a reciprocal conversion of zero; it
  is outside the rational model (the algebraic laws are stated for finite results). -/

inductive QConv where
  | linear (c : Rat)
  | reciprocal (c : Rat)
  | temperature (toK fromK : Rat → Rat)

def QConv.toBase : QConv → Rat → Option Rat
  | .linear c, v => some (v * c)
  | .reciprocal c, v => if v = 0 then none else some (c / v)
  | .temperature toK _, v => some (toK v)

def QConv.fromBase : QConv → Rat → Option Rat
  | .linear c, v => some (v / c)
  | .reciprocal c, v => if v = 0 then none else some (c / v)
  | .temperature _ fromK, v => some (fromK v)

/-- convert `x` from a unit with conversion `a` to a unit with conversion `b` (same category) -/
def convQ (a b : QConv) (x : Rat) : Option Rat := (a.toBase x).bind b.fromBase

/-- coefficients non-zero; the two temperature functions inverse to each other -/
def QConv.WellFormed : QConv → Prop
  | .linear c => c ≠ 0
  | .reciprocal c => c ≠ 0
  | .temperature toK fromK => (∀ x, fromK (toK x) = x) ∧ (∀ y, toK (fromK y) = y)

def coefQ (num : Int) (den : Nat) : Rat := (num : Rat) / (den : Rat)

/-- the exact-rational reading of a table row -/
def toQ : Conv → QConv
  | .linear n d _ _ => .linear (coefQ n d)
  | .reciprocal n d _ _ => .reciprocal (coefQ n d)
  | .temperature toK fromK => .temperature toK.evalQ fromK.evalQ

def convertQIn (us : List UnitRow) (x : Rat) (fromId toId : List Nat) : Converted (Option Rat) :=
  withPair us fromId toId fun a b => convQ (toQ a.conv) (toQ b.conv) x

def convertQ (x : Rat) (fromId toId : List Nat) : Converted (Option Rat) :=
  convertQIn units x fromId toId

/-! ### lookup trees (certificates used by the whole-table proofs, see Gen/Units.lean) -/

/-- positional key of an identifier -/
def encodeCodes : List Nat → Nat
  | [] => 1
  | c :: cs => c + keyBase * encodeCodes cs

def treeFind : IdTree → Nat → Option Nat
  | .leaf, _ => none
  | .node l k v r, x => if Nat.beq x k then some v else if Nat.blt x k then treeFind l x else treeFind r x

/-! ### metric prefixes -/

/-- SI prefix names and their powers of ten -/
def metricPrefixes : List (List Nat × Int) := [
  (codesOf "yotta", 24), (codesOf "zetta", 21), (codesOf "exa", 18), (codesOf "peta", 15),
  (codesOf "tera", 12), (codesOf "giga", 9), (codesOf "mega", 6), (codesOf "kilo", 3),
  (codesOf "hecto", 2), (codesOf "deca", 1), (codesOf "deka", 1), (codesOf "deci", -1),
  (codesOf "centi", -2), (codesOf "milli", -3), (codesOf "micro", -6), (codesOf "nano", -9),
  (codesOf "pico", -12), (codesOf "femto", -15), (codesOf "atto", -18), (codesOf "zepto", -21),
  (codesOf "yocto", -24)]

/-- `cu = cv · 10^k` on exact fractions `nu/du`, `nv/dv`, by cross-multiplication -/
def ratioIsPow10 (nu : Int) (du : Nat) (nv : Int) (dv : Nat) (k : Int) : Bool :=
  if k ≥ 0 then decide (nu * (dv : Int) = nv * (du : Int) * (10 : Int) ^ k.toNat)
  else decide (nu * (dv : Int) * (10 : Int) ^ (-k).toNat = nv * (du : Int))

/-- the coefficient of a linear / reciprocal row as a fraction -/
def coefFrac : Conv → Option (Bool × Int × Nat)
  | .linear n d _ _ => some (false, n, d)
  | .reciprocal n d _ _ => some (true, n, d)
  | .temperature _ _ => none

/-- for a unit `u`, one of its identifiers `idu` and a prefix `(p, k)`: every unit `v` of the
    same category that lists `idu` minus the prefix must have `coef u = coef v · 10^k`
    (both linear) -/
def prefixOkFor (us : List UnitRow) (u : UnitRow) (idu : List Nat) (pk : List Nat × Int) : Bool :=
  match isPrefixCodes pk.1 idu with
  | none => true
  | some rest =>
    us.all fun v =>
      if Nat.beq u.cat v.cat && matchesExact v rest then
        match coefFrac u.conv, coefFrac v.conv with
        | some (false, nu, du), some (false, nv, dv) => ratioIsPow10 nu du nv dv pk.2
        | _, _ => false
      else true

def prefixAllOk (us : List UnitRow) : Bool :=
  us.all fun u => u.ids.all fun idu => metricPrefixes.all fun pk => prefixOkFor us u idu pk

/-- the (unit index, base unit index, exponent) triples the previous check ranges over -/
def prefixPairs (us : List UnitRow) : List (Nat × Nat × Int) :=
  let idx := (List.range us.length).zip us
  idx.flatMap fun (i, u) => u.ids.flatMap fun idu => metricPrefixes.flatMap fun pk =>
    match isPrefixCodes pk.1 idu with
    | none => []
    | some rest => idx.filterMap fun (j, v) =>
        if Nat.beq u.cat v.cat && matchesExact v rest then some (i, j, pk.2) else none

/-! ### exact value of a double (for the rational reference used by the harness) -/

def f64ToRat (x : F64) : Rat :=
  let (n, d) := x.ratio
  let q : Rat := (n : Rat) / (d : Rat)
  if x.neg then -q else q

/-- the double nearest to a rational (ties to even) -/
def ratToF64 (q : Rat) : F64 := F64.ofRatio (q.num < 0) q.num.natAbs q.den

end Blots.Units
