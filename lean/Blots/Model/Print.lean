import Blots.Model.Syntax
import Blots.Gen.Prec
import Blots.Gen.Reserved
/-
  `ast_to_source.rs`: the single-line printer `expr_to_source`, the closure emitter
  `expr_to_source_with_scope`, and the parenthesisation rules shared with the formatter.
-/
namespace Blots

/-- `SerializableValue` (values.rs): what captured values look like to the emitter -/
inductive SV where
  | num : F64 → SV
  | bool : Bool → SV
  | null : SV
  | str : String → SV
  | list : List SV → SV
  | record : List (String × SV) → SV
  /-- args and the already emitted body text -/
  | lambda : List LArg → String → SV
  | builtin : String → SV
  deriving Inhabited

/-- `operator_info` (precedence.rs:133): first row of the table for this operator -/
def opInfo (op : BinOp) : Nat × Bool :=
  match Gen.precTable.find? (fun r => r.2.2.1 == op) with
  | some r => (r.1, r.2.1)
  | none => (0, false)

/-- `binary_op_to_source` -/
def opSpelling (op : BinOp) : String :=
  match Gen.opSpelling.find? (fun r => r.1 == op) with
  | some r => r.2
  | none => "?"

/-- `binary_op_str` (formatter.rs) -/
def fmtSpelling (op : BinOp) : String :=
  match Gen.fmtSpelling.find? (fun r => r.1 == op) with
  | some r => r.2
  | none => "?"

def isAsciiAlpha (c : Char) : Bool := ('a' ≤ c && c ≤ 'z') || ('A' ≤ c && c ≤ 'Z')
def isAsciiDigit (c : Char) : Bool := '0' ≤ c && c ≤ '9'

/-- `is_valid_identifier` -/
def isValidIdentifier (s : String) : Bool :=
  match s.toList with
  | [] => false
  | c :: rest =>
    !Gen.printerReserved.contains s && (isAsciiAlpha c || c == '_') &&
      rest.all (fun d => isAsciiAlpha d || isAsciiDigit d || d == '_')

/-- split at every `"`, keeping the pieces (like `split_inclusive('"')` with the quote removed) -/
def splitQuotes (cs : List Char) : List (List Char × Bool) :=
  -- each piece with a flag "was followed by a quote"
  let rec go (cs : List Char) (cur : List Char) (acc : List (List Char × Bool)) : List (List Char × Bool) :=
    match cs with
    | [] => (if cur.isEmpty then acc else (cur.reverse, false) :: acc).reverse
    | c :: rest => if c == '"' then go rest [] ((cur.reverse, true) :: acc) else go rest (c :: cur) acc
  go cs [] []

/-- `string_to_source`: the grammar has no escapes; choose a quote that does not occur -/
def stringToSource (s : String) : String :=
  let cs := s.toList
  if !cs.contains '"' then "\"" ++ s ++ "\""
  else if !cs.contains '\'' then "'" ++ s ++ "'"
  else
    let pieces := (splitQuotes cs).flatMap fun (p, q) =>
      let body := if p.isEmpty then [] else ["\"" ++ String.ofList p ++ "\""]
      if q then body ++ ["'\"'"] else body
    "(" ++ " + ".intercalate pieces ++ ")"

/-- `format_record_key` -/
def formatRecordKey (k : String) : String :=
  if isValidIdentifier k then k
  else if !(k.toList.contains '"' && k.toList.contains '\'') then stringToSource k
  else "[" ++ stringToSource k ++ "]"

def f64_1e15 : F64 := F64.ofNat (10 ^ 15)

/-- `number_to_source` -/
def numberToSource (x : F64) : String :=
  if x.isInf && !x.neg then "1e999"
  else if x.isIntegral && F64.flt x.abs f64_1e15 then x.toFixed 0
  else x.toDisplay

def lambdaArgToSource : LArg → String
  | .req n => n
  | .opt n => n ++ "?"
  | .rest n => "..." ++ n

def unaryOpToSource : UnOp → String
  | .negate => "-" | .not => "!" | .invert => "~"

/-- position of a child inside its parent (`ChildPosition`) -/
inductive Pos where
  | binLeft : BinOp → Pos
  | binRight : BinOp → Pos
  | prefix_ : Pos
  | postfix_ : Pos

/-- `ends_open`: the expression ends with a form that extends as far right as possible -/
def endsOpen : Expr → Bool
  | .lambda _ _ => true
  | .cond _ _ _ => true
  | .assign _ _ => true
  | .output _ => true
  | .bin _ _ r => endsOpen r
  | .un _ e => endsOpen e
  | _ => false

/-- `needs_parens` -/
def needsParens (child : Expr) (pos : Pos) : Bool :=
  (match pos with
   | .binLeft _ | .postfix_ => endsOpen child
   | _ => false) ||
  (match child with
   | .bin cop _ _ =>
     let cp := (opInfo cop).1
     (match pos with
      | .binLeft pop => let (pp, pr) := opInfo pop; cp < pp || (cp == pp && pr)
      | .binRight pop => let (pp, pr) := opInfo pop; cp < pp || (cp == pp && !pr)
      | .prefix_ | .postfix_ => true)
   | .un _ _ => (match pos with | .postfix_ => true | _ => false)
   | _ => false)

/-- `lambda_body_needs_parens` -/
def lambdaBodyNeedsParens : Expr → Bool
  | .bin op l _ =>
    op == .via || op == .into || op == .where_ ||
      ((opInfo op).1 == (opInfo .via).1 && lambdaBodyNeedsParens l)
  | _ => false

def parenIf (b : Bool) (s : String) : String := if b then "(" ++ s ++ ")" else s

mutual
/-- `serializable_value_to_source` -/
def svToSource : SV → String
  | .num x =>
    if x.isNaN then "(0/0)"
    else if x.neg then "(-" ++ numberToSource x.negate ++ ")"
    else numberToSource x
  | .bool b => if b then "true" else "false"
  | .null => "null"
  | .str s => stringToSource s
  | .list xs => "[" ++ ", ".intercalate (svListToSource xs) ++ "]"
  | .record kvs => "{" ++ ", ".intercalate (svRecToSource kvs) ++ "}"
  | .lambda args body => "((" ++ ", ".intercalate (args.map lambdaArgToSource) ++ ") => " ++ body ++ ")"
  | .builtin n => n
def svListToSource : List SV → List String
  | [] => []
  | x :: xs => svToSource x :: svListToSource xs
def svRecToSource : List (String × SV) → List String
  | [] => []
  | (k, v) :: r => (formatRecordKey k ++ ": " ++ svToSource v) :: svRecToSource r
end

/-- the text starts with `via` / `into` / `where` (the word operators that are no reserved
    words, so they may be names) followed by a blank or a tab:
    `["via", "into", "where"].iter().any(|w| source.strip_prefix(w).is_some_and(|rest|
    rest.starts_with(' ') || rest.starts_with('\t')))` -/
def wordOperatorStart (cs : List Char) : Bool :=
  ["via", "into", "where"].any fun w =>
    (w.toList ++ [' ']).isPrefixOf cs || (w.toList ++ ['\t']).isPrefixOf cs

/-- the test of `protect_statement_start`: `source.starts_with('-') || word_operator_start` -/
def protectDecide (cs : List Char) : Bool := cs.head? == some '-' || wordOperatorStart cs

/-- `protect_statement_start`: a statement whose text starts with `-`, or with a name spelled
    like a word operator followed by a blank, would continue the line before it (`a` ⏎
    `where into x` is read as `a where into` and a stray `x`): parenthesise it -/
def protectStatementStart (s : String) : String :=
  if protectDecide s.toList then "(" ++ s ++ ")" else s

abbrev Scope := List (String × SV)

def scopeRemove (sc : Scope) (n : String) : Scope := sc.filter (fun kv => kv.1 != n)

def commentLines (cs : List String) : String := String.join (cs.map fun c => "\n  " ++ c)

/-- a do-block statement that is an assignment removes its name from the inlining scope -/
def scopeAfterStmt (sc : Scope) : Item → Scope
  | .mk _ (.assign n _) _ => scopeRemove sc n
  | _ => sc

def scopeAfterStmts (sc : Scope) (stmts : List Item) : Scope := stmts.foldl scopeAfterStmt sc

mutual
/-- `expr_to_source_with_scope`; with the empty scope this is `expr_to_source`
    (the harness checks both Rust functions against it). -/
def exprSrc (sc : Scope) : Expr → String
  | .ident n =>
    (match lookupAL n sc with
     | some v => svToSource v
     | none => n)
  | .inref f => "#" ++ f
  | .num x => numberToSource x
  | .str s => stringToSource s
  | .bool b => if b then "true" else "false"
  | .null => "null"
  | .builtin n => n
  | .list items => "[" ++ ", ".intercalate (itemsSrc sc items) ++ "]"
  | .record es => "{" ++ ", ".intercalate (entriesSrc sc es) ++ "}"
  | .lambda args body =>
    let sc' := args.foldl (fun s a => scopeRemove s a.name) sc
    "(" ++ ", ".intercalate (args.map lambdaArgToSource) ++ ") => " ++
      parenIf (lambdaBodyNeedsParens body) (exprSrc sc' body)
  | .cond c t e => "if " ++ exprSrc sc c ++ " then " ++ exprSrc sc t ++ " else " ++ exprSrc sc e
  | .doBlock stmts ret =>
    "do {" ++ doStmtsSrc sc stmts ++ retSrc (scopeAfterStmts sc stmts) ret
  | .assign n v => n ++ " = " ++ exprSrc sc v
  | .output e => "output " ++ exprSrc sc e
  | .call f args =>
    parenIf (needsParens f .postfix_) (exprSrc sc f) ++ "(" ++ ", ".intercalate (exprsSrc sc args) ++ ")"
  | .access e i => parenIf (needsParens e .postfix_) (exprSrc sc e) ++ "[" ++ exprSrc sc i ++ "]"
  | .dot e f => parenIf (needsParens e .postfix_) (exprSrc sc e) ++ "." ++ f
  | .bin op l r =>
    parenIf (needsParens l (.binLeft op)) (exprSrc sc l) ++ " " ++ opSpelling op ++ " " ++
      parenIf (needsParens r (.binRight op)) (exprSrc sc r)
  | .un op e => unaryOpToSource op ++ parenIf (needsParens e .prefix_) (exprSrc sc e)
  | .fact e => parenIf (needsParens e .postfix_) (exprSrc sc e) ++ "!"
  | .spread e => "..." ++ exprSrc sc e
def exprsSrc (sc : Scope) : List Expr → List String
  | [] => []
  | e :: es => exprSrc sc e :: exprsSrc sc es
def itemSrc (sc : Scope) : Item → String
  | .mk _ e _ => exprSrc sc e
def itemsSrc (sc : Scope) : List Item → List String
  | [] => []
  | i :: is => itemSrc sc i :: itemsSrc sc is
def entrySrc (sc : Scope) : Entry → String
  | .mk _ k v _ => keyedSrc sc k (exprSrc sc v)
def entriesSrc (sc : Scope) : List Entry → List String
  | [] => []
  | e :: es => entrySrc sc e :: entriesSrc sc es
/-- a record entry given the source of its value -/
def keyedSrc (sc : Scope) : Key → String → String
  | .static k, vs => formatRecordKey k ++ ": " ++ vs
  | .dyn ke, vs => "[" ++ exprSrc sc ke ++ "]: " ++ vs
  | .short n, _ =>
    (match lookupAL n sc with
     | some v => n ++ ": " ++ svToSource v
     | none => n)
  | .spread e, _ => exprSrc sc e
/-- one do-block statement with its comments -/
def stmtSrc (sc : Scope) : Item → String
  | .mk lead e tr =>
    commentLines lead ++ "\n  " ++ protectStatementStart (exprSrc sc e) ++
      (match tr with | some t => "  " ++ t | none => "")
/-- statements of a do-block in order; a name assigned by a statement is removed from
    the inlining scope for everything after it -/
def doStmtsSrc (sc : Scope) : List Item → String
  | [] => ""
  | i :: rest => stmtSrc sc i ++ doStmtsSrc (scopeAfterStmt sc i) rest
def retSrc (sc : Scope) : Item → String
  | .mk lead e _ => commentLines lead ++ "\n  return " ++ exprSrc sc e ++ "\n}"
end

/-- `expr_to_source` -/
def exprToSource (e : Expr) : String := exprSrc [] e

end Blots
