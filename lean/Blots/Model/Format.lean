import Blots.Model.Print
/-
  `formatter.rs`: width-driven layout.  `fmtImplP w indent e` is `format_expr_impl`, as a
  list of pieces (text / comment) whose `render` is the Rust string; `fmtImpl` = its rendering.
  All functions are total (structural recursion).  Lengths are byte lengths (`str::len`), as
  in the Rust code.  Theorems: `Lemmas/FormatLemmas.lean` (single-line path),
  `Lemmas/FormatPieces.lean` (comment preservation of every layout), `Props/C07–C09`.
-/
namespace Blots

def INDENT_SIZE : Nat := 2
def DEFAULT_MAX_COLUMNS : Nat := 80

def makeIndent (n : Nat) : String := String.ofList (List.replicate n ' ')

def blen (s : String) : Nat := s.utf8ByteSize

def hasNewline (s : String) : Bool := s.toList.contains '\n'

/-- the first line of `str::lines()` on characters: up to the first `'\n'`, without the
    `'\r'` in front of it -/
def firstLineL : List Char → List Char
  | [] => []
  | c :: t =>
    if c == '\n' then []
    else if c == '\r' && t.head? == some '\n' then []
    else c :: firstLineL t

/-- `s.lines().next().unwrap_or(s)` : text before the first line break (a `\r` in front of
    that line break is stripped by `lines()`); for the empty string `lines()` yields nothing -/
def firstLine (s : String) : String := String.ofList (firstLineL s.toList)

def lambdaArgsPart (args : List LArg) : String :=
  match args with
  | [.req n] => n
  | _ => "(" ++ ", ".intercalate (args.map lambdaArgToSource) ++ ")"

mutual
/-- `contains_comments` -/
def containsComments : Expr → Bool
  | .list items => itemsHaveComments items
  | .record es => entriesHaveComments es
  | .lambda _ b => containsComments b
  | .cond c t e => containsComments c || containsComments t || containsComments e
  | .doBlock ss r => stmtsContainComments ss || itemContainsComments r
  | .assign _ v => containsComments v
  | .output e => containsComments e
  | .call f as => containsComments f || exprsContainComments as
  | .access e i => containsComments e || containsComments i
  | .dot e _ => containsComments e
  | .bin _ l r => containsComments l || containsComments r
  | .un _ e => containsComments e
  | .fact e => containsComments e
  | .spread e => containsComments e
  | _ => false
def exprsContainComments : List Expr → Bool
  | [] => false
  | e :: es => containsComments e || exprsContainComments es
def itemHasOrContains : Item → Bool
  | .mk l e t => !l.isEmpty || t.isSome || containsComments e
def itemsHaveComments : List Item → Bool
  | [] => false
  | i :: is => itemHasOrContains i || itemsHaveComments is
def itemContainsComments : Item → Bool
  | .mk _ e _ => containsComments e
def stmtsContainComments : List Item → Bool
  | [] => false
  | i :: is => itemContainsComments i || stmtsContainComments is
def entryHasOrContains : Entry → Bool
  | .mk l k v t => !l.isEmpty || t.isSome || keyContains k (containsComments v)
def entriesHaveComments : List Entry → Bool
  | [] => false
  | e :: es => entryHasOrContains e || entriesHaveComments es
def keyContains : Key → Bool → Bool
  | .static _, vc => vc
  | .dyn k, vc => containsComments k || vc
  | .short _, _ => false
  | .spread e, _ => containsComments e
end

mutual
/-- `format_single_line` -/
def fmtSingle : Expr → String
  | .assign n v => n ++ " = " ++ fmtSingle v
  | .output e => "output " ++ fmtSingle e
  | .lambda args body =>
    let b := fmtSingle body
    if lambdaBodyNeedsParens body then lambdaArgsPart args ++ " => (" ++ b ++ ")"
    else lambdaArgsPart args ++ " => " ++ b
  | .call f args =>
    parenIf (needsParens f .postfix_) (fmtSingle f) ++ "(" ++ ", ".intercalate (fmtSingleList args) ++ ")"
  | .list items =>
    if items.any Item.hasComments then "[\n]"
    else "[" ++ ", ".intercalate (fmtSingleItems items) ++ "]"
  | .record es =>
    if es.any Entry.hasComments then "{\n}"
    else "{" ++ ", ".intercalate (fmtSingleEntries es) ++ "}"
  | e => if containsComments e then "\n" else exprToSource e
def fmtSingleList : List Expr → List String
  | [] => []
  | e :: es => fmtSingle e :: fmtSingleList es
def fmtSingleItem : Item → String
  | .mk _ e _ => fmtSingle e
def fmtSingleItems : List Item → List String
  | [] => []
  | i :: is => fmtSingleItem i :: fmtSingleItems is
def fmtSingleEntry : Entry → String
  | .mk _ k v _ => fmtSingleKeyed k (fmtSingle v)
def fmtSingleEntries : List Entry → List String
  | [] => []
  | e :: es => fmtSingleEntry e :: fmtSingleEntries es
def fmtSingleKeyed : Key → String → String
  | .static k, vs => formatRecordKey k ++ ": " ++ vs
  | .dyn ke, vs => "[" ++ fmtSingle ke ++ "]: " ++ vs
  | .short n, _ => n
  | .spread e, _ => fmtSingle e
end

/-! ### pieces

  The layout functions produce a list of PIECES instead of a string, so that the comments
  copied from the tree stay identifiable in the output: `render` concatenates the pieces and
  is the text `formatter.rs` returns.  A comment piece is the text of a comment of the tree,
  unchanged: no function of `formatter.rs` rewrites text it has already formatted (until
  repo commit 6027914 `format_binary_op_multiline` did, through `lines()` / `join("\n")`). -/

inductive Piece where
  | text (s : String)
  | comment (s : String)
  deriving Repr, DecidableEq, Inhabited

def Piece.shown : Piece → String
  | .text s => s
  | .comment s => s

/-- the formatter's output text -/
def render (ps : List Piece) : String := String.join (ps.map Piece.shown)

/-- the comments in the output, in output order -/
def commentPieces (ps : List Piece) : List String :=
  ps.filterMap fun | .comment s => some s | .text _ => none

/-- leading comments, each on its own line (`for comment in &item.leading { … }`) -/
def leadP (indentStr : String) : List String → List Piece
  | [] => []
  | c :: cs => .text ("\n" ++ indentStr) :: .comment c :: leadP indentStr cs

/-- trailing comment on the line of its item -/
def trailP : Option String → List Piece
  | some t => [.text "  ", .comment t]
  | none => []

def parenP (b : Bool) (ps : List Piece) : List Piece :=
  if b then .text "(" :: (ps ++ [.text ")"]) else ps

/-- `protect_statement_start` on pieces -/
def protectP (ps : List Piece) : List Piece :=
  if protectDecide (render ps).toList then .text "(" :: (ps ++ [.text ")"]) else ps

/-! #### the layouts

  In `formatter.rs` the layout functions call each other on the *same* node
  (`format_expr_impl` → `format_multiline` → `format_conditional_multiline` → …) before they
  descend.  Here `fmtImplP` does the whole dispatch for one node, so that every recursive
  call is on a child and the definition is structural (total, no fuel); the per-kind layouts
  are the non-recursive `…Layout` functions, which get the formatted children as arguments —
  as thunks where `formatter.rs` formats a child only on one branch.  `fmtMultiP`,
  `fmtLambdaP`, `fmtCondP`, `fmtBinP` below restate the functions of `formatter.rs` one by
  one, and `fmtImplP_eq` says `fmtImplP` is `format_expr_impl` over them. -/

/-- tail of `format_expr_impl`: the single-line text if it is one line and fits -/
def orSingle (w indent : Nat) (e : Expr) (multi : Unit → List Piece) : List Piece :=
  let single := fmtSingle e
  if !hasNewline single && indent + blen (firstLine single) ≤ w then [.text single]
  else multi ()

/-- `format_lambda`; `b` = body at `indent`, `bIn` = body one level deeper -/
def lambdaLayout (w indent : Nat) (args : List LArg) (body : Expr) (b : List Piece)
    (bIn : Unit → List Piece) : List Piece :=
  let argsPart := lambdaArgsPart args ++ " =>"
  if lambdaBodyNeedsParens body then .text (argsPart ++ " (") :: (b ++ [.text ")"])
  else
    match body with
    | .doBlock _ _ => .text (argsPart ++ " ") :: b
    | _ =>
      let single := argsPart ++ " " ++ render b
      if !hasNewline single && indent + blen single ≤ w then .text (argsPart ++ " ") :: b
      else .text (argsPart ++ "\n" ++ makeIndent (indent + INDENT_SIZE)) :: bIn ()

/-- the `else` part of a conditional: `chain` = the layout of the else-expression when it is
    itself a conditional (`else if …` stays flat), `plain` = the else-expression one level
    deeper -/
def elseLayout (indent : Nat) (chain : Option (List Piece)) (plain : Unit → List Piece) :
    List Piece :=
  match chain with
  | some ps => .text "else " :: ps
  | none => .text ("else\n" ++ makeIndent (indent + INDENT_SIZE)) :: plain ()

/-- `format_conditional_multiline`; `cP` = condition at `indent`, `cIn` = condition one level
    deeper, `tIn` = then-expression one level deeper, `elseP` = `elseLayout …` -/
def condLayout (w indent : Nat) (cP : List Piece) (cIn : Unit → List Piece) (tIn : List Piece)
    (elseP : List Piece) : List Piece :=
  let inner := indent + INDENT_SIZE
  let ifThen := "if " ++ render cP ++ " then"
  if indent + blen ifThen ≤ w then
    .text "if " :: (cP ++ .text (" then\n" ++ makeIndent inner) ::
      (tIn ++ .text ("\n" ++ makeIndent indent) :: elseP))
  else
    .text "if " :: (cIn () ++ .text ("\n" ++ makeIndent indent ++ "then\n" ++ makeIndent inner) ::
      (tIn ++ .text ("\n" ++ makeIndent indent) :: elseP))

def isLambda : Expr → Bool
  | .lambda _ _ => true
  | _ => false

/-- `format_binary_op_multiline`; `lP` = left operand at `indent`, `rSame` = right operand at
    `indent`, `rIn` = right operand one level deeper -/
def binLayout (w indent : Nat) (op : BinOp) (l r : Expr) (lP : List Piece)
    (rSame rIn : Unit → List Piece) : List Piece :=
  let opStr := fmtSpelling op
  let rp := needsParens r (.binRight op)
  let lsP := parenP (needsParens l (.binLeft op)) lP
  let isChain := op == .via || op == .into || op == .where_
  if isChain && isLambda r then
    let rsP := parenP rp (rSame ())
    let rs := render rsP
    let combined := render lsP ++ " " ++ opStr ++ " " ++ firstLine rs
    if indent + blen combined ≤ w then lsP ++ .text (" " ++ opStr ++ " ") :: rsP
    else lsP ++ .text ("\n" ++ makeIndent indent ++ opStr ++ " ") :: rsP
  else
    lsP ++ .text ("\n" ++ makeIndent (indent + INDENT_SIZE) ++ opStr ++ " ") :: parenP rp (rIn ())

/-- a node `format_multiline` has no layout for (literals, names): `expr_to_source` -/
def leafP (w indent : Nat) (e : Expr) : List Piece :=
  orSingle w indent e fun _ => [.text (exprToSource e)]

mutual
/-- `format_expr_impl` -/
def fmtImplP (w indent : Nat) : Expr → List Piece
  | .lambda args body =>
    lambdaLayout w indent args body (fmtImplP w indent body)
      (fun _ => fmtImplP w (indent + INDENT_SIZE) body)
  | .doBlock ss r =>
    .text "do {" :: (fmtStmtsP w (indent + INDENT_SIZE) ss ++
      (fmtRetP w (indent + INDENT_SIZE) r ++ [.text ("\n" ++ makeIndent indent ++ "}")]))
  | .output e => orSingle w indent (.output e) fun _ => .text "output " :: fmtImplP w indent e
  | .assign n v => orSingle w indent (.assign n v) fun _ => .text (n ++ " = ") :: fmtImplP w indent v
  | .list items => orSingle w indent (.list items) fun _ =>
    if items.isEmpty then [.text "[]"]
    else .text "[" :: (fmtItemsP w (indent + INDENT_SIZE) items ++
      [.text ("\n" ++ makeIndent indent ++ "]")])
  | .record es => orSingle w indent (.record es) fun _ =>
    if es.isEmpty then [.text "{}"]
    else .text "{" :: (fmtEntriesP w (indent + INDENT_SIZE) es ++
      [.text ("\n" ++ makeIndent indent ++ "}")])
  | .cond c t e => orSingle w indent (.cond c t e) fun _ =>
    condLayout w indent (fmtImplP w indent c) (fun _ => fmtImplP w (indent + INDENT_SIZE) c)
      (fmtImplP w (indent + INDENT_SIZE) t)
      (elseLayout indent (fmtChainP w indent e) (fun _ => fmtImplP w (indent + INDENT_SIZE) e))
  | .call f args => orSingle w indent (.call f args) fun _ =>
    if args.isEmpty then parenP (needsParens f .postfix_) (fmtImplP w indent f) ++ [.text "()"]
    else parenP (needsParens f .postfix_) (fmtImplP w indent f) ++
      .text "(" :: (fmtArgsP w (indent + INDENT_SIZE) args ++
        [.text ("\n" ++ makeIndent indent ++ ")")])
  | .bin op l r => orSingle w indent (.bin op l r) fun _ =>
    binLayout w indent op l r (fmtImplP w indent l) (fun _ => fmtImplP w indent r)
      (fun _ => fmtImplP w (indent + INDENT_SIZE) r)
  | .un op e => orSingle w indent (.un op e) fun _ =>
    .text (unaryOpToSource op) :: parenP (needsParens e .prefix_) (fmtImplP w indent e)
  | .fact e => orSingle w indent (.fact e) fun _ =>
    parenP (needsParens e .postfix_) (fmtImplP w indent e) ++ [.text "!"]
  | .access e i => orSingle w indent (.access e i) fun _ =>
    parenP (needsParens e .postfix_) (fmtImplP w indent e) ++
      .text "[" :: (fmtImplP w indent i ++ [.text "]"])
  | .dot e f => orSingle w indent (.dot e f) fun _ =>
    parenP (needsParens e .postfix_) (fmtImplP w indent e) ++ [.text ("." ++ f)]
  | .spread e => orSingle w indent (.spread e) fun _ => .text "..." :: fmtImplP w indent e
  | .num x => leafP w indent (.num x)
  | .str s => leafP w indent (.str s)
  | .bool b => leafP w indent (.bool b)
  | .null => leafP w indent .null
  | .ident n => leafP w indent (.ident n)
  | .inref f => leafP w indent (.inref f)
  | .builtin n => leafP w indent (.builtin n)
/-- `format_conditional_multiline` of an else-expression that is itself a conditional
    (the `if let Expr::Conditional { .. } = &else_expr.node` arms); `none` for anything else -/
def fmtChainP (w indent : Nat) : Expr → Option (List Piece)
  | .cond c t e =>
    some (condLayout w indent (fmtImplP w indent c) (fun _ => fmtImplP w (indent + INDENT_SIZE) c)
      (fmtImplP w (indent + INDENT_SIZE) t)
      (elseLayout indent (fmtChainP w indent e) (fun _ => fmtImplP w (indent + INDENT_SIZE) e)))
  | _ => none
/-- one item of `format_list_multiline`, on its own line at `inner` -/
def fmtItemP (w inner : Nat) : Item → List Piece
  | .mk lead e tr =>
    leadP (makeIndent inner) lead ++ .text ("\n" ++ makeIndent inner) ::
      (fmtImplP w inner e ++ .text "," :: trailP tr)
def fmtItemsP (w inner : Nat) : List Item → List Piece
  | [] => []
  | i :: rest => fmtItemP w inner i ++ fmtItemsP w inner rest
/-- one entry of `format_record_multiline` -/
def fmtEntryP (w inner : Nat) : Entry → List Piece
  | .mk lead k v tr =>
    leadP (makeIndent inner) lead ++ .text ("\n" ++ makeIndent inner) ::
      (fmtKeyedP w inner k (fmtImplP w inner v) ++ .text "," :: trailP tr)
def fmtEntriesP (w inner : Nat) : List Entry → List Piece
  | [] => []
  | e :: rest => fmtEntryP w inner e ++ fmtEntriesP w inner rest
/-- `format_record_entry` given the formatted value -/
def fmtKeyedP (w inner : Nat) : Key → List Piece → List Piece
  | .static k, vs => .text (formatRecordKey k ++ ": ") :: vs
  | .dyn ke, vs => .text "[" :: (fmtImplP w inner ke ++ .text "]: " :: vs)
  | .short n, _ => [.text n]
  | .spread e, _ => fmtImplP w inner e
/-- the arguments of `format_call_multiline` -/
def fmtArgsP (w inner : Nat) : List Expr → List Piece
  | [] => []
  | a :: rest =>
    .text ("\n" ++ makeIndent inner) :: (fmtImplP w inner a ++ .text "," :: fmtArgsP w inner rest)
/-- one statement of `format_do_block_multiline` -/
def fmtStmtP (w inner : Nat) : Item → List Piece
  | .mk lead e tr =>
    leadP (makeIndent inner) lead ++ .text ("\n" ++ makeIndent inner) ::
      (protectP (fmtImplP w inner e) ++ trailP tr)
def fmtStmtsP (w inner : Nat) : List Item → List Piece
  | [] => []
  | i :: rest => fmtStmtP w inner i ++ fmtStmtsP w inner rest
/-- the `return` of a do-block: its leading comments and the expression; a trailing comment
    of the item is NOT printed (`format_do_block_multiline` never reads
    `return_expr.trailing`; the parser always leaves it `None`) -/
def fmtRetP (w inner : Nat) : Item → List Piece
  | .mk lead e _ =>
    leadP (makeIndent inner) lead ++ .text ("\n" ++ makeIndent inner ++ "return ") ::
      fmtImplP w inner e
end

/-! #### the functions of `formatter.rs`, one by one (not recursive: they call `fmtImplP`) -/

/-- `format_lambda` -/
def fmtLambdaP (w indent : Nat) (args : List LArg) (body : Expr) : List Piece :=
  lambdaLayout w indent args body (fmtImplP w indent body)
    (fun _ => fmtImplP w (indent + INDENT_SIZE) body)

/-- `format_conditional_multiline` -/
def fmtCondP (w indent : Nat) (c t e : Expr) : List Piece :=
  condLayout w indent (fmtImplP w indent c) (fun _ => fmtImplP w (indent + INDENT_SIZE) c)
    (fmtImplP w (indent + INDENT_SIZE) t)
    (elseLayout indent (fmtChainP w indent e) (fun _ => fmtImplP w (indent + INDENT_SIZE) e))

/-- `format_binary_op_multiline` -/
def fmtBinP (w indent : Nat) (op : BinOp) (l r : Expr) : List Piece :=
  binLayout w indent op l r (fmtImplP w indent l) (fun _ => fmtImplP w indent r)
    (fun _ => fmtImplP w (indent + INDENT_SIZE) r)

/-- `format_multiline`.  The last arm is `_ => expr_to_source(expr)`: literals and names, and
    a lambda — which `format_expr_impl` never passes on to `format_multiline`. -/
def fmtMultiP (w indent : Nat) : Expr → List Piece
  | .output e => .text "output " :: fmtImplP w indent e
  | .assign n v => .text (n ++ " = ") :: fmtImplP w indent v
  | .list items =>
    if items.isEmpty then [.text "[]"]
    else .text "[" :: (fmtItemsP w (indent + INDENT_SIZE) items ++
      [.text ("\n" ++ makeIndent indent ++ "]")])
  | .record es =>
    if es.isEmpty then [.text "{}"]
    else .text "{" :: (fmtEntriesP w (indent + INDENT_SIZE) es ++
      [.text ("\n" ++ makeIndent indent ++ "}")])
  | .cond c t e => fmtCondP w indent c t e
  | .call f args =>
    if args.isEmpty then parenP (needsParens f .postfix_) (fmtImplP w indent f) ++ [.text "()"]
    else parenP (needsParens f .postfix_) (fmtImplP w indent f) ++
      .text "(" :: (fmtArgsP w (indent + INDENT_SIZE) args ++
        [.text ("\n" ++ makeIndent indent ++ ")")])
  | .bin op l r => fmtBinP w indent op l r
  | .doBlock ss r =>
    .text "do {" :: (fmtStmtsP w (indent + INDENT_SIZE) ss ++
      (fmtRetP w (indent + INDENT_SIZE) r ++ [.text ("\n" ++ makeIndent indent ++ "}")]))
  | .un op e => .text (unaryOpToSource op) :: parenP (needsParens e .prefix_) (fmtImplP w indent e)
  | .fact e => parenP (needsParens e .postfix_) (fmtImplP w indent e) ++ [.text "!"]
  | .access e i =>
    parenP (needsParens e .postfix_) (fmtImplP w indent e) ++
      .text "[" :: (fmtImplP w indent i ++ [.text "]"])
  | .dot e f => parenP (needsParens e .postfix_) (fmtImplP w indent e) ++ [.text ("." ++ f)]
  | .spread e => .text "..." :: fmtImplP w indent e
  | e => [.text (exprToSource e)]

/-- `format_expr_impl` as a string -/
def fmtImpl (w indent : Nat) (e : Expr) : String := render (fmtImplP w indent e)

/-- the pieces of `format_expr`'s result -/
def formatExprP (e : Expr) (maxColumns : Option Nat) : List Piece :=
  protectP (fmtImplP (maxColumns.getD DEFAULT_MAX_COLUMNS) 0 e)

/-- `format_expr` -/
def formatExpr (e : Expr) (maxColumns : Option Nat) : String :=
  protectStatementStart (fmtImpl (maxColumns.getD DEFAULT_MAX_COLUMNS) 0 e)

/-- `join_statements_with_spacing`: (text, start line, end line) -/
def joinStatementsWithSpacing : List (String × Nat × Nat) → String
  | [] => ""
  | [(s, _, _)] => s
  | (s, _, endLine) :: (s2, start2, e2) :: rest =>
    let gap := (start2 - endLine) - 1
    let newlines := min (gap + 1) 3
    s ++ String.ofList (List.replicate newlines '\n') ++ joinStatementsWithSpacing ((s2, start2, e2) :: rest)

end Blots
