import Blots.Model.Print
/-
  `formatter.rs`: width-driven layout.  `fmtImpl w indent e` is `format_expr_impl`.
  Lengths are byte lengths (`str::len`), as in the Rust code.
-/
namespace Blots

def INDENT_SIZE : Nat := 2
def DEFAULT_MAX_COLUMNS : Nat := 80

def makeIndent (n : Nat) : String := String.ofList (List.replicate n ' ')

def blen (s : String) : Nat := s.utf8ByteSize

def hasNewline (s : String) : Bool := s.toList.contains '\n'

/-- `s.lines().next().unwrap_or(s)` : text before the first line break (a trailing `\r` of
    that line is stripped by `lines()`); for the empty string `lines()` yields nothing -/
def firstLine (s : String) : String :=
  let l := s.toList.takeWhile (· != '\n')
  let cut := l.length < s.toList.length   -- a '\n' was found
  let l := if cut && l.getLast? == some '\r' then l.dropLast else l
  String.ofList l

/-- `lines().skip(1).collect().join("\n")` -/
def restLines (s : String) : String :=
  let ls := (s.splitOn "\n")
  -- `lines()` drops one trailing empty piece and strips `\r`
  let ls := if ls.getLast? == some "" then ls.dropLast else ls
  let ls := ls.map fun l => if l.toList.getLast? == some '\r' then String.ofList l.toList.dropLast else l
  "\n".intercalate (ls.drop 1)

def lambdaArgsPart (args : List LArg) : String :=
  match args with
  | [.req n] => n
  | _ => "(" ++ ", ".intercalate (args.map lambdaArgToSource) ++ ")"

mutual
/-- `contains_comments` -/
def containsComments : Expr → Bool
  | .list items => itemsHaveComments items
  | .record es => entriesHaveComments es
  | .lambda _ b => containsComments b
  | .cond c t e => containsComments c || containsComments t || containsComments e
  | .doBlock ss r => stmtsContainComments ss || itemContainsComments r
  | .assign _ v => containsComments v
  | .output e => containsComments e
  | .call f as => containsComments f || exprsContainComments as
  | .access e i => containsComments e || containsComments i
  | .dot e _ => containsComments e
  | .bin _ l r => containsComments l || containsComments r
  | .un _ e => containsComments e
  | .fact e => containsComments e
  | .spread e => containsComments e
  | _ => false
def exprsContainComments : List Expr → Bool
  | [] => false
  | e :: es => containsComments e || exprsContainComments es
def itemHasOrContains : Item → Bool
  | .mk l e t => !l.isEmpty || t.isSome || containsComments e
def itemsHaveComments : List Item → Bool
  | [] => false
  | i :: is => itemHasOrContains i || itemsHaveComments is
def itemContainsComments : Item → Bool
  | .mk _ e _ => containsComments e
def stmtsContainComments : List Item → Bool
  | [] => false
  | i :: is => itemContainsComments i || stmtsContainComments is
def entryHasOrContains : Entry → Bool
  | .mk l k v t => !l.isEmpty || t.isSome || keyContains k (containsComments v)
def entriesHaveComments : List Entry → Bool
  | [] => false
  | e :: es => entryHasOrContains e || entriesHaveComments es
def keyContains : Key → Bool → Bool
  | .static _, vc => vc
  | .dyn k, vc => containsComments k || vc
  | .short _, _ => false
  | .spread e, _ => containsComments e
end

mutual
/-- `format_single_line` -/
def fmtSingle : Expr → String
  | .assign n v => n ++ " = " ++ fmtSingle v
  | .output e => "output " ++ fmtSingle e
  | .lambda args body =>
    let b := fmtSingle body
    if lambdaBodyNeedsParens body then lambdaArgsPart args ++ " => (" ++ b ++ ")"
    else lambdaArgsPart args ++ " => " ++ b
  | .call f args =>
    parenIf (needsParens f .postfix_) (fmtSingle f) ++ "(" ++ ", ".intercalate (fmtSingleList args) ++ ")"
  | .list items =>
    if items.any Item.hasComments then "[\n]"
    else "[" ++ ", ".intercalate (fmtSingleItems items) ++ "]"
  | .record es =>
    if es.any Entry.hasComments then "{\n}"
    else "{" ++ ", ".intercalate (fmtSingleEntries es) ++ "}"
  | e => if containsComments e then "\n" else exprToSource e
def fmtSingleList : List Expr → List String
  | [] => []
  | e :: es => fmtSingle e :: fmtSingleList es
def fmtSingleItem : Item → String
  | .mk _ e _ => fmtSingle e
def fmtSingleItems : List Item → List String
  | [] => []
  | i :: is => fmtSingleItem i :: fmtSingleItems is
def fmtSingleEntry : Entry → String
  | .mk _ k v _ => fmtSingleKeyed k (fmtSingle v)
def fmtSingleEntries : List Entry → List String
  | [] => []
  | e :: es => fmtSingleEntry e :: fmtSingleEntries es
def fmtSingleKeyed : Key → String → String
  | .static k, vs => formatRecordKey k ++ ": " ++ vs
  | .dyn ke, vs => "[" ++ fmtSingle ke ++ "]: " ++ vs
  | .short n, _ => n
  | .spread e, _ => fmtSingle e
end

def trailStr : Option String → String
  | some t => "  " ++ t
  | none => ""

def leadLines (indentStr : String) (cs : List String) : String :=
  String.join (cs.map fun c => "\n" ++ indentStr ++ c)

/- The layout functions call each other on the *same* node (impl → multiline → per-kind
   layout), so they are not structurally recursive; they are `partial` here and tied to the
   code by correspondence only.  Theorems are stated about `fmtSingle` / `exprSrc`. -/
mutual
/-- `format_expr_impl` -/
partial def fmtImpl (w : Nat) (indent : Nat) : Expr → String
  | .lambda args body => fmtLambda w indent (.lambda args body)
  | .doBlock ss r => fmtMulti w indent (.doBlock ss r)
  | e =>
    let single := fmtSingle e
    if !hasNewline single && indent + blen (firstLine single) ≤ w then single
    else fmtMulti w indent e
/-- `format_multiline` -/
partial def fmtMulti (w : Nat) (indent : Nat) : Expr → String
  | .output e => "output " ++ fmtImpl w indent e
  | .assign n v => n ++ " = " ++ fmtImpl w indent v
  | .list items =>
    if items.isEmpty then "[]"
    else "[" ++ fmtItems w (indent + INDENT_SIZE) items ++ "\n" ++ makeIndent indent ++ "]"
  | .record es =>
    if es.isEmpty then "{}"
    else "{" ++ fmtEntries w (indent + INDENT_SIZE) es ++ "\n" ++ makeIndent indent ++ "}"
  | .cond c t e => fmtCond w indent (.cond c t e)
  | .call f args =>
    let fs := parenIf (needsParens f .postfix_) (fmtImpl w indent f)
    if args.isEmpty then fs ++ "()"
    else fs ++ "(" ++ fmtArgs w (indent + INDENT_SIZE) args ++ "\n" ++ makeIndent indent ++ ")"
  | .bin op l r => fmtBin w indent (.bin op l r)
  | .doBlock ss r =>
    "do {" ++ fmtStmts w (indent + INDENT_SIZE) ss ++ fmtRet w (indent + INDENT_SIZE) r ++
      "\n" ++ makeIndent indent ++ "}"
  | .un op e => unaryOpToSource op ++ parenIf (needsParens e .prefix_) (fmtImpl w indent e)
  | .fact e => parenIf (needsParens e .postfix_) (fmtImpl w indent e) ++ "!"
  | .access e i =>
    parenIf (needsParens e .postfix_) (fmtImpl w indent e) ++ "[" ++ fmtImpl w indent i ++ "]"
  | .dot e f => parenIf (needsParens e .postfix_) (fmtImpl w indent e) ++ "." ++ f
  | .spread e => "..." ++ fmtImpl w indent e
  | e => exprToSource e
/-- `format_list_multiline` body: each item on its own line at `inner` -/
partial def fmtItems (w : Nat) (inner : Nat) : List Item → String
  | [] => ""
  | (.mk lead e tr) :: rest =>
    leadLines (makeIndent inner) lead ++ "\n" ++ makeIndent inner ++ fmtImpl w inner e ++ "," ++
      trailStr tr ++ fmtItems w inner rest
partial def fmtEntries (w : Nat) (inner : Nat) : List Entry → String
  | [] => ""
  | (.mk lead k v tr) :: rest =>
    leadLines (makeIndent inner) lead ++ "\n" ++ makeIndent inner ++ fmtKeyed w inner k (fmtImpl w inner v) ++ "," ++
      trailStr tr ++ fmtEntries w inner rest
/-- `format_record_entry` given the formatted value -/
partial def fmtKeyed (w : Nat) (inner : Nat) : Key → String → String
  | .static k, vs => formatRecordKey k ++ ": " ++ vs
  | .dyn ke, vs => "[" ++ fmtImpl w inner ke ++ "]: " ++ vs
  | .short n, _ => n
  | .spread e, _ => fmtImpl w inner e
partial def fmtArgs (w : Nat) (inner : Nat) : List Expr → String
  | [] => ""
  | a :: rest => "\n" ++ makeIndent inner ++ fmtImpl w inner a ++ "," ++ fmtArgs w inner rest
partial def fmtStmts (w : Nat) (inner : Nat) : List Item → String
  | [] => ""
  | (.mk lead e tr) :: rest =>
    leadLines (makeIndent inner) lead ++ "\n" ++ makeIndent inner ++
      protectStatementStart (fmtImpl w inner e) ++ trailStr tr ++ fmtStmts w inner rest
partial def fmtRet (w : Nat) (inner : Nat) : Item → String
  | .mk lead e _ =>
    leadLines (makeIndent inner) lead ++ "\n" ++ makeIndent inner ++ "return " ++ fmtImpl w inner e
/-- `format_lambda` (argument is the whole lambda) -/
partial def fmtLambda (w : Nat) (indent : Nat) : Expr → String
  | .lambda args body =>
    let argsPart := lambdaArgsPart args ++ " =>"
    if lambdaBodyNeedsParens body then argsPart ++ " (" ++ fmtImpl w indent body ++ ")"
    else
      let b := fmtImpl w indent body
      match body with
      | .doBlock _ _ => argsPart ++ " " ++ b
      | _ =>
        let single := argsPart ++ " " ++ b
        if !hasNewline single && indent + blen single ≤ w then single
        else argsPart ++ "\n" ++ makeIndent (indent + INDENT_SIZE) ++ fmtImpl w (indent + INDENT_SIZE) body
  | e => exprToSource e
/-- `format_conditional_multiline` (argument is the whole conditional) -/
partial def fmtCond (w : Nat) (indent : Nat) : Expr → String
  | .cond c t e =>
    let inner := indent + INDENT_SIZE
    let ifThen := "if " ++ fmtImpl w indent c ++ " then"
    if indent + blen ifThen ≤ w then
      match e with
      | .cond _ _ _ =>
        ifThen ++ "\n" ++ makeIndent inner ++ fmtImpl w inner t ++ "\n" ++ makeIndent indent ++ "else " ++
          fmtCond w indent e
      | _ =>
        ifThen ++ "\n" ++ makeIndent inner ++ fmtImpl w inner t ++ "\n" ++ makeIndent indent ++ "else\n" ++
          makeIndent inner ++ fmtImpl w inner e
    else
      match e with
      | .cond _ _ _ =>
        "if " ++ fmtImpl w inner c ++ "\n" ++ makeIndent indent ++ "then\n" ++ makeIndent inner ++
          fmtImpl w inner t ++ "\n" ++ makeIndent indent ++ "else " ++ fmtCond w indent e
      | _ =>
        "if " ++ fmtImpl w inner c ++ "\n" ++ makeIndent indent ++ "then\n" ++ makeIndent inner ++
          fmtImpl w inner t ++ "\n" ++ makeIndent indent ++ "else\n" ++ makeIndent inner ++ fmtImpl w inner e
  | e => exprToSource e
/-- `format_binary_op_multiline` (argument is the whole binary operation) -/
partial def fmtBin (w : Nat) (indent : Nat) : Expr → String
  | .bin op l r =>
    let opStr := fmtSpelling op
    let rp := needsParens r (.binRight op)
    let ls := parenIf (needsParens l (.binLeft op)) (fmtImpl w indent l)
    let isChain := op == .via || op == .into || op == .where_
    let isLam := match r with | .lambda _ _ => true | _ => false
    if isChain && isLam then
      let rs := parenIf rp (fmtImpl w indent r)
      let first := firstLine rs
      let combined := ls ++ " " ++ opStr ++ " " ++ first
      if indent + blen combined ≤ w then
        if hasNewline rs then ls ++ " " ++ opStr ++ " " ++ first ++ "\n" ++ restLines rs
        else ls ++ " " ++ opStr ++ " " ++ rs
      else ls ++ "\n" ++ makeIndent indent ++ opStr ++ " " ++ rs
    else
      let ri := indent + INDENT_SIZE
      ls ++ "\n" ++ makeIndent ri ++ opStr ++ " " ++ parenIf rp (fmtImpl w ri r)
  | e => exprToSource e
end

/-- `format_expr` -/
def formatExpr (e : Expr) (maxColumns : Option Nat) : String :=
  protectStatementStart (fmtImpl (maxColumns.getD DEFAULT_MAX_COLUMNS) 0 e)

/-- `join_statements_with_spacing`: (text, start line, end line) -/
def joinStatementsWithSpacing : List (String × Nat × Nat) → String
  | [] => ""
  | [(s, _, _)] => s
  | (s, _, endLine) :: (s2, start2, e2) :: rest =>
    let gap := (start2 - endLine) - 1
    let newlines := min (gap + 1) 3
    s ++ String.ofList (List.replicate newlines '\n') ++ joinStatementsWithSpacing ((s2, start2, e2) :: rest)

end Blots
