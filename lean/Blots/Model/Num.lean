import Blots.Model.Basic
/-
  IEEE-754 binary64 as a bit pattern.

  * classification, equality and ordering are DEFINED on the bits (and proved to be a
    total order on non-NaN patterns in `Blots.Lemmas.Num`);
  * the exact value of a finite pattern is `m * 2^e` (`F64.decode`), and `ofRatio` is the
    specification of correct rounding (round-to-nearest-even) of a non-negative rational;
  * Rust's saturating float→integer casts are defined on the exact value;
  * decimal text ↔ double (shortest printing, `{:.N}`, `{:.Ne}`, `str::parse`) are
    specified exactly with integer arithmetic;
  * `+ - * / powf sqrt sin …` enter the model through the record `NumOps`; the driver
    instantiates it with Lean's native `Float` (same hardware / same libm as the Rust
    code).  Theorems quantify over all `NumOps`.
-/
namespace Blots

structure F64 where
  bits : UInt64
  deriving DecidableEq, Repr, Inhabited

namespace F64

def ofNatBits (n : Nat) : F64 := ⟨UInt64.ofNat n⟩

def nbits (x : F64) : Nat := x.bits.toNat
/-- sign bit -/
def neg (x : F64) : Bool := x.nbits / 2 ^ 63 % 2 = 1
/-- biased exponent field, 0..2047 -/
def expField (x : F64) : Nat := x.nbits / 2 ^ 52 % 2048
/-- fraction field, 52 bits -/
def frac (x : F64) : Nat := x.nbits % 2 ^ 52
/-- magnitude bits (everything but the sign) -/
def mag (x : F64) : Nat := x.nbits % 2 ^ 63

def isNaN (x : F64) : Bool := x.expField = 2047 && x.frac ≠ 0
def isInf (x : F64) : Bool := x.expField = 2047 && x.frac = 0
def isFinite (x : F64) : Bool := x.expField ≠ 2047
def isZero (x : F64) : Bool := x.mag = 0

def zero : F64 := ⟨0⟩
def negZero : F64 := ofNatBits (2 ^ 63)
def one : F64 := ofNatBits 0x3FF0000000000000
def inf : F64 := ofNatBits 0x7FF0000000000000
def negInf : F64 := ofNatBits 0xFFF0000000000000
def nan : F64 := ofNatBits 0x7FF8000000000000

/-- The sign-magnitude key: for non-NaN patterns, IEEE `<` and `==` are `<` and `=` on keys. -/
def key (x : F64) : Int := if x.neg then - (Int.ofNat x.mag) else Int.ofNat x.mag

/-- IEEE equality (`==` on f64). -/
def feq (a b : F64) : Bool := !a.isNaN && !b.isNaN && a.key == b.key
/-- IEEE `<`. -/
def flt (a b : F64) : Bool := !a.isNaN && !b.isNaN && a.key < b.key
def fle (a b : F64) : Bool := !a.isNaN && !b.isNaN && a.key ≤ b.key

/-- `f64::partial_cmp`. -/
def pcmp (a b : F64) : Option Ordering :=
  if a.isNaN || b.isNaN then none
  else if a.key < b.key then some .lt
  else if a.key = b.key then some .eq
  else some .gt

def negate (x : F64) : F64 := ofNatBits (if x.neg then x.mag else x.mag + 2 ^ 63)
def abs (x : F64) : F64 := ofNatBits x.mag

/-- Exact value of a finite pattern as `(m, e)`, value `= m * 2^e` (sign apart). -/
def decode (x : F64) : Nat × Int :=
  if x.expField = 0 then (x.frac, -1074)
  else (x.frac + 2 ^ 52, Int.ofNat x.expField - 1075)

/-- numerator / denominator of |x| for finite x -/
def ratio (x : F64) : Nat × Nat :=
  let (m, e) := x.decode
  if e ≥ 0 then (m * 2 ^ e.toNat, 1) else (m, 2 ^ (-e).toNat)

/-- Correctly rounded (round-to-nearest, ties-to-even) double nearest to `num/den`
    (`den > 0`), with the given sign.  This is the specification every decimal→double
    conversion in the code is compared against. -/
def ofRatio (negative : Bool) (num den : Nat) : F64 :=
  let signBit := if negative then 2 ^ 63 else 0
  if num = 0 || den = 0 then ofNatBits signBit else
  -- estimate e so that q = num / (den * 2^e) lies in [2^52, 2^53)
  let lb : Int := Int.ofNat num.log2 - Int.ofNat den.log2
  let scaled (e : Int) : Nat × Nat :=
    if e ≥ 0 then (num, den * 2 ^ e.toNat) else (num * 2 ^ (-e).toNat, den)
  let e0 : Int := lb - 52
  let q0 := let (n, d) := scaled e0; n / d
  -- q0 is within a factor of two of the target window
  let e1 : Int := if q0 ≥ 2 ^ 53 then e0 + 1 else if q0 < 2 ^ 52 then e0 - 1 else e0
  let e2 : Int := if e1 < -1074 then -1074 else e1
  let (n, d) := scaled e2
  let q := n / d
  let r := n % d
  let q' := if 2 * r > d || (2 * r = d && q % 2 = 1) then q + 1 else q
  let (q'', e3) : Nat × Int := if q' ≥ 2 ^ 53 then (q' / 2, e2 + 1) else (q', e2)
  if q'' < 2 ^ 52 then ofNatBits (signBit + q'')        -- subnormal or zero (e3 = -1074)
  else
    let biased : Int := e3 + 1075
    if biased ≥ 2047 then ofNatBits (signBit + 0x7FF0000000000000)
    else ofNatBits (signBit + biased.toNat * 2 ^ 52 + (q'' - 2 ^ 52))

def ofNat (n : Nat) : F64 := ofRatio false n 1
def ofInt (i : Int) : F64 := ofRatio (i < 0) i.natAbs 1

/-- the integer part toward zero of a finite value, as an Int -/
def truncInt (x : F64) : Int :=
  let (n, d) := x.ratio
  let q := n / d
  if x.neg then - Int.ofNat q else Int.ofNat q

/-- `x.fract() == 0.0` in Rust: true for finite integral values; NaN/inf give NaN → false. -/
def isIntegral (x : F64) : Bool :=
  x.isFinite && (let (n, d) := x.ratio; n % d = 0)

/-- Rust `as i64` (saturating, NaN ↦ 0). -/
def toI64 (x : F64) : Int :=
  if x.isNaN then 0
  else if x.isInf then (if x.neg then -(2 ^ 63) else 2 ^ 63 - 1)
  else
    let t := x.truncInt
    if t < -(2 ^ 63) then -(2 ^ 63) else if t > 2 ^ 63 - 1 then 2 ^ 63 - 1 else t

/-- Rust `as u64` / `as usize` (saturating, NaN ↦ 0, negatives ↦ 0). -/
def toU64 (x : F64) : Nat :=
  if x.isNaN then 0
  else if x.isInf then (if x.neg then 0 else 2 ^ 64 - 1)
  else
    let t := x.truncInt
    if t < 0 then 0 else if t > 2 ^ 64 - 1 then 2 ^ 64 - 1 else t.toNat

/-- Rust `as i32`. -/
def toI32 (x : F64) : Int :=
  if x.isNaN then 0
  else if x.isInf then (if x.neg then -(2 ^ 31) else 2 ^ 31 - 1)
  else
    let t := x.truncInt
    if t < -(2 ^ 31) then -(2 ^ 31) else if t > 2 ^ 31 - 1 then 2 ^ 31 - 1 else t

/-! ### decimal text -/

def natDigits (n : Nat) : String := toString n

/-- number of decimal digits of n (n > 0) -/
def numDigits (n : Nat) : Nat := (toString n).length

/-- `(D, E)` with |x| ≈ D × 10^E : the shortest digit string that reads back as `x`
    (closest to the exact value among the shortest).  `x` finite and non-zero.
    When the exact value lies half-way between the two candidates, Rust's `{}` takes the
    upper one (`tieUp = true`, observed: 2^-25 prints …313), ryu / serde_json the even one. -/
def shortestDigitsWith (tieUp : Bool) (x : F64) : Nat × Int :=
  let (num, den) := x.ratio
  let ax := x.abs
  -- k = floor(log10 v) : largest k with 10^k ≤ v
  let est : Int := (Int.ofNat num.log2 - Int.ofNat den.log2) * 30103 / 100000
  let ge10 (k : Int) : Bool :=   -- v ≥ 10^k
    if k ≥ 0 then num ≥ den * 10 ^ k.toNat else num * 10 ^ (-k).toNat ≥ den
  let k0 := est - 1
  let k1 := if ge10 (k0 + 1) then k0 + 1 else k0
  let k2 := if ge10 (k1 + 1) then k1 + 1 else k1
  let k := if ge10 (k2 + 1) then k2 + 1 else k2
  let rec go (n : Nat) (fuel : Nat) : Nat × Int :=
    match fuel with
    | 0 => (0, 0)
    | fuel + 1 =>
      let sh : Int := k - Int.ofNat n + 1          -- D × 10^sh
      let (sn, sd) : Nat × Nat :=
        if sh ≥ 0 then (num, den * 10 ^ sh.toNat) else (num * 10 ^ (-sh).toNat, den)
      let lo := sn / sd
      let r := sn % sd
      let hi := lo + 1
      let rt (dd : Nat) : Bool :=
        dd ≠ 0 && (if sh ≥ 0 then ofRatio false (dd * 10 ^ sh.toNat) 1
                   else ofRatio false dd (10 ^ (-sh).toNat)) == ax
      let okLo := rt lo
      let okHi := rt hi
      let pick : Option Nat :=
        if r = 0 && okLo then some lo
        else if okLo && okHi then
          (if 2 * r < sd then some lo else if 2 * r > sd then some hi
           else if !tieUp && lo % 2 = 0 then some lo else some hi)
        else if okLo then some lo
        else if okHi then some hi
        else none
      match pick with
      | some dd => (dd, sh)
      | none => go (n + 1) fuel
  let (d, e) := go 1 18
  -- strip trailing zeros
  let rec strip (d : Nat) (e : Int) (fuel : Nat) : Nat × Int :=
    match fuel with
    | 0 => (d, e)
    | fuel + 1 => if d ≠ 0 && d % 10 = 0 then strip (d / 10) (e + 1) fuel else (d, e)
  strip d e 20

/-- the digits of Rust's `f64::to_string` -/
def shortestDigits (x : F64) : Nat × Int := shortestDigitsWith true x

def zeros (n : Nat) : String := String.ofList (List.replicate n '0')

/-- place a digit string `ds` (value D) times 10^e in plain positional notation -/
def positional (ds : String) (e : Int) : String :=
  if e ≥ 0 then ds ++ zeros e.toNat
  else
    let f := (-e).toNat
    if ds.length > f then
      String.ofList (ds.toList.take (ds.length - f)) ++ "." ++ String.ofList (ds.toList.drop (ds.length - f))
    else "0." ++ zeros (f - ds.length) ++ ds

/-- Rust `f64::to_string()` / `{}` : shortest round-trip digits, never an exponent. -/
def toDisplay (x : F64) : String :=
  if x.isNaN then "NaN"
  else if x.isInf then (if x.neg then "-inf" else "inf")
  else
    let sign := if x.neg then "-" else ""
    if x.isZero then sign ++ "0"
    else
      let (d, e) := x.shortestDigits
      sign ++ positional (natDigits d) e

/-- round num/den to the nearest integer, ties to even -/
def roundHalfEven (num den : Nat) : Nat :=
  let q := num / den
  let r := num % den
  if 2 * r > den || (2 * r = den && q % 2 = 1) then q + 1 else q

/-- Rust `format!("{:.N}", x)` for finite or non-finite x. -/
def toFixed (x : F64) (prec : Nat) : String :=
  if x.isNaN then "NaN"
  else if x.isInf then (if x.neg then "-inf" else "inf")
  else
    let sign := if x.neg then "-" else ""
    let (num, den) := x.ratio
    let scaled := roundHalfEven (num * 10 ^ prec) den
    let ds := natDigits scaled
    let ds := if ds.length ≤ prec then zeros (prec + 1 - ds.length) ++ ds else ds
    if prec = 0 then sign ++ ds
    else sign ++ String.ofList (ds.toList.take (ds.length - prec)) ++ "." ++
           String.ofList (ds.toList.drop (ds.length - prec))

/-- Rust `format!("{:.Ne}", x)` (LowerExp with precision): `d.ddd…e±X`. -/
def toExp (x : F64) (prec : Nat) : String :=
  if x.isNaN then "NaN"
  else if x.isInf then (if x.neg then "-inf" else "inf")
  else
    let sign := if x.neg then "-" else ""
    if x.isZero then
      sign ++ (if prec = 0 then "0" else "0." ++ zeros prec) ++ "e0"
    else
      let (num, den) := x.ratio
      let est : Int := (Int.ofNat num.log2 - Int.ofNat den.log2) * 30103 / 100000
      let ge10 (k : Int) : Bool :=
        if k ≥ 0 then num ≥ den * 10 ^ k.toNat else num * 10 ^ (-k).toNat ≥ den
      let k0 := est - 1
      let k1 := if ge10 (k0 + 1) then k0 + 1 else k0
      let k2 := if ge10 (k1 + 1) then k1 + 1 else k1
      let k := if ge10 (k2 + 1) then k2 + 1 else k2
      -- digits = round(v / 10^(k - prec))
      let sh : Int := k - Int.ofNat prec
      let d := if sh ≥ 0 then roundHalfEven num (den * 10 ^ sh.toNat)
               else roundHalfEven (num * 10 ^ (-sh).toNat) den
      -- rounding may carry into a new digit
      let (d, k) := if d ≥ 10 ^ (prec + 1) then (d / 10, k + 1) else (d, k)
      let ds := natDigits d
      let mant := if prec = 0 then ds
                  else String.ofList (ds.toList.take 1) ++ "." ++ String.ofList (ds.toList.drop 1)
      sign ++ mant ++ "e" ++ toString k

/-! ### `str::parse::<f64>` -/

def isDigit (c : Char) : Bool := '0' ≤ c && c ≤ '9'

def digitsVal (cs : List Char) : Nat := cs.foldl (fun a c => a * 10 + (c.toNat - 48)) 0

def lowerAscii (c : Char) : Char := if 'A' ≤ c && c ≤ 'Z' then Char.ofNat (c.toNat + 32) else c

/-- Rust's `f64::from_str` : optional sign, then `inf`/`infinity`/`nan` (any case) or
    `digits[.digits][e[sign]digits]` with at least one digit in the mantissa.
    Correctly rounded. -/
def parseDec (s : String) : Option F64 :=
  let cs := s.toList
  let (negative, cs) := match cs with
    | '-' :: r => (true, r)
    | '+' :: r => (false, r)
    | r => (false, r)
  let low := String.ofList (cs.map lowerAscii)
  if low = "inf" || low = "infinity" then some (if negative then negInf else inf)
  else if low = "nan" then some (if negative then ofNatBits 0xFFF8000000000000 else nan)
  else
    let ip := cs.takeWhile isDigit
    let r1 := cs.dropWhile isDigit
    let (fp, r2, _hadDot) := match r1 with
      | '.' :: r => (r.takeWhile isDigit, r.dropWhile isDigit, true)
      | r => ([], r, false)
    if ip.isEmpty && fp.isEmpty then none else
    let expo : Option Int := match r2 with
      | [] => some 0
      | c :: r =>
        if c = 'e' || c = 'E' then
          let (eneg, r) := match r with
            | '-' :: r' => (true, r')
            | '+' :: r' => (false, r')
            | r' => (false, r')
          if r.isEmpty || !r.all isDigit then none
          else
            -- clamp absurd exponents so the model stays cheap; beyond ±400 the result
            -- is 0 / inf regardless (mantissa digits are bounded by the input length)
            let v := digitsVal r
            let bound := 400 + ip.length + fp.length
            let v := if v > bound then bound else v
            some (if eneg then - Int.ofNat v else Int.ofNat v)
        else none
    match expo with
    | none => none
    | some ex =>
      let mant := digitsVal (ip ++ fp)
      let e10 : Int := ex - Int.ofNat fp.length
      if e10 ≥ 0 then some (ofRatio negative (mant * 10 ^ e10.toNat) 1)
      else some (ofRatio negative mant (10 ^ (-e10).toNat))

/-! ### native arithmetic through Lean's `Float` (driver only) -/

def toFloat (x : F64) : Float := Float.ofBits x.bits
def ofFloat (f : Float) : F64 := ⟨f.toBits⟩

/-- exact IEEE remainder with the sign of the dividend (C `fmod`, Rust `%`) -/
def frem (a b : F64) : F64 :=
  if a.isNaN || b.isNaN || a.isInf || b.isZero then nan
  else if b.isInf then a
  else if a.isZero then a
  else
    let (ma, ea) := a.decode
    let (mb, eb) := b.decode
    let e := if ea < eb then ea else eb
    let A := ma * 2 ^ (ea - e).toNat
    let B := mb * 2 ^ (eb - e).toNat
    let R := A % B
    if R = 0 then (if a.neg then negZero else zero)
    else if e ≥ 0 then ofRatio a.neg (R * 2 ^ e.toNat) 1 else ofRatio a.neg R (2 ^ (-e).toNat)

end F64

/-- The floating-point primitives the modelled code calls.  A parameter of the model. -/
structure NumOps where
  add : F64 → F64 → F64
  sub : F64 → F64 → F64
  mul : F64 → F64 → F64
  div : F64 → F64 → F64
  rem : F64 → F64 → F64
  powf : F64 → F64 → F64
  sqrt : F64 → F64
  sin : F64 → F64
  cos : F64 → F64
  tan : F64 → F64
  asin : F64 → F64
  acos : F64 → F64
  atan : F64 → F64
  ln : F64 → F64
  log10 : F64 → F64
  exp : F64 → F64
  floor : F64 → F64
  ceil : F64 → F64
  round : F64 → F64
  trunc : F64 → F64

namespace NumOps

private def lift1 (f : Float → Float) (x : F64) : F64 := F64.ofFloat (f x.toFloat)
private def lift2 (f : Float → Float → Float) (x y : F64) : F64 :=
  F64.ofFloat (f x.toFloat y.toFloat)

/-- The instance used by the driver: hardware doubles and the platform libm. -/
def native : NumOps where
  add := lift2 (· + ·)
  sub := lift2 (· - ·)
  mul := lift2 (· * ·)
  div := lift2 (· / ·)
  rem := F64.frem
  powf := lift2 Float.pow
  sqrt := lift1 Float.sqrt
  sin := lift1 Float.sin
  cos := lift1 Float.cos
  tan := lift1 Float.tan
  asin := lift1 Float.asin
  acos := lift1 Float.acos
  atan := lift1 Float.atan
  ln := lift1 Float.log
  log10 := lift1 Float.log10
  exp := lift1 Float.exp
  floor := lift1 Float.floor
  ceil := lift1 Float.ceil
  round := lift1 Float.round
  trunc := fun x => if x.neg then lift1 Float.ceil x else lift1 Float.floor x

/-- The sign of a NaN that an arithmetic operation produces is platform-defined (x86 gives the
    negative "indefinite" NaN for invalid operations, other targets and constant folding the
    positive one) and Lean's `Float.toBits` hides it.  `native` yields the positive canonical
    NaN; this variant yields the negative one, so that the only place where the sign is
    observable — the total order used by `median` / `percentile` — can be compared under both
    conventions. -/
def nativeNegNaN : NumOps :=
  let fix (r : F64) : F64 := if r.isNaN then ⟨0xFFF8000000000000⟩ else r
  { add := fun a b => fix (native.add a b)
    sub := fun a b => fix (native.sub a b)
    mul := fun a b => fix (native.mul a b)
    div := fun a b => fix (native.div a b)
    rem := fun a b => fix (native.rem a b)
    powf := fun a b => fix (native.powf a b)
    sqrt := fun a => fix (native.sqrt a)
    sin := fun a => fix (native.sin a)
    cos := fun a => fix (native.cos a)
    tan := fun a => fix (native.tan a)
    asin := fun a => fix (native.asin a)
    acos := fun a => fix (native.acos a)
    atan := fun a => fix (native.atan a)
    ln := fun a => fix (native.ln a)
    log10 := fun a => fix (native.log10 a)
    exp := fun a => fix (native.exp a)
    floor := fun a => fix (native.floor a)
    ceil := fun a => fix (native.ceil a)
    round := fun a => fix (native.round a)
    trunc := fun a => fix (native.trunc a) }

/-- compiler-rt `__powidf2` (what `f64::powi` lowers to), over the given multiply/divide -/
def powi (ops : NumOps) (a : F64) (b : Int) : F64 :=
  let recip := b < 0
  let rec go (a r : F64) (n : Nat) (fuel : Nat) : F64 :=
    match fuel with
    | 0 => r
    | fuel + 1 =>
      let r := if n % 2 = 1 then ops.mul r a else r
      let n := n / 2
      if n = 0 then r else go (ops.mul a a) r n fuel
  let r := go a F64.one b.natAbs 40
  if recip then ops.div F64.one r else r

end NumOps
end Blots
