import Blots.Model.Print
import Blots.Model.Outcome
import Blots.Gen.Builtins
/-
  The JSON (de)materialisation layer: `values.rs:546-781`
  (`SerializableValue::from_json / to_json / from_value / to_value`,
  `parse_function_source`) and the input side of the CLI, `main.rs:32-66, 342-388`
  (`parse_json_inputs`, the merge of piped stdin and the `--input` flags).

  Three levels are kept apart:

  * `Json` is a JSON *document*: object members in document order, duplicate keys
    possible.  Numbers are the double `serde_json::Number::as_f64` gives (an integer
    literal inside the i64/u64 range is converted exactly-rounded by `as f64`, everything
    else by serde_json's float parser, correctly rounded since the crate is built with
    `float_roundtrip`).  The text layer is modelled in `Model/JsonText.lean`
    (`jsonWrite` / `jsonRead`).
  * `Json.norm` is what `serde_json::Value` holds after parsing a document: the crate is
    built WITHOUT `preserve_order`, so `serde_json::Map` is a `BTreeMap<String, Value>`:
    members sorted by key (byte order of the UTF-8 = order of the scalar values), a
    duplicate key keeps its LAST value.
  * `SV` (`SerializableValue`, declared in `Model/Print.lean`) and `Value`.
-/
namespace Blots

inductive Json where
  | null : Json
  | bool : Bool → Json
  | num : F64 → Json
  | str : String → Json
  | arr : List Json → Json
  /-- members in document order -/
  | obj : List (String × Json) → Json
  deriving Inhabited

/-! ### `BTreeMap<String, _>` as a sorted association list -/

/-- `BTreeMap::insert`: replaces the value of an equal key, otherwise inserts in order -/
def insertSorted {α} (k : String) (v : α) : List (String × α) → List (String × α)
  | [] => [(k, v)]
  | (k', v') :: rest =>
    match strCmp k k' with
    | .lt => (k, v) :: (k', v') :: rest
    | .eq => (k, v) :: rest
    | .gt => (k', v') :: insertSorted k v rest

/-- `iter.collect::<BTreeMap<_, _>>()`: insert left to right (a later duplicate wins) -/
def collectSorted {α} (l : List (String × α)) : List (String × α) :=
  l.foldl (fun acc kv => insertSorted kv.1 kv.2 acc) []

/-- the value of the LAST member called `k` -/
def lookupLast {α} (k : String) : List (String × α) → Option α
  | [] => none
  | (k', v) :: rest =>
    match lookupLast k rest with
    | some w => some w
    | none => if k' = k then some v else none

/-! ### document → `serde_json::Value` -/

mutual
/-- the tree `serde_json::from_str::<serde_json::Value>` builds from a document -/
def Json.norm : Json → Json
  | .null => .null
  | .bool b => .bool b
  | .num x => .num x
  | .str s => .str s
  | .arr xs => .arr (Json.normList xs)
  | .obj ms => .obj (collectSorted (Json.normMembers ms))
def Json.normList : List Json → List Json
  | [] => []
  | x :: xs => x.norm :: Json.normList xs
def Json.normMembers : List (String × Json) → List (String × Json)
  | [] => []
  | (k, v) :: r => (k, v.norm) :: Json.normMembers r
end

/-! ### `from_json` -/

/-- `BuiltInFunction::from_ident(s).is_some()` over the generated table -/
def isBuiltinName (s : String) : Bool := (lookupAL s Gen.fromIdent).isSome

/-- `parse_function_source`: the string parses as one lambda expression; result = its
    parameter list and `expr_to_source` of its body.  The parser is not part of this
    model, so it is a parameter (the harness supplies the real answers). -/
abbrev ParseFn := String → Option (List LArg × String)

/-- `extend_lambda_body`: a lambda body is parsed without via / into / where, so the text
    "(x) => a via f" reads as ((x) => a) via f; the operators that follow the lambda on the
    left spine are given back to its body -/
def extendLambdaBody : Expr → Expr
  | .bin op l r =>
    match extendLambdaBody l with
    | .lambda args body => .lambda args (.bin op body r)
    | l' => .bin op l' r
  | e => e

/-- `parse_function_source` after the parser: `stmts` are the expression statements of the
    text in order (the parser itself is not part of this model); the first one that is a
    function - after `extend_lambda_body` - is the answer -/
def parseFunctionSource : List Expr → Option (List LArg × String)
  | [] => none
  | e :: rest =>
    match extendLambdaBody e with
    | .lambda args body => some (args, exprToSource body)
    | _ => parseFunctionSource rest

/-- the `__blots_function` rule of `from_json` on the members of an object -/
def fnObject (pf : ParseFn) (ms : List (String × Json)) : Option SV :=
  match lookupAL "__blots_function" ms with
  | some (.str s) =>
    if isBuiltinName s then some (.builtin s)
    else match pf s with
      | some (args, body) => some (.lambda args body)
      | none => none            -- falls through to "regular record"
  | _ => none

mutual
/-- `SerializableValue::from_json` (argument: a `serde_json::Value`, i.e. a normalised
    tree; `obj.get` is a lookup in a map with unique keys) -/
def fromJson (pf : ParseFn) : Json → SV
  | .null => .null
  | .bool b => .bool b
  | .num x => .num x
  | .str s => .str s
  | .arr xs => .list (fromJsonList pf xs)
  | .obj ms =>
    match fnObject pf ms with
    | some f => f
    | none => .record (fromJsonMembers pf ms)
def fromJsonList (pf : ParseFn) : List Json → List SV
  | [] => []
  | x :: xs => fromJson pf x :: fromJsonList pf xs
def fromJsonMembers (pf : ParseFn) : List (String × Json) → List (String × SV)
  | [] => []
  | (k, v) :: r => (k, fromJson pf v) :: fromJsonMembers pf r
end

/-! ### `to_json` -/

/-- the text `to_json` stores under `__blots_function` for a lambda -/
def lambdaSource (args : List LArg) (body : String) : String :=
  "(" ++ ", ".intercalate (args.map lambdaArgToSource) ++ ") => " ++ body

mutual
/-- `SerializableValue::to_json`.  `Number::from_f64` refuses NaN and ±inf and the code
    substitutes the integer `0`.  (Still so in blots-core; since commit afa129b the CLI
    refuses to output such a value — `reject_non_finite`, modelled by `writable` in
    Model/Cli.lean — so the rule is unreachable for the CLI's outputs object, but it is
    what library users of `to_json` get.) -/
def toJson : SV → Json
  | .num x => if x.isFinite then .num x else .num F64.zero
  | .bool b => .bool b
  | .null => .null
  | .str s => .str s
  | .list xs => .arr (toJsonList xs)
  | .record kvs => .obj (collectSorted (toJsonMembers kvs))
  | .lambda args body => .obj [("__blots_function", .str (lambdaSource args body))]
  | .builtin n => .obj [("__blots_function", .str n)]
def toJsonList : List SV → List Json
  | [] => []
  | x :: xs => toJson x :: toJsonList xs
def toJsonMembers : List (String × SV) → List (String × Json)
  | [] => []
  | (k, v) :: r => (k, toJson v) :: toJsonMembers r
end

/-! ### `from_value` / `to_value` -/

mutual
/-- `SerializableValue::from_captured_value`: as `from_value`, for a value that is written
    into the source of the function that captured it; the body of a captured function gets
    the parentheses a lambda body needs inside a larger expression -/
def fromCaptured : Value → Outcome SV
  | .num x => .ok (.num x)
  | .bool b => .ok (.bool b)
  | .null => .ok .null
  | .str s => .ok (.str s)
  | .list xs =>
    (match fromCapturedList xs with
     | .ok l => .ok (.list l) | .err k => .err k | .panic s => .panic s | .fuel => .fuel)
  | .record r =>
    (match fromCapturedRec r with
     | .ok l => .ok (.record l) | .err k => .err k | .panic s => .panic s | .fuel => .fuel)
  | .lambda _ args body scope =>
    (match fromCapturedRec scope with
     | .ok sc => .ok (.lambda args (parenIf (lambdaBodyNeedsParens body) (exprSrc sc body)))
     | .err k => .err k | .panic s => .panic s | .fuel => .fuel)
  | .builtin n => .ok (.builtin n)
  | .spread _ => .err .other
def fromCapturedList : List Value → Outcome (List SV)
  | [] => .ok []
  | x :: xs =>
    match fromCaptured x with
    | .ok y => (match fromCapturedList xs with
                | .ok ys => .ok (y :: ys) | .err k => .err k | .panic s => .panic s | .fuel => .fuel)
    | .err k => .err k | .panic s => .panic s | .fuel => .fuel
def fromCapturedRec : List (String × Value) → Outcome (List (String × SV))
  | [] => .ok []
  | (k, x) :: r =>
    match fromCaptured x with
    | .ok y => (match fromCapturedRec r with
                | .ok ys => .ok ((k, y) :: ys) | .err e => .err e | .panic s => .panic s | .fuel => .fuel)
    | .err e => .err e | .panic s => .panic s | .fuel => .fuel
end

mutual
/-- `SerializableValue::from_value`: a spread cannot be serialised; a lambda is emitted
    with its captured scope inlined (`expr_to_source_with_scope`) -/
def fromValue : Value → Outcome SV
  | .num x => .ok (.num x)
  | .bool b => .ok (.bool b)
  | .null => .ok .null
  | .str s => .ok (.str s)
  | .list xs =>
    (match fromValueList xs with
     | .ok l => .ok (.list l) | .err k => .err k | .panic s => .panic s | .fuel => .fuel)
  | .record r =>
    (match fromValueRec r with
     | .ok l => .ok (.record l) | .err k => .err k | .panic s => .panic s | .fuel => .fuel)
  | .lambda _ args body scope =>
    (match fromCapturedRec scope with
     | .ok sc => .ok (.lambda args (exprSrc sc body))
     | .err k => .err k | .panic s => .panic s | .fuel => .fuel)
  | .builtin n => .ok (.builtin n)
  | .spread _ => .err .other
def fromValueList : List Value → Outcome (List SV)
  | [] => .ok []
  | x :: xs =>
    match fromValue x with
    | .ok y => (match fromValueList xs with
                | .ok ys => .ok (y :: ys) | .err k => .err k | .panic s => .panic s | .fuel => .fuel)
    | .err k => .err k | .panic s => .panic s | .fuel => .fuel
def fromValueRec : List (String × Value) → Outcome (List (String × SV))
  | [] => .ok []
  | (k, x) :: r =>
    match fromValue x with
    | .ok y => (match fromValueRec r with
                | .ok ys => .ok ((k, y) :: ys) | .err e => .err e | .panic s => .panic s | .fuel => .fuel)
    | .err e => .err e | .panic s => .panic s | .fuel => .fuel
end

/-- re-parsing the body text of a deserialised lambda (`to_value`); a parameter -/
abbrev ParseBody := String → Option Expr

mutual
/-- `SerializableValue::to_value` for values that came from JSON (`scope: None`): a lambda
    gets an empty captured scope and a fresh heap cell (id 0 here: ids are never compared) -/
def toValue (pb : ParseBody) : SV → Outcome Value
  | .num x => .ok (.num x)
  | .bool b => .ok (.bool b)
  | .null => .ok .null
  | .str s => .ok (.str s)
  | .list xs =>
    (match toValueList pb xs with
     | .ok l => .ok (.list l) | .err k => .err k | .panic s => .panic s | .fuel => .fuel)
  | .record r =>
    (match toValueRec pb r with
     | .ok l => .ok (.record l) | .err k => .err k | .panic s => .panic s | .fuel => .fuel)
  | .lambda args body =>
    (match pb body with
     | some e => .ok (.lambda 0 args e [])
     | none => .err .other)
  | .builtin n => if isBuiltinName n then .ok (.builtin n) else .err .other
def toValueList (pb : ParseBody) : List SV → Outcome (List Value)
  | [] => .ok []
  | x :: xs =>
    match toValue pb x with
    | .ok y => (match toValueList pb xs with
                | .ok ys => .ok (y :: ys) | .err k => .err k | .panic s => .panic s | .fuel => .fuel)
    | .err k => .err k | .panic s => .panic s | .fuel => .fuel
def toValueRec (pb : ParseBody) : List (String × SV) → Outcome (List (String × Value))
  | [] => .ok []
  | (k, x) :: r =>
    match toValue pb x with
    | .ok y => (match toValueRec pb r with
                | .ok ys => .ok ((k, y) :: ys) | .err e => .err e | .panic s => .panic s | .fuel => .fuel)
    | .err e => .err e | .panic s => .panic s | .fuel => .fuel
end

/-- document → input value: parse, `from_json`, `to_value` -/
def readJson (pf : ParseFn) (pb : ParseBody) (j : Json) : Outcome Value :=
  toValue pb (fromJson pf j.norm)

/-- value → output tree: `from_value`, `to_json` -/
def writeJson (v : Value) : Outcome Json :=
  match fromValue v with
  | .ok sv => .ok (toJson sv)
  | .err k => .err k | .panic s => .panic s | .fuel => .fuel

/-! ### side conditions of the round trips -/

mutual
/-- only finite numbers -/
def SV.finite : SV → Bool
  | .num x => x.isFinite
  | .list xs => SV.finiteList xs
  | .record r => SV.finiteRec r
  | _ => true
def SV.finiteList : List SV → Bool
  | [] => true
  | x :: xs => x.finite && SV.finiteList xs
def SV.finiteRec : List (String × SV) → Bool
  | [] => true
  | (_, v) :: r => v.finite && SV.finiteRec r
end

mutual
/-- numbers, strings, booleans, null, lists, records: no function anywhere -/
def SV.plain : SV → Bool
  | .lambda .. => false
  | .builtin _ => false
  | .list xs => SV.plainList xs
  | .record r => SV.plainRec r
  | _ => true
def SV.plainList : List SV → Bool
  | [] => true
  | x :: xs => x.plain && SV.plainList xs
def SV.plainRec : List (String × SV) → Bool
  | [] => true
  | (_, v) :: r => v.plain && SV.plainRec r
end

/-- the record would be read back as a function: its (last) member `__blots_function`
    is a string that names a built-in or parses as a lambda -/
def fnShaped (pf : ParseFn) (kvs : List (String × SV)) : Bool :=
  match lookupLast "__blots_function" kvs with
  | some (.str s) => isBuiltinName s || (pf s).isSome
  | _ => false

mutual
/-- no record anywhere in the value is function shaped -/
def SV.noFn (pf : ParseFn) : SV → Bool
  | .list xs => SV.noFnList pf xs
  | .record r => !fnShaped pf r && SV.noFnRec pf r
  | _ => true
def SV.noFnList (pf : ParseFn) : List SV → Bool
  | [] => true
  | x :: xs => x.noFn pf && SV.noFnList pf xs
def SV.noFnRec (pf : ParseFn) : List (String × SV) → Bool
  | [] => true
  | (_, v) :: r => v.noFn pf && SV.noFnRec pf r
end

mutual
/-- every record's keys put in `BTreeMap` order (later duplicate wins) -/
def SV.sortKeys : SV → SV
  | .list xs => .list (SV.sortKeysList xs)
  | .record r => .record (collectSorted (SV.sortKeysRec r))
  | v => v
def SV.sortKeysList : List SV → List SV
  | [] => []
  | x :: xs => x.sortKeys :: SV.sortKeysList xs
def SV.sortKeysRec : List (String × SV) → List (String × SV)
  | [] => []
  | (k, v) :: r => (k, v.sortKeys) :: SV.sortKeysRec r
end

/-- keys strictly ascending in `BTreeMap` order -/
def keysSorted {α} : List (String × α) → Bool
  | [] => true
  | (k, _) :: rest => rest.all (fun kv => strCmp k kv.1 == .lt) && keysSorted rest

mutual
/-- every record of the value already has its keys in `BTreeMap` order (strictly
    ascending): the shape every value read from JSON has -/
def SV.canonical : SV → Bool
  | .list xs => SV.canonicalList xs
  | .record r => keysSorted r && SV.canonicalRec r
  | _ => true
def SV.canonicalList : List SV → Bool
  | [] => true
  | x :: xs => x.canonical && SV.canonicalList xs
def SV.canonicalRec : List (String × SV) → Bool
  | [] => true
  | (_, v) :: r => v.canonical && SV.canonicalRec r
end

mutual
/-- a tree `serde_json` can hold: numbers finite, object keys strictly ascending -/
def Json.canonical : Json → Bool
  | .num x => x.isFinite
  | .arr xs => Json.canonicalList xs
  | .obj ms => keysSorted ms && Json.canonicalMembers ms
  | _ => true
def Json.canonicalList : List Json → Bool
  | [] => true
  | x :: xs => x.canonical && Json.canonicalList xs
def Json.canonicalMembers : List (String × Json) → Bool
  | [] => true
  | (_, v) :: r => v.canonical && Json.canonicalMembers r
end

mutual
/-- a document whose numbers are all finite (JSON text cannot denote anything else:
    serde_json rejects `1e999` as out of range) -/
def Json.finite : Json → Bool
  | .num x => x.isFinite
  | .arr xs => Json.finiteList xs
  | .obj ms => Json.finiteMembers ms
  | _ => true
def Json.finiteList : List Json → Bool
  | [] => true
  | x :: xs => x.finite && Json.finiteList xs
def Json.finiteMembers : List (String × Json) → Bool
  | [] => true
  | (_, v) :: r => v.finite && Json.finiteMembers r
end

mutual
/-- no object of the (normalised) tree denotes a function -/
def Json.noFnObj (pf : ParseFn) : Json → Bool
  | .arr xs => Json.noFnObjList pf xs
  | .obj ms => (fnObject pf ms).isNone && Json.noFnObjMembers pf ms
  | _ => true
def Json.noFnObjList (pf : ParseFn) : List Json → Bool
  | [] => true
  | x :: xs => x.noFnObj pf && Json.noFnObjList pf xs
def Json.noFnObjMembers (pf : ParseFn) : List (String × Json) → Bool
  | [] => true
  | (_, v) :: r => v.noFnObj pf && Json.noFnObjMembers pf r
end

/-! ### JSON value equality -/

mutual
/-- JSON value equality: numbers as doubles (IEEE `==`), strings exactly, arrays
    element-wise, objects as maps — member order ignored, a duplicate key stands for its
    LAST value on either side. -/
def jeq : Json → Json → Bool
  | .null, .null => true
  | .bool a, .bool b => a == b
  | .num a, .num b => a.feq b
  | .str a, .str b => a == b
  | .arr as, .arr bs => jeqList as bs
  | .obj a, .obj b =>
    a.all (fun kv => (lookupLast kv.1 b).isSome) && b.all (fun kv => (lookupLast kv.1 a).isSome) &&
      jeqMembers a b
  | _, _ => false
def jeqList : List Json → List Json → Bool
  | [], [] => true
  | a :: as, b :: bs => jeq a b && jeqList as bs
  | _, _ => false
/-- every member of the left object that is not shadowed by a later duplicate equals the
    effective member of the same name on the right -/
def jeqMembers : List (String × Json) → List (String × Json) → Bool
  | [], _ => true
  | (k, v) :: rest, b =>
    ((lookupLast k rest).isSome ||
      (match lookupLast k b with
       | some w => jeq v w
       | none => false)) && jeqMembers rest b
end

/-! ### input merging (`parse_json_inputs` + `main`) -/

/-- members of an object source that convert to values, in map order; a member whose
    `to_value` fails is silently dropped -/
def objEntries (pf : ParseFn) (pb : ParseBody) : List (String × Json) → List (String × Value)
  | [] => []
  | (k, v) :: r =>
    match toValue pb (fromJson pf v) with
    | .ok val => (k, val) :: objEntries pf pb r
    | _ => objEntries pf pb r

def unnamedKey (n : Nat) : String := "value_" ++ toString n

/-- `parse_json_inputs` on one parsed source (a `serde_json::Value`) with the shared
    counter of unnamed values: the entries it contributes and the new counter -/
def sourceEntries (pf : ParseFn) (pb : ParseBody) (counter : Nat) : Json → List (String × Value) × Nat
  | .obj ms => (objEntries pf pb ms, counter)
  | j =>
    match toValue pb (fromJson pf j) with
    | .ok val => ([(unnamedKey (counter + 1), val)], counter + 1)
    | _ => ([], counter)

def Json.isObj : Json → Bool
  | .obj _ => true
  | _ => false

/-- the source is not an object and converts: it is stored as `value_<n>` and consumes a number -/
def unnamedSource (pf : ParseFn) (pb : ParseBody) (j : Json) : Bool :=
  !j.isObj && (toValue pb (fromJson pf j.norm)).isOk

/-- `IndexMap::insert` of a sequence of entries -/
def insertAll {α} (m : List (String × α)) (es : List (String × α)) : List (String × α) :=
  es.foldl (fun m kv => insertAL kv.1 kv.2 m) m

/-- sources (documents) in order: piped stdin first, then each `--input` -/
def mergeFrom (pf : ParseFn) (pb : ParseBody) : Nat → List (String × Value) → List Json → List (String × Value)
  | _, acc, [] => acc
  | c, acc, j :: rest =>
    let (es, c') := sourceEntries pf pb c j.norm
    mergeFrom pf pb c' (insertAll acc es) rest

/-- all entries the sources contribute, in order -/
def entriesFrom (pf : ParseFn) (pb : ParseBody) : Nat → List Json → List (String × Value)
  | _, [] => []
  | c, j :: rest =>
    let (es, c') := sourceEntries pf pb c j.norm
    es ++ entriesFrom pf pb c' rest

/-- the counter after the given sources -/
def counterAfter (pf : ParseFn) (pb : ParseBody) : Nat → List Json → Nat
  | c, [] => c
  | c, j :: rest => counterAfter pf pb (sourceEntries pf pb c j.norm).2 rest

/-- the record bound to `inputs` -/
def mergeInputs (pf : ParseFn) (pb : ParseBody) (stdin : Option Json) (flags : List Json) :
    List (String × Value) :=
  mergeFrom pf pb 0 [] (stdin.toList ++ flags)

/-! ### `#name` and `inputs.name` (expressions.rs:187-206, 600-621) -/

/-- `Expr::InputReference(field)` given `bindings.get("inputs")` -/
def evalInputRef (inputsBinding : Option Value) (field : String) : Outcome Value :=
  match inputsBinding with
  | none => .err .other                       -- "inputs not found (required for #… syntax)"
  | some (.record r) => .ok ((lookupAL field r).getD .null)
  | some _ => .err .type_                     -- "inputs must be a record to use #… syntax"

/-- `Expr::Identifier("inputs")` given `bindings.get("inputs")` -/
def evalInputsIdent (inputsBinding : Option Value) : Outcome Value :=
  match inputsBinding with
  | some v => .ok v
  | none => .err .unknownIdent

/-- `Expr::DotAccess { expr, field }` given the outcome of `expr` -/
def evalDotAccess (r : Outcome Value) (field : String) : Outcome Value :=
  match r with
  | .ok (.record rec) => .ok ((lookupAL field rec).getD .null)
  | .ok _ => .err .type_                      -- "expected a record, but got a …"
  | other => other

/-! ### wire format -/

mutual
partial def Json.toSx : Json → Sx
  | .null => .list [.atom "jnull"]
  | .bool b => .list [.atom "jbool", .atom (if b then "t" else "f")]
  | .num x => .list [.atom "jnum", .atom (hex64 x.bits)]
  | .str s => .list [.atom "jstr", .atom (encStr s)]
  | .arr xs => .list (.atom "jarr" :: xs.map Json.toSx)
  | .obj ms => .list (.atom "jobj" :: ms.map fun (k, v) => Sx.list [.atom (encStr k), v.toSx])
end

partial def Json.ofSx : Sx → Option Json
  | .list [.atom "jnull"] => some .null
  | .list [.atom "jbool", .atom "t"] => some (.bool true)
  | .list [.atom "jbool", .atom "f"] => some (.bool false)
  | .list [.atom "jnum", .atom b] => (parseHex64 b).map fun u => .num ⟨u⟩
  | .list [.atom "jstr", .atom a] => (decStr a).map .str
  | .list (.atom "jarr" :: xs) => (xs.mapM Json.ofSx).map .arr
  | .list (.atom "jobj" :: ms) =>
      (ms.mapM fun
        | Sx.list [.atom k, v] => do pure ((← decStr k), (← Json.ofSx v))
        | _ => none).map .obj
  | _ => none

partial def SV.toSx : SV → Sx
  | .num x => .list [.atom "num", .atom (hex64 x.bits)]
  | .bool b => .list [.atom "bool", .atom (if b then "t" else "f")]
  | .null => .list [.atom "null"]
  | .str s => .list [.atom "str", .atom (encStr s)]
  | .list xs => .list (.atom "list" :: xs.map SV.toSx)
  | .record kvs => .list (.atom "record" :: kvs.map fun (k, v) => Sx.list [.atom (encStr k), v.toSx])
  | .lambda as body => .list [.atom "svlambda", .list (as.map LArg.toSx), .atom (encStr body)]
  | .builtin n => .list [.atom "builtin", .atom n]

end Blots
