import Blots.Model.Num
/-
  Numbers ↔ text outside the display path:

  * `literalValue`  — the numeric-literal conversion of `expressions.rs:1892-1934`
    (`Rule::number`): `0b…` / `0x…` through `i64::from_str_radix` (overflow = error),
    decimal through `str::parse::<f64>` after removing `_`;
  * `srcNumber`     — number printing in emitted source (`ast_to_source.rs:49-55, 283-289,
    458-464`): `{:.0}` when integral and |x| < 1e15, else `to_string`;
  * `toStringNum` / `toNumberStr` / `toNumberBool` — the `to_string` / `to_number`
    built-ins on numbers, strings, booleans (`functions.rs:1205-1223`, `values.rs` stringify);
  * `jsonNumber`    — the text serde_json writes for a finite double (ryu's `format_finite`
    layout around the shortest round-trip digits); the *reader* of serde_json is an external
    library and is not modelled (it is compared with `parseDec` by the harness).
-/
namespace Blots.NumText

open Blots

/-! ### `i64::from_str_radix` -/

/-- value of one digit character in the given radix (`char::to_digit(radix)`) -/
def digitOf (radix : Nat) (c : Char) : Option Nat :=
  match hexVal c with
  | some v => if v < radix then some v else none
  | none => none

/-- digits → natural number, `none` on an invalid digit -/
def digitsRadix (radix : Nat) : List Char → Nat → Option Nat
  | [], acc => some acc
  | c :: cs, acc =>
    match digitOf radix c with
    | some v => digitsRadix radix cs (acc * radix + v)
    | none => none

/-- `i64::from_str_radix(s, radix)` : empty → error; one optional leading `+`/`-`
    (a lone sign → error); every other character a digit; out of i64 range → error. -/
def fromStrRadixI64 (radix : Nat) (cs : List Char) : Option Int :=
  if cs.isEmpty then none else
  let (negative, ds) := match cs with
    | '-' :: r => (true, r)
    | '+' :: r => (false, r)
    | r => (false, r)
  if ds.isEmpty then none else
  match digitsRadix radix ds 0 with
  | none => none
  | some n =>
    let v : Int := if negative then - Int.ofNat n else Int.ofNat n
    if v < -(2 ^ 63) || v > 2 ^ 63 - 1 then none else some v

/-- `sign * v` for `sign ∈ {1.0, -1.0}` (exact in IEEE arithmetic for every non-NaN `v`) -/
def mulSign (negative : Bool) (v : F64) : F64 := if negative then v.negate else v

def removeUnderscores (cs : List Char) : List Char := cs.filter (· ≠ '_')

/-- the three-way prefix test `starts_with("0b") || starts_with("-0b") || starts_with("+0b")`
    and the `strip_prefix` chain: `some (negative, digits)` when the literal has that radix
    marker (`m` = 'b' or 'x') -/
def radixSplit (m : Char) (cs : List Char) : Option (Bool × List Char) :=
  match cs with
  | '-' :: '0' :: c :: r => if c = m then some (true, r) else none
  | '+' :: '0' :: c :: r => if c = m then some (false, r) else none
  | '0' :: c :: r => if c = m then some (false, r) else none
  | _ => none

/-- `Rule::number` → f64 (`none` = the conversion returns `Err`).  `parsed as f64` is the
    correctly rounded i64 → f64 cast, `F64.ofInt`. -/
def literalValue (s : String) : Option F64 :=
  let cs := s.toList
  match radixSplit 'b' cs with
  | some (negative, digits) =>
    match fromStrRadixI64 2 (removeUnderscores digits) with
    | some parsed => some (mulSign negative (F64.ofInt parsed))
    | none => none
  | none =>
    match radixSplit 'x' cs with
    | some (negative, digits) =>
      match fromStrRadixI64 16 (removeUnderscores digits) with
      | some parsed => some (mulSign negative (F64.ofInt parsed))
      | none => none
    | none => F64.parseDec (String.ofList (removeUnderscores cs))

/-! ### printing -/

/-- `1e15` -/
def srcThreshold : F64 := F64.ofNatBits 0x430C6BF526340000

/-- `if n.fract() == 0.0 && n.abs() < 1e15 { format!("{:.0}", n) } else { n.to_string() }` -/
def srcNumber (x : F64) : String :=
  if x.isIntegral && F64.flt x.abs srcThreshold then F64.toFixed x 0 else F64.toDisplay x

/-- `to_string(x)` on a number: `f64::to_string` -/
def toStringNum (x : F64) : String := F64.toDisplay x

/-- `to_number(s)` on a string: `s.parse::<f64>()` -/
def toNumberStr (s : String) : Option F64 := F64.parseDec s

/-- `to_number(b)` on a boolean -/
def toNumberBool (b : Bool) : F64 := if b then F64.one else F64.zero

/-- serde_json / ryu `format_finite` for a finite double: shortest round-trip digits `D`
    (n of them) and exponent `k` (value = D × 10^k), `kk = n + k`:
      0 ≤ k, kk ≤ 16   → `D` zeros `.0`
      0 < kk ≤ 16      → `D` with a point after kk digits
      -5 < kk ≤ 0      → `0.` zeros `D`
      otherwise        → `d[.ddd]e[-]x`  (x = kk - 1) -/
def jsonNumber (x : F64) : String :=
  let sign := if x.neg then "-" else ""
  if x.isZero then sign ++ "0.0"
  else
    let (d, k) := x.shortestDigitsWith false
    let ds := F64.natDigits d
    let n : Int := Int.ofNat ds.length
    let kk : Int := n + k
    if 0 ≤ k && kk ≤ 16 then sign ++ ds ++ F64.zeros k.toNat ++ ".0"
    else if 0 < kk && kk ≤ 16 then
      sign ++ String.ofList (ds.toList.take kk.toNat) ++ "." ++ String.ofList (ds.toList.drop kk.toNat)
    else if -5 < kk && kk ≤ 0 then sign ++ "0." ++ F64.zeros (-kk).toNat ++ ds
    else
      let e := kk - 1
      let mant := if ds.length = 1 then ds
                  else String.ofList (ds.toList.take 1) ++ "." ++ String.ofList (ds.toList.drop 1)
      sign ++ mant ++ "e" ++ toString e

end Blots.NumText
