import Blots.Model.Json
/-
  The JSON TEXT layer of C06: what `serde_json::to_string(&serde_json::Value)` writes
  (compact formatter, `ser.rs`) and what `serde_json::from_str::<serde_json::Value>` reads
  (`de.rs`, `read.rs`; the crate is built with `float_roundtrip`, so number texts are
  converted by correct rounding).

  * `jsonWrite : Json → String`.  Numbers as `ryu::Buffer::format_finite` prints an `f64`
    (`ryu-1.0.20/src/pretty/mod.rs`, `format64`): with `(d, e)` the shortest digits that
    read back (ties between two shortest candidates: the even one) and `kk = #digits + e`,
      0 ≤ e ∧ kk ≤ 16      digits, e zeros, ".0"            1.0   1000000000000000.0
      0 < kk ≤ 16          digits with a point after kk      12.34
      -5 < kk ≤ 0          "0." (-kk) zeros digits           0.00001234
      otherwise            d[.ddd]e<kk-1>                    1e16  1e21  1e-6  1.234e-6  5e-324
    (exponent without `+` and without padding); zero is `0.0` / `-0.0`.  Non-finite
    numbers never reach the writer (`Number::from_f64` refuses them).
    Strings: `"` `\` as `\"` `\\`; U+0008/9/A/C/D as `\b \t \n \f \r`; the other
    characters below U+0020 as `\u00xx` (lower-case hex); everything else verbatim (U+007F,
    `/`, non-ASCII and astral characters included).  No white space.  Object members in
    the order of the tree (`serde_json::Map` is a `BTreeMap`: `Json.norm` sorts).
  * `jsonRead : String → Option Json`: RFC 8259 as serde_json implements it — white space
    ` \t\n\r` around every token; the nine escapes incl. `\/`; `\uXXXX` in either case
    with surrogate pairs, lone or unpaired surrogates rejected; raw characters below U+0020
    rejected; numbers `-? (0 | [1-9][0-9]*) (. [0-9]+)? ([eE] [+-]? [0-9]+)?` converted by
    `parseDec` (correct rounding; `-0` is the negative zero), a token that denotes ±inf
    (`1e999`) rejected; duplicate keys kept in document order (`Json.norm` resolves them);
    trailing commas, trailing characters rejected; serde_json's recursion limit: the 128th
    nested array/object is rejected (`[`×127 is read, `[`×128 is not).
  Not modelled: the UTF-8 decoding of the bytes (a Lean `String` is a sequence of scalar
  values, `from_str` takes a `&str`: both are valid UTF-8 by type); error messages.
-/
namespace Blots

/-! ### writer -/

/-- serde_json's `format_escaped_str_contents` for one character -/
def jsonEscChar (c : Char) : List Char :=
  if c = '"' then ['\\', '"']
  else if c = '\\' then ['\\', '\\']
  else if c = '\n' then ['\\', 'n']
  else if c = '\r' then ['\\', 'r']
  else if c = '\t' then ['\\', 't']
  else if c = '\x08' then ['\\', 'b']
  else if c = '\x0c' then ['\\', 'f']
  else if c.toNat < 0x20 then ['\\', 'u', '0', '0', hexDigit (c.toNat / 16), hexDigit (c.toNat % 16)]
  else [c]

def jsonEscChars : List Char → List Char
  | [] => []
  | c :: r => jsonEscChar c ++ jsonEscChars r

/-- a string token, with its quotes -/
def jsonStrChars (s : String) : List Char := '"' :: (jsonEscChars s.toList ++ ['"'])

/-- `write_exponent3`: a minus sign if negative, the digits without padding -/
def ryuExpChars (e : Int) : List Char :=
  (if e < 0 then ['-'] else []) ++ (F64.natDigits e.natAbs).toList

/-- `ryu::Buffer::format_finite` on a finite double -/
def ryuChars (x : F64) : List Char :=
  let sign : List Char := if x.neg then ['-'] else []
  if x.isZero then sign ++ ['0', '.', '0']
  else
    let de := x.shortestDigitsWith false
    let ds := (F64.natDigits de.1).toList
    let kk : Int := Int.ofNat ds.length + de.2
    if 0 ≤ de.2 ∧ kk ≤ 16 then sign ++ (ds ++ List.replicate de.2.toNat '0' ++ ['.', '0'])
    else if 0 < kk ∧ kk ≤ 16 then sign ++ (ds.take kk.toNat ++ '.' :: ds.drop kk.toNat)
    else if -5 < kk ∧ kk ≤ 0 then sign ++ ('0' :: '.' :: (List.replicate (-kk).toNat '0' ++ ds))
    else if ds.length = 1 then sign ++ (ds ++ 'e' :: ryuExpChars (kk - 1))
    else sign ++ (ds.take 1 ++ '.' :: (ds.drop 1 ++ 'e' :: ryuExpChars (kk - 1)))

mutual
/-- the characters `serde_json::to_string` writes for a tree -/
def Json.chars : Json → List Char
  | .null => ['n', 'u', 'l', 'l']
  | .bool true => ['t', 'r', 'u', 'e']
  | .bool false => ['f', 'a', 'l', 's', 'e']
  | .num x => ryuChars x
  | .str s => jsonStrChars s
  | .arr [] => ['[', ']']
  | .arr (x :: xs) => '[' :: (x.chars ++ Json.restChars xs)
  | .obj [] => ['{', '}']
  | .obj ((k, v) :: ms) => '{' :: (jsonStrChars k ++ ':' :: (v.chars ++ Json.restMembers ms))
/-- the elements after the first, each preceded by its comma, and the closing bracket -/
def Json.restChars : List Json → List Char
  | [] => [']']
  | x :: xs => ',' :: (x.chars ++ Json.restChars xs)
/-- the members after the first, each preceded by its comma, and the closing brace -/
def Json.restMembers : List (String × Json) → List Char
  | [] => ['}']
  | (k, v) :: ms => ',' :: (jsonStrChars k ++ ':' :: (v.chars ++ Json.restMembers ms))
end

/-- `serde_json::to_string(&value)` -/
def jsonWrite (j : Json) : String := String.ofList j.chars

/-! ### reader -/

def jsonIsWs (c : Char) : Bool := c = ' ' || c = '\n' || c = '\t' || c = '\r'

/-- `parse_whitespace` -/
def jsonSkipWs : List Char → List Char
  | [] => []
  | c :: r => if jsonIsWs c then jsonSkipWs r else c :: r

/-- `decode_four_hex_digits` -/
def jsonHex4 (a b c d : Char) : Option Nat :=
  match hexVal a, hexVal b, hexVal c, hexVal d with
  | some x, some y, some z, some w => some (((x * 16 + y) * 16 + z) * 16 + w)
  | _, _, _, _ => none

def consChar (c : Char) : Option (List Char × List Char) → Option (List Char × List Char)
  | some (s, r) => some (c :: s, r)
  | none => none

/-- the text after `\u`: one scalar value (a surrogate pair is two escapes); a lone or
    unpaired surrogate is an error -/
def jsonReadUnicode : List Char → Option (Char × List Char)
  | a :: b :: c :: d :: r =>
    match jsonHex4 a b c d with
    | none => none
    | some n =>
      if 0xDC00 ≤ n ∧ n ≤ 0xDFFF then none
      else if 0xD800 ≤ n ∧ n ≤ 0xDBFF then
        match r with
        | '\\' :: 'u' :: a2 :: b2 :: c2 :: d2 :: r2 =>
          match jsonHex4 a2 b2 c2 d2 with
          | none => none
          | some n2 =>
            if 0xDC00 ≤ n2 ∧ n2 ≤ 0xDFFF then
              some (Char.ofNat (0x10000 + (n - 0xD800) * 1024 + (n2 - 0xDC00)), r2)
            else none
        | _ => none
      else some (Char.ofNat n, r)
  | _ => none

/-- the text after a backslash: the character it denotes -/
def jsonReadEscape : List Char → Option (Char × List Char)
  | [] => none
  | e :: r =>
    if e = '"' then some ('"', r)
    else if e = '\\' then some ('\\', r)
    else if e = '/' then some ('/', r)
    else if e = 'b' then some ('\x08', r)
    else if e = 'f' then some ('\x0c', r)
    else if e = 'n' then some ('\n', r)
    else if e = 'r' then some ('\r', r)
    else if e = 't' then some ('\t', r)
    else if e = 'u' then jsonReadUnicode r
    else none

/-- the text after the opening quote: the characters up to the closing quote and the
    rest (`parse_str`); fuel: one unit per character or escape -/
def jsonReadStrBody : Nat → List Char → Option (List Char × List Char)
  | 0, _ => none
  | _ + 1, [] => none
  | fuel + 1, c :: r =>
    if c = '"' then some ([], r)
    else if c = '\\' then
      match jsonReadEscape r with
      | some (ch, r') => consChar ch (jsonReadStrBody fuel r')
      | none => none
    else if c.toNat < 0x20 then none
    else consChar c (jsonReadStrBody fuel r)

/-- a string token after its opening quote -/
def jsonReadStr (fuel : Nat) (cs : List Char) : Option (String × List Char) :=
  match jsonReadStrBody fuel cs with
  | some (s, r) => some (String.ofList s, r)
  | none => none

def numSign : List Char → List Char × List Char
  | '-' :: r => (['-'], r)
  | r => ([], r)

/-- `. digits+`, or nothing -/
def numFrac : List Char → Option (List Char × List Char)
  | '.' :: r =>
    if (r.takeWhile F64.isDigit).isEmpty then none
    else some ('.' :: r.takeWhile F64.isDigit, r.dropWhile F64.isDigit)
  | r => some ([], r)

/-- the optional sign of an exponent -/
def numExpSign : List Char → List Char × List Char
  | '-' :: t => (['-'], t)
  | '+' :: t => (['+'], t)
  | t => ([], t)

/-- `(e|E) (+|-)? digits+`, or nothing -/
def numExp : List Char → Option (List Char × List Char)
  | [] => some ([], [])
  | c :: r =>
    if c = 'e' || c = 'E' then
      let p := numExpSign r
      if (p.2.takeWhile F64.isDigit).isEmpty then none
      else some (c :: (p.1 ++ p.2.takeWhile F64.isDigit), p.2.dropWhile F64.isDigit)
    else some ([], c :: r)

/-- integer part: `0` or a digit string without a leading zero -/
def numLeadOk : List Char → Bool
  | [] => false
  | ['0'] => true
  | c :: _ => c ≠ '0'

/-- a number token: cut out by the JSON grammar, converted by correct rounding; a token
    that denotes an infinity is out of range -/
def jsonReadNumber (cs : List Char) : Option (Json × List Char) :=
  let s := numSign cs
  let ip := s.2.takeWhile F64.isDigit
  if numLeadOk ip then
    match numFrac (s.2.dropWhile F64.isDigit) with
    | none => none
    | some (ft, r2) =>
      match numExp r2 with
      | none => none
      | some (et, r3) =>
        match F64.parseDec (String.ofList (s.1 ++ (ip ++ ft ++ et))) with
        | some x => if x.isFinite then some (.num x, r3) else none
        | none => none
  else none

mutual
/-- one value (leading white space skipped) and the rest of the text.  `depth` is
    serde_json's `remaining_depth`; `fuel` bounds the number of calls (and the length of a
    string token): twice the length of the text is always enough. -/
def jsonReadValue : Nat → Nat → List Char → Option (Json × List Char)
  | 0, _, _ => none
  | fuel + 1, depth, cs =>
    match jsonSkipWs cs with
    | [] => none
    | c :: r =>
      if c = 'n' then (match r with | 'u' :: 'l' :: 'l' :: r' => some (.null, r') | _ => none)
      else if c = 't' then (match r with | 'r' :: 'u' :: 'e' :: r' => some (.bool true, r') | _ => none)
      else if c = 'f' then
        (match r with | 'a' :: 'l' :: 's' :: 'e' :: r' => some (.bool false, r') | _ => none)
      else if c = '"' then
        (match jsonReadStr fuel r with
         | some (s, r') => some (.str s, r')
         | none => none)
      else if c = '[' then
        if depth ≤ 1 then none
        else
          match jsonSkipWs r with
          | ']' :: r' => some (.arr [], r')
          | r' =>
            match jsonReadElems fuel (depth - 1) r' with
            | some (xs, r'') => some (.arr xs, r'')
            | none => none
      else if c = '{' then
        if depth ≤ 1 then none
        else
          match jsonSkipWs r with
          | '}' :: r' => some (.obj [], r')
          | r' =>
            match jsonReadMembers fuel (depth - 1) r' with
            | some (ms, r'') => some (.obj ms, r'')
            | none => none
      else jsonReadNumber (c :: r)
/-- `value (, value)* ]` -/
def jsonReadElems : Nat → Nat → List Char → Option (List Json × List Char)
  | 0, _, _ => none
  | fuel + 1, depth, cs =>
    match jsonReadValue fuel depth cs with
    | none => none
    | some (v, r) =>
      match jsonSkipWs r with
      | ',' :: r' =>
        (match jsonReadElems fuel depth r' with
         | some (vs, r'') => some (v :: vs, r'')
         | none => none)
      | ']' :: r' => some ([v], r')
      | _ => none
/-- `string : value (, string : value)* }` -/
def jsonReadMembers : Nat → Nat → List Char → Option (List (String × Json) × List Char)
  | 0, _, _ => none
  | fuel + 1, depth, cs =>
    match jsonSkipWs cs with
    | '"' :: r =>
      (match jsonReadStr fuel r with
       | none => none
       | some (k, r1) =>
         match jsonSkipWs r1 with
         | ':' :: r2 =>
           (match jsonReadValue fuel depth r2 with
            | none => none
            | some (v, r3) =>
              match jsonSkipWs r3 with
              | ',' :: r4 =>
                (match jsonReadMembers fuel depth r4 with
                 | some (ms, r5) => some ((k, v) :: ms, r5)
                 | none => none)
              | '}' :: r4 => some ([(k, v)], r4)
              | _ => none)
         | _ => none)
    | _ => none
end

/-- a whole text is one value, white space around it allowed; `limit` = the recursion
    limit (the first array/object has `limit - 1` levels left) -/
def jsonReadWith (limit : Nat) (s : String) : Option Json :=
  match jsonReadValue (2 * s.toList.length + 2) limit s.toList with
  | some (j, r) => if (jsonSkipWs r).isEmpty then some j else none
  | none => none

/-- `serde_json::from_str::<serde_json::Value>` as a document tree (members in document
    order; `Json.norm` gives the `Value`) -/
def jsonRead (s : String) : Option Json := jsonReadWith 128 s

mutual
/-- nesting depth: 0 for scalars -/
def Json.depth : Json → Nat
  | .arr xs => 1 + Json.depthList xs
  | .obj ms => 1 + Json.depthMembers ms
  | _ => 0
def Json.depthList : List Json → Nat
  | [] => 0
  | x :: xs => max x.depth (Json.depthList xs)
def Json.depthMembers : List (String × Json) → Nat
  | [] => 0
  | (_, v) :: r => max v.depth (Json.depthMembers r)
end

mutual
/-- nesting depth of a serialisable value: 0 for scalars, 1 for a function (its JSON form
    is a one-member object) -/
def SV.depth : SV → Nat
  | .list xs => 1 + SV.depthList xs
  | .record r => 1 + SV.depthRec r
  | .lambda .. => 1
  | .builtin _ => 1
  | _ => 0
def SV.depthList : List SV → Nat
  | [] => 0
  | x :: xs => max x.depth (SV.depthList xs)
def SV.depthRec : List (String × SV) → Nat
  | [] => 0
  | (_, v) :: r => max v.depth (SV.depthRec r)
end

/-! ### the whole chain: value → tree → text, text → tree → value -/

/-- what `write_outputs` prints for a value: `from_value`, `to_json`, `serde_json::to_string` -/
def writeText (v : Value) : Outcome String :=
  match writeJson v with
  | .ok j => .ok (jsonWrite j)
  | .err k => .err k | .panic s => .panic s | .fuel => .fuel

/-- what `parse_json_inputs` makes of a text: `serde_json::from_str`, `from_json`,
    `to_value`; a text that is not JSON is an input error -/
def readText (pf : ParseFn) (pb : ParseBody) (t : String) : Outcome Value :=
  match jsonRead t with
  | some j => readJson pf pb j
  | none => .err .other

end Blots
