import Blots.Model.Num
/-
  The AST of `blots-core/src/ast.rs` (spans dropped; `Commented<T>` kept because the
  formatter's behaviour depends on it), and its wire format.
-/
namespace Blots

inductive BinOp where
  | add | sub | mul | div | mod | pow
  | eq | ne | lt | le | gt | ge
  | deq | dne | dlt | dle | dgt | dge
  | and | nand | or | nor
  | via | into | where_ | coalesce
  deriving DecidableEq, Repr, Inhabited

namespace BinOp
/-- every operator, in the order of `enum BinaryOp` -/
def all : List BinOp :=
  [add, sub, mul, div, mod, pow, eq, ne, lt, le, gt, ge, deq, dne, dlt, dle, dgt, dge,
   and, nand, or, nor, via, into, where_, coalesce]

/-- Rust variant name (used by the generated tables) -/
def rustName : BinOp → String
  | add => "Add" | sub => "Subtract" | mul => "Multiply" | div => "Divide" | mod => "Modulo"
  | pow => "Power" | eq => "Equal" | ne => "NotEqual" | lt => "Less" | le => "LessEq"
  | gt => "Greater" | ge => "GreaterEq" | deq => "DotEqual" | dne => "DotNotEqual"
  | dlt => "DotLess" | dle => "DotLessEq" | dgt => "DotGreater" | dge => "DotGreaterEq"
  | and => "And" | nand => "NaturalAnd" | or => "Or" | nor => "NaturalOr"
  | via => "Via" | into => "Into" | where_ => "Where" | coalesce => "Coalesce"

def ofRustName (s : String) : Option BinOp := all.find? (fun o => o.rustName = s)
end BinOp

inductive UnOp where
  | negate | not | invert
  deriving DecidableEq, Repr, Inhabited

inductive LArg where
  | req : String → LArg
  | opt : String → LArg
  | rest : String → LArg
  deriving DecidableEq, Repr, Inhabited

def LArg.name : LArg → String
  | .req n => n | .opt n => n | .rest n => n

mutual
inductive Expr where
  | num : F64 → Expr
  | str : String → Expr
  | bool : Bool → Expr
  | null : Expr
  | ident : String → Expr
  | inref : String → Expr
  | builtin : String → Expr
  | list : List Item → Expr
  | record : List Entry → Expr
  | lambda : List LArg → Expr → Expr
  | cond : Expr → Expr → Expr → Expr
  | doBlock : List Item → Item → Expr
  | assign : String → Expr → Expr
  | output : Expr → Expr
  | call : Expr → List Expr → Expr
  | access : Expr → Expr → Expr
  | dot : Expr → String → Expr
  | bin : BinOp → Expr → Expr → Expr
  | un : UnOp → Expr → Expr
  | fact : Expr → Expr
  | spread : Expr → Expr
/-- `Commented<SpannedExpr>` -/
inductive Item where
  | mk : (leading : List String) → (node : Expr) → (trailing : Option String) → Item
/-- `Commented<RecordEntry>` -/
inductive Entry where
  | mk : (leading : List String) → (key : Key) → (value : Expr) → (trailing : Option String) → Entry
inductive Key where
  | static : String → Key
  | dyn : Expr → Key
  | short : String → Key
  | spread : Expr → Key
end

instance : Inhabited Expr := ⟨.null⟩
instance : Inhabited Item := ⟨.mk [] .null none⟩
instance : Inhabited Key := ⟨.static ""⟩
instance : Inhabited Entry := ⟨.mk [] default .null none⟩

def Item.node : Item → Expr | .mk _ n _ => n
def Item.leading : Item → List String | .mk l _ _ => l
def Item.trailing : Item → Option String | .mk _ _ t => t
def Item.hasComments (i : Item) : Bool := !i.leading.isEmpty || i.trailing.isSome
def Item.plain (e : Expr) : Item := .mk [] e none

def Entry.key : Entry → Key | .mk _ k _ _ => k
def Entry.value : Entry → Expr | .mk _ _ v _ => v
def Entry.leading : Entry → List String | .mk l _ _ _ => l
def Entry.trailing : Entry → Option String | .mk _ _ _ t => t
def Entry.hasComments (i : Entry) : Bool := !i.leading.isEmpty || i.trailing.isSome

/-! ### wire format -/

def BinOp.wire : BinOp → String
  | .add => "add" | .sub => "sub" | .mul => "mul" | .div => "div" | .mod => "mod" | .pow => "pow"
  | .eq => "eq" | .ne => "ne" | .lt => "lt" | .le => "le" | .gt => "gt" | .ge => "ge"
  | .deq => "deq" | .dne => "dne" | .dlt => "dlt" | .dle => "dle" | .dgt => "dgt" | .dge => "dge"
  | .and => "and" | .nand => "nand" | .or => "or" | .nor => "nor"
  | .via => "via" | .into => "into" | .where_ => "where" | .coalesce => "coalesce"

def BinOp.ofWire (s : String) : Option BinOp := BinOp.all.find? (fun o => o.wire = s)

def UnOp.wire : UnOp → String
  | .negate => "negate" | .not => "not" | .invert => "invert"

def UnOp.ofWire : String → Option UnOp
  | "negate" => some .negate | "not" => some .not | "invert" => some .invert | _ => none

def decTrail : Sx → Option (Option String)
  | .atom "-" => some none
  | .atom a => (decStr a).map some
  | _ => none

def decLead (xs : List Sx) : Option (List String) :=
  xs.mapM fun | .atom a => decStr a | _ => none

def decArg : Sx → Option LArg
  | .list [.atom "req", .atom a] => (decStr a).map .req
  | .list [.atom "opt", .atom a] => (decStr a).map .opt
  | .list [.atom "rest", .atom a] => (decStr a).map .rest
  | _ => none

mutual
partial def Expr.ofSx : Sx → Option Expr
  | .list [.atom "num", .atom b] => (parseHex64 b).map fun u => .num ⟨u⟩
  | .list [.atom "str", .atom a] => (decStr a).map .str
  | .list [.atom "bool", .atom "t"] => some (.bool true)
  | .list [.atom "bool", .atom "f"] => some (.bool false)
  | .list [.atom "null"] => some .null
  | .list [.atom "id", .atom a] => (decStr a).map .ident
  | .list [.atom "inref", .atom a] => (decStr a).map .inref
  | .list [.atom "builtin", .atom a] => some (.builtin a)
  | .list (.atom "list" :: items) => (items.mapM Item.ofSx).map .list
  | .list (.atom "record" :: es) => (es.mapM Entry.ofSx).map .record
  | .list [.atom "lambda", .list args, body] => do
      let as ← args.mapM decArg
      let b ← Expr.ofSx body
      pure (.lambda as b)
  | .list [.atom "cond", c, t, e] => do
      pure (.cond (← Expr.ofSx c) (← Expr.ofSx t) (← Expr.ofSx e))
  | .list [.atom "do", .list stmts, ret] => do
      pure (.doBlock (← stmts.mapM Item.ofSx) (← Item.ofSx ret))
  | .list [.atom "assign", .atom a, v] => do pure (.assign (← decStr a) (← Expr.ofSx v))
  | .list [.atom "output", e] => (Expr.ofSx e).map .output
  | .list [.atom "call", f, .list args] => do
      pure (.call (← Expr.ofSx f) (← args.mapM Expr.ofSx))
  | .list [.atom "access", e, i] => do pure (.access (← Expr.ofSx e) (← Expr.ofSx i))
  | .list [.atom "dot", e, .atom a] => do pure (.dot (← Expr.ofSx e) (← decStr a))
  | .list [.atom "bin", .atom o, l, r] => do
      pure (.bin (← BinOp.ofWire o) (← Expr.ofSx l) (← Expr.ofSx r))
  | .list [.atom "un", .atom o, e] => do pure (.un (← UnOp.ofWire o) (← Expr.ofSx e))
  | .list [.atom "fact", e] => (Expr.ofSx e).map .fact
  | .list [.atom "spread", e] => (Expr.ofSx e).map .spread
  | _ => none
partial def Item.ofSx : Sx → Option Item
  | .list [.atom "item", .list lead, e, tr] => do
      pure (.mk (← decLead lead) (← Expr.ofSx e) (← decTrail tr))
  | _ => none
partial def Entry.ofSx : Sx → Option Entry
  | .list [.atom "entry", .list lead, k, v, tr] => do
      pure (.mk (← decLead lead) (← Key.ofSx k) (← Expr.ofSx v) (← decTrail tr))
  | _ => none
partial def Key.ofSx : Sx → Option Key
  | .list [.atom "static", .atom a] => (decStr a).map .static
  | .list [.atom "dyn", e] => (Expr.ofSx e).map .dyn
  | .list [.atom "short", .atom a] => (decStr a).map .short
  | .list [.atom "kspread", e] => (Expr.ofSx e).map .spread
  | _ => none
end

def encTrail : Option String → Sx
  | none => .atom "-"
  | some s => .atom (encStr s)

def LArg.toSx : LArg → Sx
  | .req n => .list [.atom "req", .atom (encStr n)]
  | .opt n => .list [.atom "opt", .atom (encStr n)]
  | .rest n => .list [.atom "rest", .atom (encStr n)]

mutual
partial def Expr.toSx : Expr → Sx
  | .num x => .list [.atom "num", .atom (hex64 x.bits)]
  | .str s => .list [.atom "str", .atom (encStr s)]
  | .bool b => .list [.atom "bool", .atom (if b then "t" else "f")]
  | .null => .list [.atom "null"]
  | .ident s => .list [.atom "id", .atom (encStr s)]
  | .inref s => .list [.atom "inref", .atom (encStr s)]
  | .builtin n => .list [.atom "builtin", .atom n]
  | .list items => .list (.atom "list" :: items.map Item.toSx)
  | .record es => .list (.atom "record" :: es.map Entry.toSx)
  | .lambda as b => .list [.atom "lambda", .list (as.map LArg.toSx), b.toSx]
  | .cond c t e => .list [.atom "cond", c.toSx, t.toSx, e.toSx]
  | .doBlock ss r => .list [.atom "do", .list (ss.map Item.toSx), r.toSx]
  | .assign n v => .list [.atom "assign", .atom (encStr n), v.toSx]
  | .output e => .list [.atom "output", e.toSx]
  | .call f as => .list [.atom "call", f.toSx, .list (as.map Expr.toSx)]
  | .access e i => .list [.atom "access", e.toSx, i.toSx]
  | .dot e f => .list [.atom "dot", e.toSx, .atom (encStr f)]
  | .bin o l r => .list [.atom "bin", .atom o.wire, l.toSx, r.toSx]
  | .un o e => .list [.atom "un", .atom o.wire, e.toSx]
  | .fact e => .list [.atom "fact", e.toSx]
  | .spread e => .list [.atom "spread", e.toSx]
partial def Item.toSx : Item → Sx
  | .mk l e t => .list [.atom "item", .list (l.map fun s => .atom (encStr s)), e.toSx, encTrail t]
partial def Entry.toSx : Entry → Sx
  | .mk l k v t => .list [.atom "entry", .list (l.map fun s => .atom (encStr s)), k.toSx, v.toSx, encTrail t]
partial def Key.toSx : Key → Sx
  | .static s => .list [.atom "static", .atom (encStr s)]
  | .dyn e => .list [.atom "dyn", e.toSx]
  | .short s => .list [.atom "short", .atom (encStr s)]
  | .spread e => .list [.atom "kspread", e.toSx]
end

end Blots
