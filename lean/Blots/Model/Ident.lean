import Blots.Model.Basic
import Blots.Gen.Reserved
/-
  Character-level model of the word rules of `grammar.pest` (C10: "every name made of
  letters, digits and underscores, not starting with a digit, other than the reserved words
  themselves can be … referenced").

  Every recogniser is a PEG recogniser on `List Char`: it returns `some rest` (the unconsumed
  input) or `none`.  PEG semantics are kept rule by rule:
    * ordered choice `a | b` COMMITS to the first alternative that matches — when what follows
      the choice in a sequence fails, the choice is not re-entered (`firstLit`, `orElse`);
    * `e+` / `e*` are greedy and never give characters back (`plus`, `star`);
    * `!e` consumes nothing and succeeds iff `e` fails (`Option.isNone`).
  The rules are `@{…}` (atomic) or `_{…}` inside atomic rules, so no implicit WHITESPACE is
  inserted between their parts.

  The rule TEXTS this file was written for are pinned by the translator
  (`tools/gen_tables.py`, `PINNED_RULES`): if `identifier`, `input_reference`,
  `identifier_rest`, `bool`, `null`, or the order of the alternatives of `term` changes in
  grammar.pest, the translator prints TRANSLATOR-FAILED.  The alternatives of `reserved_word`
  are the generated table `Gen.grammarReserved`, in grammar order.

      identifier_rest  = _{ ASCII_ALPHA+ | ASCII_DIGIT+ | "_"+ }
      reserved_word    = _{ "if" | "then" | … }                        (Gen.grammarReserved)
      identifier       = @{ !(reserved_word ~ !identifier_rest) ~ (ASCII_ALPHA | "_")+ ~ identifier_rest* }
      input_reference  = @{ "#" ~ (ASCII_ALPHA | "_")+ ~ identifier_rest* }
      bool             = @{ ("true" | "false") ~ !identifier_rest }
      null             = @{ "null" ~ !identifier_rest }
-/
namespace Blots.Ident

/-- pest `ASCII_ALPHA` = 'a'..'z' | 'A'..'Z' -/
def isAlpha (c : Char) : Bool := ('a' ≤ c && c ≤ 'z') || ('A' ≤ c && c ≤ 'Z')
/-- pest `ASCII_DIGIT` = '0'..'9' -/
def isDigit (c : Char) : Bool := '0' ≤ c && c ≤ '9'
def isUnderscore (c : Char) : Bool := c == '_'
/-- `ASCII_ALPHA | "_"` -/
def isIdentStart (c : Char) : Bool := isAlpha c || isUnderscore c
/-- a character some alternative of `identifier_rest` can start with -/
def isIdentChar (c : Char) : Bool := isAlpha c || isDigit c || isUnderscore c

/-- `p+` for a character class: at least one, then greedily all of them -/
def plus (p : Char → Bool) : List Char → Option (List Char)
  | [] => none
  | c :: cs => if p c then some (cs.dropWhile p) else none

/-- a string literal -/
def lit : List Char → List Char → Option (List Char)
  | [], cs => some cs
  | _ :: _, [] => none
  | a :: s, c :: cs => if a = c then lit s cs else none

/-- ordered choice of two recognisers -/
def orElse (a b : List Char → Option (List Char)) (cs : List Char) : Option (List Char) :=
  match a cs with
  | some r => some r
  | none => b cs

/-- ordered choice over string literals: the FIRST literal of the list that is a prefix of
    the input wins (even if a later, longer one would also match); returns that literal and
    the rest -/
def firstLit : List (List Char) → List Char → Option (List Char × List Char)
  | [], _ => none
  | s :: more, cs =>
    match lit s cs with
    | some r => some (s, r)
    | none => firstLit more cs

/-- greedy `e*`; `fuel` bounds the number of iterations (every iteration of the rules used
    here consumes at least one character, callers pass `length + 1`) -/
def star (e : List Char → Option (List Char)) : Nat → List Char → List Char
  | 0, cs => cs
  | fuel + 1, cs =>
    match e cs with
    | some r => star e fuel r
    | none => cs

/-- `identifier_rest = _{ ASCII_ALPHA+ | ASCII_DIGIT+ | "_"+ }` -/
def identRest : List Char → Option (List Char) :=
  orElse (plus isAlpha) (orElse (plus isDigit) (plus isUnderscore))

/-- the alternatives of `reserved_word`, in grammar order -/
def reservedLits : List (List Char) := Gen.grammarReserved.map String.toList

/-- `reserved_word = _{ "if" | "then" | … }` -/
def reservedWord (cs : List Char) : Option (List Char) := (firstLit reservedLits cs).map (·.2)

/-- `(l₁ | l₂ | …) ~ !identifier_rest` : a keyword not followed by an identifier character.
    The choice is committed: if the first matching literal is followed by an identifier
    character the whole sequence fails, later literals are NOT tried. -/
def keyword (lits : List (List Char)) (cs : List Char) : Option (List Char × List Char) :=
  match firstLit lits cs with
  | some (s, r) => if (identRest r).isNone then some (s, r) else none
  | none => none

/-- `(ASCII_ALPHA | "_")+ ~ identifier_rest*` -/
def nameBody (cs : List Char) : Option (List Char) :=
  match plus isIdentStart cs with
  | some r => some (star identRest (r.length + 1) r)
  | none => none

/-- `identifier = @{ !(reserved_word ~ !identifier_rest) ~ (ASCII_ALPHA | "_")+ ~ identifier_rest* }` -/
def identifier (cs : List Char) : Option (List Char) :=
  if (keyword reservedLits cs).isSome then none else nameBody cs

/-- `input_reference = @{ "#" ~ (ASCII_ALPHA | "_")+ ~ identifier_rest* }` -/
def inputReference (cs : List Char) : Option (List Char) :=
  match lit ['#'] cs with
  | some r => nameBody r
  | none => none

def trueLit : List Char := "true".toList
def falseLit : List Char := "false".toList
def nullLit : List Char := "null".toList

/-- `bool = @{ ("true" | "false") ~ !identifier_rest }`; the value is read off the matched
    text as `pairs_to_expr` does (`"true" => true, "false" => false`) -/
def boolRule (cs : List Char) : Option (Bool × List Char) :=
  (keyword [trueLit, falseLit] cs).map fun (s, r) => (s == trueLit, r)

/-- `null = @{ "null" ~ !identifier_rest }` -/
def nullRule (cs : List Char) : Option (List Char) := (keyword [nullLit] cs).map (·.2)

/-- what a one-word program is -/
inductive WordClass where
  | bool : Bool → WordClass
  | null : WordClass
  | input : WordClass
  | ident : WordClass
  /-- no parse as a single word term.  For an identifier-shaped word this happens exactly
      for the reserved words that are not literals (`if then else and or not do return
      output`), see `Blots.C10.reserved_refused` / `ident_usable`. -/
  | reserved : WordClass
  deriving DecidableEq, Repr, Inhabited

/-- The ordered choice of
      term = _{ conditional | do_block | lambda | assignment | list | record | bool | string
              | null | input_reference | identifier | number | nested_expression }
    restricted to the alternatives that can succeed on an input `cs` which is ONE WORD
    followed by the end of input (a word: characters none of which is a space, quote,
    bracket, `=`, `?`, `.`, `+`, `-`; in particular every string over letters, digits, `_`
    with an optional leading `#`).  Why the others cannot match such an input:
      * conditional = "if" ~ WHITESPACE+ …, do_block = "do" ~ (WHITESPACE | plain_newline)+ …:
        need a space or line break after the keyword;
      * lambda = argument_list ~ WHITESPACE* ~ "=>" …: needs "=>" ("(" or "..." or an
        identifier first, none of which leaves "=>" in a bare word); optional_arg needs "?";
      * assignment = identifier ~ "=" …: needs "=";
      * list "[", record "{", string quote, nested_expression "(": first character;
      * number: starts with a digit, "+", "-" or "." — a word starting with a digit may be
        a number (`12`, `1e5`, `0x1f`); it is never a bool/null/identifier, and `termWord`
        answers `.reserved` (= none of the word alternatives) for it.
    A failed alternative consumes nothing (pest restores the position), so the choice
    reduces to `bool | null | input_reference | identifier` in this order. -/
def termStart (cs : List Char) : Option (WordClass × List Char) :=
  match boolRule cs with
  | some (b, r) => some (.bool b, r)
  | none =>
    match nullRule cs with
    | some r => some (.null, r)
    | none =>
      match inputReference cs with
      | some r => some (.input, r)
      | none =>
        match identifier cs with
        | some r => some (.ident, r)
        | none => none

/-- Class of the one-word program `w`.  After the term, `expression` allows only
    `postfix_op*` ("!", "[", "(", ".") and `infix_usage` (an operator symbol, or
    whitespace + a word operator), and `statement`/`input` only a comment ("//") or a line
    break before EOI: with nothing but the word in the input, the term must consume all of
    it.  (`prefix_usage*` before the term cannot consume anything either:
    `natural_not ~ WHITESPACE+` needs a space, `prefix_op` a "-" or "!".) -/
def termWord (w : List Char) : WordClass :=
  match termStart w with
  | some (c, []) => c
  | _ => .reserved

def WordClass.wire : WordClass → String
  | .bool true => "bool-t"
  | .bool false => "bool-f"
  | .null => "null"
  | .input => "input"
  | .ident => "ident"
  | .reserved => "none"

end Blots.Ident
