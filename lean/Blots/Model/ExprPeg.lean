import Blots.Model.Ident
import Blots.Model.Pratt
import Blots.Model.NumText
import Blots.Gen.Builtins
/-
  Character-level PEG model of the `expression` rule of `grammar.pest` for the OPERATOR
  FRAGMENT (C10: precedence / layout / redundant parentheses at the level of TEXT).

  The rules followed (texts pinned by the translator, `tools/gen_tables.py` `PINNED_RULES`;
  the alternatives of `infix_op` / `natural_infix_op` and the literal of every operator rule
  are the GENERATED tables `Gen.infixOrder`, `Gen.naturalOrder`, `Gen.grammarLit`):

      WHITESPACE        = _{ " " | "\t" }
      plain_newline     = _{ "\r\n" | "\n" }
      NEWLINE           = _{ inline_comment? ~ plain_newline }
      inline_comment    = _{ "//" ~ (!plain_newline ~ ANY)* }
      infix_usage       = _{ (WHITESPACE | NEWLINE)+ ~ natural_infix_op ~ WHITESPACE+
                           | (WHITESPACE | NEWLINE)* ~ infix_op ~ (WHITESPACE | NEWLINE)* }
      prefix_op         = _{ negation | invert }
      natural_prefix_op = _{ natural_not }
      prefix_usage      = _{ natural_prefix_op ~ WHITESPACE+ | prefix_op }
      postfix_op        = _{ factorial | access | call_list | dot_access }
      expression        = ${ prefix_usage* ~ term ~ postfix_op*
                             ~ (infix_usage ~ prefix_usage* ~ term ~ postfix_op*)* }
      nested_expression = _{ "(" ~ (WHITESPACE | NEWLINE)* ~ expression ~ (WHITESPACE | NEWLINE)* ~ ")" }
      term              = _{ conditional | do_block | lambda | assignment | list | record | bool
                           | string | null | input_reference | identifier | number | nested_expression }

  `expression` is compound-atomic (`$`): NO implicit whitespace between its parts, layout
  is consumed only where `infix_usage`, `prefix_usage` and `nested_expression` say so.
  PEG semantics as in `Model/Ident.lean`: ordered choice commits to the first alternative
  that matches, repetitions are greedy and never give characters back; a failed alternative
  restores the position.

  THE FRAGMENT.  Of `term` the alternatives modelled are, in grammar order,
      bool | null | identifier | number | nested_expression
  with `number` restricted to the subset ASCII_DIGIT+ of `decimal_number` (no sign, no `_`
  groups, no fraction, no exponent, no `0b` / `0x` form); of `postfix_op` only `factorial`.
  The model answers what pest answers on every text on which the alternatives left out cannot
  match at any term / postfix position it reaches:
    * conditional / do_block need `if` / `do` followed by whitespace, string a quote, list
      `[`, record `{`, input_reference `#`; lambda needs `=>` after an argument list,
      assignment `=` (not `==`) after an identifier; access `[`, call_list `(` directly after
      a term, dot_access `.` followed by an identifier;
    * a digit run followed by `_`digit, `.`digit, `e`/`E`[sign]digit, or starting `0b` / `0x`,
      or a sign directly in front of a digit where a term is expected (`+1`), is a longer
      `number` for pest.
  The harness compares model and pest only on texts whose real parse (if any) uses the
  fragment's rules (`c10.model.expr-peg`).

  OUTPUT: the flat item sequence pest hands to the Pratt parser, as the harness builds it from
  the real pairs (`fmtcommon.rs::pitems`): operators by rule name, a term converted to its
  tree — for a `nested_expression` by the recursive `pairs_to_expr` call, here `prattParse`
  on the inner items.
-/
namespace Blots.ExprPeg
open Blots.Ident

/-- three-valued result: `out` = the fuel ran out (never with the fuel `fuelFor` gives, see
    `Lemmas/ExprPegFuel.lean` `exprR_fuel_suffices`), `fail` = the rule does not match
    (position restored by the caller), `ok` = matched -/
inductive Res (α : Type) where
  | out : Res α
  | fail : Res α
  | ok : α → Res α
  deriving Inhabited

/-! ### layout -/

def isWs (c : Char) : Bool := c == ' ' || c == '\t'

/-- `WHITESPACE = _{ " " | "\t" }` -/
def whitespace : List Char → Option (List Char)
  | [] => none
  | c :: r => if isWs c then some r else none

/-- `plain_newline = _{ "\r\n" | "\n" }` -/
def plainNewline : List Char → Option (List Char) := orElse (lit ['\r', '\n']) (lit ['\n'])

/-- `(!plain_newline ~ ANY)*` : up to (not including) the next line break, or to the end -/
def commentBody : List Char → List Char
  | [] => []
  | c :: r => if (plainNewline (c :: r)).isSome then c :: r else commentBody r

/-- `inline_comment = _{ "//" ~ (!plain_newline ~ ANY)* }` -/
def inlineComment (cs : List Char) : Option (List Char) := (lit ['/', '/'] cs).map commentBody

/-- `NEWLINE = _{ inline_comment? ~ plain_newline }` (the optional comment is committed: a
    comment that runs to the end of input makes NEWLINE fail) -/
def newline (cs : List Char) : Option (List Char) :=
  plainNewline (match inlineComment cs with | some r => r | none => cs)

/-- `WHITESPACE | NEWLINE` -/
def layoutAtom : List Char → Option (List Char) := orElse whitespace newline

/-- `(WHITESPACE | NEWLINE)*` -/
def layoutStar (cs : List Char) : List Char := star layoutAtom (cs.length + 1) cs

/-- `(WHITESPACE | NEWLINE)+` -/
def layoutPlus (cs : List Char) : Option (List Char) := (layoutAtom cs).map layoutStar

/-- `WHITESPACE+` -/
def wsPlus : List Char → Option (List Char) := plus isWs

/-! ### operators -/

/-- literal of an operator rule (`rule = { "lit" }`) -/
def ruleLit (rule : String) : Option (List Char) :=
  (Gen.grammarLit.find? (fun x => x.1 == rule)).map (·.2.toList)

/-- an ordered choice of operator rules with their literals -/
def litTable (rules : List String) : List (String × List Char) :=
  rules.filterMap fun r => (ruleLit r).map fun l => (r, l)

/-- ordered choice over operator rules: the first rule whose literal is a prefix of the
    input wins -/
def firstRule : List (String × List Char) → List Char → Option (String × List Char)
  | [], _ => none
  | (rule, s) :: more, cs =>
    match lit s cs with
    | some r => some (rule, r)
    | none => firstRule more cs

/-- `infix_op` -/
def infixLits : List (String × List Char) := litTable Gen.infixOrder
/-- `natural_infix_op` -/
def naturalLits : List (String × List Char) := litTable Gen.naturalOrder
/-- `prefix_op = _{ negation | invert }` -/
def prefixLits : List (String × List Char) := litTable ["negation", "invert"]
/-- `natural_prefix_op = _{ natural_not }` -/
def naturalPrefixLits : List (String × List Char) := litTable ["natural_not"]
/-- `postfix_op` restricted to `factorial` -/
def postfixLits : List (String × List Char) := litTable ["factorial"]

/-- `infix_usage`: the matched operator rule and the rest -/
def infixUsage (cs : List Char) : Option (String × List Char) :=
  let alt1 : Option (String × List Char) :=
    match layoutPlus cs with
    | some r =>
      (match firstRule naturalLits r with
       | some (rule, r1) => (wsPlus r1).map fun r2 => (rule, r2)
       | none => none)
    | none => none
  match alt1 with
  | some x => some x
  | none =>
    match firstRule infixLits (layoutStar cs) with
    | some (rule, r1) => some (rule, layoutStar r1)
    | none => none

/-- `prefix_usage` -/
def prefixUsage (cs : List Char) : Option (PItem × List Char) :=
  let alt1 : Option (String × List Char) :=
    match firstRule naturalPrefixLits cs with
    | some (rule, r) => (wsPlus r).map fun r1 => (rule, r1)
    | none => none
  match alt1 with
  | some (rule, r) => some (.pre rule, r)
  | none => (firstRule prefixLits cs).map fun x => (.pre x.1, x.2)

/-- `postfix_op`, fragment: `factorial` only -/
def postfixOp (cs : List Char) : Option (PItem × List Char) :=
  (firstRule postfixLits cs).map fun x => (.postFact, x.2)

/-- greedy `e*` collecting items; `fuel` bounds the iterations -/
def starItems (e : List Char → Option (PItem × List Char)) : Nat → List Char → List PItem × List Char
  | 0, cs => ([], cs)
  | fuel + 1, cs =>
    match e cs with
    | some (it, r) => let p := starItems e fuel r; (it :: p.1, p.2)
    | none => ([], cs)

/-- `prefix_usage*` -/
def prefixStar (cs : List Char) : List PItem × List Char := starItems prefixUsage (cs.length + 1) cs
/-- `postfix_op*` -/
def postfixStar (cs : List Char) : List PItem × List Char := starItems postfixOp (cs.length + 1) cs

/-! ### terms -/

/-- `Rule::identifier` in `pairs_to_expr`: a built-in function name becomes `BuiltIn`
    (printed by `name()`), everything else an identifier -/
def nameTerm (w : String) : Expr :=
  match Gen.fromIdent.find? (fun r => r.1 == w) with
  | some r =>
    (match Gen.builtins.find? (fun b => b.1 == r.2) with
     | some b => .builtin b.2.1
     | none => .ident w)
  | none => .ident w

/-- the characters `cs` starts with up to `rest` (a suffix of `cs`) -/
def consumed (cs rest : List Char) : List Char := cs.take (cs.length - rest.length)

/-- the word / literal alternatives of `term`, in grammar order:
    `bool | null | identifier | number` (number: ASCII_DIGIT+) with the conversion of
    `pairs_to_expr`; `none` for a conversion error as well -/
def termAtom (cs : List Char) : Option (Expr × List Char) :=
  match boolRule cs with
  | some (b, r) => some (.bool b, r)
  | none =>
    match nullRule cs with
    | some r => some (.null, r)
    | none =>
      match identifier cs with
      | some r => some (nameTerm (String.ofList (consumed cs r)), r)
      | none =>
        match plus isDigit cs with
        | some r => (NumText.literalValue (String.ofList (consumed cs r))).map fun x => (.num x, r)
        | none => none

/-! ### expression -/

mutual
/-- `expression` : items and rest -/
def exprR : Nat → List Char → Res (List PItem × List Char)
  | 0, _ => .out
  | fuel + 1, cs =>
    match operandR fuel cs with
    | .ok (its, r) =>
      (match tailR fuel r with
       | .ok (more, r') => .ok (its ++ more, r')
       | .fail => .fail
       | .out => .out)
    | .fail => .fail
    | .out => .out
/-- `(infix_usage ~ prefix_usage* ~ term ~ postfix_op*)*` : never fails; an iteration that
    fails after its `infix_usage` gives the operator back -/
def tailR : Nat → List Char → Res (List PItem × List Char)
  | 0, _ => .out
  | fuel + 1, cs =>
    match infixUsage cs with
    | none => .ok ([], cs)
    | some (rule, r) =>
      match operandR fuel r with
      | .ok (its, r') =>
        (match tailR fuel r' with
         | .ok (more, r'') => .ok (.inf rule :: (its ++ more), r'')
         | .fail => .fail
         | .out => .out)
      | .fail => .ok ([], cs)
      | .out => .out
/-- `prefix_usage* ~ term ~ postfix_op*` -/
def operandR : Nat → List Char → Res (List PItem × List Char)
  | 0, _ => .out
  | fuel + 1, cs =>
    let pre := prefixStar cs
    match termAtom pre.2 with
    | some (e, r1) =>
      let post := postfixStar r1
      .ok (pre.1 ++ .prim e :: post.1, post.2)
    | none =>
      -- nested_expression
      match pre.2 with
      | '(' :: r1 =>
        (match exprR fuel (layoutStar r1) with
         | .ok (its, r2) =>
           (match layoutStar r2 with
            | ')' :: r3 =>
              (match prattParse its with
               | some e =>
                 let post := postfixStar r3
                 .ok (pre.1 ++ .prim e :: post.1, post.2)
               | none => .fail)
            | _ => .fail)
         | .fail => .fail
         | .out => .out)
      | _ => .fail
end

/-- fuel that always suffices (`exprR_fuel_suffices`, `fuel_suffices` in Lemmas/ExprPegFuel.lean) -/
def fuelFor (cs : List Char) : Nat := 2 * cs.length + 2

/-- the `expression` rule at the start of `cs`: the item sequence and the unconsumed rest;
    `none` = no match (or fuel ran out) -/
def exprItems (fuel : Nat) (cs : List Char) : Option (List PItem × List Char) :=
  match exprR fuel cs with
  | .ok x => some x
  | _ => none

/-- a whole text as ONE expression of the fragment, converted by the Pratt parser -/
def parseText (s : String) : Option Expr :=
  match exprItems (fuelFor s.toList) s.toList with
  | some (its, []) => prattParse its
  | _ => none

end Blots.ExprPeg
