import Blots.Model.Ident
import Blots.Model.Pratt
import Blots.Model.NumText
import Blots.Gen.Builtins
/-
  Character-level PEG model of the `expression` rule of `grammar.pest` for a FRAGMENT
  (C10: precedence / layout / redundant parentheses at the level of TEXT).

  The rules followed (texts pinned by the translator, `tools/gen_tables.py` `PINNED_RULES`;
  the alternatives of `infix_op` / `natural_infix_op` and the literal of every operator rule
  are the GENERATED tables `Gen.infixOrder`, `Gen.naturalOrder`, `Gen.grammarLit`):

      WHITESPACE        = _{ " " | "\t" }
      plain_newline     = _{ "\r\n" | "\n" }
      NEWLINE           = _{ inline_comment? ~ plain_newline }
      inline_comment    = _{ "//" ~ (!plain_newline ~ ANY)* }
      infix_usage       = _{ (WHITESPACE | NEWLINE)+ ~ natural_infix_op ~ WHITESPACE+
                           | (WHITESPACE | NEWLINE)* ~ infix_op ~ (WHITESPACE | NEWLINE)* }
      prefix_op         = _{ negation | invert }
      natural_prefix_op = _{ natural_not }
      prefix_usage      = _{ natural_prefix_op ~ WHITESPACE+ | prefix_op }
      postfix_op        = _{ factorial | access | call_list | dot_access }
      access            =  { "[" ~ NEWLINE* ~ expression ~ NEWLINE* ~ "]" }
      dot_access        =  { "." ~ identifier }
      call_list         = !{ "(" ~ NEWLINE* ~ (spreadable_expression ~ ("," ~ NEWLINE* ~
                             spreadable_expression)*)? ~ ("," ~ NEWLINE)? ~ NEWLINE* ~ ")" }
      spread_operator       =  { "..." }
      spread_expression     = ${ spread_operator ~ expression }
      spreadable_expression = _{ spread_expression | expression }
      expression        = ${ prefix_usage* ~ term ~ postfix_op*
                             ~ (infix_usage ~ prefix_usage* ~ term ~ postfix_op*)* }
      nested_expression = _{ "(" ~ (WHITESPACE | NEWLINE)* ~ expression ~ (WHITESPACE | NEWLINE)* ~ ")" }
      term              = _{ conditional | do_block | lambda | assignment | list | record | bool
                           | string | null | input_reference | identifier | number | nested_expression }
      comment           = @{ "//" ~ (!plain_newline ~ ANY)* }           (eol_comment: the same)
      list_item         =  { spreadable_expression ~ (WHITESPACE* ~ eol_comment)? }
      list              = !{ "[]" | "[" ~ (comment ~ (WHITESPACE | plain_newline)+ | WHITESPACE
                             | plain_newline)* ~ (list_item ~ ("," ~ (comment ~ (WHITESPACE |
                             plain_newline)+ | WHITESPACE | plain_newline)* ~ list_item)*)? ~
                             ("," ~ (WHITESPACE | plain_newline)*)? ~ (comment ~ (WHITESPACE |
                             plain_newline)* | WHITESPACE | plain_newline)* ~ "]" }

      conditional       = ${ "if" ~ WHITESPACE+ ~ expression ~ (WHITESPACE | NEWLINE)+ ~ "then" ~
                             (WHITESPACE | NEWLINE)+ ~ expression ~ (WHITESPACE | NEWLINE)+ ~ "else" ~
                             (WHITESPACE | NEWLINE)+ ~ expression }
      lambda            = ${ argument_list ~ WHITESPACE* ~ "=>" ~ (WHITESPACE | NEWLINE)* ~ lambda_expression }
      lambda_expression = ${ prefix_usage* ~ lambda_term ~ postfix_op*
                             ~ (lambda_infix_usage ~ prefix_usage* ~ lambda_term ~ postfix_op*)* }
      lambda_term       = _{ …the alternatives of `term`… }
      lambda_infix_usage = _{ (WHITESPACE | NEWLINE)+ ~ lambda_natural_infix_op ~ WHITESPACE+
                            | (WHITESPACE | NEWLINE)* ~ infix_op ~ (WHITESPACE | NEWLINE)* }
      lambda_natural_infix_op = _{ natural_and | natural_or }
      argument_list     = !{ argument | "(" ~ NEWLINE* ~ (argument ~ ("," ~ NEWLINE* ~ argument)*)?
                             ~ ("," ~ NEWLINE)? ~ NEWLINE* ~ ")" }
      argument          = _{ optional_arg | required_arg | rest_arg }
      required_arg = { identifier }   optional_arg = { identifier ~ "?" }   rest_arg = { "..." ~ identifier }

  ATOMICITY.  `expression` is compound-atomic (`$`): NO implicit whitespace between its parts,
  layout is consumed only where `infix_usage`, `prefix_usage` and `nested_expression` say so.
  `access` and `dot_access` are normal rules: they inherit the atomicity of the `expression`
  they are reached from — inside `[ ]` only `NEWLINE*` (line breaks, with their comments) is
  layout, NOT blanks; nothing around the `.`.  `call_list`, `list`, `record`, `record_pair` and
  `argument_list` are non-atomic (`!`), and so are the normal rules `list_item`, `record_item`,
  `record_key_static`, `record_key_dynamic`, `record_shorthand` reached from them: pest inserts
  `skip` = `WHITESPACE*` between the parts of every sequence and repetition of the rule (and
  of the silent rules `NEWLINE`, `inline_comment` it reaches; the grammar has no `COMMENT`
  rule); inside an argument the `$` rules `expression` / `spread_expression` are atomic again.
  PEG semantics as in `Model/Ident.lean`: ordered choice commits to the first alternative
  that matches, repetitions are greedy and never give characters back; a failed alternative
  restores the position.

      string_value      = @{ (!PEEK ~ ANY)* }
      string            = ${ PUSH("\"" | "'") ~ string_value ~ POP }

      record_key_static  =  { identifier | string }
      record_key_dynamic =  { "[" ~ expression ~ "]" }
      record_key         = _{ record_key_static | record_key_dynamic }
      record_pair        = !{ record_key ~ ":" ~ NEWLINE* ~ expression }
      record_shorthand   =  { identifier }
      record_item        =  { (record_pair | record_shorthand | spread_expression) ~ (WHITESPACE* ~ eol_comment)? }
      record             = !{ "{}" | "{" ~ (comment ~ (WHITESPACE | plain_newline)+ | WHITESPACE
                              | plain_newline)* ~ (record_item ~ ("," ~ (comment ~ (WHITESPACE |
                              plain_newline)+ | WHITESPACE | plain_newline)* ~ record_item)*)? ~
                              ("," ~ (WHITESPACE | plain_newline)*)? ~ (comment ~ (WHITESPACE |
                              plain_newline)* | WHITESPACE | plain_newline)* ~ "}" }

      do_statement     =  { (expression | comment) ~ (WHITESPACE* ~ comment)? }
      return_statement = ${ WHITESPACE* ~ "return" ~ WHITESPACE+ ~ expression }
      do_block         = ${ "do" ~ (WHITESPACE | plain_newline)+ ~ "{" ~ (comment ~ (WHITESPACE |
                            plain_newline)+ | WHITESPACE | plain_newline)* ~ (WHITESPACE* ~
                            do_statement ~ WHITESPACE* ~ (plain_newline+ | ";") ~ (comment ~
                            (WHITESPACE | plain_newline)+ | WHITESPACE | plain_newline)*)* ~
                            (comment ~ (WHITESPACE | plain_newline)* | WHITESPACE | plain_newline)*
                            ~ return_statement ~ (WHITESPACE | plain_newline)* ~ "}" }

  THE FRAGMENT.  Of `term` the alternatives modelled are, in grammar order,
      conditional | do_block | lambda | assignment | list | record | bool | string | null
        | identifier | number | nested_expression
  (`assignment = !{ identifier ~ "=" ~ expression }`, non-atomic) with `number` restricted to the subset ASCII_DIGIT+ of `decimal_number` (no sign, no `_`
  groups, no fraction, no exponent, no `0b` / `0x` form); `postfix_op` completely.
  The model answers what pest answers on every text on which the alternatives left out cannot
  match at any term position it reaches:
    * input_reference needs `#`;
    * a digit run followed by `_`digit, `.`digit, `e`/`E`[sign]digit, or starting `0b` / `0x`,
      or a sign directly in front of a digit where a term is expected (`+1`), is a longer
      `number` for pest.
  The harness compares model and pest only on texts whose real parse (if any) uses the
  fragment's rules (`c10.model.expr-peg`).

  OUTPUT: the flat item sequence pest hands to the Pratt parser, as the harness builds it from
  the real pairs (`fmtcommon.rs::pitems`): operators by rule name, a term converted to its
  tree — for a `nested_expression` by the recursive `pairs_to_expr` call, here `prattParse`
  on the inner items; `access` with its converted index, `call_list` with its converted
  arguments (`...e` ↦ `Spread e`), `dot_access` with the field name.
-/
namespace Blots.ExprPeg
open Blots.Ident

/-- three-valued result: `out` = the fuel ran out (never with the fuel `fuelFor` gives, see
    `Lemmas/ExprPegFuel.lean` `exprR_fuel_suffices`), `fail` = the rule does not match
    (position restored by the caller), `ok` = matched -/
inductive Res (α : Type) where
  | out : Res α
  | fail : Res α
  | ok : α → Res α
  deriving Inhabited

/-! ### layout -/

def isWs (c : Char) : Bool := c == ' ' || c == '\t'

/-- `WHITESPACE = _{ " " | "\t" }` -/
def whitespace : List Char → Option (List Char)
  | [] => none
  | c :: r => if isWs c then some r else none

/-- `plain_newline = _{ "\r\n" | "\n" }` -/
def plainNewline : List Char → Option (List Char) := orElse (lit ['\r', '\n']) (lit ['\n'])

/-- `(!plain_newline ~ ANY)*` : up to (not including) the next line break, or to the end -/
def commentBody : List Char → List Char
  | [] => []
  | c :: r => if (plainNewline (c :: r)).isSome then c :: r else commentBody r

/-- `inline_comment = _{ "//" ~ (!plain_newline ~ ANY)* }` -/
def inlineComment (cs : List Char) : Option (List Char) := (lit ['/', '/'] cs).map commentBody

/-- `NEWLINE = _{ inline_comment? ~ plain_newline }` (the optional comment is committed: a
    comment that runs to the end of input makes NEWLINE fail) -/
def newline (cs : List Char) : Option (List Char) :=
  plainNewline (match inlineComment cs with | some r => r | none => cs)

/-- `WHITESPACE | NEWLINE` -/
def layoutAtom : List Char → Option (List Char) := orElse whitespace newline

/-- `(WHITESPACE | NEWLINE)*` -/
def layoutStar (cs : List Char) : List Char := star layoutAtom (cs.length + 1) cs

/-- `(WHITESPACE | NEWLINE)+` -/
def layoutPlus (cs : List Char) : Option (List Char) := (layoutAtom cs).map layoutStar

/-- `WHITESPACE+` -/
def wsPlus : List Char → Option (List Char) := plus isWs

/-! ### operators -/

/-- literal of an operator rule (`rule = { "lit" }`) -/
def ruleLit (rule : String) : Option (List Char) :=
  (Gen.grammarLit.find? (fun x => x.1 == rule)).map (·.2.toList)

/-- an ordered choice of operator rules with their literals -/
def litTable (rules : List String) : List (String × List Char) :=
  rules.filterMap fun r => (ruleLit r).map fun l => (r, l)

/-- ordered choice over operator rules: the first rule whose literal is a prefix of the
    input wins -/
def firstRule : List (String × List Char) → List Char → Option (String × List Char)
  | [], _ => none
  | (rule, s) :: more, cs =>
    match lit s cs with
    | some r => some (rule, r)
    | none => firstRule more cs

/-- `infix_op` -/
def infixLits : List (String × List Char) := litTable Gen.infixOrder
/-- `natural_infix_op` -/
def naturalLits : List (String × List Char) := litTable Gen.naturalOrder
/-- `prefix_op = _{ negation | invert }` -/
def prefixLits : List (String × List Char) := litTable ["negation", "invert"]
/-- `lambda_natural_infix_op = _{ natural_and | natural_or }` -/
def lamNaturalLits : List (String × List Char) := litTable ["natural_and", "natural_or"]
/-- `natural_prefix_op = _{ natural_not }` -/
def naturalPrefixLits : List (String × List Char) := litTable ["natural_not"]
/-- the literal alternative of `postfix_op`: `factorial` -/
def postfixLits : List (String × List Char) := litTable ["factorial"]

/-- `infix_usage` (`lam = false`) / `lambda_infix_usage` (`lam = true`: the same with
    `lambda_natural_infix_op` — no `via` / `into` / `where` at the top level of a lambda body):
    the matched operator rule and the rest -/
def infixUsage (lam : Bool) (cs : List Char) : Option (String × List Char) :=
  let alt1 : Option (String × List Char) :=
    match layoutPlus cs with
    | some r =>
      (match firstRule (if lam then lamNaturalLits else naturalLits) r with
       | some (rule, r1) => (wsPlus r1).map fun r2 => (rule, r2)
       | none => none)
    | none => none
  match alt1 with
  | some x => some x
  | none =>
    match firstRule infixLits (layoutStar cs) with
    | some (rule, r1) => some (rule, layoutStar r1)
    | none => none

/-- `prefix_usage` -/
def prefixUsage (cs : List Char) : Option (PItem × List Char) :=
  let alt1 : Option (String × List Char) :=
    match firstRule naturalPrefixLits cs with
    | some (rule, r) => (wsPlus r).map fun r1 => (rule, r1)
    | none => none
  match alt1 with
  | some (rule, r) => some (.pre rule, r)
  | none => (firstRule prefixLits cs).map fun x => (.pre x.1, x.2)

/-- greedy `e*` collecting items; `fuel` bounds the iterations -/
def starItems (e : List Char → Option (PItem × List Char)) : Nat → List Char → List PItem × List Char
  | 0, cs => ([], cs)
  | fuel + 1, cs =>
    match e cs with
    | some (it, r) => let p := starItems e fuel r; (it :: p.1, p.2)
    | none => ([], cs)

/-- `prefix_usage*` -/
def prefixStar (cs : List Char) : List PItem × List Char := starItems prefixUsage (cs.length + 1) cs

/-! ### terms -/

/-- `Rule::identifier` in `pairs_to_expr`: a built-in function name becomes `BuiltIn`
    (printed by `name()`), everything else an identifier -/
def nameTerm (w : String) : Expr :=
  match Gen.fromIdent.find? (fun r => r.1 == w) with
  | some r =>
    (match Gen.builtins.find? (fun b => b.1 == r.2) with
     | some b => .builtin b.2.1
     | none => .ident w)
  | none => .ident w

/-- the characters `cs` starts with up to `rest` (a suffix of `cs`) -/
def consumed (cs rest : List Char) : List Char := cs.take (cs.length - rest.length)

/-- `string = ${ PUSH("\"" | "'") ~ string_value ~ POP }`, `string_value = @{ (!PEEK ~ ANY)* }` :
    an opening quote `q` of either kind, then every character up to (not including) the next
    `q` — `(!PEEK ~ ANY)*` is greedy, cannot skip a `q`, and takes ANY other character (line
    breaks, `//`, the other quote: there are no escapes) —, then that `q` (`POP`).
    Result: (content, rest); `none` = the rule fails (no quote here, or no closing quote). -/
def stringRule : List Char → Option (List Char × List Char)
  | [] => none
  | q :: cs =>
    if q == '"' || q == '\'' then
      match cs.dropWhile (· != q) with
      | [] => none
      | _ :: rest => some (cs.takeWhile (· != q), rest)
    else none

/-- the word / literal alternatives of `term`, in grammar order:
    `bool | string | null | identifier | number` (number: ASCII_DIGIT+) with the conversion of
    `pairs_to_expr` (a string literal: its `string_value`, character for character); `none`
    for a conversion error as well -/
def termAtom (cs : List Char) : Option (Expr × List Char) :=
  match boolRule cs with
  | some (b, r) => some (.bool b, r)
  | none =>
    match stringRule cs with
    | some (s, r) => some (.str (String.ofList s), r)
    | none =>
      match nullRule cs with
      | some r => some (.null, r)
      | none =>
        match identifier cs with
        | some r => some (nameTerm (String.ofList (consumed cs r)), r)
        | none =>
          match plus isDigit cs with
          | some r => (NumText.literalValue (String.ofList (consumed cs r))).map fun x => (.num x, r)
          | none => none

/-! ### layout inside `access` and `call_list` -/

/-- the implicit `skip` between the parts of a NON-ATOMIC rule (`!{ … }`): `WHITESPACE*`
    (the grammar defines no `COMMENT` rule) -/
def skipWs (cs : List Char) : List Char := cs.dropWhile isWs

/-- `NEWLINE*` in an atomic context (`access` is a normal rule reached from the compound-atomic
    `expression`, so it is atomic: line breaks, with their comments, but NO blanks) -/
def nlStar (cs : List Char) : List Char := star newline (cs.length + 1) cs

/-- `spread_operator = { "..." }` -/
def spreadLit : List Char := (ruleLit "spread_operator").getD []

/-- `("," ~ skip ~ NEWLINE)?` : a trailing comma counts only when a line break follows it -/
def trailComma (cs : List Char) : List Char :=
  match cs with
  | ',' :: r => (match newline (skipWs r) with | some r' => r' | none => cs)
  | _ => cs

/-- the end of `call_list`, after the last argument (or after `"(" ~ NEWLINE*` when there is
    none):  `("," ~ NEWLINE)? ~ NEWLINE* ~ ")"` with the implicit skips of the non-atomic rule,
        skip ~ ("," ~ skip ~ NEWLINE)? ~ skip ~ (NEWLINE ~ (skip ~ NEWLINE)*)? ~ skip ~ ")".
    Behind a non-blank character the non-atomic NEWLINE (`inline_comment? ~ skip ~
    plain_newline`) is the atomic one, and `skip ~ (NEWLINE ~ (skip ~ NEWLINE)*)? ~ skip`
    consumes exactly what `(WHITESPACE | NEWLINE)*` consumes (`layoutStar`).  A trailing comma
    must be followed by a line break (`f(a, )` is rejected, `f(a,⏎)` is a call). -/
def callClose (cs : List Char) : Option (List Char) :=
  match layoutStar (trailComma (skipWs cs)) with
  | ')' :: r => some r
  | _ => none

/-! ### layout inside `list` -/

/-- `WHITESPACE | plain_newline` -/
def wnAtom : List Char → Option (List Char) := orElse whitespace plainNewline

/-- `(WHITESPACE | plain_newline)*` (with the skips of the non-atomic rule: the same) -/
def wnStar (cs : List Char) : List Char := star wnAtom (cs.length + 1) cs

/-- one step of `(comment ~ (WHITESPACE | plain_newline)+ | WHITESPACE | plain_newline)*`:
    `comment = @{ "//" ~ (!plain_newline ~ ANY)* }` must be followed by a blank or line break
    (the rest of the `+` is consumed by the following steps) -/
def gAtom (cs : List Char) : Option (List Char) :=
  match inlineComment cs with
  | some r => wnAtom r
  | none => wnAtom cs

/-- one step of `(comment ~ (WHITESPACE | plain_newline)* | WHITESPACE | plain_newline)*` -/
def hAtom (cs : List Char) : Option (List Char) :=
  match inlineComment cs with
  | some r => some r
  | none => wnAtom cs

/-- `skip ~ (comment ~ (WHITESPACE | plain_newline)+ | WHITESPACE | plain_newline)* ~ skip` :
    the layout behind `[` and behind a comma of a list — blanks, PLAIN line breaks, and
    comments that are followed by a line break (the comments become `comment` pairs, which the
    conversion without `preserve_comments` drops) -/
def gapG (cs : List Char) : List Char := star gAtom (cs.length + 1) cs

/-- the same in front of `]`, where a comment need not be followed by anything -/
def gapH (cs : List Char) : List Char := star hAtom (cs.length + 1) cs

/-- the end of `list_item = { spreadable_expression ~ (WHITESPACE* ~ eol_comment)? }` inside
    the non-atomic `list`: `skip`, then optionally a comment up to the end of the line -/
def itemTrail (cs : List Char) : List Char :=
  match inlineComment (skipWs cs) with
  | some r => r
  | none => skipWs cs

/-- the end of `list`, after the last item (or after the layout behind `[` when there is
    none):  `("," ~ (WHITESPACE | plain_newline)*)? ~ (comment ~ (WHITESPACE | plain_newline)*
    | WHITESPACE | plain_newline)* ~ "]"` with the implicit skips.  (Unlike `call_list` a
    trailing comma needs no line break.) -/
def listClose (cs : List Char) : Option (List Char) :=
  match gapH (match skipWs cs with | ',' :: r => wnStar r | c1 => c1) with
  | ']' :: r => some r
  | _ => none

/-- the items of a list as `pairs_to_expr` (without `preserve_comments`) builds them -/
def mkItems (es : List Expr) : List Item := es.map fun e => Item.mk [] e none

/-! ### layout inside `record` -/

/-- the end of `record`, after the last item (or after the layout behind `{` when there is
    none): the rule of `list` with `}` -/
def recordClose (cs : List Char) : Option (List Char) :=
  match gapH (match skipWs cs with | ',' :: r => wnStar r | c1 => c1) with
  | '}' :: r => some r
  | _ => none

/-! ### the head of a lambda -/

/-- `argument = _{ optional_arg | required_arg | rest_arg }` inside the non-atomic
    `argument_list` (so `x ?` and `... r` with blanks are arguments too):
      required_arg = { identifier }   optional_arg = { identifier ~ "?" }
      rest_arg     = { "..." ~ identifier } -/
def argumentR (cs : List Char) : Option (LArg × List Char) :=
  match identifier cs with
  | some r =>
    (match skipWs r with
     | '?' :: r' => some (.opt (String.ofList (consumed cs r)), r')
     | _ => some (.req (String.ofList (consumed cs r)), r))
  | none =>
    match lit spreadLit cs with
    | some r =>
      (match identifier (skipWs r) with
       | some r' => some (.rest (String.ofList (consumed (skipWs r) r')), r')
       | none => none)
    | none => none

/-- `("," ~ NEWLINE* ~ argument)*` with the skips of the non-atomic rule; an iteration that
    fails gives its comma back -/
def argumentsTail : Nat → List Char → List LArg × List Char
  | 0, cs => ([], cs)
  | fuel + 1, cs =>
    match skipWs cs with
    | ',' :: r =>
      (match argumentR (layoutStar r) with
       | some (a, r1) => let p := argumentsTail fuel r1; (a :: p.1, p.2)
       | none => ([], cs))
    | _ => ([], cs)

/-- the arguments behind the first one, and the end of the list -/
def argumentTailClose (a : LArg) (r2 : List Char) : Option (List LArg × List Char) :=
  (callClose (argumentsTail (r2.length + 1) r2).2).map fun r4 =>
    (a :: (argumentsTail (r2.length + 1) r2).1, r4)

/-- the parenthesised alternative of `argument_list`, behind its `(` -/
def argumentListParen (r1 : List Char) : Option (List LArg × List Char) :=
  match argumentR (layoutStar r1) with
  | some (a, r2) => argumentTailClose a r2
  | none => (callClose (layoutStar r1)).map fun r4 => ([], r4)

/-- `argument_list = !{ argument | "(" ~ NEWLINE* ~ (argument ~ ("," ~ NEWLINE* ~ argument)*)?
    ~ ("," ~ NEWLINE)? ~ NEWLINE* ~ ")" }` : the same layout rules as `call_list` -/
def argumentList (cs : List Char) : Option (List LArg × List Char) :=
  match argumentR cs with
  | some (a, r) => some ([a], r)
  | none =>
    match cs with
    | '(' :: r1 => argumentListParen r1
    | _ => none

/-- the part of `lambda = ${ argument_list ~ WHITESPACE* ~ "=>" ~ (WHITESPACE | NEWLINE)* ~
    lambda_expression }` in front of the body: the arguments and where the body starts -/
def lambdaHead (cs : List Char) : Option (List LArg × List Char) :=
  match argumentList cs with
  | some (args, r) => (lit ['=', '>'] (skipWs r)).map fun r' => (args, layoutStar r')
  | none => none

/-! ### the keywords of a conditional -/

/-- `"if" ~ WHITESPACE+` -/
def ifHead (cs : List Char) : Option (List Char) :=
  match lit ['i', 'f'] cs with
  | some r => wsPlus r
  | none => none

/-- `(WHITESPACE | NEWLINE)+ ~ kw ~ (WHITESPACE | NEWLINE)+` for `kw` = `then` / `else` -/
def kwGap (kw : List Char) (cs : List Char) : Option (List Char) :=
  match layoutPlus cs with
  | some r =>
    (match lit kw r with
     | some r' => layoutPlus r'
     | none => none)
  | none => none

def thenLit : List Char := ['t', 'h', 'e', 'n']
def elseLit : List Char := ['e', 'l', 's', 'e']

/-! ### the fixed parts of a do-block -/

/-- `(WHITESPACE | plain_newline)+` -/
def wnPlus (cs : List Char) : Option (List Char) := (wnAtom cs).map wnStar

/-- `"do" ~ (WHITESPACE | plain_newline)+ ~ "{" ~ (comment ~ (WHITESPACE | plain_newline)+ |
    WHITESPACE | plain_newline)*` : where the statements start -/
def doHead (cs : List Char) : Option (List Char) :=
  match lit ['d', 'o'] cs with
  | some r =>
    (match wnPlus r with
     | some ('{' :: r') => some (gapG r')
     | _ => none)
  | none => none

/-- `plain_newline+ | ";"` : what separates the statements -/
def stmtSep (cs : List Char) : Option (List Char) :=
  match plainNewline cs with
  | some r => some (star plainNewline (r.length + 1) r)
  | none =>
    match cs with
    | ';' :: r => some r
    | _ => none

/-- the start of `return_statement = ${ WHITESPACE* ~ "return" ~ WHITESPACE+ ~ expression }` -/
def retHead (cs : List Char) : Option (List Char) :=
  match lit ['r', 'e', 't', 'u', 'r', 'n'] (skipWs cs) with
  | some r => wsPlus r
  | none => none

/-- the start of `assignment = !{ identifier ~ "=" ~ expression }` (non-atomic: `skip` between
    its parts): the name and where the expression starts -/
def asgHead (cs : List Char) : Option (String × List Char) :=
  match identifier cs with
  | some r =>
    (match skipWs r with
     | '=' :: r' => some (String.ofList (consumed cs r), skipWs r')
     | _ => none)
  | none => none

/-- a statement of a do-block that is an expression becomes an item without comments (the
    conversion without `preserve_comments`); a comment statement is dropped -/
def consStmt (oe : Option Expr) (more : List Item) : List Item :=
  match oe with
  | some e => Item.mk [] e none :: more
  | none => more

/-! ### expression -/

mutual
/-- `expression` (`lam = false`) / `lambda_expression` (`lam = true`) : items and rest -/
def exprR (lam : Bool) : Nat → List Char → Res (List PItem × List Char)
  | 0, _ => .out
  | fuel + 1, cs =>
    match operandR lam fuel cs with
    | .ok (its, r) =>
      (match tailR lam fuel r with
       | .ok (more, r') => .ok (its ++ more, r')
       | .fail => .fail
       | .out => .out)
    | .fail => .fail
    | .out => .out
/-- `(infix_usage ~ prefix_usage* ~ term ~ postfix_op*)*` : never fails; an iteration that
    fails after its `infix_usage` gives the operator back -/
def tailR (lam : Bool) : Nat → List Char → Res (List PItem × List Char)
  | 0, _ => .out
  | fuel + 1, cs =>
    match infixUsage lam cs with
    | none => .ok ([], cs)
    | some (rule, r) =>
      match operandR lam fuel r with
      | .ok (its, r') =>
        (match tailR lam fuel r' with
         | .ok (more, r'') => .ok (.inf rule :: (its ++ more), r'')
         | .fail => .fail
         | .out => .out)
      | .fail => .ok ([], cs)
      | .out => .out
/-- `prefix_usage* ~ term ~ postfix_op*` (`lambda_term` has the alternatives of `term`; the
    flag is only passed on) -/
def operandR (_lam : Bool) : Nat → List Char → Res (List PItem × List Char)
  | 0, _ => .out
  | fuel + 1, cs =>
    match termR fuel (prefixStar cs).2 with
    | .ok (e, r1) =>
      (match postR fuel r1 with
       | .ok (post, r2) => .ok ((prefixStar cs).1 ++ .prim e :: post, r2)
       | .fail => .fail
       | .out => .out)
    | .fail => .fail
    | .out => .out
/-- `term` (fragment): `conditional` first, then `do_block`, then `lambda`, then `assignment` —
    when one of them does not match, the following alternatives are tried at the same position -/
def termR : Nat → List Char → Res (Expr × List Char)
  | 0, _ => .out
  | fuel + 1, cs =>
    match condR fuel cs with
    | .ok x => .ok x
    | .fail =>
      (match doR fuel cs with
       | .ok x => .ok x
       | .fail =>
         (match lamR fuel cs with
          | .ok x => .ok x
          | .fail =>
            (match asgR fuel cs with
             | .ok x => .ok x
             | .fail => term2R fuel cs
             | .out => .out)
          | .out => .out)
       | .out => .out)
    | .out => .out
/-- `do_block` (compound-atomic: every blank and line break is spelled out by the rule): the
    head, the statements, `(comment ~ (WHITESPACE | plain_newline)* | WHITESPACE |
    plain_newline)*`, the `return` statement, `(WHITESPACE | plain_newline)*`, `}` -/
def doR : Nat → List Char → Res (Expr × List Char)
  | 0, _ => .out
  | fuel + 1, cs =>
    match doHead cs with
    | some r1 =>
      (match doStmtsR fuel r1 with
       | .ok (stmts, r2) =>
         (match retHead (gapH r2) with
          | some r3 =>
            (match exprR false fuel r3 with
             | .ok (its, r4) =>
               (match wnStar r4 with
                | '}' :: r5 =>
                  (match prattParse its with
                   | some e => .ok (.doBlock stmts (.mk [] e none), r5)
                   | none => .fail)
                | _ => .fail)
             | .fail => .fail
             | .out => .out)
          | none => .fail)
       | .fail => .fail
       | .out => .out)
    | none => .fail
/-- `(WHITESPACE* ~ do_statement ~ WHITESPACE* ~ (plain_newline+ | ";") ~ (comment ~ (WHITESPACE
    | plain_newline)+ | WHITESPACE | plain_newline)*)*` : never fails; an iteration that fails —
    no statement here (e.g. at `return`), or no separator behind it — gives everything back -/
def doStmtsR : Nat → List Char → Res (List Item × List Char)
  | 0, _ => .out
  | fuel + 1, cs =>
    match doStmtR fuel (skipWs cs) with
    | .ok (oe, r1) =>
      (match stmtSep (skipWs r1) with
       | some r2 =>
         (match doStmtsR fuel (gapG r2) with
          | .ok (more, r3) => .ok (consStmt oe more, r3)
          | .fail => .fail
          | .out => .out)
       | none => .ok ([], cs))
    | .fail => .ok ([], cs)
    | .out => .out
/-- `do_statement = { (expression | comment) ~ (WHITESPACE* ~ comment)? }` (atomic here): the
    converted expression (`none` for a comment) and the rest behind the optional trailing
    comment; the blanks in front of a missing comment are skipped by the caller anyway -/
def doStmtR : Nat → List Char → Res (Option Expr × List Char)
  | 0, _ => .out
  | fuel + 1, cs =>
    match exprR false fuel cs with
    | .ok (its, r) =>
      (match prattParse its with
       | some e => .ok (some e, itemTrail r)
       | none => .fail)
    | .fail =>
      (match inlineComment cs with
       | some r => .ok (none, itemTrail r)
       | none => .fail)
    | .out => .out
/-- `conditional = ${ "if" ~ WHITESPACE+ ~ expression ~ (WHITESPACE | NEWLINE)+ ~ "then" ~
    (WHITESPACE | NEWLINE)+ ~ expression ~ (WHITESPACE | NEWLINE)+ ~ "else" ~ (WHITESPACE |
    NEWLINE)+ ~ expression }` : the three parts are `expression`s (also inside a lambda body) -/
def condR : Nat → List Char → Res (Expr × List Char)
  | 0, _ => .out
  | fuel + 1, cs =>
    match ifHead cs with
    | some r1 =>
      (match exprR false fuel r1 with
       | .ok (its1, r2) =>
         (match kwGap thenLit r2 with
          | some r3 =>
            (match exprR false fuel r3 with
             | .ok (its2, r4) =>
               (match kwGap elseLit r4 with
                | some r5 =>
                  (match exprR false fuel r5 with
                   | .ok (its3, r6) =>
                     (match prattParse its1, prattParse its2, prattParse its3 with
                      | some c, some t, some e => .ok (.cond c t e, r6)
                      | _, _, _ => .fail)
                   | .fail => .fail
                   | .out => .out)
                | none => .fail)
             | .fail => .fail
             | .out => .out)
          | none => .fail)
       | .fail => .fail
       | .out => .out)
    | none => .fail
/-- `lambda` -/
def lamR : Nat → List Char → Res (Expr × List Char)
  | 0, _ => .out
  | fuel + 1, cs =>
    match lambdaHead cs with
    | some (args, r) =>
      (match exprR true fuel r with
       | .ok (its, r') =>
         (match prattParse its with
          | some e => .ok (.lambda args e, r')
          | none => .fail)
       | .fail => .fail
       | .out => .out)
    | none => .fail
/-- `assignment = !{ identifier ~ "=" ~ expression }` : the value is an `expression` (also inside
    a lambda body) -/
def asgR : Nat → List Char → Res (Expr × List Char)
  | 0, _ => .out
  | fuel + 1, cs =>
    match asgHead cs with
    | some (n, r) =>
      (match exprR false fuel r with
       | .ok (its, r') =>
         (match prattParse its with
          | some e => .ok (.assign n e, r')
          | none => .fail)
       | .fail => .fail
       | .out => .out)
    | none => .fail
/-- the alternatives of `term` behind `assignment`: `list`, `record`, the word / literal alternatives,
    `nested_expression`, converted as `pairs_to_expr` does (a nested expression by the Pratt
    parser on its items) -/
def term2R : Nat → List Char → Res (Expr × List Char)
  | 0, _ => .out
  | fuel + 1, cs =>
    match termAtom cs with
    | some (e, r) => .ok (e, r)
    | none =>
      match cs with
      | '(' :: r1 =>
        (match exprR false fuel (layoutStar r1) with
         | .ok (its, r2) =>
           (match layoutStar r2 with
            | ')' :: r3 =>
              (match prattParse its with
               | some e => .ok (e, r3)
               | none => .fail)
            | _ => .fail)
         | .fail => .fail
         | .out => .out)
      -- list = !{ "[]" | "[" ~ … ~ "]" } : the first alternative is subsumed by the second
      | '[' :: r1 =>
        (match argR true fuel (gapG r1) with
         | .ok (a, r2) =>
           (match argsTailR true fuel r2 with
            | .ok (more, r3) =>
              (match listClose r3 with
               | some r4 => .ok (.list (mkItems (a :: more)), r4)
               | none => .fail)
            | .fail => .fail
            | .out => .out)
         | .fail =>
           (match listClose (gapG r1) with
            | some r4 => .ok (.list [], r4)
            | none => .fail)
         | .out => .out)
      -- record = !{ "{}" | "{" ~ … ~ "}" } : the first alternative is subsumed by the second
      | '{' :: r1 =>
        (match recItemR fuel (gapG r1) with
         | .ok (e, r2) =>
           (match recTailR fuel r2 with
            | .ok (more, r3) =>
              (match recordClose r3 with
               | some r4 => .ok (.record (e :: more), r4)
               | none => .fail)
            | .fail => .fail
            | .out => .out)
         | .fail =>
           (match recordClose (gapG r1) with
            | some r4 => .ok (.record [], r4)
            | none => .fail)
         | .out => .out)
      | _ => .fail
/-- `record_key = _{ record_key_static | record_key_dynamic }` inside the non-atomic
    `record_pair`:  `record_key_static = { identifier | string }` (the key is the word / the
    `string_value`),  `record_key_dynamic = { "[" ~ expression ~ "]" }` with the implicit skips:
    blanks (no line breaks) between the brackets and the expression -/
def recKeyR : Nat → List Char → Res (Key × List Char)
  | 0, _ => .out
  | fuel + 1, cs =>
    match identifier cs with
    | some r => .ok (.static (String.ofList (consumed cs r)), r)
    | none =>
      match stringRule cs with
      | some (s, r) => .ok (.static (String.ofList s), r)
      | none =>
        match cs with
        | '[' :: r1 =>
          (match exprR false fuel (skipWs r1) with
           | .ok (its, r2) =>
             (match skipWs r2 with
              | ']' :: r3 =>
                (match prattParse its with
                 | some e => .ok (.dyn e, r3)
                 | none => .fail)
              | _ => .fail)
           | .fail => .fail
           | .out => .out)
        | _ => .fail
/-- `record_pair = !{ record_key ~ ":" ~ NEWLINE* ~ expression }` : `skip` in front of the
    colon; behind it `skip ~ NEWLINE* ~ skip` = `(WHITESPACE | NEWLINE)*` -/
def recPairR : Nat → List Char → Res (Entry × List Char)
  | 0, _ => .out
  | fuel + 1, cs =>
    match recKeyR fuel cs with
    | .ok (k, r1) =>
      (match skipWs r1 with
       | ':' :: r2 =>
         (match exprR false fuel (layoutStar r2) with
          | .ok (its, r3) =>
            (match prattParse its with
             | some v => .ok (.mk [] k v none, r3)
             | none => .fail)
          | .fail => .fail
          | .out => .out)
       | _ => .fail)
    | .fail => .fail
    | .out => .out
/-- `record_item = { (record_pair | record_shorthand | spread_expression) ~ (WHITESPACE* ~
    eol_comment)? }` converted as `parse_record_entry` does (without `preserve_comments`): when
    `record_pair` does not match, the other alternatives are tried at the same position; a
    shorthand and a spread entry carry the value `null`; the key of a spread entry is the
    converted `spread_expression`, i.e. the prefix `...` applied to the expression -/
def recItemR : Nat → List Char → Res (Entry × List Char)
  | 0, _ => .out
  | fuel + 1, cs =>
    match recPairR fuel cs with
    | .ok (e, r) => .ok (e, itemTrail r)
    | .out => .out
    | .fail =>
      match identifier cs with
      | some r => .ok (.mk [] (.short (String.ofList (consumed cs r))) .null none, itemTrail r)
      | none =>
        match lit spreadLit cs with
        | some r1 =>
          (match exprR false fuel r1 with
           | .ok (its, r2) =>
             (match prattParse its with
              | some e => .ok (.mk [] (.spread (.spread e)) .null none, itemTrail r2)
              | none => .fail)
           | .fail => .fail
           | .out => .out)
        | none => .fail
/-- `("," ~ (comment ~ (WHITESPACE | plain_newline)+ | WHITESPACE | plain_newline)* ~
    record_item)*` : as for `list`; never fails, an iteration that fails gives its comma back -/
def recTailR : Nat → List Char → Res (List Entry × List Char)
  | 0, _ => .out
  | fuel + 1, cs =>
    match skipWs cs with
    | ',' :: r =>
      (match recItemR fuel (gapG r) with
       | .ok (e, r1) =>
         (match recTailR fuel r1 with
          | .ok (more, r2) => .ok (e :: more, r2)
          | .fail => .fail
          | .out => .out)
       | .fail => .ok ([], cs)
       | .out => .out)
    | _ => .ok ([], cs)
/-- `postfix_op*` : never fails -/
def postR : Nat → List Char → Res (List PItem × List Char)
  | 0, _ => .out
  | fuel + 1, cs =>
    match postOpR fuel cs with
    | .ok (it, r) =>
      (match postR fuel r with
       | .ok (more, r') => .ok (it :: more, r')
       | .fail => .fail
       | .out => .out)
    | .fail => .ok ([], cs)
    | .out => .out
/-- `postfix_op = _{ factorial | access | call_list | dot_access }` with the payload converted
    as `fmtcommon.rs::pitems` does:
      access     =  { "[" ~ NEWLINE* ~ expression ~ NEWLINE* ~ "]" }            (atomic here)
      call_list  = !{ "(" ~ NEWLINE* ~ (spreadable_expression ~ ("," ~ NEWLINE* ~
                       spreadable_expression)*)? ~ ("," ~ NEWLINE)? ~ NEWLINE* ~ ")" }
      dot_access =  { "." ~ identifier }                                         (atomic here) -/
def postOpR : Nat → List Char → Res (PItem × List Char)
  | 0, _ => .out
  | fuel + 1, cs =>
    match firstRule postfixLits cs with
    | some (_, r) => .ok (.postFact, r)
    | none =>
      match cs with
      | '[' :: r1 =>
        (match exprR false fuel (nlStar r1) with
         | .ok (its, r2) =>
           (match nlStar r2 with
            | ']' :: r3 =>
              (match prattParse its with
               | some e => .ok (.postAccess e, r3)
               | none => .fail)
            | _ => .fail)
         | .fail => .fail
         | .out => .out)
      | '(' :: r1 =>
        (match argR false fuel (layoutStar r1) with
         | .ok (a, r2) =>
           (match argsTailR false fuel r2 with
            | .ok (more, r3) =>
              (match callClose r3 with
               | some r4 => .ok (.postCall (a :: more), r4)
               | none => .fail)
            | .fail => .fail
            | .out => .out)
         | .fail =>
           (match callClose (layoutStar r1) with
            | some r4 => .ok (.postCall [], r4)
            | none => .fail)
         | .out => .out)
      | '.' :: r1 =>
        (match identifier r1 with
         | some r2 => .ok (.postDot (String.ofList (consumed r1 r2)), r2)
         | none => .fail)
      | _ => .fail
/-- `spreadable_expression = _{ spread_expression | expression }`,
    `spread_expression = ${ spread_operator ~ expression }`, converted: `...e` is the prefix
    `spread_operator` applied to the converted expression.  (When `...` is not followed by an
    expression the second alternative is tried at the `...`, where no expression starts.)
    With `lst` this is `list_item`: the blanks and the `eol_comment` behind the expression
    belong to the item. -/
def argR (lst : Bool) : Nat → List Char → Res (Expr × List Char)
  | 0, _ => .out
  | fuel + 1, cs =>
    match lit spreadLit cs with
    | some r1 =>
      (match exprR false fuel r1 with
       | .ok (its, r2) =>
         (match prattParse its with
          | some e => .ok (.spread e, if lst then itemTrail r2 else r2)
          | none => .fail)
       | .fail => .fail
       | .out => .out)
    | none =>
      (match exprR false fuel cs with
       | .ok (its, r2) =>
         (match prattParse its with
          | some e => .ok (e, if lst then itemTrail r2 else r2)
          | none => .fail)
       | .fail => .fail
       | .out => .out)
/-- `("," ~ NEWLINE* ~ spreadable_expression)*` of `call_list` (`lst = false`) and
    `("," ~ (comment ~ (WHITESPACE | plain_newline)+ | WHITESPACE | plain_newline)* ~
    list_item)*` of `list` (`lst = true`), both non-atomic: `skip` in front of every iteration
    and after the comma; in front of an argument `skip ~ NEWLINE* ~ skip` = `(WHITESPACE |
    NEWLINE)*`, in front of a list item `gapG`; never fails, an iteration that fails gives its
    comma back -/
def argsTailR (lst : Bool) : Nat → List Char → Res (List Expr × List Char)
  | 0, _ => .out
  | fuel + 1, cs =>
    match skipWs cs with
    | ',' :: r =>
      (match argR lst fuel (if lst then gapG r else layoutStar r) with
       | .ok (a, r1) =>
         (match argsTailR lst fuel r1 with
          | .ok (more, r2) => .ok (a :: more, r2)
          | .fail => .fail
          | .out => .out)
       | .fail => .ok ([], cs)
       | .out => .out)
    | _ => .ok ([], cs)
end

/-- fuel that always suffices (`exprR_fuel_suffices`, `fuel_suffices` in Lemmas/ExprPegFuel.lean) -/
def fuelFor (cs : List Char) : Nat := 8 * cs.length + 8

/-- the `expression` rule at the start of `cs`: the item sequence and the unconsumed rest;
    `none` = no match (or fuel ran out) -/
def exprItems (fuel : Nat) (cs : List Char) : Option (List PItem × List Char) :=
  match exprR false fuel cs with
  | .ok x => some x
  | _ => none

/-- a whole text as ONE expression of the fragment, converted by the Pratt parser -/
def parseText (s : String) : Option Expr :=
  match exprItems (fuelFor s.toList) s.toList with
  | some (its, []) => prattParse its
  | _ => none

end Blots.ExprPeg
