import Blots.Model.Syntax
/-
  Values as trees (`values.rs` Value / HeapValue with pointers followed), deep equality
  `Value::equals` and the partial order `Value::compare`.
-/
namespace Blots

inductive Value where
  | num : F64 → Value
  | bool : Bool → Value
  | null : Value
  | str : String → Value
  | list : List Value → Value
  | record : List (String × Value) → Value
  /-- `id` identifies the heap cell (the only mutable thing: its display name lives in the
      evaluator state); `scope` is the captured environment; `src` the source id. -/
  | lambda : (id : Nat) → (args : List LArg) → (body : Expr) → (scope : List (String × Value)) → Value
  | builtin : String → Value
  | spread : Value → Value
  deriving Inhabited

namespace Value

def typeName : Value → String
  | num _ => "number" | list _ => "list" | spread _ => "spread" | bool _ => "boolean"
  | lambda .. => "function" | builtin _ => "built-in function" | str _ => "string"
  | record _ => "record" | null => "null"

def isCallable : Value → Bool
  | lambda .. => true | builtin _ => true | _ => false

end Value

/-! ### AST equality (`#[derive(PartialEq)]` with spans ignored; f64 by IEEE `==`) -/

def optStrEq : Option String → Option String → Bool
  | none, none => true
  | some a, some b => a == b
  | _, _ => false

mutual
def Expr.beq : Expr → Expr → Bool
  | .num a, .num b => a.feq b
  | .str a, .str b => a == b
  | .bool a, .bool b => a == b
  | .null, .null => true
  | .ident a, .ident b => a == b
  | .inref a, .inref b => a == b
  | .builtin a, .builtin b => a == b
  | .list a, .list b => Item.beqList a b
  | .record a, .record b => Entry.beqList a b
  | .lambda a1 b1, .lambda a2 b2 => a1 == a2 && Expr.beq b1 b2
  | .cond a1 b1 c1, .cond a2 b2 c2 => Expr.beq a1 a2 && Expr.beq b1 b2 && Expr.beq c1 c2
  | .doBlock s1 r1, .doBlock s2 r2 => Item.beqList s1 s2 && Item.beq r1 r2
  | .assign n1 v1, .assign n2 v2 => n1 == n2 && Expr.beq v1 v2
  | .output a, .output b => Expr.beq a b
  | .call f1 a1, .call f2 a2 => Expr.beq f1 f2 && Expr.beqList a1 a2
  | .access a1 b1, .access a2 b2 => Expr.beq a1 a2 && Expr.beq b1 b2
  | .dot a1 f1, .dot a2 f2 => Expr.beq a1 a2 && f1 == f2
  | .bin o1 l1 r1, .bin o2 l2 r2 => o1 == o2 && Expr.beq l1 l2 && Expr.beq r1 r2
  | .un o1 a, .un o2 b => o1 == o2 && Expr.beq a b
  | .fact a, .fact b => Expr.beq a b
  | .spread a, .spread b => Expr.beq a b
  | _, _ => false
def Expr.beqList : List Expr → List Expr → Bool
  | [], [] => true
  | a :: as, b :: bs => Expr.beq a b && Expr.beqList as bs
  | _, _ => false
def Item.beq : Item → Item → Bool
  | .mk l1 n1 t1, .mk l2 n2 t2 => l1 == l2 && Expr.beq n1 n2 && optStrEq t1 t2
def Item.beqList : List Item → List Item → Bool
  | [], [] => true
  | a :: as, b :: bs => Item.beq a b && Item.beqList as bs
  | _, _ => false
def Entry.beq : Entry → Entry → Bool
  | .mk l1 k1 v1 t1, .mk l2 k2 v2 t2 => l1 == l2 && Key.beq k1 k2 && Expr.beq v1 v2 && optStrEq t1 t2
def Entry.beqList : List Entry → List Entry → Bool
  | [], [] => true
  | a :: as, b :: bs => Entry.beq a b && Entry.beqList as bs
  | _, _ => false
def Key.beq : Key → Key → Bool
  | .static a, .static b => a == b
  | .dyn a, .dyn b => Expr.beq a b
  | .short a, .short b => a == b
  | .spread a, .spread b => Expr.beq a b
  | _, _ => false
end

/-! ### `Value::equals` -/

mutual
/-- `Value::equals` (values.rs:834).  Records: same number of keys and every key of the
    left record is present in the right one with an equal value. -/
def veq : Value → Value → Bool
  | .num a, .num b => a.feq b
  | .bool a, .bool b => a == b
  | .null, .null => true
  | .str a, .str b => a == b
  | .list as, .list bs => veqList as bs
  | .record ra, .record rb => ra.length == rb.length && veqRec ra rb
  | .lambda _ a1 b1 _, .lambda _ a2 b2 _ => a1 == a2 && Expr.beq b1 b2
  | .builtin a, .builtin b => a == b
  | .spread a, .spread b => veq a b
  | _, _ => false
def veqList : List Value → List Value → Bool
  | [], [] => true
  | a :: as, b :: bs => veq a b && veqList as bs
  | _, _ => false
def veqRec : List (String × Value) → List (String × Value) → Bool
  | [], _ => true
  | (k, v) :: rest, rb =>
    (match lookupAL k rb with
     | some w => veq v w
     | none => false) && veqRec rest rb
end

/-! ### `Value::compare` -/

/-- lexicographic comparison of strings by Unicode scalar value (= byte-wise comparison of
    the UTF-8 encodings, which is what Rust's `str::partial_cmp` does) -/
def strCmpL : List Char → List Char → Ordering
  | [], [] => .eq
  | [], _ :: _ => .lt
  | _ :: _, [] => .gt
  | a :: as, b :: bs =>
    if a.toNat < b.toNat then .lt else if b.toNat < a.toNat then .gt else strCmpL as bs

def strCmp (a b : String) : Ordering := strCmpL a.toList b.toList

def boolCmp : Bool → Bool → Ordering
  | false, true => .lt
  | true, false => .gt
  | _, _ => .eq

mutual
/-- `Value::compare` (values.rs:931): `none` = not comparable. -/
def vcmp : Value → Value → Option Ordering
  | .num a, .num b => a.pcmp b
  | .bool a, .bool b => some (boolCmp a b)
  | .str a, .str b => some (strCmp a b)
  | .list as, .list bs => vcmpList as bs
  | _, _ => none
def vcmpList : List Value → List Value → Option Ordering
  | [], [] => some .eq
  | [], _ :: _ => some .lt
  | _ :: _, [] => some .gt
  | a :: as, b :: bs =>
    match vcmp a b with
    | some .eq => vcmpList as bs
    | other => other
end

/-! ### wire format (lambda ids are not printed: they are heap addresses) -/

mutual
partial def Value.toSx : Value → Sx
  | .num x => .list [.atom "num", .atom (if x.isNaN then "7ff8000000000000" else hex64 x.bits)]
  | .bool b => .list [.atom "bool", .atom (if b then "t" else "f")]
  | .null => .list [.atom "null"]
  | .str s => .list [.atom "str", .atom (encStr s)]
  | .list xs => .list (.atom "list" :: xs.map Value.toSx)
  | .record kvs => .list (.atom "record" :: kvs.map fun (k, v) => Sx.list [.atom (encStr k), v.toSx])
  | .lambda _ as b sc =>
      Sx.list [.atom "lambda", .list (as.map LArg.toSx), b.toSx,
             .list (.atom "scope" :: (sortKV sc).map fun (k, v) => Sx.list [.atom (encStr k), v.toSx])]
  | .builtin n => .list [.atom "builtin", .atom n]
  | .spread v => .list [.atom "spread", v.toSx]
partial def sortKV (kvs : List (String × Value)) : List (String × Value) :=
  (kvs.toArray.qsort (fun a b => strCmp a.1 b.1 == .lt)).toList
end

partial def Value.ofSx : Sx → Option Value
  | .list [.atom "num", .atom b] => (parseHex64 b).map fun u => .num ⟨u⟩
  | .list [.atom "bool", .atom "t"] => some (.bool true)
  | .list [.atom "bool", .atom "f"] => some (.bool false)
  | .list [.atom "null"] => some .null
  | .list [.atom "str", .atom a] => (decStr a).map .str
  | .list (.atom "list" :: xs) => (xs.mapM Value.ofSx).map .list
  | .list (.atom "record" :: kvs) =>
      (kvs.mapM fun
        | Sx.list [.atom k, v] => do pure ((← decStr k), (← Value.ofSx v))
        | _ => none).map .record
  | .list [.atom "lambda", .list as, b, .list (.atom "scope" :: kvs)] => do
      let args ← as.mapM decArg
      let body ← Expr.ofSx b
      let sc ← kvs.mapM fun
        | Sx.list [.atom k, v] => do pure ((← decStr k), (← Value.ofSx v))
        | _ => none
      pure (.lambda 0 args body sc)
  | .list [.atom "builtin", .atom n] => some (.builtin n)
  | .list [.atom "spread", v] => (Value.ofSx v).map .spread
  | _ => none

end Blots
