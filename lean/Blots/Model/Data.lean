import Blots.Model.Value
/-
  "Data values" in the sense of the properties: numbers other than NaN, strings,
  booleans, null, lists and records (with distinct keys — an `IndexMap` cannot hold a key
  twice) of data values.
-/
namespace Blots

def keysNodup : List (String × Value) → Bool
  | [] => true
  | (k, _) :: rest => (lookupAL k rest).isNone && keysNodup rest

mutual
def isData : Value → Bool
  | .num x => !x.isNaN
  | .bool _ => true
  | .null => true
  | .str _ => true
  | .list xs => isDataList xs
  | .record r => isDataRec r && keysNodup r
  | .lambda .. => false
  | .builtin _ => false
  | .spread _ => false
def isDataList : List Value → Bool
  | [] => true
  | x :: xs => isData x && isDataList xs
def isDataRec : List (String × Value) → Bool
  | [] => true
  | (_, v) :: r => isData v && isDataRec r
end

end Blots
