-- Root of the `Blots` library: the executable model, the generated tables and the driver
-- handlers.  The property modules `Blots.Props.Cxx` (and the lemma files they import) are
-- separate build targets: `lake build Blots.Props.C01 …` (see setup.sh and ./check); they
-- are not imported here so that independently written lemma files need not share a
-- namespace discipline.
import Blots.Model.Basic
import Blots.Model.Num
import Blots.Model.Syntax
import Blots.Model.Value
import Blots.Model.Outcome
import Blots.Model.Data
import Blots.Model.Print
import Blots.Model.Format
import Blots.Model.Pratt
import Blots.Model.Display
import Blots.Model.NumText
import Blots.Model.Units
import Blots.Model.Json
import Blots.Model.Cli
import Blots.Model.Builtins
import Blots.Model.Eval
import Blots.Model.Ident
import Blots.Model.ExprPeg
import Blots.Gen.Prec
import Blots.Gen.Builtins
import Blots.Gen.Reserved
import Blots.Gen.Units
import Blots.Drv.Core
import Blots.Drv.Print
import Blots.Drv.Eval
import Blots.Drv.NumText
import Blots.Drv.Units
import Blots.Drv.Json
import Blots.Drv.JsonText
import Blots.Drv.Ident
import Blots.Drv.ExprPeg
