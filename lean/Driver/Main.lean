import Blots.Drv.Core
import Blots.Drv.Units
import Blots.Drv.Print
import Blots.Drv.Eval
import Blots.Drv.NumText
import Blots.Drv.Json
import Blots.Drv.JsonText
import Blots.Drv.Ident
import Blots.Drv.ExprPeg
/-
  Line-protocol driver for the executable model: one request per line, one response per
  line.  A request is the inside of an S-expression list: `cmd arg …`.
  Handlers live in `Blots/Drv/*.lean`; add new ones to `handlers`.
-/
open Blots

def handlers : List (List Sx → Option String) := [
  Drv.handleJson,
  Drv.handleJsonText,
  Drv.handleIdent,
  Drv.handleExprPeg,
  Drv.handleUnits,
  Drv.handleNumText,
  Drv.handleCore,
  Drv.handlePrint,
  Drv.handleEval
]

def handle (req : List Sx) : String :=
  match handlers.findSome? (fun h => h req) with
  | some r => r
  | none => "bad-request"

partial def loop (h : IO.FS.Stream) (out : IO.FS.Stream) : IO Unit := do
  let line ← h.getLine
  if line.isEmpty then return ()
  let resp := match Sx.parse ("(" ++ line ++ ")") with
    | some (.list req) => handle req
    | _ => "bad-request"
  out.putStrLn resp
  out.flush
  loop h out

def main : IO Unit := do
  loop (← IO.getStdin) (← IO.getStdout)
