import Blots.Model.Basic
import Blots.Model.Num
import Blots.Model.Syntax
import Blots.Model.Value
/-
  Line-protocol driver for the executable model: one request per line, one response per
  line.  A request is the inside of an S-expression list: `cmd arg …`.
-/
open Blots

def ordStr : Option Ordering → String
  | none => "none"
  | some .lt => "lt"
  | some .eq => "eq"
  | some .gt => "gt"

def boolStr (b : Bool) : String := if b then "t" else "f"

def handle (req : List Sx) : String :=
  match req with
  | [.atom "ping"] => "pong"
  | [.atom "veq", a, b] =>
    match Value.ofSx a, Value.ofSx b with
    | some x, some y => boolStr (veq x y)
    | _, _ => "bad-request"
  | [.atom "vcmp", a, b] =>
    match Value.ofSx a, Value.ofSx b with
    | some x, some y => ordStr (vcmp x y)
    | _, _ => "bad-request"
  | [.atom "echo-expr", e] =>
    match Expr.ofSx e with
    | some x => x.toSx.toStr
    | none => "bad-request"
  | [.atom "echo-value", e] =>
    match Value.ofSx e with
    | some x => x.toSx.toStr
    | none => "bad-request"
  -- numbers
  | [.atom "num-display", .atom b] =>
    match parseHex64 b with
    | some u => encStr (F64.toDisplay ⟨u⟩)
    | none => "bad-request"
  | [.atom "num-fixed", .atom b, .atom p] =>
    match parseHex64 b, p.toNat? with
    | some u, some n => encStr (F64.toFixed ⟨u⟩ n)
    | _, _ => "bad-request"
  | [.atom "num-exp", .atom b, .atom p] =>
    match parseHex64 b, p.toNat? with
    | some u, some n => encStr (F64.toExp ⟨u⟩ n)
    | _, _ => "bad-request"
  | [.atom "num-parse", .atom s] =>
    match decStr s with
    | some str => match F64.parseDec str with
      | some x => hex64 x.bits
      | none => "none"
    | none => "bad-request"
  | _ => "bad-request"

partial def loop (h : IO.FS.Stream) (out : IO.FS.Stream) : IO Unit := do
  let line ← h.getLine
  if line.isEmpty then return ()
  let resp := match Sx.parse ("(" ++ line ++ ")") with
    | some (.list req) => handle req
    | _ => "bad-request"
  out.putStrLn resp
  out.flush
  loop h out

def main : IO Unit := do
  loop (← IO.getStdin) (← IO.getStdout)
