#!/bin/sh
# Build everything the checks need from files on disk only (offline).
set -e
cd "$(dirname "$0")"
export CARGO_NET_OFFLINE=true
mkdir -p build evidence replays
python3 tools/gen_tables.py
PROPS=""
for f in lean/Blots/Props/C*.lean; do b=$(basename "$f" .lean); PROPS="$PROPS Blots.Props.$b"; done
(cd lean && lake build Blots blotsmodel $PROPS)
(cd harness && cargo build --release --offline)
(cd /repo && cargo build --offline -p blots --target-dir /verif/build/repo-target)
(cd /repo && cargo build --release --offline -p blots --target-dir /verif/build/repo-target)
echo setup ok
