"""Translator for the unit table (property C17).

Called by tools/gen_tables.py on every run:  gen(read, write_if_changed, lean_str, Fail, fn_body).
Re-extracts from the CURRENT /repo/blots-core/src/units.rs

  * `enum UnitCategory` and `UnitCategory::name()`                      -> Gen.categories
  * every `Unit::new_linear / new_reciprocal / new_temperature` call of `get_all_units()`
      category, identifier strings (as Unicode scalar values), constructor kind,
      coefficient expression -> exact rational AND the f64 bit pattern Rust computes -> Gen.units
  * the bodies of the temperature functions named in the table, as expression trees,
      emitted once over `Rat` and once over `F64`/`NumOps`                -> Gen.TempFn
  * `str::to_lowercase` of every identifier (Python's str.lower(); the harness cross-checks
      every entry, and the per-character table below, against Rust)        -> UnitRow.lowers,
      Gen.lowerTable, Gen.lowerAlphabet

and writes lean/Blots/Gen/Units.lean.  Any construct it does not understand raises
`Fail` (-> TRANSLATOR-FAILED): it never guesses and never keeps a stale table.
"""
import os
import re
import struct
from fractions import Fraction
import math


# ------------------------------------------------------------------ small Rust lexer
def strip_comments(src, Fail):
    """remove // and /* */ comments, leaving string literals untouched"""
    out = []
    i = 0
    n = len(src)
    while i < n:
        c = src[i]
        if c == '"':
            j = i + 1
            while j < n and src[j] != '"':
                if src[j] == "\\":
                    j += 1
                j += 1
            if j >= n:
                raise Fail("units.rs: unterminated string literal")
            out.append(src[i:j + 1])
            i = j + 1
        elif src.startswith("//", i):
            j = src.find("\n", i)
            i = n if j < 0 else j
        elif src.startswith("/*", i):
            j = src.find("*/", i)
            if j < 0:
                raise Fail("units.rs: unterminated block comment")
            i = j + 2
        else:
            out.append(c)
            i += 1
    return "".join(out)


def matching_paren(s, i, Fail):
    """s[i] == '(' : index of the matching ')' (skipping strings)"""
    depth = 0
    j = i
    n = len(s)
    while j < n:
        c = s[j]
        if c == '"':
            j += 1
            while j < n and s[j] != '"':
                if s[j] == "\\":
                    j += 1
                j += 1
        elif c in "([{":
            depth += 1
        elif c in ")]}":
            depth -= 1
            if depth == 0:
                return j
        j += 1
    raise Fail("units.rs: unbalanced parenthesis in get_all_units")


def split_args(s):
    """split at top-level commas (outside strings/brackets); drops an empty trailing piece"""
    parts = []
    depth = 0
    cur = []
    i = 0
    n = len(s)
    while i < n:
        c = s[i]
        if c == '"':
            j = i + 1
            while j < n and s[j] != '"':
                if s[j] == "\\":
                    j += 1
                j += 1
            cur.append(s[i:j + 1])
            i = j + 1
            continue
        if c in "([{":
            depth += 1
        elif c in ")]}":
            depth -= 1
        if c == "," and depth == 0:
            parts.append("".join(cur).strip())
            cur = []
        else:
            cur.append(c)
        i += 1
    last = "".join(cur).strip()
    if last:
        parts.append(last)
    return parts


def parse_ident_list(text, Fail, where):
    m = re.fullmatch(r"&\s*\[(.*)\]", text, re.S)
    if not m:
        raise Fail("units.rs: identifier list not of the form &[..] in " + where)
    ids = []
    for piece in split_args(m.group(1)):
        mm = re.fullmatch(r'"([^"\\]*)"', piece, re.S)
        if not mm:
            raise Fail("units.rs: identifier %r is not a plain string literal (escapes are not translated) in %s" % (piece, where))
        ids.append(mm.group(1))
    if not ids:
        raise Fail("units.rs: empty identifier list in " + where)
    return ids


# ------------------------------------------------------------------ coefficient / body expressions
TOK = re.compile(r"""\s*(?:
    (?P<num>[0-9][0-9_]*(?:\.[0-9_]+)?(?:[eE][+-]?[0-9_]+)?(?:_?f64)?)
  | (?P<path>[A-Za-z_][A-Za-z0-9_]*(?:::[A-Za-z_][A-Za-z0-9_]*)*)
  | (?P<op>[-+*/()])
)""", re.X)

PI_PATHS = {"std::f64::consts::PI", "core::f64::consts::PI", "f64::consts::PI", "consts::PI", "PI"}


def tokenize(text, Fail, where):
    toks = []
    i = 0
    text = text.strip()
    while i < len(text):
        m = TOK.match(text, i)
        if not m or m.end() == i:
            raise Fail("units.rs: cannot tokenize %r in %s" % (text[i:i + 30], where))
        if m.group("num") is not None:
            toks.append(("num", m.group("num")))
        elif m.group("path") is not None:
            toks.append(("path", m.group("path")))
        else:
            toks.append(("op", m.group("op")))
        i = m.end()
        while i < len(text) and text[i].isspace():
            i += 1
    return toks


def parse_expr(toks, Fail, where):
    """Rust precedence: unary - > * / > + - ; binary operators left-associative.
    AST: ("num", text) | ("pi",) | ("var", name) | ("neg", e) | (op, l, r)"""
    pos = [0]

    def peek():
        return toks[pos[0]] if pos[0] < len(toks) else None

    def take():
        t = toks[pos[0]]
        pos[0] += 1
        return t

    def atom():
        t = peek()
        if t is None:
            raise Fail("units.rs: unexpected end of expression in " + where)
        if t == ("op", "("):
            take()
            e = additive()
            if peek() != ("op", ")"):
                raise Fail("units.rs: missing ) in " + where)
            take()
            return e
        if t == ("op", "-"):
            take()
            return ("neg", atom())
        if t[0] == "num":
            take()
            return ("num", t[1])
        if t[0] == "path":
            take()
            if t[1] in PI_PATHS:
                return ("pi",)
            if "::" in t[1]:
                raise Fail("units.rs: unknown constant %s in %s" % (t[1], where))
            return ("var", t[1])
        raise Fail("units.rs: unexpected token %r in %s" % (t, where))

    def mult():
        e = atom()
        while peek() in (("op", "*"), ("op", "/")):
            o = take()[1]
            e = (o, e, atom())
        return e

    def additive():
        e = mult()
        while peek() in (("op", "+"), ("op", "-")):
            o = take()[1]
            e = (o, e, mult())
        return e

    e = additive()
    if pos[0] != len(toks):
        raise Fail("units.rs: trailing tokens in expression in " + where)
    return e


def lit_text(t):
    t = t.replace("_", "")
    if t.endswith("f64"):
        t = t[:-3]
    return t


def bits_of(x):
    return struct.unpack("<Q", struct.pack("<d", x))[0]


def eval_const(e, Fail, where):
    """(exact rational, f64) of a constant expression.  The rational reads every literal as the
    decimal number written and `PI` as the double `std::f64::consts::PI` denotes; the f64 is
    what IEEE arithmetic on the correctly rounded literals gives (what rustc/LLVM compute)."""
    k = e[0]
    if k == "num":
        t = lit_text(e[1])
        return Fraction(t), float(t)
    if k == "pi":
        return Fraction(math.pi), math.pi
    if k == "var":
        raise Fail("units.rs: coefficient refers to a variable %s in %s" % (e[1], where))
    if k == "neg":
        q, f = eval_const(e[1], Fail, where)
        return -q, -f
    lq, lf = eval_const(e[1], Fail, where)
    rq, rf = eval_const(e[2], Fail, where)
    if k == "+":
        return lq + rq, lf + rf
    if k == "-":
        return lq - rq, lf - rf
    if k == "*":
        return lq * rq, lf * rf
    if k == "/":
        if rq == 0 or rf == 0.0:
            raise Fail("units.rs: division by zero in coefficient in " + where)
        return lq / rq, lf / rf
    raise Fail("units.rs: unknown expression node in " + where)


def lean_rat(q):
    if q.denominator == 1:
        s = "(%d : Rat)" % q.numerator
    else:
        s = "((%d : Rat) / %d)" % (q.numerator, q.denominator)
    return s


def emit_q(e, var, Fail, where):
    k = e[0]
    if k == "num":
        return lean_rat(Fraction(lit_text(e[1])))
    if k == "pi":
        return lean_rat(Fraction(math.pi))
    if k == "var":
        if e[1] != var:
            raise Fail("units.rs: unknown variable %s in %s" % (e[1], where))
        return "x"
    if k == "neg":
        return "(- %s)" % emit_q(e[1], var, Fail, where)
    return "(%s %s %s)" % (emit_q(e[1], var, Fail, where), k, emit_q(e[2], var, Fail, where))


def emit_f(e, var, Fail, where):
    k = e[0]
    if k == "num":
        return "(F64.ofNatBits 0x%016X)" % bits_of(float(lit_text(e[1])))
    if k == "pi":
        return "(F64.ofNatBits 0x%016X)" % bits_of(math.pi)
    if k == "var":
        if e[1] != var:
            raise Fail("units.rs: unknown variable %s in %s" % (e[1], where))
        return "x"
    if k == "neg":
        return "(F64.negate %s)" % emit_f(e[1], var, Fail, where)
    op = {"+": "add", "-": "sub", "*": "mul", "/": "div"}[k]
    return "(ops.%s %s %s)" % (op, emit_f(e[1], var, Fail, where), emit_f(e[2], var, Fail, where))


def expr_text(e):
    k = e[0]
    if k == "num":
        return e[1]
    if k == "pi":
        return "PI"
    if k == "var":
        return e[1]
    if k == "neg":
        return "-" + expr_text(e[1])
    return "(%s %s %s)" % (expr_text(e[1]), k, expr_text(e[2]))


KEY_BASE = 2097152  # 2^21 > every Unicode scalar value


def codes(s):
    return "[" + ", ".join(str(ord(c)) for c in s) + "]"


def is_plain_literal(e):
    return e[0] == "num"


# ------------------------------------------------------------------ main entry
def gen(read, write_if_changed, lean_str, Fail, fn_body):
    raw = read("blots-core/src/units.rs")
    src = strip_comments(raw, Fail)

    # ---- categories: enum + name()
    m = re.search(r"pub enum UnitCategory\s*\{(.*?)\}", src, re.S)
    if not m:
        raise Fail("units.rs: enum UnitCategory")
    variants = [v.strip() for v in m.group(1).split(",") if v.strip()]
    if not variants or not all(re.fullmatch(r"[A-Z]\w*", v) for v in variants):
        raise Fail("units.rs: enum UnitCategory variants")
    name_body = fn_body(src, r"pub fn name\(&self\)\s*->\s*&'static str\s*\{", "units.rs: UnitCategory::name")
    names = dict(re.findall(r'Self::(\w+)\s*=>\s*"([^"\\]*)"', name_body))
    if set(names) != set(variants):
        raise Fail("units.rs: UnitCategory::name() does not cover exactly the enum variants")
    cat_index = {v: i for i, v in enumerate(variants)}

    # ---- the constructors must still mean what the model assumes
    for ctor, kind in (("new_linear", "Linear"), ("new_reciprocal", "Reciprocal")):
        b = fn_body(src, r"fn %s\(\s*category: UnitCategory,\s*identifiers: &'static \[&'static str\],\s*coefficient: f64,?\s*\)\s*->\s*Self\s*\{" % ctor,
                    "units.rs: Unit::%s signature" % ctor)
        if not re.search(r"conversion:\s*ConversionType::%s\s*\{\s*coefficient\s*\}" % kind, b) or "category," not in b or "identifiers," not in b:
            raise Fail("units.rs: Unit::%s no longer builds ConversionType::%s { coefficient }" % (ctor, kind))
    b = fn_body(src, r"fn new_temperature\(\s*identifiers: &'static \[&'static str\],\s*to_kelvin: fn\(f64\) -> f64,\s*from_kelvin: fn\(f64\) -> f64,?\s*\)\s*->\s*Self\s*\{",
                "units.rs: Unit::new_temperature signature")
    if not re.search(r"category:\s*UnitCategory::Temperature", b) or not re.search(r"ConversionType::Temperature\s*\{\s*to_kelvin,\s*from_kelvin,?\s*\}", b):
        raise Fail("units.rs: Unit::new_temperature no longer builds a Temperature unit from (to_kelvin, from_kelvin)")
    if "Temperature" not in cat_index:
        raise Fail("units.rs: UnitCategory::Temperature missing")

    # ---- the table
    body = fn_body(src, r"pub fn get_all_units\(\)\s*->\s*Vec<Unit>\s*\{", "units.rs: get_all_units")
    if not re.fullmatch(r"\s*vec!\s*\[.*\]\s*", body, re.S):
        raise Fail("units.rs: get_all_units is no longer a single vec![ ... ] expression")
    expected = len(re.findall(r"Unit::new_", body))
    rows = []
    temp_fns = []   # names in order of first appearance
    pos = 0
    call = re.compile(r"Unit::(new_\w+)\s*\(")
    while True:
        m = call.search(body, pos)
        if not m:
            break
        ctor = m.group(1)
        close = matching_paren(body, m.end() - 1, Fail)
        args = split_args(body[m.end():close])
        where = "Unit::%s call #%d" % (ctor, len(rows) + 1)
        if ctor in ("new_linear", "new_reciprocal"):
            if len(args) != 3:
                raise Fail("units.rs: %s does not have 3 arguments" % where)
            mm = re.fullmatch(r"UnitCategory::(\w+)", args[0])
            if not mm or mm.group(1) not in cat_index:
                raise Fail("units.rs: category %r in %s" % (args[0], where))
            ids = parse_ident_list(args[1], Fail, where)
            e = parse_expr(tokenize(args[2], Fail, where), Fail, where)
            q, f = eval_const(e, Fail, where)
            if math.isnan(f) or math.isinf(f):
                raise Fail("units.rs: non-finite coefficient in " + where)
            rows.append(dict(kind="linear" if ctor == "new_linear" else "reciprocal", cat=mm.group(1), ids=ids,
                             q=q, bits=bits_of(f), text=expr_text(e), plain=is_plain_literal(e)))
        elif ctor == "new_temperature":
            if len(args) != 3:
                raise Fail("units.rs: %s does not have 3 arguments" % where)
            ids = parse_ident_list(args[0], Fail, where)
            for a in args[1:]:
                if not re.fullmatch(r"[a-z_][a-z0-9_]*", a):
                    raise Fail("units.rs: temperature function %r is not a plain function name in %s" % (a, where))
                if a not in temp_fns:
                    temp_fns.append(a)
            rows.append(dict(kind="temperature", cat="Temperature", ids=ids, toK=args[1], fromK=args[2]))
        else:
            raise Fail("units.rs: unknown constructor Unit::%s" % ctor)
        pos = close + 1
    if len(rows) != expected or expected == 0:
        raise Fail("units.rs: parsed %d of %d Unit::new_* calls" % (len(rows), expected))
    # The order of the rows in the source is not observable (resolution reports every identifier that
    # two units share as ambiguous, whatever their order): emit them in a pinned order, so that moving
    # rows around does not disturb the index-based certificates and examples of the proofs.  New units
    # come after the pinned ones, in source order.
    try:
        import json
        pinned = json.load(open(os.path.join(os.path.dirname(os.path.abspath(__file__)), "pinned_order.json")))["unit_first_ids"]
    except Exception:
        pinned = []
    pos_of = {k: i for i, k in enumerate(pinned)}
    # a unit is recognised by any of its identifiers that is pinned (its first identifier may be reordered too)
    def unit_key(ir):
        i, r = ir
        ks = [pos_of[x] for x in r["ids"] if x in pos_of]
        return (0, min(ks), i) if ks else (1, i, i)
    rows = [r for _, r in sorted(enumerate(rows), key=unit_key)]
    # nothing but the calls, commas and white space may be left inside vec![ ]
    inner = re.fullmatch(r"\s*vec!\s*\[(.*)\]\s*", body, re.S).group(1)
    rest = []
    pos = 0
    while True:
        m = call.search(inner, pos)
        if not m:
            rest.append(inner[pos:])
            break
        rest.append(inner[pos:m.start()])
        pos = matching_paren(inner, m.end() - 1, Fail) + 1
    if "".join(rest).replace(",", "").strip():
        raise Fail("units.rs: get_all_units contains something other than Unit::new_* calls: %r" % "".join(rest).strip()[:60])

    # ---- temperature function bodies
    fns = []
    for name in temp_fns:
        m = re.search(r"fn %s\(\s*([a-z_][a-z0-9_]*)\s*:\s*f64\s*\)\s*->\s*f64\s*\{([^{}]*)\}" % re.escape(name), src)
        if not m:
            raise Fail("units.rs: temperature function %s is not `fn %s(x: f64) -> f64 { <expr> }`" % (name, name))
        var, btxt = m.group(1), m.group(2).strip()
        if ";" in btxt or "return" in btxt:
            raise Fail("units.rs: temperature function %s has statements" % name)
        where = "fn " + name
        e = parse_expr(tokenize(btxt, Fail, where), Fail, where)
        fns.append((name, var, e))

    # ---- lower-casing
    # per identifier; the model lower-cases character by character, so require that this is
    # what to_lowercase does on the table's identifiers (no context rule such as final sigma)
    alphabet = set()
    for r in rows:
        r["lowers"] = [i.lower() for i in r["ids"]]
        for i, lo in zip(r["ids"], r["lowers"]):
            if "".join(ch.lower() for ch in i) != lo:
                raise Fail("units.rs: identifier %r lower-cases context-dependently" % i)
            alphabet.update(lo)
    for ch in alphabet:
        if ch.lower() != ch:
            raise Fail("units.rs: lower-casing is not idempotent on %r" % ch)
    if any(ch in alphabet for ch in "Σσς"):
        raise Fail("units.rs: sigma in an identifier (context-dependent lower-casing) is not modelled")
    # every non-ASCII scalar value whose lower-case differs from itself and stays inside the
    # alphabet of the lower-cased identifiers: only these can take part in a case-insensitive match
    lower_table = []
    for cp in range(128, 0x110000):
        if 0xD800 <= cp <= 0xDFFF:
            continue
        ch = chr(cp)
        lo = ch.lower()
        if lo != ch and all(c in alphabet for c in lo):
            lower_table.append((cp, lo))

    # ---- emit
    L = []
    L.append("import Blots.Model.Num")
    L.append("/- GENERATED by tools/gen_units.py (via tools/gen_tables.py) from /repo/blots-core/src/units.rs — do not edit.")
    L.append("   %d units, %d identifiers, %d categories. -/" % (len(rows), sum(len(r["ids"]) for r in rows), len(variants)))
    L.append("namespace Blots.Gen")
    L.append("")
    L.append("/-- `enum UnitCategory` in declaration order with `UnitCategory::name()`; a unit's `cat` is an index into this list -/")
    L.append("def categories : List (String × String) := [")
    L.append(",\n".join("  (%s, %s)" % (lean_str(v), lean_str(names[v])) for v in variants))
    L.append("]")
    L.append("")
    L.append("/-- the temperature functions named in `get_all_units` -/")
    L.append("inductive TempFn where")
    if fns:
        for name, _, _ in fns:
            L.append("  | %s" % name)
    else:
        L.append("  | none_")
    L.append("  deriving DecidableEq, Repr, Inhabited")
    L.append("")
    L.append("/-- bodies of the temperature functions over exact rationals (literals read as written) -/")
    L.append("def TempFn.evalQ : TempFn → Rat → Rat")
    if fns:
        for name, var, e in fns:
            L.append("  | .%s => fun x => %s   -- %s" % (name, emit_q(e, var, Fail, "fn " + name), expr_text(e)))
    else:
        L.append("  | .none_ => fun x => x")
    L.append("")
    L.append("/-- the same bodies over doubles: literals as the f64 rustc gives them, operators from `ops`, Rust evaluation order -/")
    L.append("def TempFn.evalF (ops : NumOps) : TempFn → F64 → F64")
    if fns:
        for name, var, e in fns:
            L.append("  | .%s => fun x => %s" % (name, emit_f(e, var, Fail, "fn " + name)))
    else:
        L.append("  | .none_ => fun x => x")
    L.append("")
    L.append("def TempFn.name : TempFn → String")
    if fns:
        for name, _, _ in fns:
            L.append("  | .%s => %s" % (name, lean_str(name)))
    else:
        L.append("  | .none_ => \"\"")
    L.append("")
    L.append("/-- `ConversionType`.  `num/den` is the exact rational value of the coefficient expression in the")
    L.append("    source (every literal read as the decimal number written, `PI` as the double it denotes);")
    L.append("    `bits` is the f64 the compiled code holds; `plain` says the expression is a single literal. -/")
    L.append("inductive Conv where")
    L.append("  | linear (num : Int) (den : Nat) (bits : Nat) (plain : Bool)")
    L.append("  | reciprocal (num : Int) (den : Nat) (bits : Nat) (plain : Bool)")
    L.append("  | temperature (toK fromK : TempFn)")
    L.append("  deriving DecidableEq, Repr, Inhabited")
    L.append("")
    L.append("/-- one `Unit::new_*` call.  Identifiers are lists of Unicode scalar values (as `Nat`);")
    L.append("    `lowers` is `str::to_lowercase` of each identifier as computed by the translator. -/")
    L.append("structure UnitRow where")
    L.append("  cat : Nat")
    L.append("  ids : List (List Nat)")
    L.append("  lowers : List (List Nat)")
    L.append("  conv : Conv")
    L.append("  deriving DecidableEq, Repr, Inhabited")
    L.append("")
    L.append("/-- `get_all_units()` in source order -/")
    L.append("def units : List UnitRow := [")
    rl = []
    for n, r in enumerate(rows):
        if r["kind"] == "temperature":
            conv = ".temperature .%s .%s" % (r["toK"], r["fromK"])
            note = "%s / %s" % (r["toK"], r["fromK"])
        else:
            conv = ".%s (%d) %d 0x%016X %s" % (r["kind"], r["q"].numerator, r["q"].denominator, r["bits"], "true" if r["plain"] else "false")
            note = "%s %s" % (r["kind"], r["text"])
        rl.append("  -- #%d %s: %s ; %s\n  { cat := %d, ids := [%s],\n    lowers := [%s],\n    conv := %s }" % (
            n, r["cat"], ", ".join(lean_str(i) for i in r["ids"]).replace("\n", " "), note,
            cat_index[r["cat"]], ", ".join(codes(i) for i in r["ids"]), ", ".join(codes(i) for i in r["lowers"]), conv))
    L.append(",\n".join(rl))
    L.append("]")
    L.append("")
    # ---- lookup trees (certificates for the whole-table proofs)
    # A quadratic scan of the table is minutes of kernel time, so the uniqueness facts are
    # proved from a lookup FUNCTION instead: if some function maps every identifier of unit i
    # to i, no identifier is listed by two units.  The function is a search tree over
    # `Units.encodeCodes` keys; nothing about its shape is trusted — the kernel checks the
    # mapping property against `units` itself (Props/C17, `decide +kernel`).
    n_units = len(rows)

    def key_of(s):
        k = 1
        for ch in reversed(s):
            k = ord(ch) + KEY_BASE * k
        return k

    def build(pairs):
        if not pairs:
            return ".leaf"
        mid = len(pairs) // 2
        k, v = pairs[mid]
        return "(.node %s %d %d %s)" % (build(pairs[:mid]), k, v, build(pairs[mid + 1:]))

    def tree_for(field):
        owners = {}
        for n, r in enumerate(rows):
            for i in r[field]:
                owners.setdefault(key_of(i), set()).add(n)
        return build(sorted((k, (next(iter(o)) if len(o) == 1 else n_units)) for k, o in owners.items()))

    L.append("/-- search tree: key ↦ value -/")
    L.append("inductive IdTree where")
    L.append("  | leaf")
    L.append("  | node (l : IdTree) (key val : Nat) (r : IdTree)")
    L.append("  deriving Repr, Inhabited")
    L.append("")
    L.append("/-- base of the positional key of an identifier (`Units.encodeCodes`) -/")
    L.append("def keyBase : Nat := %d" % KEY_BASE)
    L.append("")
    L.append("/-- key of an identifier ↦ index of the unit listing it (`units.length` if several units do) -/")
    L.append("def idTree : IdTree :=")
    L.append("  " + tree_for("ids"))
    L.append("")
    L.append("/-- key of a lower-cased identifier ↦ index of the unit having an alias with that lower-case")
    L.append("    (`units.length` if several units do) -/")
    L.append("def lowTree : IdTree :=")
    L.append("  " + tree_for("lowers"))
    L.append("")
    L.append("/-- Non-ASCII scalar values whose `to_lowercase` differs from themselves and consists only of")
    L.append("    characters that occur in some lower-cased identifier: (code point, its lower-case).")
    L.append("    Every other non-ASCII character either lower-cases to itself or to something that cannot")
    L.append("    occur in a lower-cased identifier, so treating it as unchanged never changes a match. -/")
    L.append("def lowerTable : List (Nat × List Nat) := [")
    for n, (cp, lo) in enumerate(lower_table):
        L.append("  (%d, %s)%s  -- U+%04X %s ↦ %s" % (cp, codes(lo), "," if n + 1 < len(lower_table) else "", cp, chr(cp), lo))
    L.append("]")
    L.append("")
    L.append("/-- every scalar value occurring in a lower-cased identifier, ascending -/")
    L.append("def lowerAlphabet : List Nat := [" + ", ".join(str(ord(c)) for c in sorted(alphabet)) + "]")
    L.append("")
    L.append("end Blots.Gen")
    text = "\n".join(L) + "\n"
    # "-- comment" after the last element of a list literal must not swallow the bracket: each
    # row comment is on its own line / at end of line before a newline, so this is safe.
    write_if_changed("Units.lean", text)
