#!/usr/bin/env python3
"""Regenerate MANIFEST.json from the per-property descriptions below (run after adding a property)."""
import json, os
V = os.path.join(os.path.dirname(os.path.abspath(__file__)), "..")
props = [json.loads(l) for l in open(os.path.join(V, "properties.jsonl"))]
TECH = "Lean 4 theorems over an executable model of the code; model tied to /repo by tables re-translated every run and by differential correspondence (Rust harness vs model driver); model-free oracles search for a failing input"
CL = {
 "C07": ("Theorems: the Pratt parser model (pest's algorithm configured from the generated precedence table) reads the printer's item sequence of ANY operator tree back to the same tree (unbounded depth, Props/C10 pratt_roundtrip, re-exported); string literals / record keys emitted by the printer are read back by the grammar's string rule; statements never start with '-'; open-ended forms are parenthesised when followed by text; lambda bodies with via/into/where are parenthesised (see Props/C07.lean). Tie: expr_to_source / format_expr at many widths vs the Lean exprSrc / fmtImpl character for character, pest PrattParser vs prattParse on the real pair sequences; oracle parse(src) == parse(format(parse(src),w)) through format_expr, expr_to_source and blots --format on generated programs over every node kind.",
         "Not proved: character-level lexing of whole printed texts and the width-driven layouts (formatter layout functions are `partial` in the model) — covered by correspondence and the reparse oracle only. Trusted: Lean kernel; propext/Classical.choice/Quot.sound; translator; harness serialisation of real ASTs; sampling."),
 "C08": ("Theorems about the blank-line arithmetic of join_statements_with_spacing (gaps clamp to 1..3 newlines and are stable under re-reading), structure of its output, determinism of layout as a function of (AST,width,indent). Tie: join_statements_with_spacing vs the Lean model; formatter strings vs fmtImpl (shared with C07). Oracle: format(format(p)) == format(p) as strings through the library with the drivers' statement logic, the wasm driver (its source re-emitted from the working tree by the translator) and blots --format, for programs with comments and 0-5 blank lines.",
         "Full idempotence is not a theorem (needs a character-level parser model); it is established per run by the oracle on generated programs. Trusted as for C07."),
 "C09": ("Theorems: any expression that contains a comment forces the multi-line path (containsComments e → fmtSingle e has a newline), do-block comments are emitted by the single-line printer; see Props/C09.lean. Oracle: comment sequence (lexer-level scan outside strings) of input == output through library+driver logic, wasm driver, blots --format; fixed probes for every position the property lists. Known finding: comment-only list/record.",
         "The comment-attachment bookkeeping of the parser is not modelled (pest pairs); covered by the oracle. Trusted as for C07."),
 "C10": ("Theorems (Props/C10.lean, all for unbounded depth, over the table regenerated from precedence.rs each run): the Pratt levels are exactly the documented table; operator_info agrees with the parser's binding powers for all 676 pairs; the relational semantics of the Pratt loop is adequate for the executable model; pratt_roundtrip: printing any operator tree with the printer's parenthesisation and parsing it gives the tree back; minimal and full parenthesisation parse identically. Tie: translator (table, rules, spellings, map_infix), Pratt correspondence on real pest pairs. Oracles: all operator pairs/triples and prefix/postfix combinations minimal-vs-reference parenthesisation, layout mutator + fixed line-break probes, and/&&, or/||, not/! evaluate identically, every near-reserved identifier can be bound and referenced in 14 contexts.",
         "The PEG recogniser (grammar.pest, character level) is not modelled: layout-insensitivity and name usability are established by the oracles on generated inputs, not by theorems. Trusted as for C07."),
 "C12": ("Lean theorems (18) over the executable model of Value::equals / Value::compare / the dot operators / ugt..ulte: equivalence on data values ignoring key order, negation, trichotomy, unions, duality, transitivity, congruence, lexicographic prefix, cross-type behaviour, unchecked agreement — for all values, by structural induction (no bound). Tie: equals/compare vs veq/vcmp on all ordered pairs of a boundary-dense pool (systematic near-misses) plus random values incl. NaN/functions; the laws themselves evaluated on the real operators over all pairs/triples, incl. same-variable operands.",
         "Trusted: Lean kernel; axioms propext/Classical.choice/Quot.sound; values modelled as trees (heap pointers followed; the heap's pointer-typing invariant is not modelled); f64 comparison defined on bit patterns; string order on code points (= UTF-8 byte order); correspondence is sampling."),
 "C16": ("Theorems (Props/C16.lean): ofRatio (correct rounding) is exact on every finite double; parseDec of a decimal literal IS correct rounding of its exact value; hex/binary literals < 2^63 are correctly rounded and ≥ 2^63 rejected; underscores ignored; integral text reads back; to_string / emitted source read back under the explicit, per-sample-validated hypothesis that the shortest-digit search succeeds. Tie/validation: Rust {} / {:.0} / {:.14e} / parse and serde_json's number writer vs the exact Lean functions; oracles: every textual path (to_string/to_number, emitted function source, formatter, JSON through the real binary) returns identical bits; literal grammar vs exact reference values.",
         "Assumption ShortestFound validated on every sampled double; float printing/parsing algorithms of Rust/serde_json are compared, not verified."),
 "C17": ("Theorems (36, Props/C17.lean) over the unit table re-translated from units.rs on every run: every identifier of every unit resolves to it (kernel-checked against generated lookup certificates), aliases behave identically, case-insensitive unique resolution, ambiguity/unknown are errors, cross-category never converts (all pairs, by structure), exact-rational algebra: self identity, there-and-back, triangle law for linear/reciprocal/temperature conversions, metric-prefix ratios exact for all 142 instances, coefficients correctly rounded. Tie: resolve_unit / convert bit-for-bit vs the model for every identifier, case variant, ordered pair x magnitudes; oracles evaluate the laws on the real code.",
         "Float rounding ('within floating-point rounding') is validated numerically with derived tolerances, not proved."),
 "C20": ("Theorems (14, Props/C20.lean): thousands separators are well-formed for every digit string / integer and stripping them is a left inverse; sign once; special values named; trimming zeros preserves the value; integers below 2^53 take the integer path and are displayed exactly. Tie: format_display_number vs the step-by-step Lean model (float steps through NumOps). Oracle: an independent exact-arithmetic referee in Lean parses the numeral and measures the error in units of the 15th significant digit for boundary and random doubles.",
         "The 15-digit accuracy on the fractional/scientific paths is NOT a theorem (depends on libm log10/powi); the full statement is kept as a Prop and checked by the exact referee on every sampled double."),
}
claimed = [p for p in CL]
checks = []
for p in props:
    pid = p["id"]
    if pid in CL:
        checks.append({
            "property_id": pid,
            "quick_cmd": "./check %s --tier quick" % pid,
            "thorough_cmd": "./check %s --tier thorough" % pid,
            "evidence_file": "evidence/%s.json" % pid,
            "replay_cmd_template": "./check %s --replay {path}" % pid,
            "engine": "lean4-model+correspondence",
            "level_claimed": {"category": "proof", "text": CL[pid][0], "design_ref": "DESIGN.md §6 " + pid},
            "level_note": CL[pid][1],
            "technique": TECH,
        })
m = {
    "version": 1,
    "setup_cmd": "./setup.sh",
    "hooks": {"guard": "blots_verif",
              "enable": "no hooks are needed: everything used is pub in blots-core or reachable through the blots binary (RUSTFLAGS=--cfg blots_verif would enable them)",
              "baseline_off_cmd": "cd /repo && timeout 1200 cargo test --workspace --no-fail-fast --offline </dev/null",
              "source_commits": [], "add_only": True},
    "engines": [{"name": "lean4-model+correspondence", "path": "lean/ harness/ tools/ check", "serves_properties": sorted(CL),
                 "kind_free_text": "Lean 4 executable model + theorems (lake project lean/), tables regenerated from /repo by tools/gen_tables.py, Rust differential harness against blots-core and the blots binary"}],
    "checks": checks,
    "notes": "See DESIGN.md. fix: commits in /repo repair genuine defects found by the checks (listed in known_findings.json as fixed). Properties not yet claimed are listed under not_applicable until their check is built.",
    "not_applicable": [{"property_id": p["id"], "reason": "check not built yet in this session (work in progress; the technique applies, see DESIGN.md §6)"} for p in props if p["id"] not in CL],
}
json.dump(m, open(os.path.join(V, "MANIFEST.json"), "w"), indent=1)
print("claimed:", sorted(CL))
