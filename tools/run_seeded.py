#!/usr/bin/env python3
"""Apply every seeded change under /verif/seeded to /repo in turn, run the property's quick
check, undo the change, and write seeded/RESULTS.md.  Not registered in MANIFEST.json: this
is how the catch table in DESIGN.md is produced.  Usage: tools/run_seeded.py [ID-mN ...]"""
import json, os, subprocess, sys, time
V = os.path.join(os.path.dirname(os.path.abspath(__file__)), "..")
S = os.path.join(V, "seeded")
names = sys.argv[1:] or sorted(d for d in os.listdir(S) if os.path.isfile(os.path.join(S, d, "patch.diff")))
rows = []
for n in names:
    pid = n.split("-")[0]
    patch = os.path.join(S, n, "patch.diff")
    if subprocess.run(["git", "-C", "/repo", "status", "--porcelain"], capture_output=True, text=True).stdout.strip():
        sys.exit("/repo is not clean")
    if subprocess.run(["git", "-C", "/repo", "apply", "--check", patch]).returncode != 0:
        rows.append((n, "does not apply", "", 0)); continue
    subprocess.run(["git", "-C", "/repo", "apply", patch], check=True)
    t = time.time()
    try:
        p = subprocess.run([os.path.join(V, "check"), pid, "--tier", "quick"], cwd=V, capture_output=True, text=True, timeout=3600)
        out, rc = p.stdout, p.returncode
    except subprocess.TimeoutExpired:
        out, rc = "TIMEOUT", -1
    finally:
        subprocess.run(["git", "-C", "/repo", "checkout", "--", "."], check=True)
    vio = [l for l in out.splitlines() if l.startswith("VIOLATION")]
    what = [l.strip() for l in out.splitlines() if l.strip().startswith("what:")]
    rows.append((n, "caught" if rc == 1 and vio else "MISSED (rc=%s)" % rc, (vio[0] if vio else "") + (" :: " + what[0][:160] if what else ""), int(time.time() - t)))
    print(rows[-1], flush=True)
# keep the rows of changes that were not re-run this time
res = os.path.join(S, "RESULTS.md")
if sys.argv[1:] and os.path.exists(res):
    old = {}
    for l in open(res).read().splitlines()[2:]:
        c = [x.strip() for x in l.strip().strip("|").split(" | ")]
        if len(c) >= 4:
            old[c[0]] = (c[0], c[1], " | ".join(c[2:-1]), int(c[-1]))
    for r in rows:
        old[r[0]] = r
    rows = [old[k] for k in sorted(old)]
with open(res, "w") as f:
    f.write("| seeded change | result | first line reported | seconds |\n|---|---|---|---|\n")
    for r in rows:
        f.write("| %s | %s | %s | %d |\n" % r)
