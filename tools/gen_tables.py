#!/usr/bin/env python3
"""Translator: re-extracts the *tables* of /repo's source into Lean definitions.

Run at the start of every check.  Every table is located by an anchored pattern; if a
pattern no longer matches, the translator fails loudly (exit 3 and a line
`TRANSLATOR-FAILED <what>`): the check then reports that the tie between the code and
the model is broken.  It never falls back to a stale table.

Outputs (only rewritten when their content changes, so lake's cache stays warm):
  lean/Blots/Gen/Prec.lean      PRECEDENCE_TABLE, operator spellings (grammar, both printers),
                                 map_infix rule→operator, Pratt prefix/postfix registration
  lean/Blots/Gen/Builtins.lean  built-in names and arities (from_ident / name / arity / all)
  lean/Blots/Gen/Reserved.lean  reserved words: grammar, printer, the two assignment checks
  lean/Blots/Gen/Units.lean     the unit table
"""
import os
import re
import sys

REPO = os.environ.get("VERIF_REPO", "/repo")
OUT = os.path.join(os.path.dirname(os.path.abspath(__file__)), "..", "lean", "Blots", "Gen")


class Fail(Exception):
    pass


def read(rel):
    with open(os.path.join(REPO, rel), encoding="utf-8") as f:
        return f.read()


def need(m, what):
    if not m:
        raise Fail(what)
    return m


def lean_str(s):
    out = '"'
    for ch in s:
        if ch == '"':
            out += '\\"'
        elif ch == "\\":
            out += "\\\\"
        elif ch == "\n":
            out += "\\n"
        elif ord(ch) < 32:
            out += "\\x%02x" % ord(ch)
        else:
            out += ch
    return out + '"'


def write_if_changed(name, text):
    os.makedirs(OUT, exist_ok=True)
    p = os.path.join(OUT, name)
    old = None
    if os.path.exists(p):
        with open(p, encoding="utf-8") as f:
            old = f.read()
    if old != text:
        with open(p, "w", encoding="utf-8") as f:
            f.write(text)


BINOPS = {
    "Add": "add", "Subtract": "sub", "Multiply": "mul", "Divide": "div", "Modulo": "mod", "Power": "pow",
    "Equal": "eq", "NotEqual": "ne", "Less": "lt", "LessEq": "le", "Greater": "gt", "GreaterEq": "ge",
    "DotEqual": "deq", "DotNotEqual": "dne", "DotLess": "dlt", "DotLessEq": "dle", "DotGreater": "dgt",
    "DotGreaterEq": "dge", "And": "and", "NaturalAnd": "nand", "Or": "or", "NaturalOr": "nor",
    "Via": "via", "Into": "into", "Where": "where_", "Coalesce": "coalesce",
}


def match_arms(body, pat):
    return re.findall(pat, body)


def fn_body(src, header_re, what):
    """text of the function whose header matches header_re (balanced braces)"""
    m = need(re.search(header_re, src), what)
    i = src.index("{", m.end() - 1)
    depth = 0
    j = i
    while j < len(src):
        if src[j] == "{":
            depth += 1
        elif src[j] == "}":
            depth -= 1
            if depth == 0:
                return src[i + 1:j]
        j += 1
    raise Fail(what + " (unbalanced)")


def spelling_table(src, what):
    """the one function of `src` (whatever its name) whose body maps all 26 BinaryOp variants to string
    literals: found by content, so that renaming the helper does not break the tie"""
    found = []
    for m in re.finditer(r"\bfn\s+\w+\s*\([^)]*\)\s*->\s*&'static\s+str\s*\{", src):
        i = src.index("{", m.end() - 1)
        depth, j = 0, i
        while j < len(src):
            if src[j] == "{":
                depth += 1
            elif src[j] == "}":
                depth -= 1
                if depth == 0:
                    break
            j += 1
        arms = re.findall(r'BinaryOp::(\w+)\s*=>\s*"([^"]*)"', src[i:j])
        if len(arms) == 26 and len(set(a for a, _ in arms)) == 26:
            found.append(arms)
    if len(found) != 1:
        raise Fail("%s: expected exactly one function with 26 `BinaryOp::X => \"..\"` arms, found %d" % (what, len(found)))
    return found[0]


# ------------------------------------------------------------------------------- Prec
def gen_prec():
    src = read("blots-core/src/precedence.rs")
    m = need(re.search(r"define_precedence!\s*\{(.*?)\n\}\n", src, re.S), "precedence.rs: define_precedence! invocation")
    inv = m.group(1)
    inv = re.sub(r"//[^\n]*", "", inv)
    rows = []
    groups = re.findall(r"precedence\s+(\d+)\s*,\s*(Left|Right)\s*=>\s*\{(.*?)\}", inv, re.S)
    if not groups:
        raise Fail("precedence.rs: precedence groups")
    for prec, assoc, body in groups:
        for binop, rule in re.findall(r"(\w+)\s*:\s*(\w+)", body):
            if binop not in BINOPS:
                raise Fail("precedence.rs: unknown BinaryOp " + binop)
            rows.append((int(prec), assoc == "Right", BINOPS[binop], rule))
    # how build_pratt_parser registers the non-infix operators (order matters)
    bp = fn_body(src, r"pub fn build_pratt_parser\(\)\s*->\s*PrattParser<Rule>\s*\{", "precedence.rs: build_pratt_parser")
    bp_nc = re.sub(r"//[^\n]*", "", bp)
    if "precedence_groups.sort_by_key(|(prec, _, _)| *prec)" not in bp_nc:
        raise Fail("precedence.rs: build_pratt_parser no longer sorts groups by precedence with a stable sort_by_key")
    if not re.search(r"find\(\|\(p,\s*a,\s*_\)\|\s*\*p\s*==\s*prec\s*&&\s*\*a\s*==\s*assoc\)", bp_nc):
        raise Fail("precedence.rs: build_pratt_parser grouping by (prec, assoc)")
    tail = bp_nc[bp_nc.index("for (_prec, assoc, rules) in precedence_groups"):]
    levels = []
    for stmt in re.findall(r"parser\s*=\s*parser\s*\.op\((.*?)\);", tail, re.S):
        if "op_chain" in stmt:
            continue
        kinds = re.findall(r"Op::(prefix|postfix|infix)\(Rule::(\w+)", stmt)
        if not kinds:
            raise Fail("precedence.rs: unparsed parser.op(...) statement")
        levels.append(kinds)
    if not levels:
        raise Fail("precedence.rs: prefix/postfix registration")

    ats = read("blots-core/src/ast_to_source.rs")
    spell_src = spelling_table(ats, "ast_to_source.rs: operator spelling table (binary_op_to_source)")
    fm = read("blots-core/src/formatter.rs")
    spell_fmt = spelling_table(fm, "formatter.rs: operator spelling table (binary_op_str)")

    # grammar literals of operator rules
    g = read("blots-core/src/grammar.pest")
    gram = {}
    for rule in set(r for _, _, _, r in rows) | {"negation", "invert", "natural_not", "factorial", "spread_operator"}:
        m = need(re.fullmatch(r'\{\s*"([^"]*)"\s*\}', rule_text(g, rule)), "grammar.pest: rule " + rule)
        gram[rule] = m.group(1)
    # map_infix: rule → BinaryOp
    ex = read("blots-core/src/expressions.rs")
    mi = need(re.search(r"\.map_infix\(\|lhs, op, rhs\|(.*?)\.parse\(pairs\)", ex, re.S), "expressions.rs: map_infix")
    infix_map = re.findall(r"Rule::(\w+)\s*=>\s*BinaryOp::(\w+)", mi.group(1))
    if len(infix_map) != 26:
        raise Fail("expressions.rs: map_infix does not have 26 arms")
    # infix_op alternation order in the grammar (PEG ordered choice!)
    infix_order = [x.strip() for x in rule_body(g, "infix_op").split("|")]
    natural_order = [x.strip() for x in rule_body(g, "natural_infix_op").split("|")]
    lambda_natural_order = [x.strip() for x in rule_body(g, "lambda_natural_infix_op").split("|")]

    np = None

    L = []
    L.append("import Blots.Model.Syntax")
    L.append("/- GENERATED by tools/gen_tables.py from /repo — do not edit. -/")
    L.append("namespace Blots.Gen")
    L.append("")
    L.append("/-- rows of `PRECEDENCE_TABLE` (precedence.rs) in source order: (prec, rightAssoc, op, grammar rule) -/")
    L.append("def precTable : List (Nat × Bool × BinOp × String) := [")
    L.append(",\n".join("  (%d, %s, .%s, %s)" % (p, "true" if r else "false", o, lean_str(rule)) for p, r, o, rule in rows))
    L.append("]")
    L.append("")
    L.append("/-- the non-infix `parser.op(...)` registrations of `build_pratt_parser`, in order: (kind, rule) -/")
    L.append("def prattTail : List (List (String × String)) := [")
    L.append(",\n".join("  [" + ", ".join("(%s, %s)" % (lean_str(k), lean_str(r)) for k, r in lvl) + "]" for lvl in levels))
    L.append("]")
    L.append("")
    L.append("/-- `binary_op_to_source` (ast_to_source.rs) -/")
    L.append("def opSpelling : List (BinOp × String) := [")
    L.append(",\n".join("  (.%s, %s)" % (BINOPS[o], lean_str(s)) for o, s in spell_src))
    L.append("]")
    L.append("")
    L.append("/-- `binary_op_str` (formatter.rs) -/")
    L.append("def fmtSpelling : List (BinOp × String) := [")
    L.append(",\n".join("  (.%s, %s)" % (BINOPS[o], lean_str(s)) for o, s in spell_fmt))
    L.append("]")
    L.append("")
    L.append("/-- literal of each operator rule in grammar.pest -/")
    L.append("def grammarLit : List (String × String) := [")
    L.append(",\n".join("  (%s, %s)" % (lean_str(k), lean_str(v)) for k, v in sorted(gram.items())))
    L.append("]")
    L.append("")
    L.append("/-- `map_infix` (expressions.rs): grammar rule ↦ operator -/")
    L.append("def infixMap : List (String × BinOp) := [")
    L.append(",\n".join("  (%s, .%s)" % (lean_str(r), BINOPS[o]) for r, o in infix_map))
    L.append("]")
    L.append("")
    L.append("/-- ordered choice of `infix_op`, `natural_infix_op`, `lambda_natural_infix_op` in grammar.pest -/")
    L.append("def infixOrder : List String := [" + ", ".join(lean_str(x) for x in infix_order) + "]")
    L.append("def naturalOrder : List String := [" + ", ".join(lean_str(x) for x in natural_order) + "]")
    L.append("def lambdaNaturalOrder : List String := [" + ", ".join(lean_str(x) for x in lambda_natural_order) + "]")
    L.append("")
    L.append("end Blots.Gen")
    write_if_changed("Prec.lean", "\n".join(L) + "\n")
    return np


# --------------------------------------------------------------------------- Builtins
def gen_builtins():
    src = read("blots-core/src/functions.rs")
    body = fn_body(src, r"pub fn from_ident\(ident: &str\)\s*->\s*Option<Self>\s*\{", "functions.rs: from_ident")
    from_ident = re.findall(r'"(\w+)"\s*=>\s*Some\(Self::(\w+)\)', body)
    body = fn_body(src, r"pub fn name\(&self\)\s*->\s*&'static str\s*\{", "functions.rs: name")
    names = re.findall(r'Self::(\w+)\s*=>\s*"(\w+)"', body)
    body = fn_body(src, r"pub fn arity\(&self\)\s*->\s*FunctionArity\s*\{", "functions.rs: BuiltInFunction::arity")
    body = re.sub(r"//[^\n]*", "", body)
    body = re.sub(r"#\[cfg[^\]]*\]", "", body)
    ar = {}
    for lhs, rhs in re.findall(r"((?:Self::\w+\s*\|?\s*)+)=>\s*(?:\{\s*)?FunctionArity::(\w+\([^)]*\))", body):
        for v in re.findall(r"Self::(\w+)", lhs):
            ar[v] = rhs
    body = fn_body(src, r"pub fn all\(\)\s*->\s*Vec<Self>\s*\{", "functions.rs: all")
    allv = re.findall(r"Self::(\w+)", body)
    if not (len(from_ident) == len(names) == len(ar) == len(allv)) or len(names) < 60:
        raise Fail("functions.rs: from_ident/name/arity/all tables disagree in size (%d %d %d %d)" % (len(from_ident), len(names), len(ar), len(allv)))

    # the order of the match arms is not observable: emit the tables in a pinned order (new built-ins
    # after the pinned ones, in source order), so that reordering arms does not disturb positional proofs
    try:
        import json
        po = json.load(open(os.path.join(os.path.dirname(os.path.abspath(__file__)), "pinned_order.json")))
    except Exception:
        po = {}
    pi = {k: i for i, k in enumerate(po.get("builtin_idents", []))}
    pv = {k: i for i, k in enumerate(po.get("builtin_variants", []))}
    from_ident = [x for _, x in sorted(enumerate(from_ident), key=lambda t: (0, pi[t[1][0]], t[0]) if t[1][0] in pi else (1, t[0], t[0]))]
    names = [x for _, x in sorted(enumerate(names), key=lambda t: (0, pv[t[1][0]], t[0]) if t[1][0] in pv else (1, t[0], t[0]))]

    def arity(v):
        a = ar[v]
        m = re.match(r"Exact\((\d+)\)", a)
        if m:
            return ".exact %s" % m.group(1)
        m = re.match(r"AtLeast\((\d+)\)", a)
        if m:
            return ".atLeast %s" % m.group(1)
        m = re.match(r"Between\((\d+),\s*(\d+)\)", a)
        if m:
            return ".between %s %s" % (m.group(1), m.group(2))
        raise Fail("functions.rs: arity " + a)

    L = ["/- GENERATED by tools/gen_tables.py from /repo — do not edit. -/", "namespace Blots.Gen", ""]
    L.append("inductive Arity where")
    L.append("  | exact : Nat → Arity")
    L.append("  | atLeast : Nat → Arity")
    L.append("  | between : Nat → Nat → Arity")
    L.append("  deriving DecidableEq, Repr, Inhabited")
    L.append("")
    L.append("/-- `from_ident`: identifier ↦ variant -/")
    L.append("def fromIdent : List (String × String) := [")
    L.append(",\n".join("  (%s, %s)" % (lean_str(i), lean_str(v)) for i, v in from_ident))
    L.append("]")
    L.append("")
    L.append("/-- `name()`: variant ↦ identifier, with `arity()` -/")
    L.append("def builtins : List (String × String × Arity) := [")
    L.append(",\n".join("  (%s, %s, %s)" % (lean_str(v), lean_str(n), arity(v)) for v, n in names))
    L.append("]")
    L.append("")
    L.append("/-- `all()` -/")
    L.append("def allVariants : List String := [" + ", ".join(lean_str(v) for v in allv) + "]")
    L.append("")
    L.append("end Blots.Gen")
    write_if_changed("Builtins.lean", "\n".join(L) + "\n")


# --------------------------------------------------------------------------- Reserved
# The character-level model lean/Blots/Model/Ident.lean was written, rule by rule, for
# exactly these rule texts (whitespace-normalised).  A grammar edit to one of them (e.g.
# dropping `~ !identifier_rest` from `bool`, or reordering `term`) must be followed by an
# edit of the model and of this table; until then the tie is reported broken.
PINNED_RULES = {
    "identifier": '@{ !(reserved_word ~ !identifier_rest) ~ (ASCII_ALPHA | "_")+ ~ identifier_rest* }',
    "input_reference": '@{ "#" ~ (ASCII_ALPHA | "_")+ ~ identifier_rest* }',
    "identifier_rest": '_{ ASCII_ALPHA+ | ASCII_DIGIT+ | "_"+ }',
    "bool": '@{ ("true" | "false") ~ !identifier_rest }',
    "null": '@{ "null" ~ !identifier_rest }',
    "term": "_{ conditional | do_block | lambda | assignment | list | record | bool | string | null"
            " | input_reference | identifier | number | nested_expression }",
    # the operator level, lean/Blots/Model/ExprPeg.lean (the alternatives of infix_op /
    # natural_infix_op and the operator literals are generated: Gen.infixOrder,
    # Gen.naturalOrder, Gen.grammarLit)
    "WHITESPACE": '_{ " " | "\\t" }',
    "plain_newline": '_{ "\\r\\n" | "\\n" }',
    "NEWLINE": "_{ inline_comment? ~ plain_newline }",
    "inline_comment": '_{ "//" ~ (!plain_newline ~ ANY)* }',
    "infix_usage": "_{ (WHITESPACE | NEWLINE)+ ~ natural_infix_op ~ WHITESPACE+"
                   " | (WHITESPACE | NEWLINE)* ~ infix_op ~ (WHITESPACE | NEWLINE)* }",
    "prefix_op": "_{ negation | invert }",
    "natural_prefix_op": "_{ natural_not }",
    "prefix_usage": "_{ natural_prefix_op ~ WHITESPACE+ | prefix_op }",
    "postfix_op": "_{ factorial | access | call_list | dot_access }",
    "expression": "${ prefix_usage* ~ term ~ postfix_op* ~ (infix_usage ~ prefix_usage* ~ term ~ postfix_op*)* }",
    "nested_expression": '_{ "(" ~ (WHITESPACE | NEWLINE)* ~ expression ~ (WHITESPACE | NEWLINE)* ~ ")" }',
    "number": "@{ binary_number | hex_number | decimal_number }",
    "decimal_number": '_{ (integer ~ ("_"+ ~ integer)* ~ ("." ~ ASCII_DIGIT+)? | !integer ~ "." ~ ASCII_DIGIT+) ~ (^"e" ~ integer)? }',
    "integer": '_{ ("+" | "-")? ~ ASCII_DIGIT+ }',
    "dot_access": '{ "." ~ identifier }',
    # postfix forms with a payload (Model/ExprPeg.lean `postOpR`, `argR`, `argsTailR`, `callClose`):
    # `access` / `dot_access` are NORMAL rules (atomic inside the `$` rule `expression`),
    # `call_list` is NON-ATOMIC (implicit WHITESPACE* between its parts)
    "access": '{ "[" ~ NEWLINE* ~ expression ~ NEWLINE* ~ "]" }',
    "call_list": '!{ "(" ~ NEWLINE* ~ (spreadable_expression ~ ("," ~ NEWLINE* ~ spreadable_expression)*)?'
                 ' ~ ("," ~ NEWLINE)? ~ NEWLINE* ~ ")" }',
    "spread_operator": '{ "..." }',
    "spread_expression": "${ spread_operator ~ expression }",
    "spreadable_expression": "_{ spread_expression | expression }",
    # list literals (Model/ExprPeg.lean `termR`, `gapG`, `gapH`, `itemTrail`, `listClose`): NON-ATOMIC
    "comment": '@{ "//" ~ (!plain_newline ~ ANY)* }',
    "eol_comment": '@{ "//" ~ (!plain_newline ~ ANY)* }',
    "list_item": "{ spreadable_expression ~ (WHITESPACE* ~ eol_comment)? }",
    "list": '!{ "[]" | "[" ~ (comment ~ (WHITESPACE | plain_newline)+ | WHITESPACE | plain_newline)*'
            ' ~ (list_item ~ ("," ~ (comment ~ (WHITESPACE | plain_newline)+ | WHITESPACE | plain_newline)* ~ list_item)*)?'
            ' ~ ("," ~ (WHITESPACE | plain_newline)*)?'
            ' ~ (comment ~ (WHITESPACE | plain_newline)* | WHITESPACE | plain_newline)* ~ "]" }',
    # lambdas (Model/ExprPeg.lean `lamR`, `lambdaHead`, `argumentList`, `argumentR`; the flag `lam` of
    # `exprR` / `tailR` / `infixUsage` selects `lambda_infix_usage`)
    "lambda": '${ argument_list ~ WHITESPACE* ~ "=>" ~ (WHITESPACE | NEWLINE)* ~ lambda_expression }',
    "lambda_expression": "${ prefix_usage* ~ lambda_term ~ postfix_op* ~ (lambda_infix_usage ~ prefix_usage* ~ lambda_term ~ postfix_op*)* }",
    "lambda_term": "_{ conditional | do_block | lambda | assignment | list | record | bool | string | null"
                   " | input_reference | identifier | number | nested_expression }",
    "lambda_infix_usage": "_{ (WHITESPACE | NEWLINE)+ ~ lambda_natural_infix_op ~ WHITESPACE+"
                          " | (WHITESPACE | NEWLINE)* ~ infix_op ~ (WHITESPACE | NEWLINE)* }",
    "lambda_natural_infix_op": "_{ natural_and | natural_or }",
    "argument_list": '!{ argument | "(" ~ NEWLINE* ~ (argument ~ ("," ~ NEWLINE* ~ argument)*)? ~ ("," ~ NEWLINE)? ~ NEWLINE* ~ ")" }',
    "argument": "_{ optional_arg | required_arg | rest_arg }",
    "required_arg": "{ identifier }",
    "optional_arg": '{ identifier ~ "?" }',
    "rest_arg": '{ "..." ~ identifier }',
    # string literals (Model/ExprPeg.lean `stringRule`): no escapes, the literal ends at its opening quote
    "string_value": "@{ (!PEEK ~ ANY)* }",
    "string": '${ PUSH("\\"" | "\'") ~ string_value ~ POP }',
    # record literals (Model/ExprPeg.lean `recKeyR`, `recPairR`, `recItemR`, `recTailR`, `recordClose`):
    # `record` and `record_pair` NON-ATOMIC, the normal rules between them inherit that
    "record_key_static": "{ identifier | string }",
    "record_key_dynamic": '{ "[" ~ expression ~ "]" }',
    "record_key": "_{ record_key_static | record_key_dynamic }",
    "record_pair": '!{ record_key ~ ":" ~ NEWLINE* ~ expression }',
    "record_shorthand": "{ identifier }",
    "record_item": "{ (record_pair | record_shorthand | spread_expression) ~ (WHITESPACE* ~ eol_comment)? }",
    "record": '!{ "{}" | "{" ~ (comment ~ (WHITESPACE | plain_newline)+ | WHITESPACE | plain_newline)*'
              ' ~ (record_item ~ ("," ~ (comment ~ (WHITESPACE | plain_newline)+ | WHITESPACE | plain_newline)* ~ record_item)*)?'
              ' ~ ("," ~ (WHITESPACE | plain_newline)*)?'
              ' ~ (comment ~ (WHITESPACE | plain_newline)* | WHITESPACE | plain_newline)* ~ "}" }',
    # do-blocks (Model/ExprPeg.lean `doR`, `doStmtsR`, `doStmtR`, `doHead`, `stmtSep`, `retHead`):
    # compound-atomic, explicit layout; comments are read and dropped
    "do_statement": "{ (expression | comment) ~ (WHITESPACE* ~ comment)? }",
    "return_statement": '${ WHITESPACE* ~ "return" ~ WHITESPACE+ ~ expression }',
    "do_block": '${ "do" ~ (WHITESPACE | plain_newline)+ ~ "{" ~ (comment ~ (WHITESPACE | plain_newline)+ | WHITESPACE | plain_newline)*'
                ' ~ (WHITESPACE* ~ do_statement ~ WHITESPACE* ~ (plain_newline+ | ";")'
                ' ~ (comment ~ (WHITESPACE | plain_newline)+ | WHITESPACE | plain_newline)*)*'
                ' ~ (comment ~ (WHITESPACE | plain_newline)* | WHITESPACE | plain_newline)*'
                ' ~ return_statement ~ (WHITESPACE | plain_newline)* ~ "}" }',
    # assignment as a term (Model/ExprPeg.lean `asgR`, `asgHead`): NON-ATOMIC, the value is an `expression`
    "assignment": '!{ identifier ~ "=" ~ expression }',
    # conditionals (Model/ExprPeg.lean `condR`, `ifHead`, `kwGap`): atomic, explicit layout
    "conditional": '${ "if" ~ WHITESPACE+ ~ expression ~ (WHITESPACE | NEWLINE)+ ~ "then" ~ (WHITESPACE | NEWLINE)+ ~ expression'
                   ' ~ (WHITESPACE | NEWLINE)+ ~ "else" ~ (WHITESPACE | NEWLINE)+ ~ expression }',
}
# rules of which only the beginning matters to the model (`termStart`/`termWord` argue that
# they cannot match a bare word because a space / "=" / sign must follow)
PINNED_PREFIXES = {
    "conditional": '${ "if" ~ WHITESPACE+ ~',
    "do_block": '${ "do" ~ (WHITESPACE | plain_newline)+ ~',
    "output_declaration": '${ "output" ~ WHITESPACE+ ~',
    "assignment": '!{ identifier ~ "=" ~',
    "prefix_usage": "_{ natural_prefix_op ~ WHITESPACE+ | prefix_op }",
    "number": "@{ binary_number | hex_number | decimal_number }",
}


_GRAMMAR_CACHE = {}


def grammar_rules(g):
    """name -> text of the rule after `=` (modifier and braces included), comments removed and white
    space normalised to single blanks, whatever the line layout of the file.  A small scanner: string
    literals ("..", with backslash escapes) and character literals ('.') are copied verbatim, `//` starts a
    comment only outside them, a rule ends at the brace that closes its body."""
    if id(g) in _GRAMMAR_CACHE:
        return _GRAMMAR_CACHE[id(g)]
    toks = []          # (kind, text): kind in {"str", "sym", "ws"}
    i, n = 0, len(g)
    while i < n:
        c = g[i]
        if c == '"':
            j = i + 1
            while j < n and g[j] != '"':
                j += 2 if g[j] == "\\" else 1
            toks.append(("str", g[i:j + 1]))
            i = j + 1
        elif c == "'":
            j = i + 1
            while j < n and g[j] != "'":
                j += 2 if g[j] == "\\" else 1
            toks.append(("str", g[i:j + 1]))
            i = j + 1
        elif g.startswith("//", i):
            j = g.find("\n", i)
            i = n if j < 0 else j
        elif c.isspace():
            while i < n and g[i].isspace():
                i += 1
            toks.append(("ws", " "))
        else:
            toks.append(("sym", c))
            i += 1
    rules = {}
    k = 0
    while k < len(toks):
        # rule name
        while k < len(toks) and toks[k][0] == "ws":
            k += 1
        if k >= len(toks):
            break
        name = ""
        while k < len(toks) and toks[k][0] == "sym" and (toks[k][1].isalnum() or toks[k][1] == "_"):
            name += toks[k][1]
            k += 1
        while k < len(toks) and toks[k][0] == "ws":
            k += 1
        if not name or k >= len(toks) or toks[k] != ("sym", "="):
            raise Fail("grammar.pest: cannot split into rules near %r" % "".join(t for _, t in toks[max(0, k - 5):k + 5]))
        k += 1
        depth, body, started = 0, [], False
        while k < len(toks):
            kind, t = toks[k]
            if kind != "ws":
                body.append(t)
            k += 1
            if kind == "sym" and t == "{":
                depth += 1
                started = True
            elif kind == "sym" and t == "}":
                depth -= 1
                if started and depth == 0:
                    break
        rules[name] = "".join(body)
    _GRAMMAR_CACHE[id(g)] = rules
    return rules


def squash_rule(text):
    """a rule text without the white space outside its string / character literals (white space is never
    significant there in a pest grammar)"""
    out, i, n = [], 0, len(text)
    while i < n:
        c = text[i]
        if c in "\"'":
            j = i + 1
            while j < n and text[j] != c:
                j += 2 if text[j] == "\\" else 1
            out.append(text[i:j + 1])
            i = j + 1
        elif c.isspace():
            i += 1
        else:
            out.append(c)
            i += 1
    return "".join(out)


def rule_text(g, name):
    r = grammar_rules(g)
    if name not in r:
        raise Fail("grammar.pest: rule %s not found" % name)
    return r[name]


def rule_body(g, name, what=None):
    """the text between the outer braces of a rule"""
    t = rule_text(g, name)
    i, j = t.find("{"), t.rfind("}")
    if i < 0 or j < i:
        raise Fail(what or ("grammar.pest: rule " + name))
    return t[i + 1:j].strip()


def check_pinned_rules(g):
    for name, want in PINNED_RULES.items():
        got = rule_text(g, name)
        if got != squash_rule(want):
            raise Fail("grammar.pest: rule `%s` is now `%s`; lean/Blots/Model/Ident.lean / ExprPeg.lean model `%s`" % (name, got, want))
    for name, want in PINNED_PREFIXES.items():
        got = rule_text(g, name)
        if not got.startswith(squash_rule(want)):
            raise Fail("grammar.pest: rule `%s` no longer starts with `%s` (now `%s`); see lean/Blots/Model/Ident.lean `termStart`" % (name, want, got[:80]))


def gen_reserved():
    g = read("blots-core/src/grammar.pest")
    # the alternatives IN GRAMMAR ORDER (PEG ordered choice: Model/Ident.lean `reservedWord`
    # tries them in this order); every alternative must be a plain string literal
    alts = [a.strip() for a in rule_body(g, "reserved_word").split("|")]
    for a in alts:
        if not re.fullmatch(r'"\w+"', a):
            raise Fail("grammar.pest: reserved_word alternative %r is not a plain string literal" % a)
    gram = [a[1:-1] for a in alts]
    check_pinned_rules(g)
    ats = read("blots-core/src/ast_to_source.rs")
    # whatever the container type (slice, array, lazily built set): the first bracketed list of
    # string literals after the name RESERVED_WORDS
    m = need(re.search(r"\bRESERVED_WORDS\b[^\[;]*(?:\[[^\]]*\][^\[;]*)*?\[((?:\s*\"\w+\"\s*,?)+)\s*\]", ats, re.S), "ast_to_source.rs: RESERVED_WORDS")
    printer = re.findall(r'"(\w+)"', m.group(1))
    ex = read("blots-core/src/expressions.rs")
    # do-block assignment keyword check
    m = need(re.search(r"fn evaluate_do_block_expr\(.*?matches!\(\s*ident\.as_str\(\),(.*?)\)\s*\{", ex, re.S), "expressions.rs: do-block keyword check")
    do_kw = re.findall(r'"(\w+)"', m.group(1))
    # top-level assignment keyword check
    # either a chain `ident == "if" || ...` or `matches!(ident.as_str(), "if" | ...)`
    reg = need(re.search(r"Expr::Assignment \{ ident, value \} => \{(.*?)let already_defined", ex, re.S), "expressions.rs: assignment arm")
    reg = reg.group(1)
    m1 = re.search(r"if ((?:\s*ident == \"\w+\"\s*(?:\|\|)?)+)\s*\{\s*return Err", reg, re.S)
    m2 = re.search(r"matches!\(\s*ident\.as_str\(\)\s*,((?:\s*\"\w+\"\s*\|?)+)\)\s*\{\s*return Err", reg, re.S)
    mk = need(m1 or m2, "expressions.rs: assignment keyword check")
    top_kw = re.findall(r'"(\w+)"', mk.group(1))
    if not gram or not printer or not do_kw or not top_kw:
        raise Fail("reserved word lists empty")
    # identifiers the evaluator treats specially
    m = need(re.search(r'Expr::Identifier\(ident\) => match ident\.as_str\(\) \{(.*?)_ => bindings', ex, re.S), "expressions.rs: special identifiers")
    special = []
    for pat in re.findall(r'((?:"\w+"\s*\|?\s*)+)=>', m.group(1)):
        special += re.findall(r'"(\w+)"', pat)
    heap = read("blots-core/src/heap.rs")
    consts = re.findall(r'String::from\("(\w+)"\),\s*PrimitiveValue::Number\(([^)]*(?:\([^)]*\))?[^)]*)\)', heap)
    if len(consts) < 4:
        raise Fail("heap.rs: CONSTANTS")
    L = ["/- GENERATED by tools/gen_tables.py from /repo — do not edit. -/", "namespace Blots.Gen", ""]
    L.append("/-- grammar.pest `reserved_word` -/")
    L.append("def grammarReserved : List String := [" + ", ".join(lean_str(x) for x in gram) + "]")
    L.append("/-- ast_to_source.rs `RESERVED_WORDS` -/")
    L.append("def printerReserved : List String := [" + ", ".join(lean_str(x) for x in printer) + "]")
    L.append("/-- expressions.rs: names refused by a top-level assignment -/")
    L.append("def assignKeywords : List String := [" + ", ".join(lean_str(x) for x in top_kw) + "]")
    L.append("/-- expressions.rs: names refused by a do-block assignment -/")
    L.append("def doAssignKeywords : List String := [" + ", ".join(lean_str(x) for x in do_kw) + "]")
    L.append("/-- expressions.rs: identifiers evaluated specially -/")
    L.append("def specialIdents : List String := [" + ", ".join(lean_str(x) for x in special) + "]")
    L.append("/-- heap.rs `CONSTANTS` keys, in insertion order -/")
    L.append("def constantNames : List String := [" + ", ".join(lean_str(k) for k, _ in consts) + "]")
    L.append("")
    L.append("end Blots.Gen")
    write_if_changed("Reserved.lean", "\n".join(L) + "\n")


# ------------------------------------------------------------------- wasm format driver
def gen_wasm():
    """blots-wasm is a cdylib returning JsValue, so its `format_blots` cannot be called natively.
    Re-emit its body (JS-specific conversions rewritten) together with every private helper function of
    lib.rs it (transitively) calls, as harness/src/gen_wasm_format.rs, so the harness always runs the
    statement loop the working tree contains."""
    src = read("blots-wasm/src/lib.rs")
    sig = r"pub fn format_blots\(source: &str, max_columns: Option<usize>\) -> Result<JsValue, JsError> \{"
    need(re.search(sig, src), "blots-wasm/src/lib.rs: format_blots signature")
    body = fn_body(src, sig, "lib.rs: format_blots body")
    body = re.sub(r"JsError::new\(&format!\(", "(format!(", body)
    body = re.sub(r'JsError::new\("([^"]*)"\)', r'"\1".to_string()', body)
    body = re.sub(r"JsError::new\(&(\w+)\)", r"(\1).to_string()", body)
    # the JS serialisation of the result at the end: `Ok(x.serialize(&serializer)?)` -> `Ok(x)`
    body = re.sub(r"(?:\n\s*//[^\n]*)?\n\s*let serializer = serde_wasm_bindgen::Serializer::json_compatible\(\);", "", body)
    body = re.sub(r"Ok\((\w+)\.serialize\(&serializer\)\?\)", r"Ok(\1)", body)
    for bad in ("JsError", "JsValue", "serde_wasm_bindgen", "serializer"):
        if bad in body:
            raise Fail("blots-wasm/src/lib.rs: format_blots uses %s in a way the translator does not know" % bad)
    # private helper functions of the crate, by name
    helpers = {}
    for m in re.finditer(r"^(?:#\[[^\]]*\]\s*\n)*(?:pub(?:\([^)]*\))?\s+)?fn\s+(\w+)\s*(?:<[^>]*>)?\s*\(", src, re.M):
        name = m.group(1)
        if name == "format_blots":
            continue
        head_start = m.start()
        k = src.index("{", m.end())
        # the body starts at the first `{` after the parameter list and return type
        depth, q = 0, k
        while q < len(src):
            if src[q] == "{":
                depth += 1
            elif src[q] == "}":
                depth -= 1
                if depth == 0:
                    break
            q += 1
        helpers[name] = src[head_start:q + 1]
    used, todo = [], [body]
    while todo:
        text = todo.pop()
        for name in helpers:
            if name not in used and re.search(r"\b%s\s*\(" % re.escape(name), text):
                used.append(name)
                todo.append(helpers[name])
    extra = []
    for name in used:
        t = helpers[name]
        if "wasm_bindgen" in t.split("fn", 1)[0] or any(b in t for b in ("JsError", "JsValue", "serde_wasm_bindgen")):
            raise Fail("blots-wasm/src/lib.rs: format_blots calls `%s`, which is JS-specific" % name)
        extra.append(re.sub(r"^pub(?:\([^)]*\))?\s+fn", "fn", t, flags=re.M))
    # the crate's own imports from blots_core, verbatim (a change may add helpers)
    uses = re.findall(r"^use blots_core::(?:\{.*?\}|[^;{]*);", src, re.S | re.M)
    if not uses:
        raise Fail("blots-wasm/src/lib.rs: no `use blots_core::` statements found")
    text = ("// GENERATED by tools/gen_tables.py from /repo/blots-wasm/src/lib.rs (format_blots) - do not edit.\n"
            "#![allow(unused_imports, dead_code, clippy::all)]\n" + "\n".join(uses) + "\n\n"
            "pub fn format_blots(source: &str, max_columns: Option<usize>) -> Result<String, String> {" + body + "}\n"
            + "".join("\n" + e + "\n" for e in extra))
    hp = os.path.join(os.path.dirname(os.path.abspath(__file__)), "..", "harness", "src", "gen_wasm_format.rs")
    old = open(hp, encoding="utf-8").read() if os.path.exists(hp) else None
    if old != text:
        with open(hp, "w", encoding="utf-8") as f:
            f.write(text)


def main():
    """every component is translated on its own: a component that can no longer be extracted keeps its
    previous generated file (so that everything still builds) and is reported as
    `TRANSLATOR-FAILED <component>: <what>`; ./check turns that into a broken tie for exactly the
    properties that depend on the component"""
    import gen_units
    comps = [("prec", gen_prec), ("builtins", gen_builtins), ("reserved", gen_reserved), ("wasm", gen_wasm),
             ("units", lambda: gen_units.gen(read, write_if_changed, lean_str, Fail, fn_body))]
    failed = False
    for name, fn in comps:
        try:
            fn()
        except Fail as e:
            failed = True
            print("TRANSLATOR-FAILED %s: %s" % (name, e))
        except Exception as e:  # a pattern that matched something unexpected
            failed = True
            print("TRANSLATOR-FAILED %s: %s: %s" % (name, type(e).__name__, e))
    if failed:
        sys.exit(3)
    print("translator ok")


if __name__ == "__main__":
    sys.path.insert(0, os.path.dirname(os.path.abspath(__file__)))
    main()
