#!/usr/bin/env python3
"""Translator: re-extracts the *tables* of /repo's source into Lean definitions.

Run at the start of every check.  Every table is located by an anchored pattern; if a
pattern no longer matches, the translator fails loudly (exit 3 and a line
`TRANSLATOR-FAILED <what>`): the check then reports that the tie between the code and
the model is broken.  It never falls back to a stale table.

Outputs (only rewritten when their content changes, so lake's cache stays warm):
  lean/Blots/Gen/Prec.lean      PRECEDENCE_TABLE, operator spellings (grammar, both printers),
                                 map_infix rule→operator, Pratt prefix/postfix registration
  lean/Blots/Gen/Builtins.lean  built-in names and arities (from_ident / name / arity / all)
  lean/Blots/Gen/Reserved.lean  reserved words: grammar, printer, the two assignment checks
  lean/Blots/Gen/Units.lean     the unit table
"""
import os
import re
import sys

REPO = os.environ.get("VERIF_REPO", "/repo")
OUT = os.path.join(os.path.dirname(os.path.abspath(__file__)), "..", "lean", "Blots", "Gen")


class Fail(Exception):
    pass


def read(rel):
    with open(os.path.join(REPO, rel), encoding="utf-8") as f:
        return f.read()


def need(m, what):
    if not m:
        raise Fail(what)
    return m


def lean_str(s):
    out = '"'
    for ch in s:
        if ch == '"':
            out += '\\"'
        elif ch == "\\":
            out += "\\\\"
        elif ch == "\n":
            out += "\\n"
        elif ord(ch) < 32:
            out += "\\x%02x" % ord(ch)
        else:
            out += ch
    return out + '"'


def write_if_changed(name, text):
    os.makedirs(OUT, exist_ok=True)
    p = os.path.join(OUT, name)
    old = None
    if os.path.exists(p):
        with open(p, encoding="utf-8") as f:
            old = f.read()
    if old != text:
        with open(p, "w", encoding="utf-8") as f:
            f.write(text)


BINOPS = {
    "Add": "add", "Subtract": "sub", "Multiply": "mul", "Divide": "div", "Modulo": "mod", "Power": "pow",
    "Equal": "eq", "NotEqual": "ne", "Less": "lt", "LessEq": "le", "Greater": "gt", "GreaterEq": "ge",
    "DotEqual": "deq", "DotNotEqual": "dne", "DotLess": "dlt", "DotLessEq": "dle", "DotGreater": "dgt",
    "DotGreaterEq": "dge", "And": "and", "NaturalAnd": "nand", "Or": "or", "NaturalOr": "nor",
    "Via": "via", "Into": "into", "Where": "where_", "Coalesce": "coalesce",
}


def match_arms(body, pat):
    return re.findall(pat, body)


def fn_body(src, header_re, what):
    """text of the function whose header matches header_re (balanced braces)"""
    m = need(re.search(header_re, src), what)
    i = src.index("{", m.end() - 1)
    depth = 0
    j = i
    while j < len(src):
        if src[j] == "{":
            depth += 1
        elif src[j] == "}":
            depth -= 1
            if depth == 0:
                return src[i + 1:j]
        j += 1
    raise Fail(what + " (unbalanced)")


# ------------------------------------------------------------------------------- Prec
def gen_prec():
    src = read("blots-core/src/precedence.rs")
    m = need(re.search(r"define_precedence!\s*\{(.*?)\n\}\n", src, re.S), "precedence.rs: define_precedence! invocation")
    inv = m.group(1)
    inv = re.sub(r"//[^\n]*", "", inv)
    rows = []
    groups = re.findall(r"precedence\s+(\d+)\s*,\s*(Left|Right)\s*=>\s*\{(.*?)\}", inv, re.S)
    if not groups:
        raise Fail("precedence.rs: precedence groups")
    for prec, assoc, body in groups:
        for binop, rule in re.findall(r"(\w+)\s*:\s*(\w+)", body):
            if binop not in BINOPS:
                raise Fail("precedence.rs: unknown BinaryOp " + binop)
            rows.append((int(prec), assoc == "Right", BINOPS[binop], rule))
    # how build_pratt_parser registers the non-infix operators (order matters)
    bp = fn_body(src, r"pub fn build_pratt_parser\(\)\s*->\s*PrattParser<Rule>\s*\{", "precedence.rs: build_pratt_parser")
    bp_nc = re.sub(r"//[^\n]*", "", bp)
    if "precedence_groups.sort_by_key(|(prec, _, _)| *prec)" not in bp_nc:
        raise Fail("precedence.rs: build_pratt_parser no longer sorts groups by precedence with a stable sort_by_key")
    if not re.search(r"find\(\|\(p,\s*a,\s*_\)\|\s*\*p\s*==\s*prec\s*&&\s*\*a\s*==\s*assoc\)", bp_nc):
        raise Fail("precedence.rs: build_pratt_parser grouping by (prec, assoc)")
    tail = bp_nc[bp_nc.index("for (_prec, assoc, rules) in precedence_groups"):]
    levels = []
    for stmt in re.findall(r"parser\s*=\s*parser\s*\.op\((.*?)\);", tail, re.S):
        if "op_chain" in stmt:
            continue
        kinds = re.findall(r"Op::(prefix|postfix|infix)\(Rule::(\w+)", stmt)
        if not kinds:
            raise Fail("precedence.rs: unparsed parser.op(...) statement")
        levels.append(kinds)
    if not levels:
        raise Fail("precedence.rs: prefix/postfix registration")

    ats = read("blots-core/src/ast_to_source.rs")
    body = fn_body(ats, r"fn binary_op_to_source\(op: &BinaryOp\)\s*->\s*&'static str\s*\{", "ast_to_source.rs: binary_op_to_source")
    spell_src = re.findall(r'BinaryOp::(\w+)\s*=>\s*"([^"]*)"', body)
    fm = read("blots-core/src/formatter.rs")
    body = fn_body(fm, r"fn binary_op_str\(op: &BinaryOp\)\s*->\s*&'static str\s*\{", "formatter.rs: binary_op_str")
    spell_fmt = re.findall(r'BinaryOp::(\w+)\s*=>\s*"([^"]*)"', body)
    if len(spell_src) != 26 or len(spell_fmt) != 26:
        raise Fail("operator spelling tables do not have 26 rows")

    # grammar literals of operator rules
    g = read("blots-core/src/grammar.pest")
    gram = {}
    for rule in set(r for _, _, _, r in rows) | {"negation", "invert", "natural_not", "factorial", "spread_operator"}:
        m = need(re.search(r"^%s\s*=\s*\{\s*\"([^\"]*)\"\s*\}" % re.escape(rule), g, re.M), "grammar.pest: rule " + rule)
        gram[rule] = m.group(1)
    # map_infix: rule → BinaryOp
    ex = read("blots-core/src/expressions.rs")
    mi = need(re.search(r"\.map_infix\(\|lhs, op, rhs\|(.*?)\.parse\(pairs\)", ex, re.S), "expressions.rs: map_infix")
    infix_map = re.findall(r"Rule::(\w+)\s*=>\s*BinaryOp::(\w+)", mi.group(1))
    if len(infix_map) != 26:
        raise Fail("expressions.rs: map_infix does not have 26 arms")
    # infix_op alternation order in the grammar (PEG ordered choice!)
    m = need(re.search(r"^infix_op\s*=\s*_\{(.*?)\}", g, re.M), "grammar.pest: infix_op")
    infix_order = [x.strip() for x in m.group(1).split("|")]
    m = need(re.search(r"^natural_infix_op\s*=\s*_\{(.*?)\}", g, re.M), "grammar.pest: natural_infix_op")
    natural_order = [x.strip() for x in m.group(1).split("|")]
    m = need(re.search(r"^lambda_natural_infix_op\s*=\s*_\{(.*?)\}", g, re.M), "grammar.pest: lambda_natural_infix_op")
    lambda_natural_order = [x.strip() for x in m.group(1).split("|")]

    # needs_parens_in_binop : the set of "non-associative" parents, kept as data
    np = fn_body(ats, r"pub fn needs_parens_in_binop\(", "ast_to_source.rs: needs_parens_in_binop")

    L = []
    L.append("import Blots.Model.Syntax")
    L.append("/- GENERATED by tools/gen_tables.py from /repo — do not edit. -/")
    L.append("namespace Blots.Gen")
    L.append("")
    L.append("/-- rows of `PRECEDENCE_TABLE` (precedence.rs) in source order: (prec, rightAssoc, op, grammar rule) -/")
    L.append("def precTable : List (Nat × Bool × BinOp × String) := [")
    L.append(",\n".join("  (%d, %s, .%s, %s)" % (p, "true" if r else "false", o, lean_str(rule)) for p, r, o, rule in rows))
    L.append("]")
    L.append("")
    L.append("/-- the non-infix `parser.op(...)` registrations of `build_pratt_parser`, in order: (kind, rule) -/")
    L.append("def prattTail : List (List (String × String)) := [")
    L.append(",\n".join("  [" + ", ".join("(%s, %s)" % (lean_str(k), lean_str(r)) for k, r in lvl) + "]" for lvl in levels))
    L.append("]")
    L.append("")
    L.append("/-- `binary_op_to_source` (ast_to_source.rs) -/")
    L.append("def opSpelling : List (BinOp × String) := [")
    L.append(",\n".join("  (.%s, %s)" % (BINOPS[o], lean_str(s)) for o, s in spell_src))
    L.append("]")
    L.append("")
    L.append("/-- `binary_op_str` (formatter.rs) -/")
    L.append("def fmtSpelling : List (BinOp × String) := [")
    L.append(",\n".join("  (.%s, %s)" % (BINOPS[o], lean_str(s)) for o, s in spell_fmt))
    L.append("]")
    L.append("")
    L.append("/-- literal of each operator rule in grammar.pest -/")
    L.append("def grammarLit : List (String × String) := [")
    L.append(",\n".join("  (%s, %s)" % (lean_str(k), lean_str(v)) for k, v in sorted(gram.items())))
    L.append("]")
    L.append("")
    L.append("/-- `map_infix` (expressions.rs): grammar rule ↦ operator -/")
    L.append("def infixMap : List (String × BinOp) := [")
    L.append(",\n".join("  (%s, .%s)" % (lean_str(r), BINOPS[o]) for r, o in infix_map))
    L.append("]")
    L.append("")
    L.append("/-- ordered choice of `infix_op`, `natural_infix_op`, `lambda_natural_infix_op` in grammar.pest -/")
    L.append("def infixOrder : List String := [" + ", ".join(lean_str(x) for x in infix_order) + "]")
    L.append("def naturalOrder : List String := [" + ", ".join(lean_str(x) for x in natural_order) + "]")
    L.append("def lambdaNaturalOrder : List String := [" + ", ".join(lean_str(x) for x in lambda_natural_order) + "]")
    L.append("")
    L.append("end Blots.Gen")
    write_if_changed("Prec.lean", "\n".join(L) + "\n")
    return np


# --------------------------------------------------------------------------- Builtins
def gen_builtins():
    src = read("blots-core/src/functions.rs")
    body = fn_body(src, r"pub fn from_ident\(ident: &str\)\s*->\s*Option<Self>\s*\{", "functions.rs: from_ident")
    from_ident = re.findall(r'"(\w+)"\s*=>\s*Some\(Self::(\w+)\)', body)
    body = fn_body(src, r"pub fn name\(&self\)\s*->\s*&'static str\s*\{", "functions.rs: name")
    names = re.findall(r'Self::(\w+)\s*=>\s*"(\w+)"', body)
    body = fn_body(src, r"pub fn arity\(&self\)\s*->\s*FunctionArity\s*\{", "functions.rs: BuiltInFunction::arity")
    body = re.sub(r"//[^\n]*", "", body)
    body = re.sub(r"#\[cfg[^\]]*\]", "", body)
    ar = {}
    for lhs, rhs in re.findall(r"((?:Self::\w+\s*\|?\s*)+)=>\s*(?:\{\s*)?FunctionArity::(\w+\([^)]*\))", body):
        for v in re.findall(r"Self::(\w+)", lhs):
            ar[v] = rhs
    body = fn_body(src, r"pub fn all\(\)\s*->\s*Vec<Self>\s*\{", "functions.rs: all")
    allv = re.findall(r"Self::(\w+)", body)
    if not (len(from_ident) == len(names) == len(ar) == len(allv)) or len(names) < 60:
        raise Fail("functions.rs: from_ident/name/arity/all tables disagree in size (%d %d %d %d)" % (len(from_ident), len(names), len(ar), len(allv)))

    def arity(v):
        a = ar[v]
        m = re.match(r"Exact\((\d+)\)", a)
        if m:
            return ".exact %s" % m.group(1)
        m = re.match(r"AtLeast\((\d+)\)", a)
        if m:
            return ".atLeast %s" % m.group(1)
        m = re.match(r"Between\((\d+),\s*(\d+)\)", a)
        if m:
            return ".between %s %s" % (m.group(1), m.group(2))
        raise Fail("functions.rs: arity " + a)

    L = ["/- GENERATED by tools/gen_tables.py from /repo — do not edit. -/", "namespace Blots.Gen", ""]
    L.append("inductive Arity where")
    L.append("  | exact : Nat → Arity")
    L.append("  | atLeast : Nat → Arity")
    L.append("  | between : Nat → Nat → Arity")
    L.append("  deriving DecidableEq, Repr, Inhabited")
    L.append("")
    L.append("/-- `from_ident`: identifier ↦ variant -/")
    L.append("def fromIdent : List (String × String) := [")
    L.append(",\n".join("  (%s, %s)" % (lean_str(i), lean_str(v)) for i, v in from_ident))
    L.append("]")
    L.append("")
    L.append("/-- `name()`: variant ↦ identifier, with `arity()` -/")
    L.append("def builtins : List (String × String × Arity) := [")
    L.append(",\n".join("  (%s, %s, %s)" % (lean_str(v), lean_str(n), arity(v)) for v, n in names))
    L.append("]")
    L.append("")
    L.append("/-- `all()` -/")
    L.append("def allVariants : List String := [" + ", ".join(lean_str(v) for v in allv) + "]")
    L.append("")
    L.append("end Blots.Gen")
    write_if_changed("Builtins.lean", "\n".join(L) + "\n")


# --------------------------------------------------------------------------- Reserved
# The character-level model lean/Blots/Model/Ident.lean was written, rule by rule, for
# exactly these rule texts (whitespace-normalised).  A grammar edit to one of them (e.g.
# dropping `~ !identifier_rest` from `bool`, or reordering `term`) must be followed by an
# edit of the model and of this table; until then the tie is reported broken.
PINNED_RULES = {
    "identifier": '@{ !(reserved_word ~ !identifier_rest) ~ (ASCII_ALPHA | "_")+ ~ identifier_rest* }',
    "input_reference": '@{ "#" ~ (ASCII_ALPHA | "_")+ ~ identifier_rest* }',
    "identifier_rest": '_{ ASCII_ALPHA+ | ASCII_DIGIT+ | "_"+ }',
    "bool": '@{ ("true" | "false") ~ !identifier_rest }',
    "null": '@{ "null" ~ !identifier_rest }',
    "term": "_{ conditional | do_block | lambda | assignment | list | record | bool | string | null"
            " | input_reference | identifier | number | nested_expression }",
    # the operator level, lean/Blots/Model/ExprPeg.lean (the alternatives of infix_op /
    # natural_infix_op and the operator literals are generated: Gen.infixOrder,
    # Gen.naturalOrder, Gen.grammarLit)
    "WHITESPACE": '_{ " " | "\\t" }',
    "plain_newline": '_{ "\\r\\n" | "\\n" }',
    "NEWLINE": "_{ inline_comment? ~ plain_newline }",
    "inline_comment": '_{ "//" ~ (!plain_newline ~ ANY)* }',
    "infix_usage": "_{ (WHITESPACE | NEWLINE)+ ~ natural_infix_op ~ WHITESPACE+"
                   " | (WHITESPACE | NEWLINE)* ~ infix_op ~ (WHITESPACE | NEWLINE)* }",
    "prefix_op": "_{ negation | invert }",
    "natural_prefix_op": "_{ natural_not }",
    "prefix_usage": "_{ natural_prefix_op ~ WHITESPACE+ | prefix_op }",
    "postfix_op": "_{ factorial | access | call_list | dot_access }",
    "expression": "${ prefix_usage* ~ term ~ postfix_op* ~ (infix_usage ~ prefix_usage* ~ term ~ postfix_op*)* }",
    "nested_expression": '_{ "(" ~ (WHITESPACE | NEWLINE)* ~ expression ~ (WHITESPACE | NEWLINE)* ~ ")" }',
    "number": "@{ binary_number | hex_number | decimal_number }",
    "decimal_number": '_{ (integer ~ ("_"+ ~ integer)* ~ ("." ~ ASCII_DIGIT+)? | !integer ~ "." ~ ASCII_DIGIT+) ~ (^"e" ~ integer)? }',
    "integer": '_{ ("+" | "-")? ~ ASCII_DIGIT+ }',
    "dot_access": '{ "." ~ identifier }',
}
# rules of which only the beginning matters to the model (`termStart`/`termWord` argue that
# they cannot match a bare word because a space / "=" / sign must follow)
PINNED_PREFIXES = {
    "conditional": '${ "if" ~ WHITESPACE+ ~',
    "do_block": '${ "do" ~ (WHITESPACE | plain_newline)+ ~',
    "output_declaration": '${ "output" ~ WHITESPACE+ ~',
    "assignment": '!{ identifier ~ "=" ~',
    "prefix_usage": "_{ natural_prefix_op ~ WHITESPACE+ | prefix_op }",
    "number": "@{ binary_number | hex_number | decimal_number }",
}


def rule_text(g, name):
    ms = re.findall(r"^%s[ \t]*=[ \t]*(.*?)[ \t]*$" % re.escape(name), g, re.M)
    if len(ms) != 1:
        raise Fail("grammar.pest: rule %s found %d times" % (name, len(ms)))
    return " ".join(ms[0].split())


def check_pinned_rules(g):
    for name, want in PINNED_RULES.items():
        got = rule_text(g, name)
        if got != " ".join(want.split()):
            raise Fail("grammar.pest: rule `%s` is now `%s`; lean/Blots/Model/Ident.lean / ExprPeg.lean model `%s`" % (name, got, want))
    for name, want in PINNED_PREFIXES.items():
        got = rule_text(g, name)
        if not got.startswith(" ".join(want.split())):
            raise Fail("grammar.pest: rule `%s` no longer starts with `%s` (now `%s`); see lean/Blots/Model/Ident.lean `termStart`" % (name, want, got[:80]))


def gen_reserved():
    g = read("blots-core/src/grammar.pest")
    m = need(re.search(r"^reserved_word\s*=\s*_\{(.*?)\}", g, re.M), "grammar.pest: reserved_word")
    # the alternatives IN GRAMMAR ORDER (PEG ordered choice: Model/Ident.lean `reservedWord`
    # tries them in this order); every alternative must be a plain string literal
    alts = [a.strip() for a in m.group(1).split("|")]
    for a in alts:
        if not re.fullmatch(r'"\w+"', a):
            raise Fail("grammar.pest: reserved_word alternative %r is not a plain string literal" % a)
    gram = [a[1:-1] for a in alts]
    check_pinned_rules(g)
    ats = read("blots-core/src/ast_to_source.rs")
    m = need(re.search(r"const RESERVED_WORDS: &\[&str\] = &\[(.*?)\];", ats, re.S), "ast_to_source.rs: RESERVED_WORDS")
    printer = re.findall(r'"(\w+)"', m.group(1))
    ex = read("blots-core/src/expressions.rs")
    # do-block assignment keyword check
    m = need(re.search(r"fn evaluate_do_block_expr\(.*?matches!\(\s*ident\.as_str\(\),(.*?)\)\s*\{", ex, re.S), "expressions.rs: do-block keyword check")
    do_kw = re.findall(r'"(\w+)"', m.group(1))
    # top-level assignment keyword check
    m = need(re.search(r"Expr::Assignment \{ ident, value \} => \{\s*if is_built_in_function\(ident\).*?if (ident == .*?)\{\s*return Err", ex, re.S), "expressions.rs: assignment keyword check")
    top_kw = re.findall(r'ident == "(\w+)"', m.group(1))
    if not gram or not printer or not do_kw or not top_kw:
        raise Fail("reserved word lists empty")
    # identifiers the evaluator treats specially
    m = need(re.search(r'Expr::Identifier\(ident\) => match ident\.as_str\(\) \{(.*?)_ => bindings', ex, re.S), "expressions.rs: special identifiers")
    special = re.findall(r'"(\w+)"\s*=>', m.group(1))
    heap = read("blots-core/src/heap.rs")
    consts = re.findall(r'String::from\("(\w+)"\),\s*PrimitiveValue::Number\(([^)]*(?:\([^)]*\))?[^)]*)\)', heap)
    if len(consts) < 4:
        raise Fail("heap.rs: CONSTANTS")
    L = ["/- GENERATED by tools/gen_tables.py from /repo — do not edit. -/", "namespace Blots.Gen", ""]
    L.append("/-- grammar.pest `reserved_word` -/")
    L.append("def grammarReserved : List String := [" + ", ".join(lean_str(x) for x in gram) + "]")
    L.append("/-- ast_to_source.rs `RESERVED_WORDS` -/")
    L.append("def printerReserved : List String := [" + ", ".join(lean_str(x) for x in printer) + "]")
    L.append("/-- expressions.rs: names refused by a top-level assignment -/")
    L.append("def assignKeywords : List String := [" + ", ".join(lean_str(x) for x in top_kw) + "]")
    L.append("/-- expressions.rs: names refused by a do-block assignment -/")
    L.append("def doAssignKeywords : List String := [" + ", ".join(lean_str(x) for x in do_kw) + "]")
    L.append("/-- expressions.rs: identifiers evaluated specially -/")
    L.append("def specialIdents : List String := [" + ", ".join(lean_str(x) for x in special) + "]")
    L.append("/-- heap.rs `CONSTANTS` keys, in insertion order -/")
    L.append("def constantNames : List String := [" + ", ".join(lean_str(k) for k, _ in consts) + "]")
    L.append("")
    L.append("end Blots.Gen")
    write_if_changed("Reserved.lean", "\n".join(L) + "\n")


# ------------------------------------------------------------------- wasm format driver
def gen_wasm():
    """blots-wasm is a cdylib returning JsValue, so its `format_blots` cannot be called natively.
    Re-emit its body (three JS-specific rewrites) as harness/src/gen_wasm_format.rs, so the
    harness always runs the statement loop the working tree contains."""
    src = read("blots-wasm/src/lib.rs")
    m = need(re.search(r"pub fn format_blots\(source: &str, max_columns: Option<usize>\) -> Result<JsValue, JsError> \{", src),
             "blots-wasm/src/lib.rs: format_blots signature")
    body = fn_body(src, r"pub fn format_blots\(source: &str, max_columns: Option<usize>\) -> Result<JsValue, JsError> \{", "lib.rs: format_blots body")
    body = re.sub(r"JsError::new\(&format!\(", "(format!(", body)
    body = re.sub(r'JsError::new\("([^"]*)"\)', r'"\1".to_string()', body)
    b2 = re.sub(r"\n\s*//[^\n]*\n\s*let serializer = serde_wasm_bindgen::Serializer::json_compatible\(\);\s*Ok\(result\.serialize\(&serializer\)\?\)",
                "\n    Ok(result)", body)
    if b2 == body:
        b2 = re.sub(r"let serializer = serde_wasm_bindgen::Serializer::json_compatible\(\);\s*Ok\(result\.serialize\(&serializer\)\?\)", "Ok(result)", body)
    body = b2
    for bad in ("JsError", "JsValue", "serde_wasm_bindgen", "serializer"):
        if bad in body:
            raise Fail("blots-wasm/src/lib.rs: format_blots uses %s in a way the translator does not know" % bad)
    # the crate's own imports from blots_core, verbatim (a change may add helpers)
    uses = re.findall(r"^use blots_core::(?:\{.*?\}|[^;{]*);", src, re.S | re.M)
    if not uses:
        raise Fail("blots-wasm/src/lib.rs: no `use blots_core::` statements found")
    text = ("// GENERATED by tools/gen_tables.py from /repo/blots-wasm/src/lib.rs (format_blots) - do not edit.\n"
            "#![allow(unused_imports, clippy::all)]\n" + "\n".join(uses) + "\n\n"
            "pub fn format_blots(source: &str, max_columns: Option<usize>) -> Result<String, String> {" + body + "}\n")
    hp = os.path.join(os.path.dirname(os.path.abspath(__file__)), "..", "harness", "src", "gen_wasm_format.rs")
    old = open(hp, encoding="utf-8").read() if os.path.exists(hp) else None
    if old != text:
        with open(hp, "w", encoding="utf-8") as f:
            f.write(text)


def main():
    try:
        gen_prec()
        gen_builtins()
        gen_reserved()
        gen_wasm()
        try:
            import gen_units
            gen_units.gen(read, write_if_changed, lean_str, Fail, fn_body)
        except ImportError:
            pass
    except Fail as e:
        print("TRANSLATOR-FAILED %s" % e)
        sys.exit(3)
    print("translator ok")


if __name__ == "__main__":
    sys.path.insert(0, os.path.dirname(os.path.abspath(__file__)))
    main()
