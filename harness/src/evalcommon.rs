//! Shared helpers for the evaluator properties: run a statement sequence on the real
//! evaluator (one root environment, continuing after failing statements like a REPL
//! session), canonicalise outcomes, and compare with the Lean model's `session`.

use crate::run::{new_heap, parse_program, HeapRc, Stmt};
use crate::tv::TV;
use crate::util::{guarded, Model, Report};
use crate::wire;
use blots_core::ast::SpannedExpr;
use blots_core::environment::Environment;
use blots_core::expressions::evaluate_ast;
use blots_core::values::Value;
use std::rc::Rc;

/// canonical outcome of one statement: `(ok V)`, `(err)`, `(err depth)`, `(err already-defined)`, `(panic)`
pub fn outcome_wire(r: &Result<Result<Value, String>, String>, heap: &HeapRc) -> String {
    match r {
        Ok(Ok(v)) => format!("(ok {})", wire::value(v, &heap.borrow())),
        Ok(Err(msg)) => {
            if msg.contains("maximum call depth") {
                "(err depth)".to_string()
            } else if msg.contains("is already defined") {
                "(err already-defined)".to_string()
            } else {
                "(err)".to_string()
            }
        }
        Err(_) => "(panic)".to_string(),
    }
}

pub struct Session {
    pub heap: HeapRc,
    pub env: Rc<Environment>,
    pub outcomes: Vec<String>,
    pub raw: Vec<Result<Result<Value, String>, String>>,
}

pub fn statements(src: &str) -> Result<Vec<SpannedExpr>, String> {
    let stmts = parse_program(src, false)?;
    Ok(stmts
        .into_iter()
        .filter_map(|(s, _)| match s {
            Stmt::Expr(e) | Stmt::Output(e) => Some(e),
            Stmt::Comment(_) => None,
        })
        .collect())
}

/// evaluate the statements one after the other in a fresh heap / root environment
pub fn run_real(stmts: &[SpannedExpr], inputs: Option<&TV>, src: &str) -> Session {
    let heap = new_heap();
    let env = Rc::new(Environment::new());
    if let Some(i) = inputs {
        let v = i.to_value(&heap);
        env.insert("inputs".to_string(), v);
    }
    let mut outcomes = vec![];
    let mut raw = vec![];
    let source: Rc<str> = src.into();
    for e in stmts {
        let r = guarded(|| evaluate_ast(e, Rc::clone(&heap), Rc::clone(&env), 0, source.clone()).map_err(|er| er.message.clone()));
        outcomes.push(outcome_wire(&r, &heap));
        raw.push(r);
    }
    Session { heap, env, outcomes, raw }
}

pub fn env_wire(s: &Session) -> String {
    let mut kvs: Vec<(String, Value)> = s.env.iter().collect();
    kvs.sort_by(|a, b| a.0.as_bytes().cmp(b.0.as_bytes()));
    let h = s.heap.borrow();
    let mut out = String::from("(env");
    for (k, v) in kvs {
        out.push_str(&format!(" ({} {})", wire::hs(&k), wire::value(&v, &h)));
    }
    out.push(')');
    out
}

/// model request for a session; `fuel` bounds the model's recursion
pub fn model_session(model: &mut Model, stmts: &[SpannedExpr], inputs: Option<&TV>, fuel: usize) -> String {
    let inp = match inputs {
        Some(i) => i.wire(),
        None => "-".to_string(),
    };
    let req = format!(
        "session {} {} ({})",
        fuel,
        inp,
        stmts.iter().map(wire::expr).collect::<Vec<_>>().join(" ")
    );
    model.ask(&req)
}

pub fn model_session_negnan(model: &mut Model, stmts: &[SpannedExpr], inputs: Option<&TV>, fuel: usize) -> String {
    let inp = match inputs {
        Some(i) => i.wire(),
        None => "-".to_string(),
    };
    model.ask(&format!("session-negnan {} {} ({})", fuel, inp, stmts.iter().map(wire::expr).collect::<Vec<_>>().join(" ")))
}

/// Compare the real evaluator with the model on `src`.  Returns the real session (for the
/// caller's own oracles).  Statements on which the model ran out of fuel are not compared.
pub fn check_session(model: &mut Model, rep: &mut Report, src: &str, inputs: Option<&TV>, keyp: &str) -> Option<Session> {
    let stmts = match statements(src) {
        Ok(s) => s,
        Err(e) => {
            rep.count("source-rejected");
            if rep.notes.len() < 6 {
                rep.notes.push(format!("rejected: {:?} :: {}", src, e.lines().take(6).collect::<Vec<_>>().join(" | ")));
            }
            return None;
        }
    };
    let sess = run_real(&stmts, inputs, src);
    for (i, o) in sess.outcomes.iter().enumerate() {
        if o == "(panic)" {
            let msg = match &sess.raw[i] {
                Err(m) => m.clone(),
                _ => String::new(),
            };
            rep.finding("oracle", "panic", src, &format!("statement {} panicked: {}", i, msg), &format!("{}.panic", keyp));
        }
    }
    let real = format!("({}) {}", sess.outcomes.join(" "), env_wire(&sess));
    let m = model_session(model, &stmts, inputs, 4000);
    if m.contains("(fuel)") {
        rep.count("model-out-of-fuel");
    } else if m != real && (src.contains("median") || src.contains("percentile")) && model_session_negnan(model, &stmts, inputs, 4000) == real {
        // the total order of median / percentile sees the sign of a NaN produced by arithmetic, which is
        // platform-defined and not observable in the model: the session agrees under the other convention
        rep.count("nan-sign-convention");
    } else if m != real && (src.contains("min") || src.contains("max")) && m.replace("8000000000000000", "0000000000000000") == real.replace("8000000000000000", "0000000000000000") {
        // the sign of a zero returned by f64::min / f64::max on a tie is build-dependent
        rep.count("min-max-zero-sign");
    } else if m != real {
        rep.finding("model", "session", src, &format!("impl={} model={}", short(&real), short(&m)), &format!("{}.model.session", keyp));
    }
    Some(sess)
}

pub fn short(s: &str) -> String {
    if s.len() > 1500 { format!("{}…", &s[..1500]) } else { s.to_string() }
}

/// evaluate one expression source in a session that already has `bindings` (name → TV);
/// canonical outcome
pub fn eval_with(bindings: &[(&str, &TV)], src: &str) -> (String, HeapRc) {
    let heap = new_heap();
    let env = Rc::new(Environment::new());
    for (n, v) in bindings {
        let val = v.to_value(&heap);
        env.insert(n.to_string(), val);
    }
    let r = guarded(|| crate::run::eval_expr_src(src, &heap, &env));
    (outcome_wire(&r, &heap), heap)
}

/// call a built-in directly (as `f(args)` would after evaluating its arguments)
pub fn call_builtin_real(name: &str, args: &[TV]) -> (String, HeapRc) {
    use blots_core::functions::{BuiltInFunction, FunctionDef};
    let heap = new_heap();
    let env = Rc::new(Environment::new());
    let vals: Vec<Value> = args.iter().map(|a| a.to_value(&heap)).collect();
    let b = BuiltInFunction::from_ident(name).expect("built-in name");
    let r = guarded(|| {
        FunctionDef::BuiltIn(b)
            .call(Value::BuiltIn(b), vals.clone(), Rc::clone(&heap), Rc::clone(&env), 0, "")
            .map_err(|e| e.message.clone())
    });
    (outcome_wire(&r, &heap), heap)
}

pub fn model_builtin(model: &mut Model, name: &str, args: &[TV]) -> String {
    let req = format!("builtin {} ({})", name, args.iter().map(|a| a.wire()).collect::<Vec<_>>().join(" "));
    model.ask(&req)
}

/// numbers for which `range` would try to allocate an enormous list (a resource hazard of
/// the real code that is outside C01's "panic / abort" wording; avoided, and documented)
pub fn range_hazard(args: &[TV]) -> bool {
    args.iter().any(|a| match a {
        TV::Num(n) => n.is_finite() && n.abs() >= 2.0e6 && n.abs() <= 5.0e9,
        _ => false,
    })
}
