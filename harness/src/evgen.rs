//! Typed, well-scoped program generator for the evaluator properties: mostly valid
//! programs (closures, do-blocks, shadowing, recursion, built-ins of every arity class,
//! broadcasting, spreads) plus a controlled share of ill-typed / failing statements.

use crate::util::Rng;

#[derive(Clone, Copy, PartialEq, Debug)]
pub enum Ty {
    Num,
    Bool,
    Str,
    ListNum,
    ListAny,
    Rec,
    FnNum, // number -> number
    Any,
}

#[derive(Clone)]
pub struct Scope {
    pub vars: Vec<(String, Ty)>,
    next: usize,
}

impl Scope {
    pub fn new() -> Self {
        Scope { vars: vec![], next: 0 }
    }
    pub fn fresh(&mut self, prefix: &str) -> String {
        self.next += 1;
        format!("{}{}", prefix, self.next)
    }
    fn of(&self, t: Ty) -> Vec<&String> {
        self.vars.iter().filter(|(_, ty)| *ty == t).map(|(n, _)| n).collect()
    }
}

const NUMS: &[&str] = &["0", "1", "2", "3", "5", "10", "0.5", "2.5", "100", "7", "1e3", "0.1"];
const STRS: &[&str] = &["\"a\"", "\"b\"", "\"hello\"", "\"\"", "\"héllo\"", "\"x y\"", "'q'",
    "\"a rather long string literal, well over forty-eight bytes in total, kept under a name\"", "\"0123456789012345678901234567890123456789012345678901234567890123\""];
/// same-category unit pairs; several identifiers differ from another unit's only in case
const UNIT_PAIRS: &[(&str, &str)] = &[
    ("mm", "m"), ("Mm", "m"), ("mm", "Mm"), ("km", "mm"), ("mW", "W"), ("MW", "W"), ("mW", "MW"), ("mA", "MA"), ("mA", "A"),
    ("ml", "l"), ("ML", "l"), ("ml", "ML"), ("mb", "MB"), ("MB", "b"), ("mb", "B"), ("mg", "kg"), ("C", "F"), ("c", "K"), ("km", "miles"), ("s", "min"),
];
const ARITH: &[&str] = &["+", "-", "*", "/", "%", "^"];
const CMP: &[&str] = &["<", "<=", ">", ">=", "==", "!="];
const DCMP: &[&str] = &[".<", ".<=", ".>", ".>=", ".==", ".!="];

pub fn gexpr(rng: &mut Rng, ty: Ty, sc: &Scope, depth: usize) -> String {
    // a small share of everything is deliberately of the wrong type
    if rng.chance(1, 40) && depth > 0 {
        let other = *rng.pick(&[Ty::Num, Ty::Bool, Ty::Str, Ty::ListNum, Ty::Rec, Ty::FnNum]);
        return gexpr(rng, other, sc, depth - 1);
    }
    let vars = sc.of(ty);
    if !vars.is_empty() && (depth == 0 || rng.chance(1, 4)) {
        return rng.pick(&vars).to_string();
    }
    let d = depth.saturating_sub(1);
    match ty {
        Ty::Num => {
            if depth == 0 {
                return rng.pick(NUMS).to_string();
            }
            match rng.below(21) {
                18 => {
                    // unit conversion; the identifier lists contain pairs that differ only in case
                    let (a, b) = *rng.pick(UNIT_PAIRS);
                    let (a, b) = if rng.chance(1, 2) { (a, b) } else { (b, a) };
                    format!("convert({}, \"{}\", \"{}\")", gexpr(rng, Ty::Num, sc, d), a, b)
                }
                19 => {
                    // a do-block local that reuses the name of a visible variable, and a use of
                    // that variable after the block in the same expression
                    let vs = sc.of(Ty::Num);
                    if vs.is_empty() {
                        rng.pick(NUMS).to_string()
                    } else {
                        let v = rng.pick(&vs).to_string();
                        format!("sum([do {{\n  {} = {}\n  return {} * 2\n}}, {}])", v, gexpr(rng, Ty::Num, sc, d), v, v)
                    }
                }
                20 => format!("len({})", gexpr(rng, Ty::Str, sc, d)),
                0..=3 => format!("({} {} {})", gexpr(rng, Ty::Num, sc, d), rng.pick(ARITH), gexpr(rng, Ty::Num, sc, d)),
                4 => format!("(-{})", gexpr(rng, Ty::Num, sc, d)),
                5 => format!("({}!)", rng.pick(&["0", "3", "5", "10"])),
                6 => format!("(if {} then {} else {})", gexpr(rng, Ty::Bool, sc, d), gexpr(rng, Ty::Num, sc, d), gexpr(rng, Ty::Num, sc, d)),
                7 => format!("{}({})", rng.pick(&["sqrt", "abs", "floor", "ceil", "round", "trunc", "exp", "sin"]), gexpr(rng, Ty::Num, sc, d)),
                8 => format!("{}({})", rng.pick(&["len", "sum", "max", "min", "avg", "median", "prod"]), gexpr(rng, Ty::ListNum, sc, d)),
                9 => format!("max({}, {})", gexpr(rng, Ty::Num, sc, d), gexpr(rng, Ty::Num, sc, d)),
                10 => format!("{}({})", gexpr(rng, Ty::FnNum, sc, d), gexpr(rng, Ty::Num, sc, d)),
                11 => {
                    let mut s2 = sc.clone();
                    let v = s2.fresh("t");
                    let e = gexpr(rng, Ty::Num, sc, d);
                    s2.vars.push((v.clone(), Ty::Num));
                    format!("(do {{\n  {} = {}\n  return {}\n}})", v, e, gexpr(rng, Ty::Num, &s2, d))
                }
                12 => format!("({} ?? {})", gexpr(rng, Ty::Any, sc, d), gexpr(rng, Ty::Num, sc, d)),
                13 => format!("({} into {})", gexpr(rng, Ty::ListNum, sc, d), rng.pick(&["sum", "len", "max", "(l => len(l))"])),
                14 => format!("({}[{}] ?? 0)", gexpr(rng, Ty::ListNum, sc, d), rng.pick(&["0", "1", "-1", "5", "1.7"])),
                15 => format!("({}.a ?? 1)", gexpr(rng, Ty::Rec, sc, d)),
                16 => format!("reduce({}, (acc, x) => acc + x, {})", gexpr(rng, Ty::ListNum, sc, d), gexpr(rng, Ty::Num, sc, d)),
                _ => rng.pick(NUMS).to_string(),
            }
        }
        Ty::Bool => {
            if depth == 0 {
                return rng.pick(&["true", "false"]).to_string();
            }
            match rng.below(10) {
                0 | 1 => format!("({} {} {})", gexpr(rng, Ty::Num, sc, d), rng.pick(CMP), gexpr(rng, Ty::Num, sc, d)),
                2 => format!("({} {} {})", gexpr(rng, Ty::Any, sc, d), rng.pick(DCMP), gexpr(rng, Ty::Any, sc, d)),
                3 => format!("({} {} {})", gexpr(rng, Ty::Bool, sc, d), rng.pick(&["and", "or", "&&", "||"]), gexpr(rng, Ty::Bool, sc, d)),
                4 => format!("({}{})", rng.pick(&["!", "not "]), gexpr(rng, Ty::Bool, sc, d)),
                5 => format!("includes({}, {})", gexpr(rng, Ty::ListNum, sc, d), gexpr(rng, Ty::Num, sc, d)),
                6 => format!("{}({}, x => x > {})", rng.pick(&["every", "some"]), gexpr(rng, Ty::ListNum, sc, d), gexpr(rng, Ty::Num, sc, d)),
                7 => format!("({} == {})", gexpr(rng, Ty::Str, sc, d), gexpr(rng, Ty::Str, sc, d)),
                8 => format!("{}({}, {})", rng.pick(&["ugt", "ult", "ugte", "ulte"]), gexpr(rng, Ty::Any, sc, d), gexpr(rng, Ty::Any, sc, d)),
                _ => rng.pick(&["true", "false"]).to_string(),
            }
        }
        Ty::Str => {
            if depth == 0 {
                return rng.pick(STRS).to_string();
            }
            match rng.below(9) {
                0 | 1 => format!("({} + {})", gexpr(rng, Ty::Str, sc, d), gexpr(rng, Ty::Str, sc, d)),
                2 => format!("to_string({})", gexpr(rng, Ty::Any, sc, d)),
                3 => format!("join({}, {})", gexpr(rng, Ty::ListAny, sc, d), rng.pick(&["\",\"", "\"\"", "\" - \""])),
                4 => format!("{}({})", rng.pick(&["uppercase", "lowercase", "trim"]), rng.pick(&["\"aBc\"", "\" x \"", "\"\"", "\"Hello World\""])),
                5 => format!("({}[{}] ?? \"\")", gexpr(rng, Ty::Str, sc, d), rng.pick(&["0", "1", "-1", "7"])),
                6 => format!("typeof({})", gexpr(rng, Ty::Any, sc, d)),
                7 => format!("replace({}, \"a\", \"zz\")", gexpr(rng, Ty::Str, sc, d)),
                8 if rng.chance(1, 2) => format!("join({} + {}, \"|\")", gexpr(rng, Ty::Str, sc, d), rng.pick(&["[\"a\", \"b\"]", "[\"\", \"xy\", \"é\"]"])),
                8 if rng.chance(1, 2) => format!("join({} + {}, \"|\")", rng.pick(&["[\"a\", \"b\"]", "[\"p\", \"\"]"]), gexpr(rng, Ty::Str, sc, d)),
                _ => rng.pick(STRS).to_string(),
            }
        }
        Ty::ListNum => {
            if depth == 0 {
                return rng.pick(&["[]", "[1]", "[1, 2, 3]", "[3, 1, 2]", "[0.5, -1]", "range(4)"]).to_string();
            }
            match rng.below(16) {
                0 | 1 => {
                    let n = rng.below(4);
                    format!("[{}]", (0..n).map(|_| gexpr(rng, Ty::Num, sc, d)).collect::<Vec<_>>().join(", "))
                }
                2 => format!("range({})", rng.pick(&["0", "3", "5", "2, 6"])),
                3 => format!("({} {} {})", gexpr(rng, Ty::ListNum, sc, d), rng.pick(ARITH), gexpr(rng, Ty::Num, sc, d)),
                4 => format!("({} {} {})", gexpr(rng, Ty::Num, sc, d), rng.pick(ARITH), gexpr(rng, Ty::ListNum, sc, d)),
                5 => format!("({} {} {})", gexpr(rng, Ty::ListNum, sc, d), rng.pick(ARITH), gexpr(rng, Ty::ListNum, sc, d)),
                6 => format!("({} via {})", gexpr(rng, Ty::ListNum, sc, d), gexpr(rng, Ty::FnNum, sc, d)),
                7 => format!("map({}, {})", gexpr(rng, Ty::ListNum, sc, d), gexpr(rng, Ty::FnNum, sc, d)),
                8 => format!("({} where (x => x {} {}))", gexpr(rng, Ty::ListNum, sc, d), rng.pick(CMP), gexpr(rng, Ty::Num, sc, d)),
                9 => format!("filter({}, (x, i) => i {} {})", gexpr(rng, Ty::ListNum, sc, d), rng.pick(CMP), rng.pick(&["0", "1", "2"])),
                10 => format!("{}({})", rng.pick(&["sort", "reverse", "unique", "tail"]), gexpr(rng, Ty::ListNum, sc, d)),
                11 => format!("concat({}, {})", gexpr(rng, Ty::ListNum, sc, d), gexpr(rng, Ty::ListNum, sc, d)),
                12 => format!("[...{}, {}]", gexpr(rng, Ty::ListNum, sc, d), gexpr(rng, Ty::Num, sc, d)),
                13 => format!("sort_by({}, x => {})", gexpr(rng, Ty::ListNum, sc, d), rng.pick(&["-x", "x % 3", "x", "0"])),
                14 => format!("({} via ((x, i) => x * i))", gexpr(rng, Ty::ListNum, sc, d)),
                _ => format!("flatten([{}, {}])", gexpr(rng, Ty::ListNum, sc, d), gexpr(rng, Ty::Num, sc, d)),
            }
        }
        Ty::ListAny => {
            if depth == 0 {
                return rng.pick(&["[]", "[1, \"a\", true]", "[null, [1]]", "[\"x\", \"y\"]"]).to_string();
            }
            let n = rng.below(4);
            let mut items: Vec<String> = (0..n).map(|_| gexpr(rng, Ty::Any, sc, d)).collect();
            if rng.chance(1, 4) {
                let st = *rng.pick(&[Ty::ListNum, Ty::Str, Ty::Rec]);
                items.push(format!("...{}", gexpr(rng, st, sc, d)));
            }
            format!("[{}]", items.join(", "))
        }
        Ty::Rec => {
            if depth == 0 {
                return rng.pick(&["{}", "{a: 1}", "{a: 1, b: \"x\"}", "{b: 2, a: 1}"]).to_string();
            }
            match rng.below(6) {
                0 | 1 => format!("{{a: {}, b: {}}}", gexpr(rng, Ty::Num, sc, d), gexpr(rng, Ty::Any, sc, d)),
                2 => format!("{{...{}, c: {}}}", gexpr(rng, Ty::Rec, sc, d), gexpr(rng, Ty::Num, sc, d)),
                3 => {
                    let vs = sc.of(Ty::Num);
                    if vs.is_empty() { "{a: 2}".to_string() } else { format!("{{{}, a: 1}}", rng.pick(&vs)) }
                }
                4 => format!("{{[{}]: {}}}", gexpr(rng, Ty::Str, sc, d), gexpr(rng, Ty::Num, sc, d)),
                _ => format!("{{\"k 1\": {}, a: {}}}", gexpr(rng, Ty::Any, sc, d), gexpr(rng, Ty::Num, sc, d)),
            }
        }
        Ty::FnNum => {
            let mut s2 = sc.clone();
            let p = s2.fresh("p");
            s2.vars.push((p.clone(), Ty::Num));
            match rng.below(8) {
                0..=3 => format!("({} => {})", p, gexpr(rng, Ty::Num, &s2, d)),
                4 => format!("(({}, q?) => {})", p, gexpr(rng, Ty::Num, &s2, d)),
                5 => format!("(({}, ...r) => {} + len(r))", p, gexpr(rng, Ty::Num, &s2, d)),
                6 => rng.pick(&["sqrt", "abs", "floor", "exp"]).to_string(),
                _ => format!("({} => do {{\n  w = {} * 2\n  return w + {}\n}})", p, p, gexpr(rng, Ty::Num, &s2, d)),
            }
        }
        Ty::Any => {
            let t = *rng.pick(&[Ty::Num, Ty::Num, Ty::Bool, Ty::Str, Ty::ListNum, Ty::ListAny, Ty::Rec, Ty::FnNum]);
            if rng.chance(1, 10) { "null".to_string() } else { gexpr(rng, t, sc, d) }
        }
    }
}

/// a statement sequence: bindings of every type, functions (closures, recursive), rebinding
/// attempts, failing statements, do-blocks that shadow, calls
pub fn gen_program(rng: &mut Rng, n_stmts: usize, depth: usize) -> (String, Scope) {
    let mut sc = Scope::new();
    let mut lines: Vec<String> = vec![];
    for _ in 0..n_stmts {
        match rng.below(15) {
            14 => {
                // a long string kept under a name, then used (twice) as the left operand of `+` with another
                // name on the right: nothing is allocated between the binding and the use
                let sfx = sc.fresh("s");
                lines.push(format!("{} = {}", sfx, rng.pick(&["\"!\"", "\"\"", "\" and more\""])));
                sc.vars.push((sfx.clone(), Ty::Str));
                let long = sc.fresh("s");
                lines.push(format!("{} = \"{}\"", long, "long text ".repeat(5 + rng.below(4))));
                sc.vars.push((long.clone(), Ty::Str));
                lines.push(format!("{} + {}", long, sfx));
                lines.push(format!("{} + {}", long, sfx));
                lines.push(format!("len({})", long));
            }
            0..=5 => {
                let ty = *rng.pick(&[Ty::Num, Ty::Num, Ty::Bool, Ty::Str, Ty::ListNum, Ty::Rec, Ty::FnNum, Ty::ListAny]);
                let name = sc.fresh(match ty { Ty::Num => "n", Ty::Bool => "b", Ty::Str => "s", Ty::ListNum => "l", Ty::Rec => "r", Ty::FnNum => "f", _ => "v" });
                let e = gexpr(rng, ty, &sc, depth);
                lines.push(format!("{} = {}", name, e));
                sc.vars.push((name, ty));
            }
            6 => {
                // a recursive named function
                let name = sc.fresh("rec");
                match rng.below(3) {
                    0 => lines.push(format!("{} = k => if k <= 1 then 1 else k * {}(k - 1)", name, name)),
                    1 => lines.push(format!("{} = k => if k <= 0 then 0 else 1 + {}(k - 2)", name, name)),
                    _ => lines.push(format!("{} = (k, acc?) => if k <= 0 then (acc ?? 0) else {}(k - 1, (acc ?? 0) + k)", name, name)),
                }
                sc.vars.push((name, Ty::FnNum));
            }
            7 => {
                // rebinding attempt of an existing name (must fail and change nothing)
                if let Some((n, _)) = sc.vars.get(rng.below(sc.vars.len().max(1))) {
                    lines.push(format!("{} = {}", n, gexpr(rng, Ty::Num, &sc, 1)));
                } else {
                    lines.push("1 + 1".to_string());
                }
            }
            8 => {
                // do-block that shadows an outer name and binds a local
                if let Some((n, _)) = sc.vars.get(rng.below(sc.vars.len().max(1))) {
                    let n = n.clone();
                    lines.push(format!("do {{\n  {} = {}\n  inner = {}\n  return [{}, inner]\n}}", n, gexpr(rng, Ty::Num, &sc, 1), gexpr(rng, Ty::Num, &sc, 1), n));
                } else {
                    lines.push("do {\n  z = 1\n  return z\n}".to_string());
                }
            }
            9 => lines.push(gexpr(rng, Ty::Any, &sc, depth)),
            10 => {
                // failing statement after an inner assignment
                let name = sc.fresh("g");
                lines.push(format!("[{} = {}, 1 + \"x\"]", name, gexpr(rng, Ty::Num, &sc, 1)));
                sc.vars.push((name, Ty::Num));
            }
            11 => lines.push(format!("{} = 1", rng.pick(&["inputs", "constants", "map", "sum", "len", "inf"]))),
            12 => {
                let name = sc.fresh("c");
                // closure capturing current values, called from a context that shadows them
                let body = gexpr(rng, Ty::Num, &sc, depth.min(2));
                lines.push(format!("{} = () => {}", name, body));
                if let Some((v, _)) = sc.vars.iter().find(|(_, t)| *t == Ty::Num) {
                    lines.push(format!("({} => {}())(123)", v, name));
                }
                lines.push(format!("{}()", name));
            }
            _ => lines.push(format!("output {} = {}", sc.fresh("o"), gexpr(rng, Ty::Any, &sc, depth))),
        }
    }
    (lines.join("\n"), sc)
}
