//! Source-level program generator: random (and small-exhaustive) expression trees over
//! every node kind and operator, printed as *fully parenthesised* reference source text.
//! The real parser turns that text into the AST under test.

use crate::util::Rng;

#[derive(Clone, Debug)]
pub enum GE {
    Num(String),
    Str(String),
    Bool(bool),
    Null,
    Ident(String),
    InRef(String),
    BuiltIn(String),
    List(Vec<GItem>),
    Record(Vec<GEntry>),
    Lambda(Vec<String>, Box<GE>), // args as source ("x", "y?", "...r")
    Cond(Box<GE>, Box<GE>, Box<GE>),
    Do(Vec<GItem>, Box<GE>, Vec<String>), // statements, return expr, comments before return
    Assign(String, Box<GE>),
    Call(Box<GE>, Vec<GE>),
    Access(Box<GE>, Box<GE>),
    Dot(Box<GE>, String),
    Bin(&'static str, Box<GE>, Box<GE>),
    Neg(Box<GE>),
    Not(Box<GE>, bool), // natural spelling?
    Fact(Box<GE>),
    Spread(Box<GE>),
}

#[derive(Clone, Debug)]
pub struct GItem {
    pub leading: Vec<String>,
    pub node: GE,
    pub trailing: Option<String>,
    /// comments on their own lines after this item (honoured for the last item of a list)
    pub after: Vec<String>,
    /// for the last item: no comma, so the trailing comment is the item's own end-of-line comment
    pub no_comma: bool,
}

#[derive(Clone, Debug)]
pub enum GKey {
    Static(String),   // identifier-like
    Quoted(String),   // string key
    Dynamic(GE),
    Shorthand(String),
    Spread(GE),
}

#[derive(Clone, Debug)]
pub struct GEntry {
    pub leading: Vec<String>,
    pub key: GKey,
    pub value: GE,
    pub trailing: Option<String>,
    pub after: Vec<String>,
    pub no_comma: bool,
}

pub const BINOPS: [&str; 26] = [
    "+", "-", "*", "/", "%", "^", "==", "!=", "<", "<=", ">", ">=", ".==", ".!=", ".<", ".<=", ".>", ".>=",
    "&&", "and", "||", "or", "via", "into", "where", "??",
];

pub const IDENTS: &[&str] = &[
    "a", "b", "c", "x", "y", "z", "foo", "bar_1", "_t", "n2", "trueish", "null_count", "falsey", "iffy", "android",
    "orbit", "nothing", "done", "returned", "outputs", "thence", "elsewhere", "infinite",
    // the word operators that are no reserved words are names too: a statement that starts with
    // one of them followed by a blank would continue the line before it (C07 finding, repo 1decf6c)
    "via", "into", "where",
];

pub const BUILTIN_NAMES: &[&str] = &["map", "sum", "len", "sqrt", "max", "filter", "to_string", "range"];

pub const COMMENTS: &[&str] = &["// c", "// note: x", "//", "// \"quoted\" 'text'", "// a // b", "//é"];

pub struct GenCfg {
    pub comments: bool,
    pub max_depth: usize,
}

fn ident(rng: &mut Rng) -> String {
    rng.pick(IDENTS).to_string()
}

fn gen_num(rng: &mut Rng) -> String {
    const NUMS: &[&str] = &[
        "0", "1", "2", "3", "10", "42", "1.5", "0.25", "100", "1_000", "1e3", "2.5e-3", ".5", "0x1f", "0b101", "1e21",
        "123456789012345678", "0.1", "3.14159", "1e999", "9007199254740993",
    ];
    rng.pick(NUMS).to_string()
}

fn gen_strlit(rng: &mut Rng) -> String {
    const STRS: &[&str] = &["", "a", "hello world", "it's", "say \"hi\"", "back\\slash", "é日😀", "a, b", "x // not a comment", "{}[]()", "line one \nline two", "tab\t\nnext", "cr\r\nlf", " \n ", "trailing blank "];
    rng.pick(STRS).to_string()
}

fn maybe_comment(rng: &mut Rng, cfg: &GenCfg, p: (u64, u64)) -> Option<String> {
    if cfg.comments && rng.chance(p.0, p.1) { Some(rng.pick(COMMENTS).to_string()) } else { None }
}

fn leading(rng: &mut Rng, cfg: &GenCfg) -> Vec<String> {
    let mut v = vec![];
    if cfg.comments {
        while rng.chance(1, 6) && v.len() < 2 {
            v.push(rng.pick(COMMENTS).to_string());
        }
    }
    v
}

pub fn gen_expr(rng: &mut Rng, cfg: &GenCfg, depth: usize) -> GE {
    if depth == 0 {
        return match rng.below(8) {
            0 | 1 => GE::Num(gen_num(rng)),
            2 => GE::Str(gen_strlit(rng)),
            3 => GE::Bool(rng.chance(1, 2)),
            4 => GE::Null,
            5 => GE::InRef(ident(rng)),
            6 => GE::BuiltIn(rng.pick(BUILTIN_NAMES).to_string()),
            _ => GE::Ident(ident(rng)),
        };
    }
    let d = depth - 1;
    match rng.below(30) {
        0..=8 => {
            let op = *rng.pick(&BINOPS);
            GE::Bin(op, Box::new(gen_expr(rng, cfg, d)), Box::new(gen_expr(rng, cfg, d)))
        }
        9 | 10 => GE::Neg(Box::new(gen_expr(rng, cfg, d))),
        11 | 12 => GE::Not(Box::new(gen_expr(rng, cfg, d)), rng.chance(1, 2)),
        13 | 14 => GE::Fact(Box::new(gen_expr(rng, cfg, d))),
        15 | 16 => {
            let n = rng.below(3);
            let mut args: Vec<GE> = (0..n).map(|_| gen_expr(rng, cfg, d)).collect();
            if rng.chance(1, 6) {
                args.push(GE::Spread(Box::new(gen_expr(rng, cfg, d))));
            }
            GE::Call(Box::new(gen_expr(rng, cfg, d)), args)
        }
        17 => GE::Access(Box::new(gen_expr(rng, cfg, d)), Box::new(gen_expr(rng, cfg, d))),
        18 => GE::Dot(Box::new(gen_expr(rng, cfg, d)), ident(rng)),
        19 | 20 => {
            let n = rng.below(4);
            let mut items = vec![];
            for _ in 0..n {
                let node = if rng.chance(1, 6) { GE::Spread(Box::new(gen_expr(rng, cfg, d))) } else { gen_expr(rng, cfg, d) };
                items.push(GItem { leading: leading(rng, cfg), node, trailing: maybe_comment(rng, cfg, (1, 5)), after: leading(rng, cfg), no_comma: rng.chance(1, 2) });
            }
            GE::List(items)
        }
        21 | 22 => {
            let n = rng.below(4);
            let mut es = vec![];
            for _ in 0..n {
                let key = match rng.below(8) {
                    0..=2 => GKey::Static(ident(rng)),
                    3 => GKey::Quoted(rng.pick(&["a b", "1x", "if", "é", "", "k"]).to_string()),
                    4 => GKey::Dynamic(gen_expr(rng, cfg, d)),
                    5 => GKey::Shorthand(ident(rng)),
                    6 => GKey::Spread(gen_expr(rng, cfg, d)),
                    _ => GKey::Static(ident(rng)),
                };
                es.push(GEntry { leading: leading(rng, cfg), key, value: gen_expr(rng, cfg, d), trailing: maybe_comment(rng, cfg, (1, 5)), after: leading(rng, cfg), no_comma: rng.chance(1, 2) });
            }
            GE::Record(es)
        }
        23 | 24 => {
            let args = match rng.below(6) {
                0 => vec![],
                1 | 2 => vec![ident(rng)],
                3 => vec![ident(rng), ident(rng)],
                4 => vec![ident(rng), format!("{}?", ident(rng))],
                _ => vec![ident(rng), format!("...{}", ident(rng))],
            };
            GE::Lambda(args, Box::new(gen_expr(rng, cfg, d)))
        }
        25 | 26 => GE::Cond(Box::new(gen_expr(rng, cfg, d)), Box::new(gen_expr(rng, cfg, d)), Box::new(gen_expr(rng, cfg, d))),
        27 => {
            let n = rng.below(3);
            let mut stmts = vec![];
            for _ in 0..n {
                let node = if rng.chance(2, 3) { GE::Assign(ident(rng), Box::new(gen_expr(rng, cfg, d))) } else { gen_expr(rng, cfg, d) };
                stmts.push(GItem { leading: leading(rng, cfg), node, trailing: maybe_comment(rng, cfg, (1, 4)), after: vec![], no_comma: false });
            }
            GE::Do(stmts, Box::new(gen_expr(rng, cfg, d)), leading(rng, cfg))
        }
        28 => GE::Assign(ident(rng), Box::new(gen_expr(rng, cfg, d))),
        _ => gen_expr(rng, cfg, 0),
    }
}

fn is_atom(e: &GE) -> bool {
    matches!(
        e,
        GE::Num(_) | GE::Str(_) | GE::Bool(_) | GE::Null | GE::Ident(_) | GE::InRef(_) | GE::BuiltIn(_) | GE::List(_) | GE::Record(_)
    )
}

/// operand text: atoms bare, everything else in parentheses (reference parenthesisation)
fn operand(e: &GE, indent: usize) -> String {
    if is_atom(e) { to_source(e, indent) } else { format!("({})", to_source(e, indent)) }
}

pub fn str_literal(s: &str) -> String {
    if !s.contains('"') { format!("\"{}\"", s) } else { format!("'{}'", s) }
}

fn pad(n: usize) -> String {
    " ".repeat(n)
}

/// Reference source text. Collections with comments are laid out one item per line.
pub fn to_source(e: &GE, indent: usize) -> String {
    match e {
        GE::Num(s) => s.clone(),
        GE::Str(s) => str_literal(s),
        GE::Bool(b) => b.to_string(),
        GE::Null => "null".into(),
        GE::Ident(s) => s.clone(),
        GE::InRef(s) => format!("#{}", s),
        GE::BuiltIn(s) => s.clone(),
        GE::List(items) => {
            if items.iter().any(|i| !i.leading.is_empty() || i.trailing.is_some()) || items.last().map_or(false, |i| !i.after.is_empty()) {
                let mut s = String::from("[");
                for (k, it) in items.iter().enumerate() {
                    let last = k + 1 == items.len();
                    for c in &it.leading {
                        s.push_str(&format!("\n{}{}", pad(indent + 2), c));
                    }
                    let comma = if last && it.no_comma { "" } else { "," };
                    s.push_str(&format!("\n{}{}{}", pad(indent + 2), item_src(&it.node, indent + 2), comma));
                    if let Some(t) = &it.trailing {
                        s.push_str(&format!(" {}", t));
                    }
                    if last {
                        for c in &it.after {
                            s.push_str(&format!("\n{}{}", pad(indent + 2), c));
                        }
                    }
                }
                s.push_str(&format!("\n{}]", pad(indent)));
                s
            } else {
                format!("[{}]", items.iter().map(|i| item_src(&i.node, indent)).collect::<Vec<_>>().join(", "))
            }
        }
        GE::Record(es) => {
            let ent = |en: &GEntry, ind: usize| -> String {
                match &en.key {
                    GKey::Static(k) => format!("{}: {}", k, to_source(&en.value, ind)),
                    GKey::Quoted(k) => format!("{}: {}", str_literal(k), to_source(&en.value, ind)),
                    GKey::Dynamic(k) => format!("[{}]: {}", to_source(k, ind), to_source(&en.value, ind)),
                    GKey::Shorthand(k) => k.clone(),
                    GKey::Spread(x) => format!("...{}", to_source(x, ind)),
                }
            };
            if es.iter().any(|i| !i.leading.is_empty() || i.trailing.is_some()) || es.last().map_or(false, |i| !i.after.is_empty()) {
                let mut s = String::from("{");
                for (k, en) in es.iter().enumerate() {
                    let last = k + 1 == es.len();
                    for c in &en.leading {
                        s.push_str(&format!("\n{}{}", pad(indent + 2), c));
                    }
                    let comma = if last && en.no_comma { "" } else { "," };
                    s.push_str(&format!("\n{}{}{}", pad(indent + 2), ent(en, indent + 2), comma));
                    if let Some(t) = &en.trailing {
                        s.push_str(&format!(" {}", t));
                    }
                    if last {
                        for c in &en.after {
                            s.push_str(&format!("\n{}{}", pad(indent + 2), c));
                        }
                    }
                }
                s.push_str(&format!("\n{}}}", pad(indent)));
                s
            } else {
                format!("{{{}}}", es.iter().map(|en| ent(en, indent)).collect::<Vec<_>>().join(", "))
            }
        }
        GE::Lambda(args, body) => {
            let a = if args.len() == 1 && !args[0].ends_with('?') && !args[0].starts_with("...") {
                args[0].clone()
            } else {
                format!("({})", args.join(", "))
            };
            format!("{} => {}", a, operand(body, indent))
        }
        GE::Cond(c, t, e2) => format!("if {} then {} else {}", operand(c, indent), operand(t, indent), operand(e2, indent)),
        GE::Do(stmts, ret, ret_lead) => {
            let mut s = String::from("do {");
            for st in stmts {
                for c in &st.leading {
                    s.push_str(&format!("\n{}{}", pad(indent + 2), c));
                }
                s.push_str(&format!("\n{}{}", pad(indent + 2), stmt_src(&st.node, indent + 2)));
                if let Some(t) = &st.trailing {
                    s.push_str(&format!(" {}", t));
                }
            }
            for c in ret_lead {
                s.push_str(&format!("\n{}{}", pad(indent + 2), c));
            }
            s.push_str(&format!("\n{}return {}\n{}}}", pad(indent + 2), to_source(ret, indent + 2), pad(indent)));
            s
        }
        GE::Assign(n, v) => format!("{} = {}", n, to_source(v, indent)),
        GE::Call(f, args) => format!(
            "{}({})",
            operand(f, indent),
            args.iter().map(|a| item_src(a, indent)).collect::<Vec<_>>().join(", ")
        ),
        GE::Access(x, i) => format!("{}[{}]", operand(x, indent), to_source(i, indent)),
        GE::Dot(x, f) => format!("{}.{}", operand(x, indent), f),
        GE::Bin(op, l, r) => format!("{} {} {}", operand(l, indent), op, operand(r, indent)),
        GE::Neg(x) => format!("-{}", operand(x, indent)),
        GE::Not(x, natural) => {
            if *natural { format!("not {}", operand(x, indent)) } else { format!("!{}", operand(x, indent)) }
        }
        GE::Fact(x) => format!("{}!", operand(x, indent)),
        GE::Spread(x) => format!("...{}", to_source(x, indent)),
    }
}

fn item_src(e: &GE, indent: usize) -> String {
    to_source(e, indent)
}

/// a statement must not start with `-` or `+`, nor with a name spelled `via` / `into` / `where`
/// followed by a blank (it would continue the previous line)
pub fn word_operator_start(s: &str) -> bool {
    ["via", "into", "where"].iter().any(|w| s.strip_prefix(w).is_some_and(|r| r.starts_with(' ') || r.starts_with('\t')))
}

fn stmt_src(e: &GE, indent: usize) -> String {
    let s = to_source(e, indent);
    if s.starts_with('-') || s.starts_with('+') || word_operator_start(&s) { format!("({})", s) } else { s }
}

/// A top-level statement in reference text.
#[derive(Clone, Debug)]
pub enum GStmt {
    Expr(GE),
    Output(String, Option<GE>), // output x = e | output x
    Comment(String),
}

pub struct GProgram {
    pub stmts: Vec<(GStmt, Option<String>, usize)>, // statement, eol comment, blank lines after
}

pub fn gen_program(rng: &mut Rng, cfg: &GenCfg, max_stmts: usize) -> GProgram {
    let n = 1 + rng.below(max_stmts);
    let mut stmts = vec![];
    for _ in 0..n {
        let st = match rng.below(10) {
            0 if cfg.comments => GStmt::Comment(rng.pick(COMMENTS).to_string()),
            1 => GStmt::Output(ident(rng), Some(gen_expr(rng, cfg, cfg.max_depth))),
            2 => GStmt::Output(ident(rng), None),
            3..=5 => GStmt::Expr(GE::Assign(ident(rng), Box::new(gen_expr(rng, cfg, cfg.max_depth)))),
            _ => GStmt::Expr(gen_expr(rng, cfg, cfg.max_depth)),
        };
        let eol = match st {
            GStmt::Comment(_) => None,
            _ => maybe_comment(rng, cfg, (1, 4)),
        };
        let blanks = if rng.chance(1, 2) { 0 } else { rng.below(6) };
        stmts.push((st, eol, blanks));
    }
    GProgram { stmts }
}

impl GProgram {
    pub fn to_source(&self) -> String {
        let mut s = String::new();
        for (i, (st, eol, blanks)) in self.stmts.iter().enumerate() {
            let text = match st {
                GStmt::Expr(e) => stmt_src(e, 0),
                GStmt::Output(n, Some(e)) => format!("output {} = {}", n, to_source(e, 0)),
                GStmt::Output(n, None) => format!("output {}", n),
                GStmt::Comment(c) => c.clone(),
            };
            s.push_str(&text);
            if let Some(c) = eol {
                s.push_str("  ");
                s.push_str(c);
            }
            if i + 1 < self.stmts.len() {
                s.push('\n');
                for _ in 0..*blanks {
                    s.push('\n');
                }
            }
        }
        s
    }
}

/// all comments of a source text in order, found by a lexer-level scan that knows string
/// literals (a literal runs to the next occurrence of its opening quote)
pub fn scan_comments(src: &str) -> Vec<String> {
    let cs: Vec<char> = src.chars().collect();
    let mut out = vec![];
    let mut i = 0;
    while i < cs.len() {
        let c = cs[i];
        if c == '"' || c == '\'' {
            let q = c;
            i += 1;
            while i < cs.len() && cs[i] != q {
                i += 1;
            }
            i += 1;
        } else if c == '/' && i + 1 < cs.len() && cs[i + 1] == '/' {
            let mut j = i;
            while j < cs.len() && cs[j] != '\n' && !(cs[j] == '\r' && j + 1 < cs.len() && cs[j + 1] == '\n') {
                j += 1;
            }
            out.push(cs[i..j].iter().collect::<String>());
            i = j;
        } else {
            i += 1;
        }
    }
    out
}

/// immediate sub-expressions (for shrinking)
pub fn children(e: &GE) -> Vec<GE> {
    match e {
        GE::List(items) => items.iter().map(|i| i.node.clone()).collect(),
        GE::Record(es) => {
            let mut v = vec![];
            for en in es {
                match &en.key {
                    GKey::Dynamic(k) => v.push(k.clone()),
                    GKey::Spread(k) => v.push(k.clone()),
                    _ => {}
                }
                if !matches!(en.key, GKey::Shorthand(_) | GKey::Spread(_)) {
                    v.push(en.value.clone());
                }
            }
            v
        }
        GE::Lambda(_, b) => vec![(**b).clone()],
        GE::Cond(c, t, e2) => vec![(**c).clone(), (**t).clone(), (**e2).clone()],
        GE::Do(stmts, r, _) => {
            let mut v: Vec<GE> = stmts.iter().map(|s| s.node.clone()).collect();
            v.push((**r).clone());
            v
        }
        GE::Assign(_, v) => vec![(**v).clone()],
        GE::Call(f, args) => {
            let mut v = vec![(**f).clone()];
            v.extend(args.iter().cloned());
            v
        }
        GE::Access(x, i) => vec![(**x).clone(), (**i).clone()],
        GE::Dot(x, _) | GE::Neg(x) | GE::Not(x, _) | GE::Fact(x) | GE::Spread(x) => vec![(**x).clone()],
        GE::Bin(_, l, r) => vec![(**l).clone(), (**r).clone()],
        _ => vec![],
    }
}

/// greedy shrink: descend into any child on which `fails` still holds
pub fn shrink(e: &GE, fails: &dyn Fn(&GE) -> bool) -> GE {
    let mut cur = e.clone();
    'outer: loop {
        for c in children(&cur) {
            if matches!(c, GE::Spread(_)) {
                continue;
            }
            if fails(&c) {
                cur = c;
                continue 'outer;
            }
        }
        return cur;
    }
}

// ------------------------------------------------------------------ layout mutator

fn pickws<'a>(rng: &mut Rng, opts: &[&'a str]) -> &'a str {
    opts[rng.below(opts.len())]
}

const WS_ANY: &[&str] = &["", " ", "  ", "\t", "\n", " \n  ", "\n\n", " // c\n ", "\r\n"];
const WS_SOME: &[&str] = &[" ", "  ", "\t", "\n", " \n  ", "\n ", " // c\n "];
const WS_SPACES: &[&str] = &[" ", "  ", "\t", " \t"];
const WS_SPACES0: &[&str] = &["", " ", "  ", "\t"];
const NLS: &[&str] = &["", "\n", "\n\n", "// c\n", "\r\n"];
const LIST_WS: &[&str] = &["", " ", "\n", "\n  ", " \n ", "\t"];
/// symbolic operators that may be written without surrounding whitespace after any operand
const TIGHT_OK: &[&str] = &["+", "*", "/", "%", "^", "==", "<=", ">=", "<", ">", "&&", "||", "??"];

/// operand with optional redundant parentheses and inner layout
fn lay_operand(e: &GE, rng: &mut Rng) -> String {
    let inner = lay(e, rng);
    if is_atom(e) && !rng.chance(1, 4) {
        inner
    } else {
        let a = pickws(rng, WS_ANY).to_string();
        let b = pickws(rng, WS_ANY);
        let s = format!("({}{}{})", a, inner, b);
        if rng.chance(1, 8) { format!("({})", s) } else { s }
    }
}

/// The same tree as `to_source`, with a random choice at every place where the grammar
/// admits optional layout (spaces, line breaks, inline comments, redundant parentheses,
/// trailing commas).
pub fn lay(e: &GE, rng: &mut Rng) -> String {
    match e {
        GE::List(items) => {
            if items.is_empty() {
                return "[]".into();
            }
            let mut s = String::from("[");
            s.push_str(pickws(rng, LIST_WS));
            for (i, it) in items.iter().enumerate() {
                if i > 0 {
                    s.push(',');
                    s.push_str(pickws(rng, LIST_WS));
                }
                s.push_str(&lay(&it.node, rng));
                s.push_str(pickws(rng, WS_SPACES0));
            }
            if rng.chance(1, 3) {
                s.push(',');
            }
            s.push_str(pickws(rng, LIST_WS));
            s.push(']');
            s
        }
        GE::Record(es) => {
            if es.is_empty() {
                return "{}".into();
            }
            let mut s = String::from("{");
            s.push_str(pickws(rng, LIST_WS));
            for (i, en) in es.iter().enumerate() {
                if i > 0 {
                    s.push(',');
                    s.push_str(pickws(rng, LIST_WS));
                }
                let t = match &en.key {
                    GKey::Static(k) => format!("{}{}:{}{}", k, pickws(rng, WS_SPACES0), pickws(rng, NLS), lay(&en.value, rng)),
                    GKey::Quoted(k) => format!("{}{}:{}{}", str_literal(k), pickws(rng, WS_SPACES0), pickws(rng, NLS), lay(&en.value, rng)),
                    GKey::Dynamic(k) => format!("[{}]:{}{}", lay(k, rng), pickws(rng, WS_SPACES0), lay(&en.value, rng)),
                    GKey::Shorthand(k) => k.clone(),
                    GKey::Spread(x) => format!("...{}", lay(x, rng)),
                };
                s.push_str(&t);
                s.push_str(pickws(rng, WS_SPACES0));
            }
            if rng.chance(1, 3) {
                s.push(',');
            }
            s.push_str(pickws(rng, LIST_WS));
            s.push('}');
            s
        }
        GE::Lambda(args, body) => {
            let a = if args.len() == 1 && !args[0].ends_with('?') && !args[0].starts_with("...") && rng.chance(1, 2) {
                args[0].clone()
            } else {
                let mut s = String::from("(");
                s.push_str(pickws(rng, NLS));
                for (i, x) in args.iter().enumerate() {
                    if i > 0 {
                        s.push(',');
                        s.push_str(pickws(rng, NLS));
                        s.push_str(pickws(rng, WS_SPACES0));
                    }
                    s.push_str(x);
                }
                if !args.is_empty() && rng.chance(1, 4) {
                    s.push_str(",\n");
                }
                s.push_str(pickws(rng, NLS));
                s.push(')');
                s
            };
            // an unparenthesised body is legal unless its top-level chain has via/into/where
            let bare_ok = match &**body {
                GE::Bin(op, _, _) => !matches!(*op, "via" | "into" | "where"),
                GE::Neg(_) | GE::Not(_, _) | GE::Fact(_) | GE::Call(_, _) | GE::Access(_, _) | GE::Dot(_, _) => true,
                _ => false,
            };
            let b = if bare_ok && rng.chance(2, 3) { lay(body, rng) } else { lay_operand(body, rng) };
            format!("{}{}=>{}{}", a, pickws(rng, WS_SPACES0), pickws(rng, WS_ANY), b)
        }
        GE::Cond(c, t, e2) => format!(
            "if{}{}{}then{}{}{}else{}{}",
            pickws(rng, WS_SPACES),
            lay_operand(c, rng),
            pickws(rng, WS_SOME),
            pickws(rng, WS_SOME),
            lay_operand(t, rng),
            pickws(rng, WS_SOME),
            pickws(rng, WS_SOME),
            lay_operand(e2, rng)
        ),
        GE::Assign(n, v) => format!("{}{}={}{}", n, pickws(rng, WS_SPACES0), pickws(rng, WS_SPACES0), lay(v, rng)),
        GE::Call(f, args) => {
            let mut s = lay_operand(f, rng);
            s.push('(');
            s.push_str(pickws(rng, NLS));
            for (i, a) in args.iter().enumerate() {
                if i > 0 {
                    s.push_str(pickws(rng, WS_SPACES0));
                    s.push(',');
                    s.push_str(pickws(rng, NLS));
                    s.push_str(pickws(rng, WS_SPACES0));
                }
                s.push_str(&lay(a, rng));
            }
            if !args.is_empty() && rng.chance(1, 4) {
                s.push_str(",\n");
            }
            s.push_str(pickws(rng, NLS));
            s.push(')');
            s
        }
        GE::Access(x, i) => format!("{}[{}{}{}]", lay_operand(x, rng), pickws(rng, &["", "\n", "\n\n"]), lay(i, rng), pickws(rng, &["", "\n"])),
        GE::Dot(x, f) => format!("{}.{}", lay_operand(x, rng), f),
        GE::Bin(op, l, r) => {
            let natural = matches!(*op, "and" | "or" | "via" | "into" | "where");
            let ls = lay_operand(l, rng);
            let rs = lay_operand(r, rng);
            if natural {
                format!("{}{}{}{}{}", ls, pickws(rng, WS_SOME), op, pickws(rng, WS_SPACES), rs)
            } else if TIGHT_OK.contains(op) && !ls.ends_with('!') && !rs.starts_with('=') {
                format!("{}{}{}{}{}", ls, pickws(rng, WS_ANY), op, pickws(rng, WS_ANY), rs)
            } else {
                format!("{}{}{}{}{}", ls, pickws(rng, WS_SOME), op, pickws(rng, WS_SOME), rs)
            }
        }
        GE::Neg(x) => format!("-{}", lay_operand(x, rng)),
        GE::Not(x, natural) => {
            if *natural { format!("not{}{}", pickws(rng, WS_SPACES), lay_operand(x, rng)) } else { format!("!{}", lay_operand(x, rng)) }
        }
        GE::Fact(x) => format!("{}!", lay_operand(x, rng)),
        GE::Spread(x) => format!("...{}", lay(x, rng)),
        // atoms and do-blocks: reference text
        _ => to_source(e, 0),
    }
}
