//! Test values: a tree form that can be materialised into a real `Heap`, sent to the
//! model, and generated/shrunk.

use crate::util::Rng;
use crate::wire;
use blots_core::functions::BuiltInFunction;
use blots_core::heap::Heap;
use blots_core::values::Value;
use indexmap::IndexMap;

#[derive(Clone, Debug, PartialEq)]
pub enum TV {
    Num(f64),
    Bool(bool),
    Null,
    Str(String),
    List(Vec<TV>),
    Record(Vec<(String, TV)>),
    /// lambda given by its source text (parsed and evaluated in an empty environment)
    Lambda(String),
    BuiltIn(String),
}

impl TV {
    pub fn is_data(&self) -> bool {
        match self {
            TV::Num(n) => !n.is_nan(),
            TV::Bool(_) | TV::Null | TV::Str(_) => true,
            TV::List(l) => l.iter().all(|x| x.is_data()),
            TV::Record(r) => r.iter().all(|(_, x)| x.is_data()),
            TV::Lambda(_) | TV::BuiltIn(_) => false,
        }
    }

    pub fn kind(&self) -> &'static str {
        match self {
            TV::Num(_) => "num",
            TV::Bool(_) => "bool",
            TV::Null => "null",
            TV::Str(_) => "str",
            TV::List(_) => "list",
            TV::Record(_) => "record",
            TV::Lambda(_) => "lambda",
            TV::BuiltIn(_) => "builtin",
        }
    }

    /// Build the value in `heap` (each call allocates fresh cells).
    pub fn to_value(&self, heap: &std::rc::Rc<std::cell::RefCell<Heap>>) -> Value {
        match self {
            TV::Num(n) => Value::Number(*n),
            TV::Bool(b) => Value::Bool(*b),
            TV::Null => Value::Null,
            TV::Str(s) => heap.borrow_mut().insert_string(s.clone()),
            TV::List(l) => {
                let vs: Vec<Value> = l.iter().map(|x| x.to_value(heap)).collect();
                heap.borrow_mut().insert_list(vs)
            }
            TV::Record(r) => {
                let mut m = IndexMap::new();
                for (k, x) in r {
                    let v = x.to_value(heap);
                    m.insert(k.clone(), v);
                }
                heap.borrow_mut().insert_record(m)
            }
            TV::Lambda(src) => {
                let env = std::rc::Rc::new(blots_core::environment::Environment::new());
                crate::run::eval_expr_src(src, heap, &env).expect("lambda source must evaluate")
            }
            TV::BuiltIn(name) => Value::BuiltIn(BuiltInFunction::from_ident(name).expect("builtin")),
        }
    }

    /// wire form (lambdas need a heap: materialise then serialise)
    pub fn wire(&self) -> String {
        let heap = std::rc::Rc::new(std::cell::RefCell::new(Heap::new()));
        let v = self.to_value(&heap);
        wire::value(&v, &heap.borrow())
    }

    /// Blots source literal for data values (None when not expressible: NaN, inf are
    /// expressible as arithmetic; lambdas by their source)
    pub fn to_source(&self) -> String {
        match self {
            TV::Num(n) => num_source(*n),
            TV::Bool(b) => b.to_string(),
            TV::Null => "null".into(),
            TV::Str(s) => str_source(s),
            TV::List(l) => format!("[{}]", l.iter().map(|x| x.to_source()).collect::<Vec<_>>().join(", ")),
            TV::Record(r) => format!(
                "{{{}}}",
                r.iter()
                    .map(|(k, x)| format!("{}: {}", str_source(k), x.to_source()))
                    .collect::<Vec<_>>()
                    .join(", ")
            ),
            TV::Lambda(s) => format!("({})", s),
            TV::BuiltIn(n) => n.clone(),
        }
    }
}

/// a source expression denoting exactly this double
pub fn num_source(n: f64) -> String {
    if n.is_nan() {
        "(0/0)".into()
    } else if n.is_infinite() {
        if n > 0.0 { "inf".into() } else { "(-inf)".into() }
    } else if n == 0.0 && n.is_sign_negative() {
        "(-0)".into()
    } else if n < 0.0 {
        format!("(-{})", dec_literal(-n))
    } else {
        dec_literal(n)
    }
}

/// decimal literal accepted by the grammar for a positive finite double: the grammar has
/// no exponent-less limit, so use scientific notation with 17 significant digits
pub fn dec_literal(n: f64) -> String {
    let s = format!("{:e}", n); // shortest round-trip, e.g. 1.5e-7
    // grammar: integer ("." digits)? ("e" integer)?
    s
}

/// a string literal: the grammar has no escapes, so choose the quote that does not occur
pub fn str_source(s: &str) -> String {
    if !s.contains('"') {
        format!("\"{}\"", s)
    } else if !s.contains('\'') {
        format!("'{}'", s)
    } else {
        // both quotes: build by concatenation
        let mut parts = vec![];
        let mut cur = String::new();
        for c in s.chars() {
            if c == '"' {
                if !cur.is_empty() {
                    parts.push(format!("\"{}\"", cur));
                    cur.clear();
                }
                parts.push("'\"'".to_string());
            } else {
                cur.push(c);
            }
        }
        if !cur.is_empty() {
            parts.push(format!("\"{}\"", cur));
        }
        format!("({})", parts.join(" + "))
    }
}

pub const BOUNDARY_NUMS: &[f64] = &[
    0.0,
    -0.0,
    1.0,
    -1.0,
    2.0,
    0.5,
    -0.5,
    1.5,
    2.5,
    3.0,
    10.0,
    100.0,
    -7.25,
    0.1,
    0.30000000000000004,
    1e15,
    1e21,
    1e30,
    -1e30,
    9007199254740992.0,
    9007199254740993.0,
    9007199254740991.0,
    4294967296.0,
    2147483648.0,
    1e-7,
    5e-324,
    f64::MAX,
    f64::MIN_POSITIVE,
    f64::INFINITY,
    f64::NEG_INFINITY,
    f64::NAN,
];

pub const STRS: &[&str] = &[
    "", "a", "b", "ab", "abc", "abd", "A", "hello", "héllo", "é", "日本語", "😀", "a b", " ", "0", "10", "9",
    "true", "null", "a\"b", "a'b", "a\\b", "x\ny", "\t", "{}", "__blots_function",
];

pub const KEYS: &[&str] = &["a", "b", "c", "x", "y", "k1", "", "1", "a b", "é", "if", "__blots_function"];

pub const LAMBDAS: &[&str] = &[
    "x => x",
    "x => x + 1",
    "(x, y) => x + y",
    "(x, y?) => x",
    "(...r) => r",
    "() => 1",
    "y => y",
];

pub const BUILTINS: &[&str] = &["sum", "map", "len", "sqrt", "max", "to_string"];

pub fn gen_num(rng: &mut Rng) -> f64 {
    match rng.below(10) {
        0..=4 => *rng.pick(BOUNDARY_NUMS),
        5..=6 => rng.range(-20, 20) as f64,
        7 => (rng.range(-2000, 2000) as f64) / 8.0,
        8 => f64::from_bits(rng.next()),
        _ => {
            // near a boundary: ± few ulps
            let b = *rng.pick(BOUNDARY_NUMS);
            if b.is_finite() {
                f64::from_bits(b.to_bits().wrapping_add(rng.range(-2, 2) as u64))
            } else {
                b
            }
        }
    }
}

pub fn gen_str(rng: &mut Rng) -> String {
    if rng.chance(3, 4) {
        rng.pick(STRS).to_string()
    } else {
        let n = rng.below(6);
        let alphabet: Vec<char> = "abAB01 _é日😀\"'\\{}[],:\n".chars().collect();
        (0..n).map(|_| *rng.pick(&alphabet)).collect()
    }
}

/// recursive data value (no NaN unless `allow_nan`), records with unique keys
pub fn gen_data(rng: &mut Rng, depth: usize, allow_nan: bool) -> TV {
    let k = if depth == 0 { rng.below(4) } else { rng.below(7) };
    match k {
        0 => {
            let mut n = gen_num(rng);
            if !allow_nan {
                while n.is_nan() {
                    n = gen_num(rng);
                }
            }
            TV::Num(n)
        }
        1 => TV::Bool(rng.chance(1, 2)),
        2 => TV::Null,
        3 => TV::Str(gen_str(rng)),
        4 | 5 => {
            let n = rng.below(4);
            TV::List((0..n).map(|_| gen_data(rng, depth - 1, allow_nan)).collect())
        }
        _ => {
            let n = rng.below(4);
            let mut r: Vec<(String, TV)> = vec![];
            for _ in 0..n {
                let k = rng.pick(KEYS).to_string();
                if r.iter().any(|(k2, _)| *k2 == k) {
                    continue;
                }
                r.push((k, gen_data(rng, depth - 1, allow_nan)));
            }
            TV::Record(r)
        }
    }
}

/// any value incl. functions
pub fn gen_any(rng: &mut Rng, depth: usize) -> TV {
    match rng.below(12) {
        0 => TV::Lambda(rng.pick(LAMBDAS).to_string()),
        1 => TV::BuiltIn(rng.pick(BUILTINS).to_string()),
        _ => gen_data(rng, depth, true),
    }
}

/// a value "near" v: equal copy, permuted record, changed leaf, extended/truncated list
pub fn mutate_near(rng: &mut Rng, v: &TV) -> TV {
    match v {
        TV::List(l) => match rng.below(5) {
            0 => v.clone(),
            1 => {
                let mut l2 = l.clone();
                l2.push(gen_data(rng, 1, false));
                TV::List(l2)
            }
            2 if !l.is_empty() => {
                let mut l2 = l.clone();
                l2.pop();
                TV::List(l2)
            }
            _ if !l.is_empty() => {
                let mut l2 = l.clone();
                let i = rng.below(l2.len());
                l2[i] = mutate_near(rng, &l2[i]);
                TV::List(l2)
            }
            _ => v.clone(),
        },
        TV::Record(r) => match rng.below(5) {
            0 => v.clone(),
            1 | 2 => {
                // permute keys
                let mut r2 = r.clone();
                if r2.len() > 1 {
                    let i = rng.below(r2.len());
                    let j = rng.below(r2.len());
                    r2.swap(i, j);
                }
                TV::Record(r2)
            }
            3 if !r.is_empty() => {
                let mut r2 = r.clone();
                let i = rng.below(r2.len());
                r2[i].1 = mutate_near(rng, &r2[i].1);
                TV::Record(r2)
            }
            _ => {
                let mut r2 = r.clone();
                let k = rng.pick(KEYS).to_string();
                if !r2.iter().any(|(k2, _)| *k2 == k) {
                    r2.push((k, TV::Null));
                }
                TV::Record(r2)
            }
        },
        TV::Num(n) => match rng.below(4) {
            0 => v.clone(),
            1 if n.is_finite() => TV::Num(f64::from_bits(n.to_bits().wrapping_add(1))),
            2 if *n == 0.0 => TV::Num(-n),
            _ => TV::Num(gen_num(rng)).clone(),
        },
        TV::Str(s) => match rng.below(4) {
            0 => v.clone(),
            1 => TV::Str(format!("{}a", s)),
            2 if !s.is_empty() => {
                let mut cs: Vec<char> = s.chars().collect();
                cs.pop();
                TV::Str(cs.into_iter().collect())
            }
            _ => TV::Str(gen_str(rng)),
        },
        _ => {
            if rng.chance(1, 2) { v.clone() } else { gen_data(rng, 1, false) }
        }
    }
}
