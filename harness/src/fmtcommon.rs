//! Shared helpers for the parser / printer / formatter properties (C05, C07–C10).

use crate::run::{Stmt, parse_program};
use crate::util::{guarded, Model, Report};
use crate::wire;
use blots_core::ast::{Expr, Spanned, SpannedExpr};
use blots_core::expressions::pairs_to_expr;
use blots_core::formatter::format_expr;
use blots_core::parser::{Rule, get_pairs};
use pest::iterators::{Pair, Pairs};

/// Parse without comment attachment; statements as ASTs (Output wrapped), comments dropped.
pub fn parse_plain(src: &str) -> Result<Vec<SpannedExpr>, String> {
    let stmts = parse_program(src, false)?;
    let mut out = vec![];
    for (s, _) in stmts {
        match s {
            Stmt::Expr(e) => out.push(e),
            Stmt::Output(e) => out.push(Spanned::dummy(Expr::Output { expr: Box::new(e) })),
            Stmt::Comment(_) => {}
        }
    }
    Ok(out)
}

/// what `blots --format` does to one file, in-process (blots/src/main.rs format loop);
/// used only to cross-check the binary, which is what the check relies on
pub fn wire_stmt(e: &SpannedExpr) -> String {
    wire::expr(e)
}

/// Format every statement of `src` the way the library formatter is used by its drivers:
/// parse with comments, format each statement at width `w`, keep standalone comments and
/// end-of-line comments, one statement per line.  Returns (formatted text, per-statement
/// formatted strings).
pub fn format_program(src: &str, w: Option<usize>) -> Result<(String, Vec<String>), String> {
    let stmts = parse_program(src, true)?;
    let mut lines = vec![];
    for (s, eol) in stmts {
        let mut text = match s {
            Stmt::Expr(e) => format_expr(&e, w),
            Stmt::Output(e) => format_expr(&Spanned::dummy(Expr::Output { expr: Box::new(e) }), w),
            Stmt::Comment(c) => c,
        };
        if let Some(c) = eol {
            text.push_str("  ");
            text.push_str(&c);
        }
        lines.push(text);
    }
    Ok((lines.join("\n"), lines))
}

pub fn asts_equal(a: &[SpannedExpr], b: &[SpannedExpr]) -> bool {
    a.len() == b.len() && a.iter().zip(b.iter()).all(|(x, y)| x == y)
}

/// Model correspondence for the printers on one AST (parsed WITH comments).
pub fn check_model_print(model: &mut Model, rep: &mut Report, e: &SpannedExpr, widths: &[usize], desc: &str, keyp: &str) {
    let w = wire::expr(e);
    let real_src = guarded(|| blots_core::ast_to_source::expr_to_source(e));
    let m = model.ask(&format!("src {}", w));
    match &real_src {
        Ok(s) => {
            if wire::hs(s) != m {
                rep.finding("model", "expr_to_source", desc, &format!("impl={:?} model={:?}", s, wire::unhs(&m)), &format!("{}.model.src", keyp));
            }
        }
        Err(p) => rep.finding("oracle", "panic", desc, &format!("expr_to_source panicked: {}", p), &format!("{}.panic", keyp)),
    }
    for &wd in widths {
        let real = guarded(|| format_expr(e, Some(wd)));
        let m = model.ask(&format!("fmt {} {}", wd, w));
        match &real {
            Ok(s) => {
                if wire::hs(s) != m {
                    rep.finding("model", "format_expr", &format!("w={} {}", wd, desc),
                        &format!("impl={:?} model={:?}", s, wire::unhs(&m)), &format!("{}.model.fmt", keyp));
                }
            }
            Err(p) => rep.finding("oracle", "panic", desc, &format!("format_expr panicked: {}", p), &format!("{}.panic", keyp)),
        }
    }
}

// ---------------------------------------------------------------------------- Pratt tie

fn rule_name(r: Rule) -> String {
    format!("{:?}", r)
}

const INFIX_RULES: &[&str] = &[
    "add", "subtract", "multiply", "divide", "modulo", "power", "dot_equal", "dot_not_equal", "dot_less_eq", "dot_less",
    "dot_greater_eq", "dot_greater", "equal", "not_equal", "less_eq", "less", "greater_eq", "greater", "and", "or",
    "coalesce", "natural_and", "natural_or", "via", "into", "where_",
];
const PREFIX_RULES: &[&str] = &["negation", "invert", "natural_not", "spread_operator"];

/// the flat item sequence of one `expression` / `lambda_expression` pair, in the wire
/// form the model's `pratt` command reads; sub-terms are converted by the real code
pub fn pitems(expr_pair: Pair<Rule>) -> Result<String, String> {
    let mut out = vec![];
    for p in expr_pair.into_inner() {
        let name = rule_name(p.as_rule());
        if PREFIX_RULES.contains(&name.as_str()) {
            out.push(format!("(pre {})", name));
        } else if INFIX_RULES.contains(&name.as_str()) {
            out.push(format!("(inf {})", name));
        } else if name == "factorial" {
            out.push("(post fact)".to_string());
        } else if name == "access" {
            let e = pairs_to_expr(p.into_inner()).map_err(|e| e.to_string())?;
            out.push(format!("(post access {})", wire::expr(&e)));
        } else if name == "dot_access" {
            out.push(format!("(post dot {})", wire::hs(p.into_inner().as_str())));
        } else if name == "call_list" {
            let mut args = vec![];
            for a in p.into_inner() {
                let e = pairs_to_expr(a.into_inner()).map_err(|e| e.to_string())?;
                args.push(wire::expr(&e));
            }
            out.push(format!("(post call ({}))", args.join(" ")));
        } else {
            let e = pairs_to_expr(Pairs::single(p)).map_err(|e| e.to_string())?;
            out.push(format!("(prim {})", wire::expr(&e)));
        }
    }
    Ok(format!("({})", out.join(" ")))
}

/// every `expression` pair in the parse tree of `src`, outermost first
pub fn all_expression_pairs(src: &str) -> Result<Vec<Pair<'_, Rule>>, String> {
    let pairs = get_pairs(src).map_err(|e| e.to_string())?;
    let mut out = vec![];
    fn walk<'a>(p: Pair<'a, Rule>, out: &mut Vec<Pair<'a, Rule>>) {
        if matches!(p.as_rule(), Rule::expression | Rule::lambda_expression) {
            out.push(p.clone());
        }
        for c in p.into_inner() {
            walk(c, out);
        }
    }
    for p in pairs {
        walk(p, &mut out);
    }
    Ok(out)
}

/// compare the model's Pratt parser with the real one on every expression of `src`
pub fn check_pratt(model: &mut Model, rep: &mut Report, src: &str, keyp: &str) {
    let pairs = match all_expression_pairs(src) {
        Ok(p) => p,
        Err(_) => return,
    };
    for p in pairs.into_iter().take(40) {
        let text = p.as_str().to_string();
        let real = guarded(|| pairs_to_expr(p.clone().into_inner()));
        let items = match pitems(p) {
            Ok(i) => i,
            Err(_) => continue,
        };
        let m = model.ask(&format!("pratt {}", items));
        match real {
            Ok(Ok(e)) => {
                let want = format!("(ok {})", wire::expr(&e));
                if m != want {
                    rep.finding("model", "pratt", &text, &format!("impl={} model={}", want, m), &format!("{}.model.pratt", keyp));
                }
            }
            Ok(Err(_)) => {}
            Err(pn) => rep.finding("oracle", "panic", &text, &format!("pairs_to_expr panicked: {}", pn), &format!("{}.panic", keyp)),
        }
        rep.count("pratt-expressions");
    }
}

/// run `blots --format in out` on `src`; Ok(formatted text) or Err(stderr)
pub fn cli_format(blots_bin: &str, src: &str, tag: &str) -> Result<String, String> {
    use std::process::{Command, Stdio};
    let dir = std::env::temp_dir().join(format!("vharness-{}-{}", std::process::id(), tag));
    std::fs::create_dir_all(&dir).map_err(|e| e.to_string())?;
    let inp = dir.join("in.blots");
    let outp = dir.join("out.blots");
    std::fs::write(&inp, src).map_err(|e| e.to_string())?;
    let _ = std::fs::remove_file(&outp);
    let child = Command::new("timeout")
        .arg("20")
        .arg(blots_bin)
        .arg("--format")
        .arg(&inp)
        .arg(&outp)
        .stdin(Stdio::null())
        .stdout(Stdio::piped())
        .stderr(Stdio::piped())
        .output()
        .map_err(|e| e.to_string())?;
    let res = if child.status.success() {
        std::fs::read_to_string(&outp).map_err(|e| e.to_string())
    } else {
        Err(format!("exit {:?}: {}", child.status.code(), String::from_utf8_lossy(&child.stderr)))
    };
    let _ = std::fs::remove_dir_all(&dir);
    res
}
