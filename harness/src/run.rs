//! Thin wrappers around the real blots-core entry points.

use blots_core::ast::SpannedExpr;
use blots_core::environment::Environment;
use blots_core::error::RuntimeError;
use blots_core::expressions::{evaluate_pairs, pairs_to_expr, pairs_to_expr_with_comments};
use blots_core::heap::Heap;
use blots_core::parser::{Rule, get_pairs};
use blots_core::values::Value;
use std::cell::RefCell;
use std::rc::Rc;

pub type HeapRc = Rc<RefCell<Heap>>;

pub fn new_heap() -> HeapRc {
    Rc::new(RefCell::new(Heap::new()))
}

/// Evaluate a source text consisting of one expression statement.
pub fn eval_expr_src(src: &str, heap: &HeapRc, env: &Rc<Environment>) -> Result<Value, String> {
    let pairs = get_pairs(src).map_err(|e| format!("parse error: {}", e))?;
    let mut last: Result<Value, String> = Err("no statement".into());
    for pair in pairs {
        if pair.as_rule() == Rule::statement {
            if let Some(inner) = pair.into_inner().next() {
                match inner.as_rule() {
                    Rule::expression | Rule::output_declaration => {
                        last = evaluate_pairs(inner.into_inner(), Rc::clone(heap), Rc::clone(env), 0, src)
                            .map_err(|e: RuntimeError| e.message.clone());
                        if last.is_err() {
                            return last;
                        }
                    }
                    _ => {}
                }
            }
        }
    }
    last
}

#[derive(Debug, Clone)]
pub enum Stmt {
    Expr(SpannedExpr),
    Output(SpannedExpr),
    Comment(String),
}

/// Parse a program into statements (ASTs), with or without comment attachment.
/// Each statement also reports its optional end-of-line comment.
pub fn parse_program(src: &str, with_comments: bool) -> Result<Vec<(Stmt, Option<String>)>, String> {
    let pairs = get_pairs(src).map_err(|e| format!("{}", e))?;
    let mut out = vec![];
    for pair in pairs {
        if pair.as_rule() == Rule::statement {
            let mut inner = pair.into_inner();
            if let Some(first) = inner.next() {
                let conv = |p: pest::iterators::Pairs<Rule>| {
                    if with_comments { pairs_to_expr_with_comments(p) } else { pairs_to_expr(p) }
                };
                let st = match first.as_rule() {
                    Rule::expression => Stmt::Expr(conv(first.into_inner()).map_err(|e| e.to_string())?),
                    Rule::output_declaration => Stmt::Output(conv(first.into_inner()).map_err(|e| e.to_string())?),
                    Rule::comment => Stmt::Comment(first.as_str().to_string()),
                    r => return Err(format!("unexpected rule {:?}", r)),
                };
                let eol = inner.next().filter(|p| p.as_rule() == Rule::comment).map(|p| p.as_str().to_string());
                out.push((st, eol));
            }
        }
    }
    Ok(out)
}
