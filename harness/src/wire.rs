//! Wire format shared with the Lean model driver: S-expressions on one line.
//! Strings are `h<hex of utf-8>`, numbers are 16 hex digits of the bit pattern.

use blots_core::ast::{BinaryOp, Commented, Expr, PostfixOp, RecordEntry, RecordKey, SpannedExpr, UnaryOp};
use blots_core::heap::{Heap, HeapPointer, HeapValue, IterablePointer};
use blots_core::values::{LambdaArg, Value};

pub fn hs(s: &str) -> String {
    let mut out = String::with_capacity(1 + s.len() * 2);
    out.push('h');
    for b in s.as_bytes() {
        out.push_str(&format!("{:02x}", b));
    }
    out
}

pub fn unhs(a: &str) -> Option<String> {
    let a = a.strip_prefix('h')?;
    if a.len() % 2 != 0 {
        return None;
    }
    let mut bytes = Vec::with_capacity(a.len() / 2);
    for i in (0..a.len()).step_by(2) {
        bytes.push(u8::from_str_radix(&a[i..i + 2], 16).ok()?);
    }
    String::from_utf8(bytes).ok()
}

/// NaN payload and sign are not observable through the model (Lean's `Float.toBits`
/// canonicalises NaN), so every NaN crosses the wire as the canonical quiet NaN.
pub fn num(x: f64) -> String {
    let bits = if x.is_nan() { 0x7ff8_0000_0000_0000u64 } else { x.to_bits() };
    format!("(num {:016x})", bits)
}

pub fn binop(op: &BinaryOp) -> &'static str {
    match op {
        BinaryOp::Add => "add",
        BinaryOp::Subtract => "sub",
        BinaryOp::Multiply => "mul",
        BinaryOp::Divide => "div",
        BinaryOp::Modulo => "mod",
        BinaryOp::Power => "pow",
        BinaryOp::Equal => "eq",
        BinaryOp::NotEqual => "ne",
        BinaryOp::Less => "lt",
        BinaryOp::LessEq => "le",
        BinaryOp::Greater => "gt",
        BinaryOp::GreaterEq => "ge",
        BinaryOp::DotEqual => "deq",
        BinaryOp::DotNotEqual => "dne",
        BinaryOp::DotLess => "dlt",
        BinaryOp::DotLessEq => "dle",
        BinaryOp::DotGreater => "dgt",
        BinaryOp::DotGreaterEq => "dge",
        BinaryOp::And => "and",
        BinaryOp::NaturalAnd => "nand",
        BinaryOp::Or => "or",
        BinaryOp::NaturalOr => "nor",
        BinaryOp::Via => "via",
        BinaryOp::Into => "into",
        BinaryOp::Where => "where",
        BinaryOp::Coalesce => "coalesce",
    }
}

pub const ALL_BINOPS: [BinaryOp; 26] = [
    BinaryOp::Add,
    BinaryOp::Subtract,
    BinaryOp::Multiply,
    BinaryOp::Divide,
    BinaryOp::Modulo,
    BinaryOp::Power,
    BinaryOp::Equal,
    BinaryOp::NotEqual,
    BinaryOp::Less,
    BinaryOp::LessEq,
    BinaryOp::Greater,
    BinaryOp::GreaterEq,
    BinaryOp::DotEqual,
    BinaryOp::DotNotEqual,
    BinaryOp::DotLess,
    BinaryOp::DotLessEq,
    BinaryOp::DotGreater,
    BinaryOp::DotGreaterEq,
    BinaryOp::And,
    BinaryOp::NaturalAnd,
    BinaryOp::Or,
    BinaryOp::NaturalOr,
    BinaryOp::Via,
    BinaryOp::Into,
    BinaryOp::Where,
    BinaryOp::Coalesce,
];

fn larg(a: &LambdaArg) -> String {
    match a {
        LambdaArg::Required(n) => format!("(req {})", hs(n)),
        LambdaArg::Optional(n) => format!("(opt {})", hs(n)),
        LambdaArg::Rest(n) => format!("(rest {})", hs(n)),
    }
}

pub fn largs(args: &[LambdaArg]) -> String {
    format!("({})", args.iter().map(larg).collect::<Vec<_>>().join(" "))
}

fn trail(t: &Option<String>) -> String {
    match t {
        None => "-".to_string(),
        Some(s) => hs(s),
    }
}

fn lead(l: &[String]) -> String {
    format!("({})", l.iter().map(|s| hs(s)).collect::<Vec<_>>().join(" "))
}

fn item(c: &Commented<SpannedExpr>) -> String {
    format!("(item {} {} {})", lead(&c.leading), expr(&c.node), trail(&c.trailing))
}

fn entry(c: &Commented<RecordEntry>) -> String {
    let k = match &c.node.key {
        RecordKey::Static(s) => format!("(static {})", hs(s)),
        RecordKey::Dynamic(e) => format!("(dyn {})", expr(e)),
        RecordKey::Shorthand(s) => format!("(short {})", hs(s)),
        RecordKey::Spread(e) => format!("(kspread {})", expr(e)),
    };
    format!(
        "(entry {} {} {} {})",
        lead(&c.leading),
        k,
        expr(&c.node.value),
        trail(&c.trailing)
    )
}

/// Serialise the real parser's AST.
pub fn expr(e: &SpannedExpr) -> String {
    match &e.node {
        Expr::Number(n) => num(*n),
        Expr::String(s) => format!("(str {})", hs(s)),
        Expr::Bool(b) => format!("(bool {})", if *b { "t" } else { "f" }),
        Expr::Null => "(null)".to_string(),
        Expr::Identifier(s) => format!("(id {})", hs(s)),
        Expr::InputReference(s) => format!("(inref {})", hs(s)),
        Expr::BuiltIn(b) => format!("(builtin {})", b.name()),
        Expr::List(items) => {
            let mut s = String::from("(list");
            for i in items {
                s.push(' ');
                s.push_str(&item(i));
            }
            s.push(')');
            s
        }
        Expr::Record(entries) => {
            let mut s = String::from("(record");
            for i in entries {
                s.push(' ');
                s.push_str(&entry(i));
            }
            s.push(')');
            s
        }
        Expr::Lambda { args, body } => format!("(lambda {} {})", largs(args), expr(body)),
        Expr::Conditional {
            condition,
            then_expr,
            else_expr,
        } => format!("(cond {} {} {})", expr(condition), expr(then_expr), expr(else_expr)),
        Expr::DoBlock {
            statements,
            return_expr,
        } => format!(
            "(do ({}) {})",
            statements.iter().map(item).collect::<Vec<_>>().join(" "),
            item(return_expr)
        ),
        Expr::Assignment { ident, value } => format!("(assign {} {})", hs(ident), expr(value)),
        Expr::Output { expr: inner } => format!("(output {})", expr(inner)),
        Expr::Call { func, args } => format!(
            "(call {} ({}))",
            expr(func),
            args.iter().map(expr).collect::<Vec<_>>().join(" ")
        ),
        Expr::Access { expr: e2, index } => format!("(access {} {})", expr(e2), expr(index)),
        Expr::DotAccess { expr: e2, field } => format!("(dot {} {})", expr(e2), hs(field)),
        Expr::BinaryOp { op, left, right } => {
            format!("(bin {} {} {})", binop(op), expr(left), expr(right))
        }
        Expr::UnaryOp { op, expr: e2 } => format!(
            "(un {} {})",
            match op {
                UnaryOp::Negate => "negate",
                UnaryOp::Not => "not",
                UnaryOp::Invert => "invert",
            },
            expr(e2)
        ),
        Expr::PostfixOp { op, expr: e2 } => match op {
            PostfixOp::Factorial => format!("(fact {})", expr(e2)),
        },
        Expr::Spread(e2) => format!("(spread {})", expr(e2)),
    }
}

/// Serialise a runtime value by following heap pointers (lambda scope sorted by key).
pub fn value(v: &Value, heap: &Heap) -> String {
    match v {
        Value::Number(n) => num(*n),
        Value::Bool(b) => format!("(bool {})", if *b { "t" } else { "f" }),
        Value::Null => "(null)".to_string(),
        Value::String(p) => match p.reify(heap) {
            HeapValue::String(s) => format!("(str {})", hs(s)),
            _ => "(badptr)".to_string(),
        },
        Value::List(p) => match p.reify(heap) {
            HeapValue::List(l) => {
                let mut s = String::from("(list");
                for x in l {
                    s.push(' ');
                    s.push_str(&value(x, heap));
                }
                s.push(')');
                s
            }
            _ => "(badptr)".to_string(),
        },
        Value::Record(p) => match p.reify(heap) {
            HeapValue::Record(r) => {
                let mut s = String::from("(record");
                for (k, x) in r {
                    s.push_str(&format!(" ({} {})", hs(k), value(x, heap)));
                }
                s.push(')');
                s
            }
            _ => "(badptr)".to_string(),
        },
        Value::Lambda(p) => match p.reify(heap) {
            HeapValue::Lambda(def) => {
                let mut kvs: Vec<(&String, &Value)> = def.scope.iter().collect();
                kvs.sort_by(|a, b| a.0.as_bytes().cmp(b.0.as_bytes()));
                let mut sc = String::from("(scope");
                for (k, x) in kvs {
                    sc.push_str(&format!(" ({} {})", hs(k), value(x, heap)));
                }
                sc.push(')');
                format!("(lambda {} {} {})", largs(&def.args), expr(&def.body), sc)
            }
            _ => "(badptr)".to_string(),
        },
        Value::BuiltIn(b) => format!("(builtin {})", b.name()),
        Value::Spread(ip) => {
            let inner = match ip {
                IterablePointer::List(p) => Value::List(*p),
                IterablePointer::String(p) => Value::String(*p),
                IterablePointer::Record(p) => Value::Record(*p),
            };
            format!("(spread {})", value(&inner, heap))
        }
    }
}

/// wire form of a `SerializableValue` (the emitter's view of a captured value)
pub fn sv(v: &blots_core::values::SerializableValue) -> String {
    use blots_core::values::SerializableValue as S;
    match v {
        S::Number(n) => num(*n),
        S::Bool(b) => format!("(bool {})", if *b { "t" } else { "f" }),
        S::Null => "(null)".to_string(),
        S::String(s) => format!("(str {})", hs(s)),
        S::List(l) => {
            let mut s = String::from("(list");
            for x in l {
                s.push(' ');
                s.push_str(&sv(x));
            }
            s.push(')');
            s
        }
        S::Record(r) => {
            let mut s = String::from("(record");
            for (k, x) in r {
                s.push_str(&format!(" ({} {})", hs(k), sv(x)));
            }
            s.push(')');
            s
        }
        S::Lambda(d) => format!("(svlambda {} {})", largs(&d.args), hs(&d.body)),
        S::BuiltIn(n) => format!("(builtin {})", n),
    }
}
