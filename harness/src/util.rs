//! PRNG, model-driver process, report plumbing shared by every property harness.

use std::io::{BufRead, BufReader, Write};
use std::process::{Child, ChildStdin, ChildStdout, Command, Stdio};

/// SplitMix64 — the single source of randomness; seeded from VERIF_SEED.
#[derive(Clone)]
pub struct Rng(pub u64);

impl Rng {
    pub fn new(seed: u64) -> Self {
        Rng(seed ^ 0x9E37_79B9_7F4A_7C15)
    }
    pub fn next(&mut self) -> u64 {
        self.0 = self.0.wrapping_add(0x9E37_79B9_7F4A_7C15);
        let mut z = self.0;
        z = (z ^ (z >> 30)).wrapping_mul(0xBF58_476D_1CE4_E5B9);
        z = (z ^ (z >> 27)).wrapping_mul(0x94D0_49BB_1331_11EB);
        z ^ (z >> 31)
    }
    pub fn below(&mut self, n: usize) -> usize {
        if n == 0 { 0 } else { (self.next() % n as u64) as usize }
    }
    pub fn chance(&mut self, num: u64, den: u64) -> bool {
        self.next() % den < num
    }
    pub fn pick<'a, T>(&mut self, xs: &'a [T]) -> &'a T {
        &xs[self.below(xs.len())]
    }
    pub fn range(&mut self, lo: i64, hi: i64) -> i64 {
        lo + (self.next() % ((hi - lo + 1) as u64)) as i64
    }
}

/// The Lean model driver as a child process speaking the line protocol.
pub struct Model {
    child: Child,
    stdin: ChildStdin,
    stdout: BufReader<ChildStdout>,
    pub requests: u64,
}

impl Model {
    pub fn spawn(path: &str) -> Model {
        let mut child = Command::new(path)
            .stdin(Stdio::piped())
            .stdout(Stdio::piped())
            .stderr(Stdio::inherit())
            .spawn()
            .unwrap_or_else(|e| panic!("cannot start model driver {}: {}", path, e));
        let stdin = child.stdin.take().unwrap();
        let stdout = BufReader::new(child.stdout.take().unwrap());
        Model { child, stdin, stdout, requests: 0 }
    }

    /// one request line → one response line
    pub fn ask(&mut self, line: &str) -> String {
        debug_assert!(!line.contains('\n'));
        self.requests += 1;
        self.stdin.write_all(line.as_bytes()).unwrap();
        self.stdin.write_all(b"\n").unwrap();
        self.stdin.flush().unwrap();
        let mut out = String::new();
        let n = self.stdout.read_line(&mut out).unwrap();
        if n == 0 {
            panic!("model driver closed its output on request: {}", line);
        }
        while out.ends_with('\n') || out.ends_with('\r') {
            out.pop();
        }
        out
    }
}

impl Drop for Model {
    fn drop(&mut self) {
        let _ = self.child.kill();
        let _ = self.child.wait();
    }
}

/// What a property harness found.  `kind`:
///  * "oracle"  — the implementation visibly breaks the property on `input` (model-free);
///  * "model"   — implementation and Lean model disagree on `input` (correspondence).
#[derive(Clone)]
pub struct Finding {
    pub kind: String,
    pub what: String,
    pub input: String,
    pub detail: String,
    /// key used to match the committed known-findings file
    pub key: String,
}

pub struct Report {
    pub property: String,
    pub evaluations: u64,
    pub distinct: std::collections::HashSet<u64>,
    pub model_requests: u64,
    pub samples: Vec<String>,
    pub findings: Vec<Finding>,
    pub counters: std::collections::BTreeMap<String, u64>,
    pub notes: Vec<String>,
}

pub fn fnv(s: &str) -> u64 {
    let mut h: u64 = 0xcbf29ce484222325;
    for b in s.as_bytes() {
        h ^= *b as u64;
        h = h.wrapping_mul(0x100000001b3);
    }
    h
}

impl Report {
    pub fn new(p: &str) -> Self {
        Report {
            property: p.to_string(),
            evaluations: 0,
            distinct: Default::default(),
            model_requests: 0,
            samples: vec![],
            findings: vec![],
            counters: Default::default(),
            notes: vec![],
        }
    }
    /// count one evaluated case; `nontrivial` cases are hashed for the distinct count
    pub fn case(&mut self, repr: &str, nontrivial: bool) {
        self.evaluations += 1;
        if nontrivial {
            self.distinct.insert(fnv(repr));
        }
        if self.samples.len() < 12 && (self.evaluations % 97 == 1) {
            self.samples.push(repr.chars().take(400).collect());
        }
    }
    pub fn count(&mut self, k: &str) {
        *self.counters.entry(k.to_string()).or_insert(0) += 1;
    }
    pub fn finding(&mut self, kind: &str, what: &str, input: &str, detail: &str, key: &str) {
        // keep the first few per (kind, what, key) - so that listed known findings can never use up
        // the room of a new finding of the same kind - and count the rest
        self.count(&format!("finding.{}.{}", kind, what));
        if self.findings.iter().filter(|f| f.kind == kind && f.what == what && f.key == key).count() < 5 {
            self.findings.push(Finding {
                kind: kind.to_string(),
                what: what.to_string(),
                input: input.to_string(),
                detail: detail.to_string(),
                key: key.to_string(),
            });
        }
    }
    pub fn to_json(&self) -> serde_json::Value {
        serde_json::json!({
            "property": self.property,
            "evaluations": self.evaluations,
            "distinct_nontrivial": self.distinct.len(),
            "model_requests": self.model_requests,
            "samples": self.samples,
            "counters": self.counters,
            "notes": self.notes,
            "findings": self.findings.iter().map(|f| serde_json::json!({
                "kind": f.kind, "what": f.what, "input": f.input, "detail": f.detail, "key": f.key
            })).collect::<Vec<_>>(),
        })
    }
}

pub struct Ctx {
    pub tier: String,
    pub seed: u64,
    pub model_path: String,
    pub blots_bin: String,
    pub blots_release_bin: String,
    pub replay: Option<String>,
}

impl Ctx {
    pub fn thorough(&self) -> bool {
        self.tier == "thorough"
    }
    /// scale a quick budget for the thorough tier
    pub fn budget(&self, quick: usize, thorough: usize) -> usize {
        if self.thorough() { thorough } else { quick }
    }
}

/// run `f` catching panics; Err(message) on panic
pub fn guarded<T>(f: impl FnOnce() -> T) -> Result<T, String> {
    match std::panic::catch_unwind(std::panic::AssertUnwindSafe(f)) {
        Ok(v) => Ok(v),
        Err(e) => {
            let msg = if let Some(s) = e.downcast_ref::<&str>() {
                s.to_string()
            } else if let Some(s) = e.downcast_ref::<String>() {
                s.clone()
            } else {
                "panic".to_string()
            };
            Err(msg)
        }
    }
}
