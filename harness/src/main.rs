mod evalcommon;
mod evgen;
mod fmtcommon;
mod gen_wasm_format;
mod progen;
mod props;
mod run;
mod tv;
mod util;
mod wire;

use util::{Ctx, Report};

fn main() {
    let args: Vec<String> = std::env::args().collect();
    let mut prop = String::new();
    let mut ctx = Ctx {
        tier: std::env::var("VERIF_TIER").unwrap_or_else(|_| "quick".into()),
        seed: std::env::var("VERIF_SEED").ok().and_then(|s| s.parse().ok()).unwrap_or(1),
        model_path: "/verif/lean/.lake/build/bin/blotsmodel".into(),
        blots_bin: "/verif/build/repo-target/debug/blots".into(),
        blots_release_bin: "/verif/build/repo-target/release/blots".into(),
        replay: None,
    };
    let mut out_path = String::new();
    let mut i = 1;
    while i < args.len() {
        match args[i].as_str() {
            "--tier" => { ctx.tier = args[i + 1].clone(); i += 1; }
            "--seed" => { ctx.seed = args[i + 1].parse().unwrap_or(1); i += 1; }
            "--model" => { ctx.model_path = args[i + 1].clone(); i += 1; }
            "--blots" => { ctx.blots_bin = args[i + 1].clone(); i += 1; }
            "--blots-release" => { ctx.blots_release_bin = args[i + 1].clone(); i += 1; }
            "--out" => { out_path = args[i + 1].clone(); i += 1; }
            "--replay" => { ctx.replay = Some(args[i + 1].clone()); i += 1; }
            p => { if prop.is_empty() { prop = p.to_string(); } }
        }
        i += 1;
    }
    // debugging aid: `vharness debug-session FILE` prints, per statement, the real outcome and the model's
    if prop == "debug-session" {
        let src = std::fs::read_to_string(args.last().unwrap()).expect("read program");
        let src = src.trim_end_matches('\n');
        let stmts = evalcommon::statements(src).expect("parse");
        let real = evalcommon::run_real(&stmts, None, src);
        let mut model = util::Model::spawn(&ctx.model_path);
        let m = evalcommon::model_session(&mut model, &stmts, None, 4000);
        println!("REAL  {}", real.outcomes.join("\n      "));
        println!("MODEL {}", m);
        println!("ENV   {}", evalcommon::env_wire(&real));
        return;
    }
    // silence the default panic hook: panics inside the code under test are outcomes
    std::panic::set_hook(Box::new(|_| {}));
    let mut report = Report::new(&prop);
    let t0 = std::time::Instant::now();
    props::run(&prop, &ctx, &mut report);
    let mut j = report.to_json();
    j["wall_s"] = serde_json::json!(t0.elapsed().as_secs_f64());
    j["seed"] = serde_json::json!(ctx.seed);
    j["tier"] = serde_json::json!(ctx.tier);
    let text = serde_json::to_string_pretty(&j).unwrap();
    if out_path.is_empty() {
        println!("{}", text);
    } else {
        std::fs::write(&out_path, text).expect("write report");
    }
}
