//! C08 — formatting is idempotent: format(format(p)) == format(p) as strings, through the
//! library formatter with the drivers' statement logic, the wasm driver (`format_blots`,
//! re-emitted from the working tree by the translator) incl. blank-line spacing, and
//! `blots --format`.

use crate::fmtcommon::*;
use crate::gen_wasm_format::format_blots;
use crate::progen::{self, GenCfg};
use crate::util::{guarded, Ctx, Model, Report, Rng};
use crate::wire;

fn lib_twice(src: &str, w: Option<usize>) -> Option<String> {
    let f1 = match guarded(|| format_program(src, w)) {
        Ok(Ok((f, _))) => f,
        _ => return None, // unparseable input / panics are C01 / C07 territory
    };
    match guarded(|| format_program(&f1, w)) {
        Ok(Ok((f2, _))) => {
            if f1 == f2 { None } else { Some(format!("first={:?} second={:?}", f1, f2)) }
        }
        Ok(Err(e)) => Some(format!("formatted text does not parse: {:?} :: {}", f1, e.lines().next().unwrap_or(""))),
        Err(p) => Some(format!("PANIC {}", p)),
    }
}

fn wasm_twice(src: &str, w: Option<usize>) -> Option<String> {
    let f1 = match guarded(|| format_blots(src, w)) {
        Ok(Ok(f)) => f,
        _ => return None,
    };
    match guarded(|| format_blots(&f1, w)) {
        Ok(Ok(f2)) => {
            if f1 == f2 { None } else { Some(format!("first={:?} second={:?}", f1, f2)) }
        }
        Ok(Err(e)) => Some(format!("formatted text does not parse: {:?} :: {}", f1, e.lines().next().unwrap_or(""))),
        Err(p) => Some(format!("PANIC {}", p)),
    }
}

pub fn known_probes() -> Vec<(&'static str, &'static str)> {
    vec![]
}

pub fn run(ctx: &Ctx, rep: &mut Report) {
    let mut rng = Rng::new(ctx.seed);
    let mut model = Model::spawn(&ctx.model_path);
    let widths: &[usize] = if ctx.thorough() { super::c07::WIDTHS_THOROUGH } else { super::c07::WIDTHS_QUICK };
    let n_prog = ctx.budget(500, 6000);
    let mut cli_batch: Vec<String> = vec![];

    for (key, src) in known_probes() {
        rep.case(src, true);
        if let Some(d) = lib_twice(src, None) {
            rep.finding("oracle", "not-idempotent", src, &d, key);
        }
    }

    for i in 0..n_prog {
        let cfg = GenCfg { comments: i % 2 == 0, max_depth: 1 + rng.below(4) };
        let prog = progen::gen_program(&mut rng, &cfg, 4);
        let src = prog.to_source();
        if parse_plain(&src).is_err() {
            rep.count("generator-text-rejected");
            continue;
        }
        rep.case(&src, true);
        let mut ws: Vec<Option<usize>> = widths.iter().map(|w| Some(*w)).collect();
        ws.push(None);
        for w in ws {
            if let Some(d) = lib_twice(&src, w) {
                rep.finding("oracle", "not-idempotent", &format!("w={:?} {}", w, src), &d, "c08.not-idempotent");
                break;
            }
            if let Some(d) = wasm_twice(&src, w) {
                rep.finding("oracle", "wasm-not-idempotent", &format!("w={:?} {}", w, src), &d, "c08.wasm-not-idempotent");
                break;
            }
        }
        // blank-line rule of the wasm driver: model correspondence for join_statements_with_spacing
        if i % 3 == 0 {
            let n = 1 + rng.below(5);
            let mut line = 1usize;
            let mut stmts: Vec<(String, usize, usize)> = vec![];
            for k in 0..n {
                let height = 1 + rng.below(3);
                let start = line;
                let end = if rng.chance(1, 10) { start.saturating_sub(rng.below(2)) } else { start + height - 1 };
                stmts.push((format!("s{}", k), start, end));
                line = end + 1 + rng.below(6);
            }
            let real = blots_core::formatter::join_statements_with_spacing(&stmts);
            let req = format!(
                "join ({})",
                stmts.iter().map(|(s, a, b)| format!("({} {} {})", wire::hs(s), a, b)).collect::<Vec<_>>().join(" ")
            );
            let m = model.ask(&req);
            if m != wire::hs(&real) {
                rep.finding("model", "join_statements_with_spacing", &format!("{:?}", stmts),
                    &format!("impl={:?} model={:?}", real, wire::unhs(&m)), "c08.model.join");
            }
        }
        if cli_batch.len() < ctx.budget(20, 200) && i % 7 == 1 {
            cli_batch.push(src);
        }
    }
    // statements that are laid out over several lines and carry an end-of-line comment
    for body in [
        "[1111111111, 2222222222, 3333333333, 4444444444, 5555555555, 6666666666, 7777777777, 8888888888]",
        "{alpha_alpha_alpha: 1111111111, beta_beta_beta: 2222222222, gamma_gamma_gamma: 3333333333, delta_delta: 4444444444}",
        "some_function_name(1111111111, 2222222222, 3333333333, 4444444444, 5555555555, 6666666666, 7777777777)",
        "do {\n  t = 1\n  return t\n}",
        "do { a; where into x\n return 1 }",
        "do { via = 1; via + via\n return into via where }",
        "if aaaaaaaaaaaaaaaaaaaaaaaaaaaaaaaaaaaaaaaaaaaaaaaaaaaaaaaaaaaaaaaaaa then bbbbbbbbbbbbbbbbbbbbbbbb else cccccccccccccccccccccccc",
        "[\n  1, // inner\n  2,\n]",
    ] {
        for stmt in [format!("x = {} // note", body), format!("output y = {} // note", body), format!("{}  // tail", body), format!("x = {} // one\ny = 2 // two", body)] {
            cli_batch.push(stmt);
        }
    }
    for (k, src) in cli_batch.iter().enumerate() {
        rep.count("cli-format-runs");
        if let Ok(f1) = cli_format(&ctx.blots_bin, src, &format!("c08a-{}", k)) {
            match cli_format(&ctx.blots_bin, &f1, &format!("c08b-{}", k)) {
                Ok(f2) => {
                    if f1 != f2 {
                        rep.finding("oracle", "cli-not-idempotent", src, &format!("first={:?} second={:?}", f1, f2), "c08.cli-not-idempotent");
                    }
                }
                Err(e) => rep.finding("oracle", "cli-reformat-failed", src, &format!("{:?} :: {}", f1, e), "c08.cli-not-idempotent"),
            }
        }
    }
    rep.model_requests = model.requests;
}
