//! C03 — bindings are immutable and scoped.
//! oracle: over statement sequences (exhaustive up to depth 4 over an alphabet of binding,
//! rebinding, nested assignment, do-block shadowing, parameter shadowing, failing statements
//! after inner assignments, outputs, calls, reserved-name binds on three names, plus random
//! longer sessions): after every statement every previously bound name still has its value,
//! a rebind fails, do-block locals / parameters are not visible afterwards, reserved names
//! are never bound.  correspondence: every session against the Lean evaluator.

use crate::evalcommon::*;
use crate::evgen;
use crate::util::{guarded, Ctx, Model, Report, Rng};
use crate::wire;
use std::collections::BTreeMap;
use std::rc::Rc;

fn alphabet() -> Vec<String> {
    let mut a = vec![];
    for n in ["x", "y", "z"] {
        a.push(format!("{} = 1", n));
        a.push(format!("{} = [2, 3]", n));
        a.push(format!("{} = q => q + 1", n));
        a.push(format!("w = ({} = 5) + 1", n));
        a.push(format!("do {{\n  {} = 7\n  loc = 8\n  return {} + loc\n}}", n, n));
        a.push(format!("({} => {} * 2)(9)", n, n));
        a.push(format!("[{} = 4, 1 + \"s\"]", n));
        a.push(format!("{} = [{} = 1, {}]", n, n, n));
        a.push(format!("do {{\n  return {} = 2\n}}", n));
        a.push(format!("do {{\n  [{} = 3, loc = 4]\n  return 1\n}}", n));
        a.push(format!("do {{\n  [1] via (e => {} = e)\n  return loc = 5\n}}", n));
        a.push(format!("(() => {} = 6)()", n));
        a.push(format!("if true then {} = 7 else 0", n));
        a.push(format!("{{k: {} = 8}}.k", n));
        a.push(format!("output {}", n));
        a.push(format!("f_{} = () => do {{\n  {} = 11\n  return {}\n}}", n, n, n));
        a.push(format!("f_{}()", n));
        a.push(format!("[1, 2] via ({} => do {{\n  t = {}\n  return t\n}})", n, n));
        a.push(format!("sort_by([2, 1], {} => do {{\n  inner_{} = {}\n  return inner_{}\n}})", n, n, n, n));
    }
    // a function with a free name that is bound later, rebinding of functions under other names
    a.push("fs = [q => q + helper, 1]".to_string());
    a.push("fs[0](1)".to_string());
    a.push("do {\n  helper = fs[0]\n  return 0\n}".to_string());
    a.push("(g => do {\n  helper = g\n  return 0\n})(fs[0])".to_string());
    a.push("rec_holder = {f: q => q + helper}".to_string());
    a.push("do {\n  helper = rec_holder.f\n  x = rec_holder.f\n  return 0\n}".to_string());
    a.push("fh = q => q + helper".to_string());
    a.push("helper = 10".to_string());
    a.push("fh(1)".to_string());
    a.push("do {\n  helper = fh\n  return 0\n}".to_string());
    a.push("do {\n  x = fh\n  y = f_x\n  return 0\n}".to_string());
    a.push("[z = fh, 1]".to_string());
    a.push("y = fh".to_string());
    a.push("(g => do {\n  helper = g\n  return 0\n})(fh)".to_string());
    for n in ["inputs", "constants", "map", "sum", "inf"] {
        a.push(format!("{} = 1", n));
    }
    a.push("loc".to_string());
    a.push("t + inner_x".to_string());
    a.push("x + y".to_string());
    a
}

/// the names of the function cells reachable from a value, in traversal order: the name is
/// what a call binds to the function itself, so it is part of what is observed through a binding
fn lambda_names(v: &blots_core::values::Value, heap: &blots_core::heap::Heap, out: &mut String, budget: &mut usize) {
    use blots_core::heap::{HeapPointer, HeapValue};
    use blots_core::values::Value;
    if *budget == 0 {
        return;
    }
    *budget -= 1;
    match v {
        Value::List(p) => {
            if let HeapValue::List(l) = p.reify(heap) {
                l.iter().for_each(|x| lambda_names(x, heap, out, budget));
            }
        }
        Value::Record(p) => {
            if let HeapValue::Record(r) = p.reify(heap) {
                r.iter().for_each(|(_, x)| lambda_names(x, heap, out, budget));
            }
        }
        Value::Lambda(p) => {
            if let HeapValue::Lambda(def) = p.reify(heap) {
                out.push_str(&format!("<{}>", def.name.clone().unwrap_or("-".into())));
                let mut kvs: Vec<_> = def.scope.iter().collect();
                kvs.sort_by(|a, b| a.0.cmp(b.0));
                kvs.iter().for_each(|(_, x)| lambda_names(x, heap, out, budget));
            }
        }
        _ => {}
    }
}

/// does evaluating `e` (when it succeeds) always execute an assignment to `ident`?  Only the
/// unconditional positions are followed: list items, record values, operands, call arguments
fn assigns_always(e: &blots_core::ast::SpannedExpr, ident: &str) -> bool {
    use blots_core::ast::Expr;
    match &e.node {
        Expr::Assignment { ident: i, value } => i == ident || assigns_always(value, ident),
        Expr::List(items) => items.iter().any(|it| assigns_always(&it.node, ident)),
        Expr::Record(entries) => entries.iter().any(|en| assigns_always(&en.node.value, ident)),
        Expr::BinaryOp { op, left, right } => {
            use blots_core::ast::BinaryOp as B;
            assigns_always(left, ident) || (!matches!(op, B::Via | B::Where | B::Into) && assigns_always(right, ident))
        }
        Expr::UnaryOp { expr, .. } | Expr::PostfixOp { expr, .. } => assigns_always(expr, ident),
        Expr::Call { func, args } => assigns_always(func, ident) || args.iter().any(|a| assigns_always(a, ident)),
        Expr::Access { expr, index } => assigns_always(expr, ident) || assigns_always(index, ident),
        Expr::DotAccess { expr, .. } => assigns_always(expr, ident),
        Expr::Conditional { condition, .. } => assigns_always(condition, ident),
        _ => false,
    }
}

/// run one session on the real evaluator checking the snapshot invariant after every statement
fn check_invariants(rep: &mut Report, src: &str) {
    let stmts = match statements(src) {
        Ok(s) => s,
        Err(_) => return,
    };
    let heap = crate::run::new_heap();
    let env = Rc::new(blots_core::environment::Environment::new());
    let inputs = crate::tv::TV::Record(vec![("k".into(), crate::tv::TV::Num(1.0))]).to_value(&heap);
    env.insert("inputs".into(), inputs);
    let source: Rc<str> = src.into();
    let mut snapshot: BTreeMap<String, String> = BTreeMap::new();
    let texts: Vec<&str> = src.split("\n").collect();
    let _ = texts;
    for (k, e) in stmts.iter().enumerate() {
        let r = guarded(|| blots_core::expressions::evaluate_ast(e, heap.clone(), env.clone(), 0, source.clone()).map_err(|x| x.message.clone()));
        let now: BTreeMap<String, String> = env.iter().map(|(n, v)| {
            let h = heap.borrow();
            let mut w = wire::value(&v, &h);
            w.push_str(" names ");
            lambda_names(&v, &h, &mut w, &mut 10000);
            (n, w)
        }).collect();
        for (n, v) in snapshot.iter() {
            match now.get(n) {
                Some(v2) if v2 == v => {}
                other => rep.finding("oracle", "binding-changed", src,
                    &format!("after statement {} the value of {} changed from {} to {:?}", k, n, short(v), other.map(|s| short(s))), "c03.binding-changed"),
            }
        }
        for n in now.keys() {
            if ["loc", "t", "inner_x", "inner_y", "inner_z", "q", "map", "sum", "constants", "inf", "if", "true", "null"].contains(&n.as_str()) {
                rep.finding("oracle", "name-leaked-or-reserved-bound", src, &format!("after statement {} the root environment binds {}", k, n), "c03.leak");
            }
        }
        // a binding whose own right-hand side binds the same name on every path must fail
        if let blots_core::ast::Expr::Assignment { ident, value } = &e.node {
            if assigns_always(value, ident) {
                if let Ok(Ok(_)) = r {
                    rep.finding("oracle", "rebind-accepted", src, &format!("statement {} binds {} although evaluating its right-hand side had already bound it", k, ident), "c03.rebind");
                }
            }
        }
        // a top-level rebind of a bound name must fail
        if let blots_core::ast::Expr::Assignment { ident, .. } = &e.node {
            if snapshot.contains_key(ident) {
                if let Ok(Ok(_)) = r {
                    rep.finding("oracle", "rebind-accepted", src, &format!("statement {} rebinds {}", k, ident), "c03.rebind");
                }
            }
        }
        snapshot = now;
    }
}

pub fn run(ctx: &Ctx, rep: &mut Report) {
    let mut rng = Rng::new(ctx.seed);
    let mut model = Model::spawn(&ctx.model_path);
    let alpha = alphabet();
    // exhaustive short sequences: all pairs; triples / quadruples sampled (all in thorough)
    let n = alpha.len();
    for i in 0..n {
        for j in 0..n {
            let src = format!("{}\n{}", alpha[i], alpha[j]);
            rep.case(&src, true);
            check_invariants(rep, &src);
            if (i + j + ctx.seed as usize) % 3 == 0 || ctx.thorough() {
                check_session(&mut model, rep, &src, None, "c03");
            }
        }
    }
    let n_seq = ctx.budget(3000, 60000);
    for _ in 0..n_seq {
        let len = 3 + rng.below(2);
        let src = (0..len).map(|_| rng.pick(&alpha).clone()).collect::<Vec<_>>().join("\n");
        rep.case(&src, true);
        check_invariants(rep, &src);
        if rng.chance(1, 4) {
            check_session(&mut model, rep, &src, None, "c03");
        }
    }
    // random longer sessions from the typed generator
    let n_long = ctx.budget(150, 2000);
    for _ in 0..n_long {
        let ns = 10 + rng.below(30);
        let (src, _) = evgen::gen_program(&mut rng, ns, 2);
        rep.case(&src, true);
        check_invariants(rep, &src);
        check_session(&mut model, rep, &src, None, "c03");
    }
    // reserved words: the grammar itself refuses them as names
    for w in ["if", "then", "else", "true", "false", "null", "and", "or", "not", "do", "return", "output"] {
        let src = format!("{} = 1", w);
        rep.case(&src, true);
        let heap = crate::run::new_heap();
        let env = Rc::new(blots_core::environment::Environment::new());
        if let Ok(Ok(_)) = guarded(|| crate::run::eval_expr_src(&src, &heap, &env)) {
            rep.finding("oracle", "reserved-word-bound", &src, "", "c03.reserved");
        }
        if env.iter().next().is_some() {
            rep.finding("oracle", "reserved-word-bound", &src, "environment not empty", "c03.reserved");
        }
    }
    rep.model_requests = model.requests;
}
