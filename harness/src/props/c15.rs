//! C15 — aggregates equal their mathematical definitions in both calling conventions.
//! oracle: built-in results vs reference computations in the harness on the same doubles
//! (min / max / median / percentile exact; sum / prod / avg within a rounding bound), both
//! calling conventions bit-identical, permutation invariance, percentile monotone with
//! p=0 ↦ min and p=100 ↦ max and always an element; correspondence with the Lean model.

use crate::evalcommon::*;
use crate::tv::TV;
use crate::util::{Ctx, Model, Report, Rng};
use crate::wire;

fn gen_nums(rng: &mut Rng, force_len: Option<usize>) -> Vec<f64> {
    let n = match force_len {
        Some(k) => k,
        None => 1 + match rng.below(5) { 0 => 0, 1 => rng.below(4), 2 => rng.below(12), 3 => rng.below(50), _ => 50 + rng.below(260) },
    };
    let kind = if force_len.is_some() { rng.below(2) } else { rng.below(5) };
    (0..n).map(|_| match kind {
        0 => rng.range(-10, 10) as f64,
        1 => (rng.range(-1000, 1000) as f64) / 8.0,
        2 => *rng.pick(&[1.0, 1.0, 2.0, -3.0, 0.0, -0.0, 1e15, 1e-9, 5.5]),
        3 => *rng.pick(&[1e300, -1e300, 1e-300, 3.0, f64::INFINITY, f64::NEG_INFINITY, 7.0]),
        _ => f64::from_bits(rng.next()),
    }).filter(|x| !x.is_nan()).collect::<Vec<f64>>()
}

fn num_of(o: &str) -> Option<f64> {
    let h = o.strip_prefix("(ok (num ")?.strip_suffix("))")?;
    Some(f64::from_bits(u64::from_str_radix(h, 16).ok()?))
}

pub fn run(ctx: &Ctx, rep: &mut Report) {
    let mut rng = Rng::new(ctx.seed);
    let mut model = Model::spawn(&ctx.model_path);
    let n = ctx.budget(400, 8000);
    // every length 1..=160 once (small integers / eighths), then random lengths up to 310
    for it in 0..(n + 160) {
        let mut xs = gen_nums(&mut rng, if it < 160 { Some(it + 1) } else { None });
        // forced lengths come in three orders: as generated, ascending, descending
        if it < 160 && it % 3 == 1 { xs.sort_by(|a, b| a.partial_cmp(b).unwrap()); }
        if it < 160 && it % 3 == 2 { xs.sort_by(|a, b| b.partial_cmp(a).unwrap()); }
        if xs.is_empty() {
            continue;
        }
        let args: Vec<TV> = xs.iter().map(|x| TV::Num(*x)).collect();
        let list = TV::List(args.clone());
        let desc = list.to_source();
        rep.case(&desc, xs.len() > 1);
        let mut sorted = xs.clone();
        sorted.sort_by(|a, b| a.partial_cmp(b).unwrap());
        for name in ["min", "max", "sum", "prod", "avg", "median"] {
            let (a, _) = call_builtin_real(name, &[list.clone()]);
            let (b, _) = call_builtin_real(name, &args);
            if a == "(panic)" || b == "(panic)" {
                rep.finding("oracle", "panic", &format!("{}({})", name, desc), "", "c15.panic");
            }
            // one list vs the same numbers as separate arguments (a single number is itself)
            if xs.len() >= 2 && a != b {
                rep.finding("oracle", "conventions-disagree", &format!("{}({})", name, desc), &format!("list={} varargs={}", a, b), "c15.conventions");
            }
            let m = model_builtin(&mut model, name, &[list.clone()]);
            // which of +0 / -0 `f64::min` / `f64::max` return on a tie depends on how the compiler lowers
            // them (it differs between the debug and the optimised build of the same source): for min / max
            // a zero result is compared up to its sign, as in `min_max_permutation_invariant`
            let zero_sign = |s: &str| s.replace("(num 8000000000000000)", "(num 0000000000000000)");
            if m != a && matches!(name, "min" | "max") && zero_sign(&m) == zero_sign(&a) {
                rep.count("min-max-zero-sign");
            } else if m != a {
                rep.finding("model", "builtin", &format!("{}({})", name, desc), &format!("impl={} model={}", a, m), "c15.model.builtin");
            }
            let got = match num_of(&a) {
                Some(g) => g,
                None => {
                    rep.finding("oracle", "aggregate-failed", &format!("{}({})", name, desc), &a, "c15.failed");
                    continue;
                }
            };
            let len = xs.len();
            match name {
                "min" | "max" => {
                    let want = if name == "min" { sorted[0] } else { sorted[len - 1] };
                    if !(got == want) || !xs.iter().any(|x| *x == got) {
                        rep.finding("oracle", "min-max", &format!("{}({})", name, desc), &format!("got {} expected {}", got, want), "c15.minmax");
                    }
                }
                "median" => {
                    let want = if len % 2 == 1 { sorted[len / 2] } else { (sorted[len / 2 - 1] + sorted[len / 2]) / 2.0 };
                    if !(got == want || (got.is_nan() && want.is_nan())) {
                        rep.finding("oracle", "median", &format!("median({})", desc), &format!("got {} expected {}", got, want), "c15.median");
                    }
                }
                "sum" | "avg" | "prod" => {
                    if name == "prod" {
                        // facts about an IEEE product that hold for every order of the factors and whatever
                        // the rounding: a zero and an infinity among the factors give NaN; otherwise the sign
                        // of the product is the parity of the negative factors (signed zeros included); a
                        // zero factor gives a zero product
                        let has_zero = xs.iter().any(|x| *x == 0.0);
                        let has_inf = xs.iter().any(|x| x.is_infinite());
                        let negative = xs.iter().filter(|x| x.is_sign_negative()).count() % 2 == 1;
                        let bad = if has_zero && has_inf { !got.is_nan() }
                            else if got.is_nan() {
                                // otherwise NaN can only come from a partial product that overflowed meeting a factor that
                                // is (or a partial product that underflowed to) zero: exactly when the left fold in the
                                // given order is NaN
                                !xs.iter().fold(1.0f64, |a, x| a * x).is_nan()
                            }
                            else { got.is_sign_negative() != negative || (has_zero && got != 0.0) };
                        if bad {
                            rep.finding("oracle", "prod", &format!("prod({})", desc), &format!("got {:e} (bits {:016x}): zero factor {}, infinite factor {}, odd number of negative factors {}", got, got.to_bits(), has_zero, has_inf, negative), "c15.prod");
                        }
                    }
                    if xs.iter().all(|x| x.is_finite()) {
                        // reference in higher effective precision: compensated (Neumaier) sum; product by logs is avoided: compare with the sequential product and its reverse-order product
                        if name == "prod" {
                            let fwd: f64 = xs.iter().product();
                            let bwd: f64 = xs.iter().rev().product();
                            let tol = (len as f64 + 1.0) * f64::EPSILON;
                            let ok = got == fwd || (fwd.is_finite() && bwd.is_finite() && ((got - bwd).abs() <= tol * bwd.abs().max(f64::MIN_POSITIVE))) || !fwd.is_finite() || fwd == 0.0 || bwd == 0.0 || !bwd.is_finite() || fwd.abs() < 1e-290;
                            if !ok {
                                rep.finding("oracle", "prod", &format!("prod({})", desc), &format!("got {} forward {} backward {}", got, fwd, bwd), "c15.prod");
                            }
                        } else {
                            let mut s = 0.0f64;
                            let mut c = 0.0f64;
                            let mut abs_sum = 0.0f64;
                            for x in xs.iter() {
                                let t = s + x;
                                if s.abs() >= x.abs() { c += (s - t) + x } else { c += (x - t) + s }
                                s = t;
                                abs_sum += x.abs();
                            }
                            let exact = s + c;
                            let (want, scale) = if name == "sum" { (exact, abs_sum) } else { (exact / len as f64, abs_sum / len as f64) };
                            let tol = (len as f64 + 2.0) * f64::EPSILON * scale;
                            if want.is_finite() && got.is_finite() && (got - want).abs() > tol {
                                rep.finding("oracle", "sum-avg-rounding", &format!("{}({})", name, desc), &format!("got {} reference {} tolerance {}", got, want, tol), "c15.sum");
                            }
                            if name == "avg" {
                                let (sm, _) = call_builtin_real("sum", &[list.clone()]);
                                if let Some(sv) = num_of(&sm) {
                                    if !(got == sv / len as f64 || (got.is_nan() && (sv / len as f64).is_nan())) {
                                        rep.finding("oracle", "avg-is-sum-over-count", &format!("avg({})", desc), &format!("avg {} sum {}", got, sv), "c15.avg");
                                    }
                                }
                            }
                        }
                    }
                }
                _ => {}
            }
            // permutation invariance (exact for min / max / median)
            if matches!(name, "min" | "max" | "median") && len > 1 {
                let mut perm = args.clone();
                for i in (1..perm.len()).rev() {
                    let j = rng.below(i + 1);
                    perm.swap(i, j);
                }
                let (p, _) = call_builtin_real(name, &[TV::List(perm.clone())]);
                let same = p == a || (num_of(&p).map_or(false, |x| x == got));
                if !same {
                    rep.finding("oracle", "permutation-changes-result", &format!("{}({})", name, TV::List(perm).to_source()), &format!("{} vs {}", p, a), "c15.permutation");
                }
            }
        }
        // percentile
        let mut prev: Option<f64> = None;
        let mut ps: Vec<f64> = vec![0.0, 100.0, 50.0, 25.0, 75.0, 33.3, 99.9, 0.1];
        for _ in 0..4 {
            ps.push((rng.below(10001) as f64) / 100.0);
        }
        ps.sort_by(|a, b| a.partial_cmp(b).unwrap());
        for p in ps.iter() {
            let (a, _) = call_builtin_real("percentile", &[list.clone(), TV::Num(*p)]);
            let m = model_builtin(&mut model, "percentile", &[list.clone(), TV::Num(*p)]);
            let d2 = format!("percentile({}, {})", desc, p);
            if m != a {
                rep.finding("model", "builtin", &d2, &format!("impl={} model={}", a, m), "c15.model.builtin");
            }
            match num_of(&a) {
                None => rep.finding("oracle", "percentile-failed", &d2, &a, "c15.percentile"),
                Some(g) => {
                    if !xs.iter().any(|x| *x == g) {
                        rep.finding("oracle", "percentile-not-an-element", &d2, &wire::num(g), "c15.percentile");
                    }
                    if *p == 0.0 && g != sorted[0] {
                        rep.finding("oracle", "percentile-0-not-min", &d2, &format!("{}", g), "c15.percentile");
                    }
                    if *p == 100.0 && g != sorted[sorted.len() - 1] {
                        rep.finding("oracle", "percentile-100-not-max", &d2, &format!("{}", g), "c15.percentile");
                    }
                    if let Some(pv) = prev {
                        if g < pv {
                            rep.finding("oracle", "percentile-not-monotone", &d2, &format!("{} after {}", g, pv), "c15.percentile");
                        }
                    }
                    prev = Some(g);
                }
            }
        }
        // spread arguments convention through the evaluator
        if xs.len() >= 2 && xs.len() <= 12 {
            let (a, _) = eval_with(&[("l", &list)], "sum(...l)");
            let (b, _) = eval_with(&[("l", &list)], "sum(l)");
            if a != b {
                rep.finding("oracle", "spread-convention-disagrees", &format!("sum(...{})", desc), &format!("{} vs {}", a, b), "c15.conventions");
            }
        }
    }
    rep.model_requests = model.requests;
}
