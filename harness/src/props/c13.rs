//! C13 — via / where / into agree with map / filter / application for every function.
//! oracle: pairs of equivalent programs evaluated in the same environment give the same
//! outcome (value or failure); every/some equal all/any of the mapped results; reduce is
//! the left fold; callbacks receive the 0-based index iff they accept one more parameter.
//! correspondence: each program against the Lean evaluator.

use crate::evalcommon::*;
use crate::util::{Ctx, Model, Report, Rng};

const PRELUDE: &str = "fact = n => if n <= 1 then 1 else n * fact(n - 1)\n\
even = n => if n == 0 then true else odd(n - 1)\n\
odd = n => if n == 0 then false else even(n - 1)\n\
k = 10\n\
addk = x => x + k\n\
fib = n => if n < 2 then n else fib(n - 1) + fib(n - 2)\n\
deep = n => if n <= 0 then 0 else 1 + deep(n - 1)";

const FUNCS: &[&str] = &[
    "(x => x * 2)", "((x, i) => x + i)", "((x, i?) => [x, i])", "((x, ...r) => len(r))", "((...r) => r)", "(() => 1)", "((x, y, z) => x)",
    "fact", "fib", "addk", "sqrt", "abs", "to_string", "typeof", "len", "max", "sum", "(x => x > 2)", "((x, i) => i % 2 == 0)", "even",
    "(x => if x > 2 then true else 1)", "(x => x.a)", "(x => undefined_name)", "5", "null", "(x => (y => x + y))", "(x => [x] via (y => y + 1))",
    "(x => deep(x))", "range", "(x => x + \"s\")", "((x, i) => fact(i))",
    // predicates that do not return a boolean for some element (always run, see ALWAYS)
    "(x => if x > 1 then true else null)", "(x => null)", "(x => x.active)", "(x => if x == 2 then 0 else true)", "(x => \"yes\")",
    "(x => (t = x * 2) + t)", "((x, i) => [u = x + i, u][1])", "(x => {k: (w = x)}.k == w)",
    // flexible-arity built-ins as callbacks (the index is passed to whatever accepts two arguments)
    "round", "min", "max", "((a, b?) => b)",
    // flexible-arity predicates whose verdict depends on the index they are handed (seeded C13-r4m1:
    // `where` passing the index only to callbacks that cannot be called with one argument)
    "((x, i?) => i == 1)", "((x, ...r) => len(r) == 1)", "((x, i?) => (i ?? 5) < 2)", "((x, i?, j?) => i != null && j == null)",
];
/// the functions from this index on are tried against every list in every tier
const ALWAYS: usize = 31;

const LISTS: &[&str] = &[
    "[]", "[1]", "[1, 2, 3]", "[3, 1, 2, 5, 4]", "[0, 1, 2, 3, 4, 5, 6, 7, 8, 9]", "[\"a\", \"b\"]", "[1, \"a\", null]", "[[1, 2], [3]]", "[{a: 1}, {a: 2}]",
    "range(4)", "[true, false]", "[-1, 2.5]", "5", "\"abc\"", "null", "[{active: true}, {b: 1}, {active: false}]", "[1.26, 2.5, 3.14159]",
];

pub fn run(ctx: &Ctx, rep: &mut Report) {
    let mut rng = Rng::new(ctx.seed);
    let mut model = Model::spawn(&ctx.model_path);
    let all = ctx.thorough();
    for (fi, f) in FUNCS.iter().enumerate() {
        for (li, l) in LISTS.iter().enumerate() {
            if !all && fi < ALWAYS && (fi * 5 + li * 3 + ctx.seed as usize) % 3 != 0 {
                continue;
            }
            let pairs: Vec<(String, String)> = vec![
                (format!("{} via {}", l, f), format!("map({}, {})", l, f)),
                (format!("{} where {}", l, f), format!("filter({}, {})", l, f)),
                (format!("{} into {}", l, f), format!("{}({})", f, l)),
                (format!("every({}, {})", l, f), format!("all(map({}, {}))", l, f)),
                (format!("some({}, {})", l, f), format!("any(map({}, {}))", l, f)),
            ];
            for (k, (a, b)) in pairs.iter().enumerate() {
                let src = format!("{}\n{}\n{}", PRELUDE, a, b);
                rep.case(&format!("{} ~ {}", a, b), true);
                let sess = match check_session(&mut model, rep, &src, None, "c13") {
                    Some(s) => s,
                    None => continue,
                };
                let n = sess.outcomes.len();
                let (oa, ob) = (&sess.outcomes[n - 2], &sess.outcomes[n - 1]);
                let equal = if k >= 3 {
                    // every/some vs all/any: required only when the predicate succeeds with a
                    // boolean on all elements, i.e. when the map form is ok with booleans
                    let mapped = run_real(&statements(&format!("{}\nmap({}, {})", PRELUDE, l, f)).unwrap(), None, "");
                    let mo = mapped.outcomes.last().unwrap();
                    let all_bools = mo.starts_with("(ok (list") && !mo.contains("(num") && !mo.contains("(str") && !mo.contains("(null") && !mo.contains("(record") && !mo.contains("(lambda") && !mo[9..].contains("(list");
                    !all_bools || oa == ob
                } else if *l == "[]" || !l.starts_with('[') && !l.starts_with("range") {
                    // `x into f` with a non-list x is plain application; via on a scalar applies f: compare as is
                    if k == 0 && !l.starts_with('[') && !l.starts_with("range") { true } else { oa == ob }
                } else {
                    oa == ob
                };
                if !equal {
                    rep.finding("oracle", "forms-disagree", &format!("{}\n-- vs --\n{}", a, b), &format!("first={} second={}", short(oa), short(ob)), "c13.forms-disagree");
                }
            }
            // reduce is the left fold
            if l.starts_with('[') && *l != "[]" {
                let items: Vec<&str> = l.trim_matches(|c| c == '[' || c == ']').split(", ").collect();
                if items.len() <= 5 && !l.contains("[[") && !l.contains('{') {
                    let g = *rng.pick(&["((acc, x) => acc + x)", "((acc, x, i) => acc + x * i)", "((acc, x) => [acc, x])", "max", "((acc, x, i?) => acc + (i ?? 0))"]);
                    let init = *rng.pick(&["0", "0", "null", "\"\"", "[]", "false", "1.5"]);
                    let mut manual = init.to_string();
                    let three = g.contains(", i") ;
                    for (i, it) in items.iter().enumerate() {
                        manual = if three { format!("{}({}, {}, {})", g, manual, it, i) } else { format!("{}({}, {})", g, manual, it) };
                    }
                    let src = format!("{}\nreduce({}, {}, {})\n{}", PRELUDE, l, g, init, manual);
                    rep.case(&format!("reduce({}, {}, {})", l, g, init), true);
                    if let Some(sess) = check_session(&mut model, rep, &src, None, "c13") {
                        let n = sess.outcomes.len();
                        if sess.outcomes[n - 2] != sess.outcomes[n - 1] {
                            rep.finding("oracle", "reduce-not-left-fold", &format!("reduce({}, {}, {})", l, g, init),
                                &format!("reduce={} manual={}", short(&sess.outcomes[n - 2]), short(&sess.outcomes[n - 1])), "c13.reduce");
                        }
                    }
                }
            }
        }
    }
    // index passing: explicit expectations
    let idx_cases = [
        ("[10, 20, 30] via ((x, i) => i)", "[0, 1, 2]"), ("map([10, 20, 30], (x, i) => i)", "[0, 1, 2]"),
        ("[10, 20, 30] where ((x, i) => i != 1)", "[10, 30]"), ("filter([10, 20, 30], (x, i) => i != 1)", "[10, 30]"),
        ("[10, 20] via (x => x)", "[10, 20]"), ("[10, 20] via ((x, i?) => i)", "[0, 1]"), ("[10, 20] via ((...r) => len(r))", "[2, 2]"),
        ("[10, 20] via ((x, y, z?) => y)", "[0, 1]"), ("reduce([1, 2, 3], (a, x, i) => a + i, 0)", "3"), ("reduce([1, 2, 3], (a, x) => a + x, 10)", "16"), ("reduce([7, 8, 9], (acc, x) => [acc, x], null)", "[[[null, 7], 8], 9]"), ("reduce([7, 8], (acc, x, i) => [acc, i], null)", "[[null, 0], 1]"), ("reduce([], (acc, x) => x, null)", "null"),
        ("every([1, 2], (x, i) => i < 2)", "true"), ("some([1, 2], (x, i) => i == 5)", "false"), ("[5] via max", "[5]"), ("[[1, 2]] into len", "1"),
    ];
    for (src, expect) in idx_cases.iter() {
        rep.case(src, true);
        let s = run_real(&statements(&format!("{}\n{}", src, expect)).unwrap(), None, "");
        if s.outcomes[0] != s.outcomes[1] {
            rep.finding("oracle", "index-passing", src, &format!("got {} expected {}", short(&s.outcomes[0]), short(&s.outcomes[1])), "c13.index");
        }
        check_session(&mut model, rep, src, None, "c13");
    }
    rep.model_requests = model.requests;
}
