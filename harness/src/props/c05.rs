//! C05 — function outputs are portable: emitted source reloads to an equivalent function.
//! oracle: a closed-after-capture function, emitted as `__blots_function` JSON and loaded
//! into a fresh heap, returns the same result (or fails alike) as the original on every
//! argument tuple; emitting the reloaded function again gives an equivalent function; the
//! same through `blots a | blots b`.  correspondence: `expr_to_source_with_scope` vs the
//! Lean `exprSrc` on the real body and captured scope.

use crate::evalcommon::*;
use crate::evgen::{self, Scope, Ty};
use crate::util::{guarded, Ctx, Model, Report, Rng};
use crate::wire;
use blots_core::environment::Environment;
use blots_core::functions::get_function_def;
use blots_core::heap::{HeapPointer, HeapValue};
use blots_core::values::{SerializableValue, Value};
use indexmap::IndexMap;
use std::rc::Rc;

/// captured values of every kind the property names
const CAPTURES: &[(&str, &str, Ty)] = &[
    ("cn", "3", Ty::Num), ("cneg", "(-5)", Ty::Num), ("cfrac", "(-0.25)", Ty::Num), ("cbig", "1e21", Ty::Num), ("cinf", "inf", Ty::Num),
    ("cninf", "(-inf)", Ty::Num), ("cnan", "(0/0)", Ty::Num), ("czero", "(-0)", Ty::Num), ("cs", "\"plain\"", Ty::Str),
    ("cq", "'say \"hi\"'", Ty::Str), ("cq2", "\"it's\"", Ty::Str), ("cq3", "('a\"' + \"b'\")", Ty::Str), ("cbs", "\"back\\\\slash\\n\"", Ty::Str),
    ("cl", "[1, [2, \"x\"], {a: -1}]", Ty::ListAny), ("cln", "[3, -1, 2]", Ty::ListNum), ("cr", "{a: 1, \"k 1\": [true, null], b: {c: -2}}", Ty::Rec),
    ("cf", "(q => q * 2)", Ty::FnNum), ("cb", "true", Ty::Bool),
    ("cfc", "(q => ([q, 1] via (t => t + 1) into sum))", Ty::FnNum), ("cfw", "(q => ([q, 0] where (t => t > 0) into len or false) into (b => if b then 1 else 0))", Ty::FnNum),
];

fn apply(heap: &crate::run::HeapRc, f: Value, args: &[f64]) -> String {
    let env = Rc::new(Environment::new());
    let inputs = heap.borrow_mut().insert_record(IndexMap::new());
    env.insert("inputs".into(), inputs);
    let vals: Vec<Value> = args.iter().map(|a| Value::Number(*a)).collect();
    let r = guarded(|| {
        let def = get_function_def(&f, &heap.borrow()).ok_or("not a function".to_string())?;
        def.call(f, vals.clone(), Rc::clone(heap), Rc::clone(&env), 0, "").map_err(|e| e.message.clone())
    });
    outcome_wire(&r, heap)
}

fn reload(sv: &SerializableValue) -> Result<(crate::run::HeapRc, Value, String), String> {
    let json = sv.to_json();
    let text = serde_json::to_string(&json).map_err(|e| e.to_string())?;
    let back: serde_json::Value = serde_json::from_str(&text).map_err(|e| e.to_string())?;
    let sv2 = SerializableValue::from_json(&back);
    let heap = crate::run::new_heap();
    let v = { sv2.to_value(&mut heap.borrow_mut()) }.map_err(|e| format!("to_value: {}", e))?;
    Ok((heap, v, text))
}

/// correspondence for `parse_function_source`: the real parser's expression statements of
/// the text go to the model (`extend_lambda_body`, then `expr_to_source` of the body); the
/// answer is compared with what the real `from_json` makes of `{"__blots_function": text}`
fn fn_source_check(model: &mut Model, rep: &mut Report, text: &str) {
    let j = serde_json::json!({ "__blots_function": text });
    let real = match guarded(|| SerializableValue::from_json(&j)) {
        Ok(SerializableValue::Lambda(def)) => format!("(fn {} {})", wire::largs(&def.args), wire::hs(&def.body)),
        Ok(SerializableValue::BuiltIn(_)) => return,
        Ok(_) => "none".to_string(),
        Err(p) => { rep.finding("oracle", "panic", text, &p, "c05.panic"); return; }
    };
    let stmts = match crate::run::parse_program(text, false) {
        Ok(s) => s.into_iter().filter_map(|(s, _)| match s { crate::run::Stmt::Expr(e) => Some(e), _ => None }).collect::<Vec<_>>(),
        Err(_) => vec![],
    };
    let m = model.ask(&format!("fn-source ({})", stmts.iter().map(wire::expr).collect::<Vec<_>>().join(" ")));
    rep.count(if real == "none" { "fn-source-none" } else { "fn-source-fn" });
    if m != real {
        rep.finding("model", "parse_function_source", text, &format!("impl={} model={}", short(&real), short(&m)), "c05.model.fn-source");
    }
}

pub fn run(ctx: &Ctx, rep: &mut Report) {
    let mut rng = Rng::new(ctx.seed);
    let mut model = Model::spawn(&ctx.model_path);
    let n = ctx.budget(400, 6000);
    let mut cli: Vec<(String, Vec<f64>)> = vec![];
    for i in 0..n {
        // a definition-time environment with a random subset of the capture pool
        let mut sc = Scope::new();
        let mut prelude: Vec<String> = vec![];
        for (name, src, ty) in CAPTURES.iter() {
            if rng.chance(1, 2) {
                prelude.push(format!("{} = {}", name, src));
                sc.vars.push((name.to_string(), *ty));
            }
        }
        let depth = 1 + rng.below(3);
        let fsrc = match i % 6 {
            0 | 1 | 2 => evgen::gexpr(&mut rng, Ty::FnNum, &sc, depth),
            3 => {
                // do-block body whose locals shadow captured names
                let v = sc.vars.iter().find(|(_, t)| *t == Ty::Num).map(|(n, _)| n.clone()).unwrap_or("zz".into());
                format!("(y => do {{\n  z = {} + 1\n  {} = y\n  return [{}, z]\n}})", if v == "zz" { "1".to_string() } else { v.clone() }, v, v)
            }
            4 => {
                let v = sc.vars.iter().map(|(n, _)| n.clone()).next().unwrap_or("sum".into());
                format!("((a, b?, ...r) => {{{}, n: len(r), b, s: [{}] via (t => t)}})", v, v)
            }
            _ => {
                // one captured number (any of them: negative, -0, inf, NaN, huge) under one operator form
                let numeric: Vec<String> = sc.vars.iter().filter(|(_, t)| *t == Ty::Num).map(|(n, _)| n.clone()).collect();
                let v = if numeric.is_empty() { "1".to_string() } else { rng.pick(&numeric).clone() };
                let form = *rng.pick(&["(x => V! + x)", "(x => V ^ 2 + x)", "(x => 2 ^ V)", "(x => -V + x)", "(x => [V!, -V, V ^ 3, V % 2, 1 / V])", "(x => V ?? x)", "(x => [V][0] - V)", "(x => x - V - V)", "(x => x / V / V)", "(x => V * x ^ V)", "(x => if V < 0 then -V else V!)", "(x => {k: V}.k + x)", "(x => to_string(V) + to_string(-V))", "(x => abs(V)! + x)"]);
                form.replace('V', &v)
            }
        };
        // every fourth program: the function is made by a factory whose parameter it captures and is
        // then stored under the very name of that captured variable
        let own_name = if i % 4 == 3 { sc.vars.iter().find(|(n, t)| *t == Ty::Num && fsrc.contains(n.as_str())).map(|(n, _)| n.clone()) } else { None };
        let src = match &own_name {
            Some(v) => {
                let kept: Vec<String> = prelude.iter().filter(|l| !l.starts_with(&format!("{} = ", v))).cloned().collect();
                format!("{}\nmk = ({}) => {}\n{} = mk(3)\n{}", kept.join("\n"), v, fsrc, v, v)
            }
            None => format!("{}\nfun = {}\nfun", prelude.join("\n"), fsrc),
        };
        let stmts = match statements(&src) { Ok(s) => s, Err(_) => { rep.count("source-rejected"); continue; } };
        let sess = run_real(&stmts, None, &src);
        let f = match sess.raw.last() { Some(Ok(Ok(v @ Value::Lambda(_)))) => *v, _ => { rep.count("not-a-function"); continue; } };
        rep.case(&src, true);
        // model correspondence for the emitter
        {
            let h = sess.heap.borrow();
            if let Value::Lambda(p) = f {
                if let HeapValue::Lambda(def) = p.reify(&h) {
                    let mut scope: IndexMap<String, SerializableValue> = IndexMap::new();
                    let mut ok = true;
                    for (k, v) in def.scope.iter() {
                        match SerializableValue::from_value(v, &h) { Ok(s) => { scope.insert(k.clone(), s); } Err(_) => ok = false }
                    }
                    if ok {
                        let real = guarded(|| blots_core::ast_to_source::expr_to_source_with_scope(&def.body, &scope));
                        let scw = format!("(scope{})", scope.iter().map(|(k, v)| format!(" ({} {})", wire::hs(k), wire::sv(v))).collect::<String>());
                        let m = model.ask(&format!("src-scope {} {}", wire::expr(&def.body), scw));
                        match real {
                            Ok(r) => if wire::hs(&r) != m {
                                rep.finding("model", "expr_to_source_with_scope", &src, &format!("impl={:?} model={:?}", r, wire::unhs(&m)), "c05.model.emit");
                            },
                            Err(p) => rep.finding("oracle", "panic", &src, &p, "c05.panic"),
                        }
                    }
                }
            }
        }
        let sv = match guarded(|| SerializableValue::from_value(&f, &sess.heap.borrow())) {
            Ok(Ok(s)) => s,
            Ok(Err(_)) => continue,
            Err(p) => { rep.finding("oracle", "panic", &src, &p, "c05.panic"); continue; }
        };
        // model correspondence for the whole of from_value (captured functions at any depth)
        {
            let m = model.ask(&format!("to-sv {}", wire::value(&f, &sess.heap.borrow())));
            if m != wire::sv(&sv) {
                rep.finding("model", "from_value", &src, &format!("impl={} model={}", short(&wire::sv(&sv)), short(&m)), "c05.model.from-value");
            }
        }
        if let Some(t) = sv.to_json().get("__blots_function").and_then(|x| x.as_str()) {
            fn_source_check(&mut model, rep, t);
        }
        let (heap2, f2, text) = match reload(&sv) {
            Ok(x) => x,
            Err(e) => { rep.finding("oracle", "emitted-function-does-not-reload", &src, &format!("{} :: {}", e, short(&format!("{:?}", sv.to_json()))), "c05.reload"); continue; }
        };
        if !matches!(f2, Value::Lambda(_)) {
            rep.finding("oracle", "emitted-function-does-not-reload", &src, &format!("reloaded value is not a function: {}", short(&text)), "c05.reload");
            continue;
        }
        // structure: the body text of a function that captured nothing re-parses to its own body
        // (the reload has the same tree, not merely the same results on the sampled arguments)
        if let (Value::Lambda(p0), Value::Lambda(p2)) = (f, f2) {
            let (h0, h2) = (sess.heap.borrow(), heap2.borrow());
            if let (HeapValue::Lambda(d0), HeapValue::Lambda(d2)) = (p0.reify(&h0), p2.reify(&h2)) {
                if d0.scope.is_empty() {
                    rep.count("structural-reload-checks");
                    if wire::expr(&d0.body) != wire::expr(&d2.body) || wire::largs(&d0.args) != wire::largs(&d2.args) {
                        rep.finding("oracle", "reloaded-function-has-another-body", &src, &format!("emitted={} original body={} reloaded body={}", short(&text), short(&wire::expr(&d0.body)), short(&wire::expr(&d2.body))), "c05.structure");
                    }
                }
            }
        }
        // second generation: emit the reloaded function and reload again
        let gen2 = SerializableValue::from_value(&f2, &heap2.borrow()).ok().and_then(|s| reload(&s).ok());
        // arguments on which regrouping of + or * changes the rounded result are included
        let tuples: Vec<Vec<f64>> = vec![vec![0.0], vec![1.0], vec![-2.5], vec![7.0, 3.0], vec![], vec![2.0, 1.0, 5.0], vec![0.1], vec![0.1, 0.2], vec![1e16, 1.0], vec![1e-16], vec![3.3, 1.1, 0.7]];
        for args in tuples.iter() {
            let a = apply(&sess.heap, f, args);
            let b = apply(&heap2, f2, args);
            if a.contains("(lambda") || b.contains("(lambda") {
                continue;
            }
            if a != b {
                rep.finding("oracle", "reloaded-function-differs", &format!("{}\n-- args {:?}", src, args), &format!("original={} reloaded={} emitted={}", short(&a), short(&b), short(&text)), "c05.equivalence");
                break;
            }
            if let Some((h3, f3, t3)) = &gen2 {
                let c = apply(h3, *f3, args);
                if !c.contains("(lambda") && c != a {
                    rep.finding("oracle", "re-emitted-function-differs", &format!("{}\n-- args {:?}", src, args), &format!("original={} second generation={} emitted={}", short(&a), short(&c), short(t3)), "c05.re-emit");
                    break;
                }
            }
        }
        if cli.len() < ctx.budget(10, 80) && i % 7 == 0 && !src.contains("0/0") && !src.contains("inf") {
            cli.push((format!("{}\noutput fun = {}", prelude.join("\n"), fsrc), vec![1.0]));
        }
    }
    // function-source texts: chains after the lambda, non-functions, several statements
    for t in [
        "(x) => [1, 2, 3] via (y) => y * x", "(x) => range(2, 6) into len", "(a, b) => [a, b] where (v) => v > 1 via (v) => v * 2 or false",
        "x => x", "(x) => x + 1 and true", "f via g", "[1] via (x) => x", "1 + 2", "1\n(x) => x", "(x) => x\n2", "x = (y) => y", "output z = (y) => y",
        "(x) => x into (y) => y into (z) => z", "(x?, ...r) => r where (v) => v == x", "((x) => x) via f", "(x) => (x via f)", "", "(", "sum",
        "(x) => if x then [1] via (y) => y else 2", "(x) => -x via f", "(x) => x! into f", "(x) => do {\n  return x\n} into f",
    ] {
        fn_source_check(&mut model, rep, t);
    }
    // a function whose body is a chain reloads and applies (fixed probes beside the generated ones)
    for (src, args) in [
        ("arr = [1, 2, 3]\nfun = x => (arr via y => y * x)\nfun", vec![2.0]),
        ("fun = x => (range(2, 6) into len)\nfun", vec![1.0]),
        ("k = 2\nfun = (a, b) => ([a, b] where (v => v > 1) via (v => v * k) into sum)\nfun", vec![1.0, 5.0]),
        ("fun = x => ([x] via (q => q + 1) or false)\nfun", vec![1.0]),
        ("g = x => ([x] via (t => t + 1))\nfun = y => g(y)\nfun", vec![5.0]),
        ("make = (scale) => (v) => v * scale\nscale = make(3)\nscale", vec![5.0]),
        ("make = (k) => do {\n  inner = (v) => v + k\n  return inner\n}\nk = make(2)\nk", vec![5.0]),
        ("fs = [x => (x into (q => q * 2))]\nfun = y => fs[0](y)\nfun", vec![4.0]),
        ("r = {k: x => ([x, 0] where (q => q > 0))}\nfun = y => r.k(y)\nfun", vec![4.0]),
        ("g = x => ([x] via (t => t + 1))\nh = y => g(y) into sum\nfun = z => h(z)\nfun", vec![5.0]),
    ] {
        let stmts = match statements(src) { Ok(s) => s, Err(_) => { rep.finding("oracle", "probe-rejected", src, "", "c05.probe"); continue } };
        let sess = run_real(&stmts, None, src);
        let f = match sess.raw.last() { Some(Ok(Ok(v @ Value::Lambda(_)))) => *v, _ => continue };
        rep.case(src, true);
        match guarded(|| SerializableValue::from_value(&f, &sess.heap.borrow())) {
            Ok(Ok(sv)) => match reload(&sv) {
                Ok((h2, f2, text)) => {
                    let a = apply(&sess.heap, f, &args);
                    let b = apply(&h2, f2, &args);
                    if a != b || !matches!(f2, Value::Lambda(_)) {
                        rep.finding("oracle", "reloaded-function-differs", src, &format!("original={} reloaded={} emitted={}", short(&a), short(&b), short(&text)), "c05.equivalence");
                    }
                }
                Err(e) => rep.finding("oracle", "emitted-function-does-not-reload", src, &e, "c05.reload"),
            },
            _ => rep.finding("oracle", "emit-failed", src, "", "c05.reload"),
        }
    }
    // known-finding probes (exact inputs): an assignment nested inside the body shadows a captured
    // name at run time, but the emitter keeps inlining the captured value after it
    for (src, args) in [
        ("x = 5\nfun = () => [x = 1, x]\nfun", vec![]),
        ("x = 5\nfun = (y) => [x = y, x + 1]\nfun", vec![10.0]),
        ("x = 5\nfun = () => do {\n  if true then x = 1 else 2\n  return x\n}\nfun", vec![]),
    ] {
        let stmts = match statements(src) { Ok(s) => s, Err(_) => continue };
        let sess = run_real(&stmts, None, src);
        let f = match sess.raw.last() { Some(Ok(Ok(v @ Value::Lambda(_)))) => *v, _ => continue };
        rep.case(src, true);
        if let Ok(Ok(sv)) = guarded(|| SerializableValue::from_value(&f, &sess.heap.borrow())) {
            if let Ok((h2, f2, text)) = reload(&sv) {
                let a = apply(&sess.heap, f, &args);
                let b = apply(&h2, f2, &args);
                if a != b {
                    rep.finding("oracle", "reloaded-function-differs", src, &format!("original={} reloaded={} emitted={}", short(&a), short(&b), short(&text)), "c05.nested-assignment-shadows-captured");
                }
            }
        }
    }

    // blots a | blots b
    for (k, (prog, args)) in cli.iter().enumerate() {
        use std::io::Write;
        use std::process::{Command, Stdio};
        let first = Command::new("timeout").arg("20").arg(&ctx.blots_bin).arg(prog).stdin(Stdio::null()).output();
        let first = match first { Ok(o) if o.status.success() => o, _ => { rep.count("cli-first-stage-failed"); continue; } };
        let call = format!("output r = inputs.fun({})", args.iter().map(|a| format!("{}", a)).collect::<Vec<_>>().join(", "));
        let mut child = match Command::new("timeout").arg("20").arg(&ctx.blots_bin).arg(&call).stdin(Stdio::piped()).stdout(Stdio::piped()).stderr(Stdio::piped()).spawn() { Ok(c) => c, Err(_) => continue };
        let _ = child.stdin.take().unwrap().write_all(&first.stdout);
        let second = match child.wait_with_output() { Ok(o) => o, Err(_) => continue };
        // direct evaluation of the same call in one program
        let direct = Command::new("timeout").arg("20").arg(&ctx.blots_bin).arg(format!("{}\noutput r = fun({})", prog.replace("output fun =", "fun ="), args.iter().map(|a| format!("{}", a)).collect::<Vec<_>>().join(", "))).stdin(Stdio::null()).output();
        rep.count("cli-chains");
        if let Ok(d) = direct {
            let (a, b) = (String::from_utf8_lossy(&d.stdout).to_string(), String::from_utf8_lossy(&second.stdout).to_string());
            let same_status = d.status.success() == second.status.success();
            if !same_status || (d.status.success() && a != b) {
                rep.finding("oracle", "cli-chain-differs", prog, &format!("direct={:?} chained={:?} emitted={}", short(&a), short(&b), short(&String::from_utf8_lossy(&first.stdout))), "c05.cli-chain");
            }
        }
        let _ = k;
    }
    rep.model_requests = model.requests;
}
