//! C09 — formatting never loses or reorders comments.  oracle: the sequence of comment
//! texts found by a lexer-level scan (outside string literals) of the input equals that of
//! the output, for the library formatter with the drivers' statement logic, the wasm
//! driver and `blots --format`.

use crate::fmtcommon::*;
use crate::gen_wasm_format::format_blots;
use crate::progen::{self, scan_comments, GenCfg};
use crate::util::{guarded, Ctx, Model, Report, Rng};

fn comments_differ(src: &str, out: &str) -> Option<String> {
    let a = scan_comments(src);
    let b = scan_comments(out);
    if a == b { None } else { Some(format!("input comments {:?} output comments {:?} output={:?}", a, b, out)) }
}

pub fn known_probes() -> Vec<(&'static str, &'static str)> {
    vec![
        // the parser has nowhere to attach the comments of a list / record without items
        ("c09.comment-only-list", "x = [\n  // c\n]"),
        ("c09.comment-only-record", "x = {\n  // c\n}"),
    ]
}

pub fn run(ctx: &Ctx, rep: &mut Report) {
    let mut rng = Rng::new(ctx.seed);
    let mut model = Model::spawn(&ctx.model_path);
    let widths: &[usize] = if ctx.thorough() { super::c07::WIDTHS_THOROUGH } else { super::c07::WIDTHS_QUICK };
    let n_prog = ctx.budget(500, 6000);
    let mut cli_batch: Vec<String> = vec![];

    for (key, src) in known_probes() {
        rep.case(src, true);
        if let Ok(Ok((f, _))) = guarded(|| format_program(src, None)) {
            if let Some(d) = comments_differ(src, &f) {
                rep.finding("oracle", "comments-changed", src, &d, key);
            }
        }
    }
    // fixed positions the property lists
    let fixed = [
        "// before\nx = 1  // eol\n// after",
        "x = [\n  1, // one\n  2,\n  // before close\n]",
        "x = [\n  // lead\n  1,\n  2 // last\n]",
        "r = {\n  a: 1, // a\n  // lead b\n  b: 2,\n  // before close\n}",
        "f = x => do {\n  // first\n  y = x + 1  // eol\n  // before return\n  return y\n}",
        "y = -[\n  1, // one\n  2,\n]",
        "y = [\n  1, // one\n  2,\n][0]",
        "y = {a: [\n  1, // one\n]}.a",
        "y = [\n  1, // one\n] via f",
        "y = g([\n  1, // one\n])",
        "y = if [\n  1, // one\n] then 2 else 3",
        "output z = [\n  1, // one\n]  // eol",
        "output z  // eol",
        "r = {\n  a: 1,\n  b: 2 // own\n  // dangling 1\n  // dangling 2\n}",
        "l = [\n  1,\n  2 // own\n  // dangling 1\n  // dangling 2\n]",
        "r = {\n  // lead a\n  a: 1, // after comma\n  b: [\n    1 // inner own\n    // inner dangling\n  ] // own\n  // dangling\n}",
        "f = x => do {\n  // c1\n  // c2\n  y = 1  // t1\n  z = 2  // t2\n  // r1\n  // r2\n  return y\n}",
        "g(1, [\n  2 // own\n  // d\n], {\n  k: 3 // own\n  // d\n})",
    ];
    for src in fixed.iter() {
        rep.case(src, true);
        for &w in widths {
            if let Ok(Ok((f, _))) = guarded(|| format_program(src, Some(w))) {
                if let Some(d) = comments_differ(src, &f) {
                    rep.finding("oracle", "comments-changed", &format!("w={} {}", w, src), &d, "c09.comments-changed");
                }
            }
            if let Ok(Ok(f)) = guarded(|| format_blots(src, Some(w))) {
                if let Some(d) = comments_differ(src, &f) {
                    rep.finding("oracle", "wasm-comments-changed", &format!("w={} {}", w, src), &d, "c09.wasm-comments-changed");
                }
            }
        }
        cli_batch.push(src.to_string());
    }

    for i in 0..n_prog {
        let cfg = GenCfg { comments: true, max_depth: 1 + rng.below(4) };
        let prog = progen::gen_program(&mut rng, &cfg, 4);
        let src = prog.to_source();
        if parse_plain(&src).is_err() {
            rep.count("generator-text-rejected");
            continue;
        }
        let n_comments = scan_comments(&src).len();
        rep.case(&src, n_comments > 0);
        if n_comments == 0 {
            continue;
        }
        rep.count("programs-with-comments");
        let mut ws: Vec<Option<usize>> = widths.iter().map(|w| Some(*w)).collect();
        ws.push(None);
        for w in ws {
            if let Ok(Ok((f, _))) = guarded(|| format_program(&src, w)) {
                if let Some(d) = comments_differ(&src, &f) {
                    rep.finding("oracle", "comments-changed", &format!("w={:?} {}", w, src), &d, "c09.comments-changed");
                    break;
                }
            }
            if let Ok(Ok(f)) = guarded(|| format_blots(&src, w)) {
                if let Some(d) = comments_differ(&src, &f) {
                    rep.finding("oracle", "wasm-comments-changed", &format!("w={:?} {}", w, src), &d, "c09.wasm-comments-changed");
                    break;
                }
            }
        }
        if i % 5 == 0 {
            if let Ok(stmts) = crate::run::parse_program(&src, true) {
                for (s, _) in stmts {
                    if let crate::run::Stmt::Expr(e) | crate::run::Stmt::Output(e) = s {
                        check_model_print(&mut model, rep, &e, &[widths[rng.below(widths.len())]], &src, "c09");
                    }
                }
            }
        }
        if cli_batch.len() < ctx.budget(40, 300) && i % 5 == 1 {
            cli_batch.push(src);
        }
    }
    for (k, src) in cli_batch.iter().enumerate() {
        rep.count("cli-format-runs");
        match cli_format(&ctx.blots_bin, src, &format!("c09-{}", k)) {
            Ok(f) => {
                if let Some(d) = comments_differ(src, &f) {
                    rep.finding("oracle", "cli-comments-changed", src, &d, "c09.cli-comments-changed");
                }
            }
            Err(e) => rep.finding("oracle", "cli-format-failed", src, &e, "c09.cli-format-failed"),
        }
    }
    rep.model_requests = model.requests;
}
