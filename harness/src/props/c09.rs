//! C09 — formatting never loses or reorders comments.  oracle: the sequence of comment
//! texts found by a lexer-level scan (outside string literals) of the input equals that of
//! the output, for the library formatter with the drivers' statement logic, the wasm
//! driver and `blots --format`.

use crate::fmtcommon::*;
use crate::gen_wasm_format::format_blots;
use crate::progen::{self, scan_comments, GenCfg};
use crate::util::{guarded, Ctx, Model, Report, Rng};
use crate::wire;
use blots_core::ast::SpannedExpr;
use blots_core::formatter::format_expr;

fn comments_differ(src: &str, out: &str) -> Option<String> {
    let a = scan_comments(src);
    let b = scan_comments(out);
    if a == b { None } else { Some(format!("input comments {:?} output comments {:?} output={:?}", a, b, out)) }
}

/// MODEL TIE for the comment pieces: the comments the model tags as comment pieces of
/// `format_expr`'s output (what the theorems of Props/C09.lean speak about) are the comments
/// a lexer-level scan finds in the REAL `format_expr` output, in the same order.  A comment
/// piece of several lines (the parser joins the dangling comments after the last item into
/// one trailing comment) is one scanned comment per line.
fn check_model_comments(model: &mut Model, rep: &mut Report, e: &SpannedExpr, w: usize, desc: &str) {
    let real = match guarded(|| format_expr(e, Some(w))) {
        Ok(s) => s,
        Err(_) => return, // reported by check_model_print
    };
    let m = model.ask(&format!("fmt-comments {} {}", w, wire::expr(e)));
    let inner = m.trim().strip_prefix('(').and_then(|x| x.strip_suffix(')'));
    let pieces: Option<Vec<String>> = inner.map(|x| x.split_whitespace().map(|a| wire::unhs(a)).collect::<Option<Vec<_>>>()).flatten();
    let pieces = match pieces {
        Some(p) => p,
        None => {
            rep.finding("model", "fmt-comments-bad-answer", desc, &m, "c09.model.fmt-comments");
            return;
        }
    };
    let model_lines: Vec<String> = pieces.iter().flat_map(|p| p.split('\n').map(|l| l.strip_suffix('\r').unwrap_or(l).to_string()).collect::<Vec<_>>()).collect();
    let scanned = scan_comments(&real);
    if model_lines != scanned {
        rep.finding("model", "comment-pieces", &format!("w={} {}", w, desc),
            &format!("scan of real output {:?} model comment pieces {:?} real={:?}", scanned, pieces, real), "c09.model.comment-pieces");
    }
    rep.count("comment-piece-ties");
}

/// sources with carriage returns in comments / strings (until repo commit 6027914 the
/// `lines()` round trip of format_binary_op_multiline deleted them; regression cases, see
/// Props/C09.lean `carriage_return_is_kept_in_comment`): model correspondence only, the
/// lexer-level scan of the oracle ends a comment in front of "\r\n"
const CR_SOURCES: &[&str] = &[
    "y = l via x => [\n  v, // c\r\r\n]",
    "y = l via x => [\n  v, // c\r\r\n  w // d\r\r\n  // e\r\r\n]",
    "y = l into x => {\n  a: 1, // c\r\r\n  b: \"p\r\nq\",\n}",
    "y = l where x => \"a\r\nb\"",
    "y = l via x => \"a\r\r\nb\r\"",
    "y = [\n  v, // c\r\r\n]",
    "y = l via x => (m via z => [\n  v, // c\r\r\r\n])",
    "y = l via x => do {\n  // a\r\r\n  t = \"q\r\n\"  // b\r\r\n  return t\n}",
];

/// trees the parser cannot build: names that end in line feeds (the former `lines()` round
/// trip dropped a final line feed), a trailing comment on a `return` item
fn handmade_trees() -> Vec<SpannedExpr> {
    use blots_core::ast::{BinaryOp, Commented, Expr, Spanned};
    use blots_core::values::LambdaArg;
    let id = |s: &str| Spanned::dummy(Expr::Identifier(s.to_string()));
    let lam = |b: SpannedExpr| Spanned::dummy(Expr::Lambda { args: vec![LambdaArg::Required("x".to_string())], body: Box::new(b) });
    let via = |l: SpannedExpr, r: SpannedExpr| Spanned::dummy(Expr::BinaryOp { op: BinaryOp::Via, left: Box::new(l), right: Box::new(r) });
    let mut out = vec![];
    for name in ["a\n", "a\n\n", "a\r\n\n", "a\nb\r", "\n", "\n\n", "a\r", "a\r\n", ""] {
        out.push(via(id("l"), lam(id(name))));
        out.push(via(id("l"), lam(Spanned::dummy(Expr::List(vec![Commented::with_comments(vec!["// l\r".to_string()], id("v"), Some("// t\r\n".to_string())), Commented::new(id(name))])))));
    }
    out.push(Spanned::dummy(Expr::DoBlock {
        statements: vec![Commented::with_comments(vec!["// s".to_string()], id("p"), Some("// st".to_string()))],
        return_expr: Box::new(Commented::with_comments(vec!["// r".to_string()], id("q"), Some("// rt".to_string()))),
    }));
    out
}

pub fn known_probes() -> Vec<(&'static str, &'static str)> {
    vec![
        // the parser has nowhere to attach the comments of a list / record without items
        ("c09.comment-only-list", "x = [\n  // c\n]"),
        ("c09.comment-only-record", "x = {\n  // c\n}"),
        // a comment at a line break INSIDE an expression is white space for the grammar
        // (`NEWLINE = inline_comment? ~ plain_newline` is implicit white space): the AST has
        // no slot for it and the parser drops it
        ("c09.comment-at-line-break-in-expression", "z = 1 + // c\n  2"),
        ("c09.comment-at-line-break-in-expression", "f = x => // c\n  x + 1"),
        ("c09.comment-at-line-break-in-expression", "g = h(1, // c\n  2)"),
        ("c09.comment-at-line-break-in-expression", "y = if a // c\n then 1 else 2"),
    ]
}

pub fn run(ctx: &Ctx, rep: &mut Report) {
    let mut rng = Rng::new(ctx.seed);
    let mut model = Model::spawn(&ctx.model_path);
    let widths: &[usize] = if ctx.thorough() { super::c07::WIDTHS_THOROUGH } else { super::c07::WIDTHS_QUICK };
    let n_prog = ctx.budget(500, 6000);
    let mut cli_batch: Vec<String> = vec![];

    for (key, src) in known_probes() {
        rep.case(src, true);
        if let Ok(Ok((f, _))) = guarded(|| format_program(src, None)) {
            if let Some(d) = comments_differ(src, &f) {
                // own `what` per probe family: the report keeps only the first 5 findings per
                // (kind, what), and the known ones must not use up the slots of
                // "comments-changed" that a new finding on a generated program needs
                let what = if key == "c09.comment-at-line-break-in-expression" { "comment-at-line-break-dropped" } else { "comments-changed" };
                rep.finding("oracle", what, src, &d, key);
            }
        }
    }
    // fixed positions the property lists
    let fixed = [
        "// before\nx = 1  // eol\n// after",
        "x = [\n  1, // one\n  2,\n  // before close\n]",
        "x = [\n  // lead\n  1,\n  2 // last\n]",
        "r = {\n  a: 1, // a\n  // lead b\n  b: 2,\n  // before close\n}",
        "f = x => do {\n  // first\n  y = x + 1  // eol\n  // before return\n  return y\n}",
        "y = -[\n  1, // one\n  2,\n]",
        "y = [\n  1, // one\n  2,\n][0]",
        "y = {a: [\n  1, // one\n]}.a",
        "y = [\n  1, // one\n] via f",
        "y = g([\n  1, // one\n])",
        "y = if [\n  1, // one\n] then 2 else 3",
        "output z = [\n  1, // one\n]  // eol",
        "output z  // eol",
        "r = {\n  a: 1,\n  b: 2 // own\n  // dangling 1\n  // dangling 2\n}",
        "l = [\n  1,\n  2 // own\n  // dangling 1\n  // dangling 2\n]",
        "r = {\n  // lead a\n  a: 1, // after comma\n  b: [\n    1 // inner own\n    // inner dangling\n  ] // own\n  // dangling\n}",
        "f = x => do {\n  // c1\n  // c2\n  y = 1  // t1\n  z = 2  // t2\n  // r1\n  // r2\n  return y\n}",
        "g(1, [\n  2 // own\n  // d\n], {\n  k: 3 // own\n  // d\n})",
        // a statement that starts with a name spelled like a word operator is parenthesised (repo 1decf6c)
        "f = (a, where, x) => do {\n  // c1\n  a; where into x  // t1\n  // r1\n  return 1\n}",
        "via = 1 // one\n// lead\nvia + 2 // two",
    ];
    for src in fixed.iter() {
        rep.case(src, true);
        for &w in widths {
            if let Ok(Ok((f, _))) = guarded(|| format_program(src, Some(w))) {
                if let Some(d) = comments_differ(src, &f) {
                    rep.finding("oracle", "comments-changed", &format!("w={} {}", w, src), &d, "c09.comments-changed");
                }
            }
            if let Ok(Ok(f)) = guarded(|| format_blots(src, Some(w))) {
                if let Some(d) = comments_differ(src, &f) {
                    rep.finding("oracle", "wasm-comments-changed", &format!("w={} {}", w, src), &d, "c09.wasm-comments-changed");
                }
            }
        }
        cli_batch.push(src.to_string());
        if let Ok(stmts) = crate::run::parse_program(src, true) {
            for (s, _) in stmts {
                if let crate::run::Stmt::Expr(e) | crate::run::Stmt::Output(e) = s {
                    for &w in widths {
                        check_model_comments(&mut model, rep, &e, w, src);
                    }
                }
            }
        }
    }

    // the `lines()` round trip on carriage returns and final line feeds: model tie only
    for src in CR_SOURCES.iter() {
        rep.case(src, true);
        match crate::run::parse_program(src, true) {
            Ok(stmts) => {
                for (s, _) in stmts {
                    if let crate::run::Stmt::Expr(e) | crate::run::Stmt::Output(e) = s {
                        check_model_print(&mut model, rep, &e, widths, src, "c09");
                    }
                }
            }
            Err(e) => rep.finding("model", "cr-source-rejected", src, &e, "c09.cr-source-rejected"),
        }
    }
    for (k, e) in handmade_trees().iter().enumerate() {
        rep.case(&format!("handmade tree {}", k), true);
        check_model_print(&mut model, rep, e, widths, &format!("handmade tree {}", k), "c09");
    }

    for i in 0..n_prog {
        let cfg = GenCfg { comments: true, max_depth: 1 + rng.below(4) };
        let prog = progen::gen_program(&mut rng, &cfg, 4);
        let src = prog.to_source();
        if parse_plain(&src).is_err() {
            rep.count("generator-text-rejected");
            continue;
        }
        let n_comments = scan_comments(&src).len();
        rep.case(&src, n_comments > 0);
        if n_comments == 0 {
            continue;
        }
        rep.count("programs-with-comments");
        let mut ws: Vec<Option<usize>> = widths.iter().map(|w| Some(*w)).collect();
        ws.push(None);
        for w in ws {
            if let Ok(Ok((f, _))) = guarded(|| format_program(&src, w)) {
                if let Some(d) = comments_differ(&src, &f) {
                    rep.finding("oracle", "comments-changed", &format!("w={:?} {}", w, src), &d, "c09.comments-changed");
                    break;
                }
            }
            if let Ok(Ok(f)) = guarded(|| format_blots(&src, w)) {
                if let Some(d) = comments_differ(&src, &f) {
                    rep.finding("oracle", "wasm-comments-changed", &format!("w={:?} {}", w, src), &d, "c09.wasm-comments-changed");
                    break;
                }
            }
        }
        if i % 5 == 0 {
            if let Ok(stmts) = crate::run::parse_program(&src, true) {
                for (s, _) in stmts {
                    if let crate::run::Stmt::Expr(e) | crate::run::Stmt::Output(e) = s {
                        let wd = widths[rng.below(widths.len())];
                        check_model_print(&mut model, rep, &e, &[wd], &src, "c09");
                        check_model_comments(&mut model, rep, &e, wd, &src);
                    }
                }
            }
        }
        if cli_batch.len() < ctx.budget(40, 300) && i % 5 == 1 {
            cli_batch.push(src);
        }
    }
    for (k, src) in cli_batch.iter().enumerate() {
        rep.count("cli-format-runs");
        match cli_format(&ctx.blots_bin, src, &format!("c09-{}", k)) {
            Ok(f) => {
                if let Some(d) = comments_differ(src, &f) {
                    rep.finding("oracle", "cli-comments-changed", src, &d, "c09.cli-comments-changed");
                }
            }
            Err(e) => rep.finding("oracle", "cli-format-failed", src, &e, "c09.cli-format-failed"),
        }
    }
    rep.model_requests = model.requests;
}
