//! C07 — the formatter preserves program meaning.
//! oracle: parse(src) == parse(format(parse(src), w)) (span- and comment-insensitive), for
//! the library formatter at many widths, for `expr_to_source`, and for `blots --format`;
//! correspondence: expr_to_source / format_expr vs the Lean `exprSrc` / `fmtImpl`, and
//! pest's Pratt parser vs the Lean `prattParse` on the real pair sequences.

use crate::fmtcommon::*;
use crate::progen::{self, GE, GStmt, GenCfg};
use crate::util::{guarded, Ctx, Model, Report, Rng};

pub const WIDTHS_QUICK: &[usize] = &[1, 12, 30, 80, 120];
pub const WIDTHS_THOROUGH: &[usize] = &[1, 2, 5, 8, 12, 16, 20, 25, 30, 40, 50, 60, 70, 80, 100, 120];

/// does formatting this single expression statement at width w change (or break) its parse?
fn format_breaks(src: &str, w: Option<usize>) -> Option<String> {
    let a = match parse_plain(src) {
        Ok(a) => a,
        Err(_) => return None,
    };
    let f = match guarded(|| format_program(src, w)) {
        Ok(Ok((f, _))) => f,
        Ok(Err(e)) => return Some(format!("format failed: {}", e)),
        Err(p) => return Some(format!("PANIC {}", p)),
    };
    match parse_plain(&f) {
        Err(e) => Some(format!("formatted text does not parse: {:?} :: {}", f, e.lines().next().unwrap_or(""))),
        Ok(a2) => {
            if asts_equal(&a, &a2) { None } else { Some(format!("formatted text parses to a different tree: {:?}", f)) }
        }
    }
}

fn source_breaks(src: &str) -> Option<String> {
    let a = match parse_plain(src) {
        Ok(a) => a,
        Err(_) => return None,
    };
    for e in &a {
        let s = match guarded(|| blots_core::ast_to_source::expr_to_source(e)) {
            Ok(s) => s,
            Err(p) => return Some(format!("PANIC {}", p)),
        };
        match parse_plain(&s) {
            Err(er) => return Some(format!("expr_to_source text does not parse: {:?} :: {}", s, er.lines().next().unwrap_or(""))),
            Ok(a2) => {
                if a2.len() != 1 || a2[0] != *e {
                    return Some(format!("expr_to_source text parses to a different tree: {:?}", s));
                }
            }
        }
    }
    None
}

pub fn known_probes() -> Vec<(&'static str, &'static str)> {
    vec![]
}

pub fn run(ctx: &Ctx, rep: &mut Report) {
    let mut rng = Rng::new(ctx.seed);
    let mut model = Model::spawn(&ctx.model_path);
    let widths: &[usize] = if ctx.thorough() { WIDTHS_THOROUGH } else { WIDTHS_QUICK };
    let n_prog = ctx.budget(500, 6000);
    let mut cli_batch: Vec<String> = vec![];

    // small exhaustive part: every operator pair in both nestings, prefix/postfix over binary
    let mut fixed: Vec<String> = vec![];
    for a in progen::BINOPS.iter() {
        for b in progen::BINOPS.iter() {
            fixed.push(format!("(x {} y) {} z", a, b));
            fixed.push(format!("x {} (y {} z)", a, b));
        }
        fixed.push(format!("-(x {} y)", a));
        fixed.push(format!("!(x {} y)", a));
        fixed.push(format!("(x {} y)!", a));
        fixed.push(format!("(x {} y)(1)", a));
        fixed.push(format!("(x {} y)[0]", a));
        fixed.push(format!("(x {} y).f", a));
        fixed.push(format!("(if c then 1 else 2) {} z", a));
        fixed.push(format!("z {} (if c then 1 else 2)", a));
        fixed.push(format!("(z {} (if c then 1 else 2)) {} w", a, a));
        fixed.push(format!("(q => q) {} z", a));
        fixed.push(format!("(z {} (q => q)) + 1", a));
        fixed.push(format!("(t = 1) {} z", a));
        fixed.push(format!("q => (z {} w)", a));
        fixed.push(format!("q => ((z via f) {} w)", a));
    }
    for s in ["do { a = 1; -b; return 1 }", "a = 1\n(-b)", "(-x)!", "(-x)(1)", "(-x)[0]", "(-x).f", "-(-x)", "!(!x)", "(x!)!", "-(x!)", "(x => x)(1)", "(if a then b else c)(1)",
              "(if a then b else c).f", "(x = 1)[0]", "-(x => x)", "-(if a then b else c)", "[...(a + b)]", "f(...(a via g))",
              "{...(a ?? b)}", "'say \"hi\"' + \"it's\"", "{\"a b\": 1, 'q\"x': 2}", "1e999", "x => y => (x via z)",
              "if (if a then b else c) then (if d then e else f) else (if g then h else i)", "(a and b) via (c or d)",
              // a statement that starts with a name spelled like a word operator (repo 1decf6c)
              "f = (a, where, x) => do { a; where into x\n return 1 }", "do { a; via into f; into where g; where via h\n return 1 }",
              "via = 3\nvia + 1", "into = [1]\ninto via sum\n(where and into)", "do { via = 1; via\n return via }", "do { a; via(1); via.b; via[0]\n return 1 }",
              "do { a; via + bbbbbbbbbbbbbbbbbbbbbbbbbbbbbbbbbbbbbbbbbbbbbbbbbbbbbbbbbbbbbbbbbbbbbbbbbbbbbbbbbbbbbbbbbbbbbbbbbbb\n return 1 }"] {
        fixed.push(s.to_string());
    }
    for src in &fixed {
        rep.case(src, true);
        for &w in widths {
            if let Some(d) = format_breaks(src, Some(w)) {
                rep.finding("oracle", "format-changes-program", &format!("w={} {}", w, src), &d, "c07.format-changes-program");
            }
        }
        if let Some(d) = source_breaks(src) {
            rep.finding("oracle", "source-changes-program", src, &d, "c07.source-changes-program");
        }
        check_pratt(&mut model, rep, src, "c07");
        if let Ok(stmts) = crate::run::parse_program(src, true) {
            for (s, _) in stmts {
                if let crate::run::Stmt::Expr(e) = s {
                    check_model_print(&mut model, rep, &e, &[1, 20, 80], src, "c07");
                }
            }
        }
    }
    rep.counters.insert("fixed-operator-cases".into(), fixed.len() as u64);

    // known-finding probes (exact inputs)
    for (key, src) in known_probes() {
        if let Some(d) = format_breaks(src, None) {
            rep.finding("oracle", "format-changes-program", src, &d, key);
        }
    }

    // random programs
    for i in 0..n_prog {
        let cfg = GenCfg { comments: i % 3 == 0, max_depth: 1 + rng.below(4) };
        let prog = progen::gen_program(&mut rng, &cfg, 3);
        let src = prog.to_source();
        if parse_plain(&src).is_err() {
            rep.count("generator-text-rejected");
            continue;
        }
        rep.case(&src, true);
        let mut failed = false;
        for &w in widths {
            if let Some(d) = format_breaks(&src, Some(w)) {
                failed = true;
                // shrink: find a single statement / sub-expression that still fails
                let mut small = src.clone();
                for (st, _, _) in &prog.stmts {
                    if let GStmt::Expr(e) = st {
                        let fails = |g: &GE| format_breaks(&progen::to_source(g, 0), Some(w)).is_some();
                        if fails(e) {
                            small = progen::to_source(&progen::shrink(e, &fails), 0);
                            break;
                        }
                    }
                }
                let d2 = format_breaks(&small, Some(w)).unwrap_or(d);
                rep.finding("oracle", "format-changes-program", &format!("w={} {}", w, small), &d2, "c07.format-changes-program");
                break;
            }
        }
        if !failed {
            if let Some(d) = format_breaks(&src, None) {
                rep.finding("oracle", "format-changes-program", &format!("w=default {}", src), &d, "c07.format-changes-program");
            }
        }
        if let Some(d) = source_breaks(&src) {
            let mut small = src.clone();
            for (st, _, _) in &prog.stmts {
                if let GStmt::Expr(e) = st {
                    let fails = |g: &GE| source_breaks(&progen::to_source(g, 0)).is_some();
                    if fails(e) {
                        small = progen::to_source(&progen::shrink(e, &fails), 0);
                        break;
                    }
                }
            }
            let d2 = source_breaks(&small).unwrap_or(d);
            rep.finding("oracle", "source-changes-program", &small, &d2, "c07.source-changes-program");
        }
        // model correspondence on a share of the programs
        if i % 4 == 0 {
            check_pratt(&mut model, rep, &src, "c07");
            if let Ok(stmts) = crate::run::parse_program(&src, true) {
                for (s, _) in stmts {
                    match s {
                        crate::run::Stmt::Expr(e) | crate::run::Stmt::Output(e) => {
                            let ws = [widths[rng.below(widths.len())], 80];
                            check_model_print(&mut model, rep, &e, &ws, &src, "c07");
                        }
                        _ => {}
                    }
                }
            }
        }
        if cli_batch.len() < ctx.budget(25, 300) && i % 5 == 1 {
            cli_batch.push(src);
        }
    }

    // the CLI driver: blots --format
    for (k, src) in cli_batch.iter().enumerate() {
        let a = match parse_plain(src) {
            Ok(a) => a,
            Err(_) => continue,
        };
        rep.count("cli-format-runs");
        match cli_format(&ctx.blots_bin, src, &format!("c07-{}", k)) {
            Err(e) => rep.finding("oracle", "cli-format-failed", src, &e, "c07.cli-format-failed"),
            Ok(f) => match parse_plain(&f) {
                Err(e) => rep.finding("oracle", "cli-format-unparseable", src, &format!("{:?} :: {}", f, e.lines().next().unwrap_or("")), "c07.cli-format-changes-program"),
                Ok(a2) => {
                    if !asts_equal(&a, &a2) {
                        rep.finding("oracle", "cli-format-changes-program", src, &format!("{:?}", f), "c07.cli-format-changes-program");
                    }
                }
            },
        }
    }
    rep.model_requests = model.requests;
}
