//! C14 — indexing, spreading and the list / string / record built-ins satisfy their laws.
//! oracle: every law of the property evaluated on the real code over generated lists
//! (length 0..40, homogeneous and mixed, duplicates), strings (ASCII, non-ASCII, empty),
//! records and integer / fractional / negative indices; correspondence: the same programs
//! against the Lean evaluator.

use crate::evalcommon::*;
use crate::tv::{self, TV};
use crate::util::{Ctx, Model, Report, Rng};

fn gen_list(rng: &mut Rng) -> TV {
    let n = match rng.below(6) { 0 => 0, 1 => 1, 2 => 2 + rng.below(4), 3 => 6 + rng.below(10), 4 => 21 + rng.below(20), _ => rng.below(8) };
    let kind = rng.below(5);
    TV::List((0..n).map(|_| match kind {
        0 => TV::Num(rng.range(-5, 5) as f64),
        1 => TV::Num(*rng.pick(&[1.0, 2.0, 2.0, 3.5, -1.0, 0.0, -0.0, 1e30, f64::INFINITY])),
        2 => TV::Str(rng.pick(&["a", "b", "ab", "", "é", "b"]).to_string()),
        3 => tv::gen_data(rng, 1, false),
        _ => TV::List((0..rng.below(3)).map(|_| TV::Num(rng.range(0, 3) as f64)).collect()),
    }).collect())
}

fn law(model: &mut Model, rep: &mut Report, binds: &[(&str, &TV)], lhs: &str, rhs: &str, key: &str) {
    let (a, _) = eval_with(binds, lhs);
    let (b, _) = eval_with(binds, rhs);
    let desc = format!("{} ; {}  ==  {}", binds.iter().map(|(n, v)| format!("{} = {}", n, v.to_source())).collect::<Vec<_>>().join("; "), lhs, rhs);
    rep.case(&desc, true);
    if a == "(panic)" || b == "(panic)" {
        rep.finding("oracle", "panic", &desc, "", "c14.panic");
    }
    if a != b {
        rep.finding("oracle", key, &desc, &format!("left={} right={}", short(&a), short(&b)), &format!("c14.{}", key));
    }
    // correspondence: the two expressions as a session with the bindings as literals
    let prelude: Vec<String> = binds.iter().map(|(n, v)| format!("{} = {}", n, v.to_source())).collect();
    let src = format!("{}\n{}\n{}", prelude.join("\n"), lhs, rhs);
    check_session(model, rep, &src, None, "c14");
}

pub fn run(ctx: &Ctx, rep: &mut Report) {
    let mut rng = Rng::new(ctx.seed);
    let mut model = Model::spawn(&ctx.model_path);
    let n = ctx.budget(120, 2500);
    for _ in 0..n {
        let l = gen_list(&mut rng);
        let m = gen_list(&mut rng);
        let len = if let TV::List(x) = &l { x.len() } else { 0 };
        let b = [("l", &l), ("m", &m)];
        // permutation / stability / order of sort
        law(&mut model, rep, &b, "len(sort(l))", "len(l)", "sort-length");
        law(&mut model, rep, &b, "if every(l, x => every(l, y => ugte(x, y) or ulte(x, y))) then sort(sort(l)) .== sort(l) else true", "true", "sort-idempotent");
        law(&mut model, rep, &b, "every(l, x => includes(sort(l), x)) and every(sort(l), x => includes(l, x))", "true", "sort-same-members");
        law(&mut model, rep, &b, "l via (x => len(l where (y => y .== x)))", "l via (x => len(sort(l) where (y => y .== x)))", "sort-multiplicity");
        // sorted order when comparable: every adjacent pair is non-decreasing (ulte is false for incomparable → only assert for comparable lists)
        law(&mut model, rep, &b, "do {\n  s = sort(l)\n  comparable = every(s, x => every(s, y => ugte(x, y) or ulte(x, y)))\n  return if comparable then every(range(max(len(s) - 1, 0)), i => ulte(s[i], s[i + 1])) else true\n}", "true", "sort-order");
        // stability: sort_by with a constant / coarse key keeps the relative order inside a class
        law(&mut model, rep, &b, "sort_by(l, x => 0)", "l", "sort-by-constant-key-stable");
        law(&mut model, rep, &b, "do {\n  tagged = l via ((x, i) => [typeof(x) == \"number\", i])\n  s = sort_by(tagged, p => if p[0] then 1 else 0)\n  return [s where (p => p[0]) via (p => p[1]), s where (p => not p[0]) via (p => p[1])]\n}",
            "do {\n  tagged = l via ((x, i) => [typeof(x) == \"number\", i])\n  return [tagged where (p => p[0]) via (p => p[1]), tagged where (p => not p[0]) via (p => p[1])]\n}", "sort-by-stable");
        // unique
        law(&mut model, rep, &b, "every(l, x => includes(unique(l), x))", "true", "unique-covers");
        law(&mut model, rep, &b, "do {\n  u = unique(l)\n  return every(u, (x, i) => every(u, (y, j) => i == j or x .!= y))\n}", "true", "unique-distinct");
        law(&mut model, rep, &b, "unique(l)", "l where ((x, i) => every(range(i), j => l[j] .!= x))", "unique-first-of-class");
        // reverse, concat, spread
        law(&mut model, rep, &b, "reverse(reverse(l))", "l", "reverse-involution");
        law(&mut model, rep, &b, "reverse(l) via ((x, i) => x)", "range(len(l)) via (i => l[len(l) - 1 - i])", "reverse-order");
        law(&mut model, rep, &b, "[...l, ...m]", "concat(l, m)", "spread-concat");
        law(&mut model, rep, &b, "len(concat(l, m))", "len(l) + len(m)", "concat-length");
        law(&mut model, rep, &b, "[...l]", "l", "spread-identity");
        // chunk / flatten / zip / slice / head / tail
        for k in [1usize, 2, 3, 7] {
            law(&mut model, rep, &b, &format!("flatten(chunk(l, {})) .== (if every(l, x => typeof(x) != \"list\") then l else flatten(chunk(l, {})))", k, k), "true", "flatten-chunk");
            law(&mut model, rep, &b, &format!("chunk(l, {}) via len", k), &format!("range(ceil(len(l) / {})) via (i => min({}, len(l) - i * {}))", k, k, k), "chunk-sizes");
        }
        law(&mut model, rep, &b, "if len(l) > 0 then [head(l), ...tail(l)] else [...tail(l)]", "l", "head-tail-rebuild");
        law(&mut model, rep, &b, "len(zip(l, m))", "max(len(l), len(m))", "zip-length");
        law(&mut model, rep, &b, "zip(l, m) via (p => p[0])", "range(max(len(l), len(m))) via (i => l[i])", "zip-first");
        if len > 0 {
            let a = rng.below(len + 1);
            let c = a + rng.below(len + 1 - a);
            law(&mut model, rep, &b, &format!("slice(l, {}, {})", a, c), &format!("range({}, {}) via (i => l[i])", a, c), "slice-elements");
            law(&mut model, rep, &b, &format!("concat(slice(l, 0, {}), slice(l, {}, len(l)))", a, a), "l", "slice-split");
        }
        // indexing
        for idx in ["0", "1", "-1", "-2", "1.7", "-1.2", "100", "-100", "0.99"] {
            law(&mut model, rep, &b, &format!("l[{}]", idx), &format!("do {{\n  i = trunc({})\n  j = if i < 0 then len(l) + i else i\n  return if j < 0 or j >= len(l) then null else (l where ((x, k) => k == j))[0]\n}}", idx), "index-semantics");
        }
        // group_by / count_by partition
        law(&mut model, rep, &b, "sum([0, ...values(count_by(l, x => typeof(x)))])", "len(l)", "count-by-partitions");
        law(&mut model, rep, &b, "flatten(values(group_by(l, x => typeof(x)))) via (x => 1) into (o => sum([0, ...o]))", "len(l)", "group-by-partitions");
        law(&mut model, rep, &b, "keys(group_by(l, x => typeof(x)))", "keys(count_by(l, x => typeof(x)))", "group-count-keys");
        law(&mut model, rep, &b, "entries(count_by(l, x => typeof(x))) via (e => e[1])", "keys(group_by(l, x => typeof(x))) via (k => len(group_by(l, x => typeof(x))[k]))", "count-is-group-size");
    }
    // range
    for (a, bnd) in [(0i64, 0i64), (0, 5), (2, 6), (-3, 2), (5, 5), (-2, -2), (0, 40)] {
        let none: [(&str, &TV); 0] = [];
        law(&mut model, rep, &none, &format!("range({}, {})", a, bnd), &format!("[{}]", (a..bnd).map(|i| if i < 0 { format!("(-{})", -i) } else { i.to_string() }).collect::<Vec<_>>().join(", ")), "range-elements");
        if a == 0 {
            law(&mut model, rep, &none, &format!("range({})", bnd), &format!("range(0, {})", bnd), "range-one-arg");
        }
    }
    // strings: the same character sequence everywhere
    let strs = ["", "a", "abc", "héllo", "日本語", "a😀b", "a,b,,c", "  x ", "aXbXc", "XX", "ééé"];
    for s in strs.iter() {
        let sv = TV::Str(s.to_string());
        let b = [("s", &sv)];
        law(&mut model, rep, &b, "len(s)", "len([...s])", "string-len-chars");
        law(&mut model, rep, &b, "head(s)", "if len(s) > 0 then s[0] else \"\"", "string-head");
        law(&mut model, rep, &b, "head(s) + tail(s)", "s", "string-head-tail");
        law(&mut model, rep, &b, "join([...s], \"\")", "s", "string-spread-join");
        law(&mut model, rep, &b, "range(len(s)) via (i => s[i])", "[...s]", "string-index-spread");
        law(&mut model, rep, &b, "slice(s, 0, len(s))", "s", "string-slice-whole");
        law(&mut model, rep, &b, "if len(s) >= 2 then slice(s, 1, 2) else \"\"", "if len(s) >= 2 then s[1] else \"\"", "string-slice-char");
        law(&mut model, rep, &b, "s[-1]", "if len(s) > 0 then s[len(s) - 1] else null", "string-negative-index");
        for d in [",", "X", "é", "ab", " "] {
            let dv = TV::Str(d.to_string());
            let b2 = [("s", &sv), ("d", &dv)];
            law(&mut model, rep, &b2, "join(split(s, d), d)", "s", "join-split");
            law(&mut model, rep, &b2, "len(split(s, d)) >= 1", "true", "split-nonempty");
            law(&mut model, rep, &b2, "includes(s, d)", "len(split(s, d)) > 1", "includes-split");
            law(&mut model, rep, &b2, "replace(s, d, d)", "s", "replace-self");
            law(&mut model, rep, &b2, "join(split(s, d), \"#\")", "replace(s, d, \"#\")", "replace-is-split-join");
        }
    }
    // records
    let recs = [
        TV::Record(vec![]),
        TV::Record(vec![("a".into(), TV::Num(1.0)), ("b".into(), TV::Str("x".into())), ("k 1".into(), TV::Null)]),
        TV::Record(vec![("b".into(), TV::List(vec![TV::Num(1.0)])), ("a".into(), TV::Record(vec![("c".into(), TV::Num(2.0))]))]),
    ];
    for r in recs.iter() {
        let b = [("r", r)];
        law(&mut model, rep, &b, "keys(r) via (k => r[k])", "values(r)", "values-are-fields");
        law(&mut model, rep, &b, "entries(r)", "keys(r) via (k => [k, r[k]])", "entries-are-pairs");
        law(&mut model, rep, &b, "[...r]", "entries(r)", "record-spread-entries");
        law(&mut model, rep, &b, "r.missing_key", "null", "absent-field-null");
        law(&mut model, rep, &b, "r[\"missing key\"]", "null", "absent-index-null");
        law(&mut model, rep, &b, "{...r} .== r", "true", "record-spread-identity");
        law(&mut model, rep, &b, "len(keys(r))", "len(values(r))", "keys-values-length");
    }
    rep.model_requests = model.requests;
}
