//! C16 — numbers keep their exact value through every textual path.
//!
//! Oracles (model-free, on the REAL code, bit-exact):
//!   * `to_number(to_string(x))`                                   key c16.to-string-roundtrip
//!   * function source: `() => x` capturing x → SerializableValue → JSON text → back →
//!     call                                                        key c16.function-source-roundtrip
//!   * formatter: parse a literal for x, `format_expr`, re-parse, evaluate
//!                                                                 key c16.formatter-roundtrip
//!   * JSON output text denotes x (read with the correctly rounded `str::parse`)
//!                                                                 key c16.json-output
//!   * JSON output → JSON input, in-process (`to_json`/`serde_json::to_string`/`from_str`/
//!     `from_json`) and through the real `blots` binary in batches key c16.json-roundtrip
//!   * literal grammar: decimal / scientific / leading-dot / underscore / 0x / 0b literals
//!     evaluated by the real parser + evaluator against exact reference values: u128
//!     arithmetic for radix literals, the exact-rational `parseDec` specification (Lean,
//!     `ofRatio` of the exact decimal) on an independently built canonical `DIGITSeEXP`
//!     form for decimals                                            key c16.literal-value
//! Correspondence ("model"): Rust `{}` / `{:.0}` / `{:.14e}` / `str::parse` against the
//! model's `toDisplay` / `toFixed` / `toExp` / `parseDec` (these validate the external
//! assumptions of the theorems), `expr_to_source(Number x)` against `srcNumber`, the
//! literal conversion against `literalValue`, serde_json's writer against `jsonNumber`.

use crate::run::{eval_expr_src, new_heap, parse_program, Stmt};
use crate::util::{guarded, Ctx, Model, Report, Rng};
use crate::wire::{hs, unhs};
use blots_core::ast::{Expr, Spanned};
use blots_core::environment::Environment;
use blots_core::values::{SerializableValue, Value};
use std::io::Read;
use std::process::{Command, Stdio};
use std::rc::Rc;
use std::time::{Duration, Instant};

fn ulps(x: f64, d: i64) -> f64 {
    f64::from_bits(x.to_bits().wrapping_add(d as u64))
}

fn hexbits(x: f64) -> String {
    format!("{:016x}", x.to_bits())
}

/// deterministic boundary set of finite doubles
pub fn boundary() -> Vec<f64> {
    let mut v: Vec<f64> = vec![
        0.0, -0.0, 1.0, -1.0, 0.1, 0.2, 0.3, 0.30000000000000004, 1.0 / 3.0, 5e-324, -5e-324,
        f64::MIN_POSITIVE, f64::MAX, -f64::MAX, 2.2250738585072009e-308, 1.7976931348623155e308,
        9007199254740993.0, 7.038531e-26, 8.5e-320, 1e23, 9.5e22, 2.5, 123456.789,
    ];
    for &t in &[1e15f64, 1e21, 9007199254740992.0, 4503599627370496.0, 1e16, 1e17, 1e-7, 1e-5, 1e-6, 0.0001, 1e22] {
        for d in -3..=3 {
            v.push(ulps(t, d));
            v.push(-ulps(t, d));
        }
    }
    for k in -323i32..=308 {
        let p: f64 = format!("1e{}", k).parse().unwrap();
        for d in -1..=1 {
            let y = ulps(p, d);
            if y.is_finite() {
                v.push(y);
            }
        }
    }
    let mut e = -1074i32;
    while e <= 1023 {
        let p = 2f64.powi(e);
        for d in -1..=1 {
            let y = ulps(p, d);
            if y.is_finite() && !(y == 0.0 && d != 0) {
                v.push(y);
            }
        }
        e += if (-60..=70).contains(&e) { 1 } else { 37 };
    }
    v
}

pub fn gen_finite(rng: &mut Rng) -> f64 {
    loop {
        let x = match rng.below(8) {
            0..=3 => f64::from_bits(rng.next()),
            4 => {
                let d = 1 + rng.below(17);
                let m = (rng.next() % 10u64.pow(d as u32)).max(1);
                let k = rng.range(-30, 30);
                format!("{}e{}", m, k).parse().unwrap()
            }
            5 => {
                let bits = 1 + rng.below(63);
                let n = rng.next() >> (64 - bits);
                if rng.chance(1, 3) { -(n as f64) } else { n as f64 }
            }
            6 => {
                let e = (rng.next() % 44_000) as f64 / 1000.0 - 22.0;
                10f64.powf(e)
            }
            _ => f64::from_bits(rng.next() & 0x800F_FFFF_FFFF_FFFF), // subnormals
        };
        if x.is_finite() {
            return x;
        }
    }
}

fn num_of(v: &Value) -> Option<f64> {
    match v {
        Value::Number(n) => Some(*n),
        _ => None,
    }
}

fn eval_num(src: &str, env: &Rc<Environment>, heap: &crate::run::HeapRc) -> Result<f64, String> {
    match guarded(|| eval_expr_src(src, heap, env)) {
        Err(p) => Err(format!("panic: {}", p)),
        Ok(Err(e)) => Err(e),
        Ok(Ok(v)) => num_of(&v).ok_or_else(|| "not a number".to_string()),
    }
}

/// flat `{"k":num,...}` → raw number texts by key (no JSON number parsing involved)
fn raw_numbers(json: &str) -> Vec<(String, String)> {
    let t = json.trim();
    let t = t.strip_prefix('{').unwrap_or(t);
    let t = t.strip_suffix('}').unwrap_or(t);
    let mut out = vec![];
    for part in t.split(',') {
        if let Some((k, v)) = part.split_once(':') {
            out.push((k.trim().trim_matches('"').to_string(), v.trim().to_string()));
        }
    }
    out
}

fn run_blots(bin: &str, args: &[&str]) -> Result<(i32, String), String> {
    let mut child = Command::new(bin)
        .args(args)
        .stdin(Stdio::null())
        .stdout(Stdio::piped())
        .stderr(Stdio::null())
        .spawn()
        .map_err(|e| format!("cannot start {}: {}", bin, e))?;
    let mut stdout = child.stdout.take().unwrap();
    let reader = std::thread::spawn(move || {
        let mut s = String::new();
        let _ = stdout.read_to_string(&mut s);
        s
    });
    let t0 = Instant::now();
    loop {
        match child.try_wait() {
            Ok(Some(st)) => {
                let out = reader.join().unwrap_or_default();
                return Ok((st.code().unwrap_or(-1), out));
            }
            Ok(None) => {
                if t0.elapsed() > Duration::from_secs(30) {
                    let _ = child.kill();
                    let _ = child.wait();
                    return Err("timeout".into());
                }
                std::thread::sleep(Duration::from_millis(2));
            }
            Err(e) => return Err(e.to_string()),
        }
    }
}

// ------------------------------------------------------------------------------------------
// literal grammar

struct Lit {
    text: String,
    /// exact reference: Some(bits) expected value, None = must be rejected
    expect: Option<u64>,
    family: &'static str,
}

fn with_underscores(rng: &mut Rng, digits: &str) -> String {
    // "_"+ only between digits
    let cs: Vec<char> = digits.chars().collect();
    let mut out = String::new();
    for (i, c) in cs.iter().enumerate() {
        out.push(*c);
        if i + 1 < cs.len() && rng.chance(1, 5) {
            out.push('_');
            if rng.chance(1, 6) {
                out.push('_');
            }
        }
    }
    out
}

fn rand_digits(rng: &mut Rng, n: usize, radix: u32) -> String {
    (0..n).map(|_| std::char::from_digit((rng.next() % radix as u64) as u32, radix).unwrap()).collect()
}

/// a radix literal with its exact value computed in u128
fn gen_radix(rng: &mut Rng) -> Lit {
    let hex = rng.chance(1, 2);
    let radix = if hex { 16 } else { 2 };
    let maxlen = if hex { 17 } else { 66 };
    let n = match rng.below(6) {
        0 => if hex { 16 } else { 64 },
        1 => if hex { 15 } else { 63 },
        2 => if hex { 14 } else { 54 },
        _ => 1 + rng.below(maxlen),
    };
    let mut digits = rand_digits(rng, n, radix);
    if rng.chance(1, 8) {
        // all-ones / boundary patterns
        digits = match rng.below(5) {
            0 => if hex { "7fffffffffffffff".into() } else { "1".repeat(63) },
            1 => if hex { "8000000000000000".into() } else { format!("1{}", "0".repeat(63)) },
            2 => if hex { "20000000000001".into() } else { format!("1{}1", "0".repeat(52)) },   // 2^53 + 1 (tie)
            3 => if hex { "20000000000003".into() } else { format!("1{}11", "0".repeat(51)) },  // 2^53 + 3 (tie, odd)
            _ => if hex { "7ffffffffffffdff".into() } else { "0".into() },
        };
    }
    let value = u128::from_str_radix(&digits, radix).unwrap();
    let shown: String = if hex && rng.chance(1, 3) { digits.to_uppercase() } else { digits.clone() };
    let shown = if rng.chance(1, 3) { with_underscores(rng, &shown) } else { shown };
    let plus = rng.chance(1, 6);
    let text = format!("{}0{}{}", if plus { "+" } else { "" }, if hex { "x" } else { "b" }, shown);
    // the conversion goes through i64: values ≥ 2^63 are rejected (noted, not a mis-rounding)
    let expect = if value < (1u128 << 63) { Some((value as f64).to_bits()) } else { None };
    Lit { text, expect, family: if hex { "hex" } else { "binary" } }
}

/// a decimal literal (text) together with an independently built canonical form
/// `DIGITSe EXP` of the same exact value
fn gen_decimal(rng: &mut Rng) -> (String, String, &'static str) {
    // hand-picked hard cases first
    const HARD: &[(&str, &str)] = &[
        ("9007199254740993", "9007199254740993e0"),
        ("9007199254740992.5", "90071992547409925e-1"),
        ("9007199254740993.0000000000000000000001", "90071992547409930000000000000000000001e-22"),
        ("1e23", "1e23"),
        ("8.5e-320", "85e-321"),
        ("2.4703282292062327e-324", "24703282292062327e-340"),
        ("2.4703282292062328e-324", "24703282292062328e-340"),
        ("4.9406564584124654e-324", "49406564584124654e-340"),
        ("2.2250738585072011e-308", "22250738585072011e-324"),
        ("2.2250738585072014e-308", "22250738585072014e-324"),
        ("1.7976931348623157e308", "17976931348623157e292"),
        ("1.7976931348623158e308", "17976931348623158e292"),
        ("1.7976931348623159e308", "17976931348623159e292"),
        ("1e309", "1e309"),
        ("1e999", "1e999"),
        ("1e-400", "1e-400"),
        ("1_0.0001", "100001e-4"),
        (".5", "5e-1"),
        (".000123", "123e-6"),
        ("1_000_000", "1000000e0"),
        ("1__0.25", "1025e-2"),
        ("0e5", "0e0"),
        ("0.0", "0e0"),
        ("123456789012345678901234567890", "123456789012345678901234567890e0"),
        ("0.1", "1e-1"),
        ("100E-2", "100e-2"),
        ("1e+2", "1e2"),
        ("5E+20", "5e20"),
        ("179769313486231580793728971405303415079934132710037826936173778980444968292764750946649017977587207096330286416692887910946555547851940402630657488671505820681908902000708383676273854845817711531764475730270069855571366959622842914819860834936475292719074168444365510704342711559699508093042880177904174497791", "179769313486231580793728971405303415079934132710037826936173778980444968292764750946649017977587207096330286416692887910946555547851940402630657488671505820681908902000708383676273854845817711531764475730270069855571366959622842914819860834936475292719074168444365510704342711559699508093042880177904174497791e0"),
    ];
    let pick = rng.below(HARD.len() * 5);
    if pick < HARD.len() {
        return (HARD[pick].0.to_string(), HARD[pick].1.to_string(), "hard");
    }
    let ni = match rng.below(5) { 0 => 0, 1 => 1 + rng.below(3), 2 => 15 + rng.below(6), 3 => 1 + rng.below(40), _ => 1 + rng.below(18) };
    let nf = match rng.below(4) { 0 => 0, 1 => 1 + rng.below(4), 2 => 14 + rng.below(8), _ => 1 + rng.below(30) };
    let (ni, nf) = if ni == 0 && nf == 0 { (1, 0) } else { (ni, nf) };
    let mut ip = rand_digits(rng, ni, 10);
    let mut fp = rand_digits(rng, nf, 10);
    if rng.chance(1, 4) {
        // half-way patterns in the 17th..20th digit
        let base = ["9007199254740993", "18014398509481986", "4503599627370497", "36028797018963970"];
        ip = rng.pick(&base).to_string();
        if rng.chance(1, 2) {
            fp = format!("{}{}", "0".repeat(rng.below(20)), rng.below(2));
        }
    }
    let has_exp = rng.chance(1, 2);
    let ex: i64 = if has_exp {
        match rng.below(4) { 0 => rng.range(-340, -290), 1 => rng.range(290, 310), _ => rng.range(-40, 40) }
    } else { 0 };
    // literal text
    let mut text = String::new();
    let family: &'static str;
    if ip.is_empty() {
        text.push('.');
        text.push_str(&fp);
        family = "leading-dot";
    } else {
        let us = rng.chance(1, 3) && ip.len() > 1;
        text.push_str(&if us { with_underscores(rng, &ip) } else { ip.clone() });
        if !fp.is_empty() {
            text.push('.');
            text.push_str(&fp);
        }
        family = if us && text.contains('_') { "underscore" } else if fp.is_empty() { "integer" } else { "decimal" };
    }
    let mut family = family;
    if has_exp {
        text.push(if rng.chance(1, 4) { 'E' } else { 'e' });
        if ex >= 0 && rng.chance(1, 4) {
            text.push('+');
        }
        text.push_str(&ex.to_string());
        family = "scientific";
    }
    // canonical form: all digits as one integer, exponent adjusted; leading zeros dropped
    let all = format!("{}{}", ip, fp);
    let all = all.trim_start_matches('0');
    let all = if all.is_empty() { "0" } else { all };
    let canon = format!("{}e{}", all, ex - fp.len() as i64);
    (text, canon, family)
}

// ------------------------------------------------------------------------------------------

pub fn run(ctx: &Ctx, rep: &mut Report) {
    let mut rng = Rng::new(ctx.seed);
    let mut model = Model::spawn(&ctx.model_path);
    let heap = new_heap();

    let mut xs = boundary();
    rep.counters.insert("boundary-set".into(), xs.len() as u64);
    for _ in 0..ctx.budget(2500, 60_000) {
        xs.push(gen_finite(&mut rng));
    }

    // ---- per-double textual paths on the real code ------------------------------------
    for &x in xs.iter() {
        let input = hexbits(x);
        let desc = format!("{} ({:e})", input, x);
        rep.case(&desc, x != 0.0);
        let env = Rc::new(Environment::new());
        env.insert("x".to_string(), Value::Number(x));

        // (1) to_string → to_number
        match eval_num("to_number(to_string(x))", &env, &heap) {
            Ok(y) if y.to_bits() == x.to_bits() => rep.count("ok.to-string-roundtrip"),
            Ok(y) => rep.finding("oracle", "to-string-roundtrip", &input,
                &format!("{}: to_number(to_string(x)) = {} ({:e})", desc, hexbits(y), y), "c16.to-string-roundtrip"),
            Err(e) => rep.finding("oracle", "to-string-roundtrip", &input, &format!("{}: {}", desc, e), "c16.to-string-roundtrip"),
        }

        // (2) emitted function source, through JSON text and back, then called
        let fs = guarded(|| -> Result<(String, f64), String> {
            let f = eval_expr_src("() => x", &heap, &env)?;
            let sv = SerializableValue::from_value(&f, &heap.borrow()).map_err(|e| e.to_string())?;
            let text = serde_json::to_string(&sv.to_json()).map_err(|e| e.to_string())?;
            let back: serde_json::Value = serde_json::from_str(&text).map_err(|e| e.to_string())?;
            let sv2 = SerializableValue::from_json(&back);
            let f2 = sv2.to_value(&mut heap.borrow_mut()).map_err(|e| e.to_string())?;
            let env2 = Rc::new(Environment::new());
            env2.insert("f".to_string(), f2);
            let r = eval_expr_src("f()", &heap, &env2)?;
            Ok((text, num_of(&r).ok_or("not a number")?))
        });
        match fs {
            Ok(Ok((_, y))) if y.to_bits() == x.to_bits() => rep.count("ok.function-source-roundtrip"),
            Ok(Ok((text, y))) => rep.finding("oracle", "function-source-roundtrip", &input,
                &format!("{}: emitted {} evaluates to {} ({:e})", desc, text, hexbits(y), y), "c16.function-source-roundtrip"),
            Ok(Err(e)) => rep.finding("oracle", "function-source-roundtrip", &input, &format!("{}: {}", desc, e), "c16.function-source-roundtrip"),
            Err(p) => rep.finding("oracle", "function-source-roundtrip", &input, &format!("{}: panic {}", desc, p), "c16.function-source-roundtrip"),
        }

        // (3) literal → formatter → re-parse → evaluate.  Three spellings of x.
        let a = x.abs();
        let sign = if x.is_sign_negative() { "-" } else { "" };
        let mut spellings = vec![format!("{}{:e}", sign, a)];
        if a < 1e25 && a > 1e-25 || a == 0.0 {
            spellings.push(format!("{}{}", sign, a));
        }
        if a.fract() == 0.0 && a < 1e18 {
            spellings.push(format!("{}{:.0}", sign, a));
        }
        let empty = Rc::new(Environment::new());
        for lit in spellings {
            // the literal denotes x
            match eval_num(&lit, &empty, &heap) {
                Ok(y) if y.to_bits() == x.to_bits() => rep.count("ok.literal-denotes-x"),
                Ok(y) => rep.finding("oracle", "literal-value", &lit,
                    &format!("literal {} evaluates to {} but denotes {}", lit, hexbits(y), input), "c16.literal-value"),
                Err(e) => rep.finding("oracle", "literal-value", &lit, &format!("literal {}: {}", lit, e), "c16.literal-value"),
            }
            let formatted = guarded(|| -> Result<String, String> {
                let prog = parse_program(&lit, false)?;
                match prog.first() {
                    Some((Stmt::Expr(e), _)) => Ok(blots_core::formatter::format_expr(e, None)),
                    _ => Err("no expression".into()),
                }
            });
            match formatted {
                Ok(Ok(ftext)) => match eval_num(&ftext, &empty, &heap) {
                    Ok(y) if y.to_bits() == x.to_bits() => rep.count("ok.formatter-roundtrip"),
                    Ok(y) => rep.finding("oracle", "formatter-roundtrip", &lit,
                        &format!("{} formats to {} which evaluates to {} instead of {}", lit, ftext, hexbits(y), input), "c16.formatter-roundtrip"),
                    Err(e) => rep.finding("oracle", "formatter-roundtrip", &lit,
                        &format!("{} formats to {} which fails: {}", lit, ftext, e), "c16.formatter-roundtrip"),
                },
                Ok(Err(e)) => rep.finding("oracle", "formatter-roundtrip", &lit, &format!("{}: {}", lit, e), "c16.formatter-roundtrip"),
                Err(p) => rep.finding("oracle", "formatter-roundtrip", &lit, &format!("{}: panic {}", lit, p), "c16.formatter-roundtrip"),
            }
        }

        // (4) JSON text layer in-process
        let jtext = serde_json::to_string(&SerializableValue::Number(x).to_json()).unwrap_or_default();
        match jtext.parse::<f64>() {
            Ok(y) if y.to_bits() == x.to_bits() || (x == 0.0 && y == 0.0 && x.is_sign_negative() == y.is_sign_negative()) => rep.count("ok.json-output"),
            _ => rep.finding("oracle", "json-output", &input, &format!("{}: JSON output text {:?} does not denote x", desc, jtext), "c16.json-output"),
        }
        let back = serde_json::from_str::<serde_json::Value>(&jtext).ok().map(|j| SerializableValue::from_json(&j));
        match back {
            Some(SerializableValue::Number(y)) if y.to_bits() == x.to_bits() => rep.count("ok.json-roundtrip"),
            Some(SerializableValue::Number(y)) => {
                rep.finding("oracle", "json-roundtrip", &input,
                    &format!("{}: JSON text {} reads back as {} ({:e}), {} ulp off", desc, jtext, hexbits(y), y,
                        (y.to_bits() as i128 - x.to_bits() as i128).abs()), "c16.json-roundtrip");
            }
            _ => rep.finding("oracle", "json-roundtrip", &input, &format!("{}: JSON text {} does not read back as a number", desc, jtext), "c16.json-roundtrip"),
        }

        // (5) correspondence with the model's decimal specifications
        let rs_display = format!("{}", x);
        let m = model.ask(&format!("num-display {}", input));
        if unhs(&m).as_deref() != Some(rs_display.as_str()) {
            rep.finding("model", "toDisplay", &input, &format!("rust={:?} model={:?}", rs_display, unhs(&m)), "c16.model.to-display");
        }
        let m = model.ask(&format!("num-parse {}", hs(&rs_display)));
        let rp = rs_display.parse::<f64>().map(hexbits).unwrap_or_else(|_| "none".into());
        if m != rp {
            rep.finding("model", "parseDec", &rs_display, &format!("rust={} model={}", rp, m), "c16.model.parse-dec");
        }
        if a < 1e22 {
            let rs_fixed = format!("{:.0}", x);
            let m = model.ask(&format!("num-fixed {} 0", input));
            if unhs(&m).as_deref() != Some(rs_fixed.as_str()) {
                rep.finding("model", "toFixed0", &input, &format!("rust={:?} model={:?}", rs_fixed, unhs(&m)), "c16.model.to-fixed");
            }
        }
        let rs_exp = format!("{:.14e}", x);
        let m = model.ask(&format!("num-exp {} 14", input));
        if unhs(&m).as_deref() != Some(rs_exp.as_str()) {
            rep.finding("model", "toExp14", &input, &format!("rust={:?} model={:?}", rs_exp, unhs(&m)), "c16.model.to-exp");
        }
        let rs_src = blots_core::ast_to_source::expr_to_source(&Spanned::dummy(Expr::Number(x)));
        let m = model.ask(&format!("src-number {}", input));
        if unhs(&m).as_deref() != Some(rs_src.as_str()) {
            rep.finding("model", "srcNumber", &input, &format!("rust={:?} model={:?}", rs_src, unhs(&m)), "c16.model.src-number");
        }
        if x != 0.0 {
            // the explicit hypothesis of the round-trip theorems (Props/C16.lean)
            let m = model.ask(&format!("shortest-found {}", input));
            if m != "t t" {
                rep.finding("model", "assumption-ShortestFound", &input, &format!("shortest-found = {}", m), "c16.model.shortest-found");
            }
        }
        let m = model.ask(&format!("json-number {}", input));
        if unhs(&m).as_deref() != Some(jtext.as_str()) {
            rep.finding("model", "jsonNumber", &input, &format!("serde_json={:?} model={:?}", jtext, unhs(&m)), "c16.model.json-number");
        }
    }

    // ---- JSON output → JSON input through the real binary, in batches -----------------------
    let batch = 400usize;
    let n_cli = ctx.budget(1200, 12_000).min(xs.len());
    let mut cli_xs: Vec<f64> = xs.iter().copied().take(300).collect();
    while cli_xs.len() < n_cli {
        cli_xs.push(*rng.pick(&xs));
    }
    let mut cli_fail_note = None;
    for chunk in cli_xs.chunks(batch) {
        // step 1: the binary writes the numbers (given as exact literals)
        let mut prog = String::new();
        for (i, x) in chunk.iter().enumerate() {
            let lit = if x.is_sign_negative() { format!("(-{:e})", x.abs()) } else { format!("{:e}", x) };
            prog.push_str(&format!("output k{} = {}\n", i, lit));
        }
        let out1 = match run_blots(&ctx.blots_bin, &[&prog]) {
            Ok((0, s)) => s,
            Ok((rc, _)) => { cli_fail_note = Some(format!("blots exited with {} on the writer program", rc)); break; }
            Err(e) => { cli_fail_note = Some(e); break; }
        };
        let texts = raw_numbers(&out1);
        if texts.len() != chunk.len() {
            cli_fail_note = Some(format!("writer produced {} outputs for {} statements", texts.len(), chunk.len()));
            break;
        }
        for (i, x) in chunk.iter().enumerate() {
            let input = hexbits(*x);
            rep.case(&format!("cli-json {}", input), true);
            let (k, t) = &texts[i];
            let ok = k == &format!("k{}", i) && t.parse::<f64>().map(|y| y.to_bits() == x.to_bits()).unwrap_or(false);
            if !ok {
                rep.finding("oracle", "json-output", &input, &format!("blots wrote {:?} for {} ({:e})", t, input, x), "c16.json-output");
            }
        }
        // step 2: feed the text back as inputs and write again
        let mut prog2 = String::new();
        for i in 0..chunk.len() {
            prog2.push_str(&format!("output k{} = inputs.k{}\n", i, i));
        }
        let out2 = match run_blots(&ctx.blots_bin, &["-i", out1.trim(), &prog2]) {
            Ok((0, s)) => s,
            Ok((rc, _)) => { cli_fail_note = Some(format!("blots exited with {} on the reader program", rc)); break; }
            Err(e) => { cli_fail_note = Some(e); break; }
        };
        let texts2 = raw_numbers(&out2);
        for (i, x) in chunk.iter().enumerate() {
            let input = hexbits(*x);
            match texts2.get(i).and_then(|(_, t)| t.parse::<f64>().ok()) {
                Some(y) if y.to_bits() == x.to_bits() => rep.count("ok.cli-json-roundtrip"),
                Some(y) => rep.finding("oracle", "json-roundtrip-cli", &input,
                    &format!("{} ({:e}): blots wrote {}, given back as input it is {} ({:e})", input, x, texts[i].1, hexbits(y), y), "c16.json-roundtrip"),
                None => rep.finding("oracle", "json-roundtrip-cli", &input, &format!("{}: no output after round trip", input), "c16.json-roundtrip"),
            }
        }
    }
    if let Some(n) = cli_fail_note {
        rep.finding("model", "cli-batch-failed", "cli", &n, "c16.internal.cli");
    }

    // ---- literal grammar ---------------------------------------------------------------------
    let empty = Rc::new(Environment::new());
    let n_lit = ctx.budget(4000, 80_000);
    for i in 0..n_lit {
        let lit = if i % 3 == 0 {
            gen_radix(&mut rng)
        } else {
            let (text, canon, family) = gen_decimal(&mut rng);
            // exact reference: the correctly rounded value of the canonical form
            let r = model.ask(&format!("num-parse {}", hs(&canon)));
            let expect = u64::from_str_radix(&r, 16).ok();
            if expect.is_none() {
                rep.finding("model", "reference-unavailable", &canon, &r, "c16.internal.reference");
                continue;
            }
            // Rust's own parser on the canonical form must agree with the specification
            let rp = canon.parse::<f64>().map(|y| y.to_bits()).ok();
            if rp != expect {
                rep.finding("model", "parseDec", &canon, &format!("rust={:?} model={}", rp.map(|b| format!("{:016x}", b)), r), "c16.model.parse-dec");
            }
            Lit { text, expect, family }
        };
        rep.case(&format!("literal {}", lit.text), true);
        rep.count(&format!("literal.{}", lit.family));
        let got = eval_num(&lit.text, &empty, &heap);
        match (&got, lit.expect) {
            (Ok(y), Some(b)) if y.to_bits() == b => {
                if y.is_infinite() { rep.count("literal-overflows-to-inf"); }
            }
            (Ok(y), Some(b)) => rep.finding("oracle", "literal-value", &lit.text,
                &format!("{} evaluates to {} ({:e}); correctly rounded value is {:016x} ({:e})", lit.text, hexbits(*y), y, b, f64::from_bits(b)), "c16.literal-value"),
            (Err(e), Some(b)) => rep.finding("oracle", "literal-value", &lit.text,
                &format!("{} is rejected ({}); it denotes {:016x}", lit.text, e, b), "c16.literal-value"),
            (Ok(y), None) => rep.finding("model", "literal-accepted", &lit.text,
                &format!("{} ≥ 2^63 now evaluates to {} (the model of the i64 route rejects it)", lit.text, hexbits(*y)), "c16.model.literal"),
            (Err(_), None) => rep.count("radix-literal-at-or-above-2^63-rejected"),
        }
        // the model's literal conversion
        let m = model.ask(&format!("literal {}", hs(&lit.text)));
        let impl_s = match &got { Ok(y) => format!("(ok {})", hexbits(*y)), Err(_) => "(err)".to_string() };
        if m != impl_s {
            rep.finding("model", "literalValue", &lit.text, &format!("impl={} model={}", impl_s, m), "c16.model.literal");
        }
        // a leading minus is the negation operator applied to the literal
        if i % 5 == 0 {
            if let (Ok(y), Ok(z)) = (&got, eval_num(&format!("-{}", lit.text.trim_start_matches('+')), &empty, &heap)) {
                if z.to_bits() != (-*y).to_bits() {
                    rep.finding("oracle", "negated-literal", &lit.text, &format!("-{} evaluates to {}", lit.text, hexbits(z)), "c16.literal-value");
                }
            }
        }
    }

    // ---- non-finite values: outside C16 (finite numbers only); recorded as notes -----------
    let inf_env = Rc::new(Environment::new());
    inf_env.insert("x".to_string(), Value::Number(f64::INFINITY));
    let r = eval_num("to_number(to_string(x))", &inf_env, &heap);
    rep.notes.push(format!("non-finite (outside C16): to_number(to_string(inf)) = {:?}; literal 1e999 = {:?}; expr_to_source(inf) = {:?}, expr_to_source(NaN) = {:?}",
        r, eval_num("1e999", &empty, &heap),
        blots_core::ast_to_source::expr_to_source(&Spanned::dummy(Expr::Number(f64::INFINITY))),
        blots_core::ast_to_source::expr_to_source(&Spanned::dummy(Expr::Number(f64::NAN)))));
    rep.notes.push("hex/binary literals are converted through i64::from_str_radix: values ≥ 2^63 are rejected with an error (counted, not a mis-rounding)".into());
    rep.model_requests = model.requests;
}
