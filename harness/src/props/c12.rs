//! C12 — equality and ordering are coherent.
//!
//! * oracle (model-free): the algebraic laws of the property evaluated on the real
//!   operators (`.== .!= .< .<= .> .>=`, `ugt ult ugte ulte`) over pairs and triples
//!   of a pool dense in near-equal data values;
//! * correspondence: `Value::equals` / `Value::compare` vs the Lean `veq` / `vcmp` on the
//!   same pairs (also with NaN, lambdas, built-ins).

use crate::run::{eval_expr_src, new_heap};
use crate::tv::{self, TV};
use crate::util::{guarded, Ctx, Model, Report, Rng};
use blots_core::environment::Environment;
use std::rc::Rc;

/// result of a binary operator / built-in on two bound values
#[derive(Clone, Copy, PartialEq, Debug)]
enum R {
    T,
    F,
    Err,
    Panic,
    Other,
}

struct Bound {
    heap: crate::run::HeapRc,
    env: Rc<Environment>,
}

fn bind(vals: &[(&str, &TV)]) -> Bound {
    let heap = new_heap();
    let env = Rc::new(Environment::new());
    for (n, v) in vals {
        let val = v.to_value(&heap);
        env.insert(n.to_string(), val);
    }
    Bound { heap, env }
}

fn ev(b: &Bound, src: &str) -> R {
    match guarded(|| eval_expr_src(src, &b.heap, &b.env)) {
        Err(_) => R::Panic,
        Ok(Err(_)) => R::Err,
        Ok(Ok(blots_core::values::Value::Bool(true))) => R::T,
        Ok(Ok(blots_core::values::Value::Bool(false))) => R::F,
        Ok(Ok(_)) => R::Other,
    }
}

fn ord_wire(o: Option<std::cmp::Ordering>) -> &'static str {
    match o {
        None => "none",
        Some(std::cmp::Ordering::Less) => "lt",
        Some(std::cmp::Ordering::Equal) => "eq",
        Some(std::cmp::Ordering::Greater) => "gt",
    }
}

pub fn pool(rng: &mut Rng, n: usize) -> Vec<TV> {
    let mut p: Vec<TV> = vec![
        TV::Num(0.0),
        TV::Num(-0.0),
        TV::Num(1.0),
        TV::Num(f64::INFINITY),
        TV::Bool(false),
        TV::Bool(true),
        TV::Null,
        TV::Str("".into()),
        TV::Str("a".into()),
        TV::Str("ab".into()),
        TV::Str("é".into()),
        TV::Str("Apple".into()),
        TV::Str("apple".into()),
        TV::Str("APPLE".into()),
        TV::Str("\u{ff5e}".into()),
        TV::Str("\u{e000}".into()),
        TV::Str("\u{1f600}".into()),
        TV::Str("\u{10000}".into()),
        TV::List(vec![TV::Str("Apple".into()), TV::Num(1.0)]),
        TV::List(vec![TV::Str("apple".into()), TV::Num(0.0)]),
        TV::List(vec![]),
        TV::List(vec![TV::Num(1.0)]),
        TV::List(vec![TV::Num(1.0), TV::Num(2.0)]),
        TV::List(vec![TV::Num(1.0), TV::Str("a".into())]),
        TV::List(vec![TV::List(vec![])]),
        TV::Record(vec![]),
        TV::Record(vec![("a".into(), TV::Num(1.0)), ("b".into(), TV::Num(2.0))]),
        TV::Record(vec![("b".into(), TV::Num(2.0)), ("a".into(), TV::Num(1.0))]),
        TV::Record(vec![("a".into(), TV::Num(1.0)), ("b".into(), TV::Num(3.0))]),
        TV::Record(vec![("a".into(), TV::Num(1.0)), ("c".into(), TV::Num(2.0))]),
    ];
    // systematic near-misses of every record / list seen so far: renamed key (same size,
    // different key set), a value replaced by null, both; an element replaced by null
    let base = p.clone();
    for v in base.iter() {
        match v {
            TV::Record(r) if !r.is_empty() => {
                let mut r1 = r.clone();
                r1[0].0 = format!("{}_", r1[0].0);
                p.push(TV::Record(r1.clone()));
                let mut r2 = r.clone();
                r2[0].1 = TV::Null;
                p.push(TV::Record(r2));
                r1[0].1 = TV::Null;
                p.push(TV::Record(r1));
            }
            TV::List(l) if !l.is_empty() => {
                let mut l1 = l.clone();
                let k = l1.len() - 1;
                l1[k] = TV::Null;
                p.push(TV::List(l1));
            }
            _ => {}
        }
    }
    p.push(TV::Record(vec![("a".into(), TV::Null)]));
    p.push(TV::Record(vec![("b".into(), TV::Num(1.0))]));
    p.push(TV::Record(vec![("a".into(), TV::Null), ("b".into(), TV::Num(1.0))]));
    p.push(TV::Record(vec![("b".into(), TV::Num(1.0)), ("c".into(), TV::Null)]));
    p.push(TV::List(vec![TV::Null, TV::Num(1.0)]));
    p.push(TV::List(vec![TV::Num(-0.0), TV::Num(5.0)]));
    p.push(TV::List(vec![TV::Num(0.0), TV::Num(4.0)]));
    while p.len() < n {
        let v = if rng.chance(1, 2) && !p.is_empty() {
            let base = rng.pick(&p).clone();
            tv::mutate_near(rng, &base)
        } else {
            tv::gen_data(rng, 3, false)
        };
        if v.is_data() {
            p.push(v);
        }
    }
    p
}

pub fn run(ctx: &Ctx, rep: &mut Report) {
    let mut rng = Rng::new(ctx.seed);
    let mut model = Model::spawn(&ctx.model_path);
    let n_pool = ctx.budget(90, 160);
    let p = pool(&mut rng, n_pool);

    // ---- pairs: laws + correspondence ------------------------------------------------
    // results of the six operators and four built-ins per ordered pair
    let ops = ["a .== b", "a .!= b", "a .< b", "a .<= b", "a .> b", "a .>= b",
               "ugt(a, b)", "ult(a, b)", "ugte(a, b)", "ulte(a, b)"];
    let n = p.len();
    let mut eq = vec![vec![R::Other; n]; n];
    let mut lt = vec![vec![R::Other; n]; n];
    for i in 0..n {
        for j in 0..n {
            let b = bind(&[("a", &p[i]), ("b", &p[j])]);
            let r: Vec<R> = ops.iter().map(|s| ev(&b, s)).collect();
            let desc = format!("a = {} ; b = {}", p[i].to_source(), p[j].to_source());
            rep.case(&desc, i != j);
            eq[i][j] = r[0];
            lt[i][j] = r[2];
            let (e, ne, l, le, g, ge) = (r[0], r[1], r[2], r[3], r[4], r[5]);
            let (ugt, ult, ugte, ulte) = (r[6], r[7], r[8], r[9]);
            if r.iter().any(|x| *x == R::Panic) {
                rep.finding("oracle", "panic", &desc, &format!("{:?}", r), "c12.panic");
            }
            // .== never fails on data and .!= is its negation
            if !(e == R::T || e == R::F) {
                rep.finding("oracle", "eq-not-boolean", &desc, &format!("{:?}", e), "c12.eq-not-boolean");
            }
            if !((e == R::T && ne == R::F) || (e == R::F && ne == R::T)) {
                rep.finding("oracle", "ne-not-negation", &desc, &format!(".=={:?} .!={:?}", e, ne), "c12.ne-not-negation");
            }
            let comparable = l != R::Err;
            if comparable {
                rep.count("comparable-pairs");
                // exactly one of < == >
                let cnt = [l, e, g].iter().filter(|x| **x == R::T).count();
                if cnt != 1 || [l, g].iter().any(|x| !(*x == R::T || *x == R::F)) {
                    rep.finding("oracle", "trichotomy", &desc, &format!("<{:?} =={:?} >{:?}", l, e, g), "c12.trichotomy");
                }
                let le_exp = if l == R::T || e == R::T { R::T } else { R::F };
                let ge_exp = if g == R::T || e == R::T { R::T } else { R::F };
                if le != le_exp || ge != ge_exp {
                    rep.finding("oracle", "le-ge-union", &desc, &format!("<={:?} >={:?}", le, ge), "c12.le-ge-union");
                }
                if ugt != g || ult != l || ugte != ge || ulte != le {
                    rep.finding("oracle", "unchecked-disagree", &desc,
                        &format!("ugt {:?}/{:?} ult {:?}/{:?} ugte {:?}/{:?} ulte {:?}/{:?}", ugt, g, ult, l, ugte, ge, ulte, le),
                        "c12.unchecked-disagree");
                }
            } else {
                rep.count("incomparable-pairs");
                // all four ordering operators fail, u* return false
                if le != R::Err || g != R::Err || ge != R::Err {
                    rep.finding("oracle", "ordering-partial-failure", &desc, &format!("{:?}", r), "c12.ordering-partial-failure");
                }
                if [ugt, ult, ugte, ulte].iter().any(|x| *x != R::F) {
                    rep.finding("oracle", "unchecked-not-false", &desc, &format!("{:?}", &r[6..]), "c12.unchecked-not-false");
                }
            }
            // different types are never equal and never ordered
            if p[i].kind() != p[j].kind() {
                if e != R::F {
                    rep.finding("oracle", "cross-type-equal", &desc, "", "c12.cross-type-equal");
                }
                if comparable {
                    rep.finding("oracle", "cross-type-ordered", &desc, "", "c12.cross-type-ordered");
                }
            }
            // records/null are unordered even with themselves
            if matches!(p[i], TV::Record(_) | TV::Null) && comparable {
                rep.finding("oracle", "unordered-type-ordered", &desc, "", "c12.unordered-type-ordered");
            }
            // lexicographic: proper prefix first
            if let (TV::List(x), TV::List(y)) = (&p[i], &p[j]) {
                if x.len() < y.len() && x[..] == y[..x.len()] && comparable_all(x) && l != R::T {
                    rep.finding("oracle", "prefix-not-first", &desc, &format!("{:?}", l), "c12.prefix-not-first");
                }
            }
            if let (TV::Str(x), TV::Str(y)) = (&p[i], &p[j]) {
                let exp = if x.as_bytes() < y.as_bytes() { R::T } else { R::F };
                if l != exp {
                    rep.finding("oracle", "string-order", &desc, &format!("{:?}", l), "c12.string-order");
                }
            }
            // correspondence with the Lean model on Value::equals / Value::compare
            let heap = &b.heap;
            let va = b.env.get("a").unwrap();
            let vb = b.env.get("b").unwrap();
            let (wa, wb) = {
                let h = heap.borrow();
                (crate::wire::value(&va, &h), crate::wire::value(&vb, &h))
            };
            let impl_eq = guarded(|| va.equals(&vb, &heap.borrow()));
            let impl_cmp = guarded(|| va.compare(&vb, &heap.borrow()));
            let m_eq = model.ask(&format!("veq {} {}", wa, wb));
            let m_cmp = model.ask(&format!("vcmp {} {}", wa, wb));
            let i_eq = match &impl_eq { Ok(Ok(true)) => "t", Ok(Ok(false)) => "f", Ok(Err(_)) => "err", Err(_) => "panic" };
            let i_cmp = match &impl_cmp { Ok(Ok(o)) => ord_wire(*o), Ok(Err(_)) => "err", Err(_) => "panic" };
            if m_eq != i_eq {
                rep.finding("model", "veq", &desc, &format!("impl={} model={}", i_eq, m_eq), "c12.model.veq");
            }
            if m_cmp != i_cmp {
                rep.finding("model", "vcmp", &desc, &format!("impl={} model={}", i_cmp, m_cmp), "c12.model.vcmp");
            }
            // the operators are the functions
            if (e == R::T) != (i_eq == "t") {
                rep.finding("oracle", "operator-vs-equals", &desc, "", "c12.operator-vs-equals");
            }
        }
    }
    // the same variable on both sides must behave like two equal copies of its value
    let self_ops = ["a .== a", "a .!= a", "a .< a", "a .<= a", "a .> a", "a .>= a",
                    "ugt(a, a)", "ult(a, a)", "ugte(a, a)", "ulte(a, a)"];
    for i in 0..n {
        let b1 = bind(&[("a", &p[i])]);
        let b2 = bind(&[("a", &p[i]), ("b", &p[i])]);
        let desc = format!("a = {}", p[i].to_source());
        rep.case(&format!("self {}", desc), true);
        for (k, s1) in self_ops.iter().enumerate() {
            let r1 = ev(&b1, s1);
            let r2 = ev(&b2, ops[k]);
            if r1 != r2 {
                rep.finding("oracle", "same-variable-differs", &format!("{} ; {}", desc, s1),
                    &format!("{} gives {:?} but with an equal copy b: {} gives {:?}", s1, r1, ops[k], r2), "c12.same-variable-differs");
            }
        }
        // also inside containers that share the cell
        let r1 = ev(&b1, "[a] .<= [a]");
        let r2 = ev(&b2, "[a] .<= [b]");
        if r1 != r2 {
            rep.finding("oracle", "same-variable-differs", &format!("{} ; [a] .<= [a]", desc), &format!("{:?} vs {:?}", r1, r2), "c12.same-variable-differs");
        }
    }
    // reflexivity, symmetry
    for i in 0..n {
        if eq[i][i] != R::T {
            rep.finding("oracle", "eq-not-reflexive", &format!("a = {}", p[i].to_source()), "", "c12.eq-not-reflexive");
        }
        for j in 0..n {
            if eq[i][j] != eq[j][i] {
                rep.finding("oracle", "eq-not-symmetric",
                    &format!("a = {} ; b = {}", p[i].to_source(), p[j].to_source()), "", "c12.eq-not-symmetric");
            }
        }
    }
    // record key order ignored: explicit permutations
    for v in p.iter() {
        if let TV::Record(r) = v {
            if r.len() >= 2 {
                let mut r2 = r.clone();
                r2.reverse();
                let b = bind(&[("a", v), ("b", &TV::Record(r2))]);
                rep.case(&format!("perm {}", v.to_source()), true);
                if ev(&b, "a .== b") != R::T {
                    rep.finding("oracle", "record-order-matters", &v.to_source(), "", "c12.record-order-matters");
                }
            }
        }
    }
    // transitivity over triples (from the matrices: the operators were already evaluated)
    let mut triples = 0u64;
    for i in 0..n {
        for j in 0..n {
            if eq[i][j] != R::T && lt[i][j] != R::T {
                continue;
            }
            for k in 0..n {
                triples += 1;
                if eq[i][j] == R::T && eq[j][k] == R::T && eq[i][k] != R::T {
                    rep.finding("oracle", "eq-not-transitive",
                        &format!("{} ; {} ; {}", p[i].to_source(), p[j].to_source(), p[k].to_source()), "", "c12.eq-not-transitive");
                }
                if lt[i][j] == R::T && lt[j][k] == R::T && lt[i][k] != R::T {
                    rep.finding("oracle", "lt-not-transitive",
                        &format!("{} ; {} ; {}", p[i].to_source(), p[j].to_source(), p[k].to_source()), "", "c12.lt-not-transitive");
                }
                // equal values are interchangeable under <
                if eq[i][j] == R::T && lt[i][k] != lt[j][k] {
                    rep.finding("oracle", "eq-not-congruent",
                        &format!("{} ; {} ; {}", p[i].to_source(), p[j].to_source(), p[k].to_source()), "", "c12.eq-not-congruent");
                }
            }
        }
    }
    rep.counters.insert("triples".into(), triples);
    rep.evaluations += triples;

    // ---- correspondence on arbitrary values (NaN, functions, spreads excluded) -----------
    let extra = ctx.budget(600, 6000);
    for _ in 0..extra {
        let a = tv::gen_any(&mut rng, 3);
        let b = if rng.chance(1, 2) { tv::mutate_near(&mut rng, &a) } else { tv::gen_any(&mut rng, 3) };
        let heap = new_heap();
        let va = a.to_value(&heap);
        let vb = b.to_value(&heap);
        let (wa, wb) = {
            let h = heap.borrow();
            (crate::wire::value(&va, &h), crate::wire::value(&vb, &h))
        };
        let desc = format!("a = {} ; b = {}", a.to_source(), b.to_source());
        rep.case(&desc, true);
        let impl_eq = guarded(|| va.equals(&vb, &heap.borrow()));
        let impl_cmp = guarded(|| va.compare(&vb, &heap.borrow()));
        let i_eq = match &impl_eq { Ok(Ok(true)) => "t", Ok(Ok(false)) => "f", Ok(Err(_)) => "err", Err(_) => "panic" };
        let i_cmp = match &impl_cmp { Ok(Ok(o)) => ord_wire(*o), Ok(Err(_)) => "err", Err(_) => "panic" };
        let m_eq = model.ask(&format!("veq {} {}", wa, wb));
        let m_cmp = model.ask(&format!("vcmp {} {}", wa, wb));
        if m_eq != i_eq {
            rep.finding("model", "veq", &desc, &format!("impl={} model={}", i_eq, m_eq), "c12.model.veq");
        }
        if m_cmp != i_cmp {
            rep.finding("model", "vcmp", &desc, &format!("impl={} model={}", i_cmp, m_cmp), "c12.model.vcmp");
        }
        rep.count(&format!("kind.{}.{}", a.kind(), b.kind()));
    }
    rep.model_requests = model.requests;
}

fn comparable_all(x: &[TV]) -> bool {
    x.iter().all(|v| match v {
        TV::Num(_) | TV::Bool(_) | TV::Str(_) => true,
        TV::List(l) => comparable_all(l),
        _ => false,
    })
}
