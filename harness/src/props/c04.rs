//! C04 — closures capture definition-time values; calls are call-site independent.
//! oracle: the value of f(args) right after f's definition equals the value of the same call
//! placed in every generated context (shadowing parameter, shadowing do-local, callback
//! position of via/where/map/filter/reduce/sort_by, nested call, after later definitions);
//! the same with parameters / do-block locals spelled like a built-in function and read through
//! the record shorthand (`(sqrt) => (() => {sqrt})`, defect D3);
//! arity: for every parameter list of the documented shape and every argument count the
//! binding is positional, optional ↦ null, rest ↦ list, other counts ↦ error.
//! correspondence: every program against the Lean evaluator.

use crate::evalcommon::*;
use crate::evgen::{self, Ty};
use crate::util::{Ctx, Model, Report, Rng};

pub fn run(ctx: &Ctx, rep: &mut Report) {
    let mut rng = Rng::new(ctx.seed);
    let mut model = Model::spawn(&ctx.model_path);
    let n_cl = ctx.budget(250, 4000);
    for i in 0..n_cl {
        // environment at definition time
        let ns = 2 + rng.below(4);
        let (prefix, sc) = evgen::gen_program(&mut rng, ns, 1);
        let nums: Vec<String> = sc.vars.iter().filter(|(_, t)| *t == Ty::Num).map(|(n, _)| n.clone()).collect();
        let bt = *rng.pick(&[Ty::Num, Ty::ListNum, Ty::Str, Ty::Rec, Ty::Bool]);
        let bd = 2 + rng.below(2);
        let body = evgen::gexpr(&mut rng, bt, &sc, bd);
        // the closure may also use its parameter and a shorthand record
        let reuse = if nums.is_empty() { None } else { Some(rng.pick(&nums).clone()) };
        let strs: Vec<String> = sc.vars.iter().filter(|(_, t)| *t == Ty::Str).map(|(n, _)| n.clone()).collect();
        let reuse_s = if strs.is_empty() { None } else { Some(rng.pick(&strs).clone()) };
        let (def, call) = match i % 8 {
            // a do-block / lambda / nested do-block inside the body binds a local that has the name of a
            // captured variable; the variable is used again after it
            5 if reuse.is_some() => {
                let v = reuse.clone().unwrap();
                (format!("clo = (arg) => [do {{\n  {} = arg * 2\n  return {}\n}}, {}, {}]", v, v, v, body), "clo(41)".to_string())
            }
            6 if reuse.is_some() => {
                let v = reuse.clone().unwrap();
                (format!("clo = (arg) => {{a: if arg > 0 then do {{\n  {} = 1\n  return {}\n}} else 0, b: {} + arg, c: [1] via ({} => {} + 1), d: {}}}", v, v, v, v, v, v), "clo(41)".to_string())
            }
            3 if reuse_s.is_some() && i % 16 >= 8 => {
                // a captured name that is used only in a dynamic record key / a spread / an index
                let v = reuse_s.clone().unwrap();
                let form = *rng.pick(&[
                    "clo = (arg) => {...{base: 1}, [V]: arg}",
                    "clo = (arg) => {[V + \"x\"]: arg, n: 1}",
                    "clo = (arg) => [...V, arg]",
                    "clo = (arg) => {a: arg}[V] ?? V",
                    "clo = (arg) => (() => {[V]: arg})()",
                ]);
                (form.replace('V', &v), "clo(41)".to_string())
            }
            4 if reuse.is_some() && i % 16 >= 8 => {
                let v = reuse.clone().unwrap();
                let form = *rng.pick(&[
                    "clo = (arg) => [[1, 2] via (V => V * 2), V]",
                    "clo = (arg) => {m: map([arg], (V, i) => V + i), after: V}",
                    "clo = (arg) => [sort_by([2, 1], V => -V), reduce([1], (acc, V) => acc + V, 0), V + arg]",
                    "clo = (arg) => [((V) => V + 1)(arg), V]",
                    "clo = (arg) => [(V => (W => V + W))(1)(2), V, arg]",
                ]);
                (form.replace('V', &v), "clo(41)".to_string())
            }
            7 if reuse.is_some() => {
                let v = reuse.clone().unwrap();
                (format!("clo = (arg) => do {{\n  inner = do {{\n    {} = arg\n    return {} + 1\n  }}\n  return [inner, {}, {}]\n}}", v, v, v, body), "clo(41)".to_string())
            }
            0 => (format!("clo = () => {}", body), "clo()".to_string()),
            1 => (format!("clo = (arg) => [arg, {}]", body), "clo(41)".to_string()),
            2 => (format!("clo = (arg, opt?) => {{v: {}, arg, opt}}", body), "clo(41)".to_string()),
            3 => (format!("mk = (arg) => (() => [arg, {}])\nclo = mk(5)", body), "clo()".to_string()),
            _ => (format!("clo = do {{\n  local = 3\n  return (u => [u, local, {}])\n}}", body), "clo(2)".to_string()),
        };
        let mut names: Vec<String> = nums.clone();
        names.push("local".into());
        names.push("arg".into());
        let shadow = if i % 8 == 3 && i % 16 >= 8 && reuse_s.is_some() { reuse_s.clone().unwrap() } else if (i % 8 >= 5 || (i % 8 == 4 && i % 16 >= 8)) && reuse.is_some() { reuse.clone().unwrap() } else if names.is_empty() { "zz".to_string() } else { rng.pick(&names).clone() };
        check_contexts(&mut model, rep, &prefix, &def, &call, &shadow, i);
    }

    // (D3) a parameter / do-block local spelled like a built-in function, read through the record
    // shorthand: it is a free name of the inner function like any other, captured at definition;
    // every context rebinds that very name
    let n_bi = ctx.budget(60, 600);
    let spelled = ["sqrt", "sum", "max", "len", "map", "keys", "round", "filter"];
    for i in 0..n_bi {
        let ns = 1 + rng.below(3);
        let (prefix, sc) = evgen::gen_program(&mut rng, ns, 1);
        let bt = *rng.pick(&[Ty::Num, Ty::ListNum, Ty::Str, Ty::Rec, Ty::Bool]);
        let body = evgen::gexpr(&mut rng, bt, &sc, 2);
        let name = *rng.pick(&spelled);
        let (def, call) = match i % 5 {
            0 => (format!("mk = ({}) => (() => [{{{}}}, {}])\nclo = mk(5)", name, name, body), "clo()".to_string()),
            1 => (format!("clo = () => ((({}) => (() => {{{}, n: 1}}))(1))()", name, name), "clo()".to_string()),
            2 => (format!("clo = do {{\n  {} = 3\n  return (u => [u, {{{}}}, {}])\n}}", name, name, body), "clo(2)".to_string()),
            3 => (format!("mk = ({}) => (() => (() => {{v: {{{}}}, w: {}}}))\nclo = mk(5)()", name, name, body), "clo()".to_string()),
            _ => (format!("clo = ({}) => [{{{}}}, {}]", name, name, body), "clo(41)".to_string()),
        };
        check_contexts(&mut model, rep, &prefix, &def, &call, name, 100000 + i);
    }

    // a captured name that occurs ONLY in an unusual position of the body: dynamic record key, spread,
    // index, default of `??`, callee, conditional test, nested function - called from contexts that rebind it
    for (k, form) in [
        "clo = (arg) => {...{base: 1}, [V]: arg}", "clo = (arg) => {[V + \"x\"]: arg, n: 1}", "clo = (arg) => [...V, arg]", "clo = (arg) => {a: arg}[V] ?? \"none\"",
        "clo = (arg) => (() => {[V]: arg})()", "clo = (arg) => [arg] via (e => {[V]: e})", "clo = (arg) => if V == \"k\" then arg else 0", "clo = (arg) => {...{[V]: 1}}",
        "clo = (arg) => do {\n  r = {[V]: arg}\n  return r\n}", "clo = (arg) => arg ?? V", "clo = (arg) => [arg, #V ?? 1]", "clo = (arg) => split(V, \"\")",
    ].iter().enumerate() {
        let prefix = "sk = \"k\"\nnum = 5";
        check_contexts(&mut model, rep, prefix, &form.replace('V', "sk"), "clo(41)", "sk", 90_000 + k);
    }

    // parameter binding of the documented shape: required*, optional*, rest?
    for nreq in 0..=3usize {
        for nopt in 0..=2usize {
            for rest in [false, true] {
                let mut params: Vec<String> = vec![];
                let mut vars: Vec<String> = vec![];
                for i in 0..nreq { params.push(format!("r{}", i)); vars.push(format!("r{}", i)); }
                for i in 0..nopt { params.push(format!("o{}?", i)); vars.push(format!("o{}", i)); }
                if rest { params.push("...rs".into()); vars.push("rs".into()); }
                let n = nreq + nopt;
                for argc in 0..=(n + 3) {
                    let args: Vec<String> = (0..argc).map(|i| format!("{}", 10 + i)).collect();
                    let src = format!("f = ({}) => [{}]\nf({})", params.join(", "), vars.join(", "), args.join(", "));
                    rep.case(&src, true);
                    let sess = match check_session(&mut model, rep, &src, None, "c04") { Some(s) => s, None => continue };
                    let got = &sess.outcomes[1];
                    let ok = argc >= nreq && (rest || argc <= n);
                    if !ok {
                        if got.starts_with("(ok") {
                            rep.finding("oracle", "wrong-argument-count-accepted", &src, &short(got), "c04.arity");
                        }
                        continue;
                    }
                    let mut exp: Vec<String> = vec![];
                    for i in 0..nreq { exp.push(format!("{}", 10 + i)); }
                    for i in 0..nopt { exp.push(if nreq + i < argc { format!("{}", 10 + nreq + i) } else { "null".into() }); }
                    if rest {
                        let r: Vec<String> = (n..argc).map(|i| format!("{}", 10 + i)).collect();
                        exp.push(format!("[{}]", r.join(", ")));
                    }
                    let want = run_real(&statements(&format!("[{}]", exp.join(", "))).unwrap(), None, "");
                    if *got != want.outcomes[0] {
                        rep.finding("oracle", "positional-binding", &src, &format!("got {} expected {}", short(got), short(&want.outcomes[0])), "c04.binding");
                    }
                }
            }
        }
    }
    // captured values are the definition-time ones; shorthand and self-name cases
    let fixed = [
        ("x = 1\nf = () => x\ng = x => f()\ng(2)", "1"),
        ("x = 1\nf = () => {x}\ng = x => f()\ng(2)", "{x: 1}"),
        ("x = 1\nf = y => x + y\ndo {\n  x = 100\n  return f(1)\n}", "2"),
        ("f = 1\ng = do {\n  f = y => f + y\n  return f\n}\ng(1)", "2"),
        ("mk = n => (() => n)\na = mk(1)\nb = mk(2)\n[a(), b()]", "[1, 2]"),
        ("f = (a) => (t = a) + 1\ng = (t) => f(t)\n[f(1), g(1)]", "[2, 2]"),
        ("k = 3\nadd = x => x + k\n[5] via (k => add(k))", "[8]"),
        ("total = (total, x) => total + x\n[total(1, 2), reduce([1, 2, 3], total, 0)]", "[3, 6]"),
        ("pair = (pair?, ...rest) => [pair, rest]\n[pair(), pair(1, 2)]", "[[null, []], [1, [2]]]"),
        ("inner = do {\n  self = (self) => self\n  return self\n}\ninner(4)", "4"),
        ("fact = n => if n <= 1 then 1 else n * fact(n - 1)\nh = fact\n[h(5), map([5], h)[0], ([5] via h)[0]]", "[120, 120, 120]"),
        // (D3) names spelled like built-ins, read through the record shorthand
        ("mk = (sqrt) => (() => {sqrt})\ng = mk(1)\ng()", "{sqrt: 1}"),
        ("mk = (sqrt) => (() => {sqrt})\ng = mk(1)\nh = (sqrt) => g()\nh(7)", "{sqrt: 1}"),
        ("F = () => (((sum) => (() => {sum, n: 1}))(1))()\nG = (sum) => F()\n[F(), G(5)]", "[{sum: 1, n: 1}, {sum: 1, n: 1}]"),
        ("F = () => do {\n  max = 3\n  return (() => {max})\n}\ng = F()\nh = (max) => g()\n[g(), h(9), do {\n  max = 888\n  return g()\n}]", "[{max: 3}, {max: 3}, {max: 3}]"),
    ];
    for (src, expect) in fixed.iter() {
        rep.case(src, true);
        if let Some(sess) = check_session(&mut model, rep, src, None, "c04") {
            let want = run_real(&statements(expect).unwrap(), None, "");
            if sess.outcomes.last().unwrap() != &want.outcomes[0] {
                rep.finding("oracle", "capture-semantics", src, &format!("got {} expected {}", short(sess.outcomes.last().unwrap()), short(&want.outcomes[0])), "c04.capture");
            }
        }
    }
    rep.model_requests = model.requests;
}

/// the value of `call` right after the definition against the value of the same call placed in
/// every context of the context grammar, each of which rebinds the name `shadow`
/// closed after capture, hereditarily: the function, and every function it captured (at any depth, also
/// inside captured lists and records), has no free name other than parameters, captured names, built-ins
/// and its own name.  Only such functions are promised to be call-site independent (a generated prefix
/// statement may have failed, leaving a name the body uses unbound at definition).
fn hereditarily_closed(v: &blots_core::values::Value, heap: &blots_core::heap::Heap, budget: &mut usize) -> bool {
    use blots_core::heap::{HeapPointer, HeapValue};
    use blots_core::values::Value;
    if *budget == 0 {
        return false;
    }
    *budget -= 1;
    match v {
        Value::Lambda(p) => {
            let empty = blots_core::environment::Environment::new();
            if blots_core::expressions::validate_portable_value(v, heap, &empty).is_err() {
                return false;
            }
            match p.reify(heap) {
                HeapValue::Lambda(def) => def.scope.iter().all(|(_, x)| hereditarily_closed(x, heap, budget)),
                _ => false,
            }
        }
        Value::List(p) => match p.reify(heap) { HeapValue::List(l) => l.iter().all(|x| hereditarily_closed(x, heap, budget)), _ => false },
        Value::Record(p) => match p.reify(heap) { HeapValue::Record(r) => r.values().all(|x| hereditarily_closed(x, heap, budget)), _ => false },
        _ => true,
    }
}

fn check_contexts(model: &mut Model, rep: &mut Report, prefix: &str, def: &str, call: &str, shadow: &str, i: usize) {
    let contexts = vec![
        call.to_string(),
        format!("({} => {})(777)", shadow, call),
        format!("do {{\n  {} = 888\n  return {}\n}}", shadow, call),
        format!("([0] via ({} => {}))[0]", shadow, call),
        format!("(map([0], ({}, i) => {}))[0]", shadow, call),
        format!("([0] where ({} => {} .== {}))", shadow, call, call),
        format!("reduce([0], (acc, {}) => {}, 0)", shadow, call),
        format!("(sort_by([0], {} => 1) via (q => {}))[0]", shadow, call),
        format!("(({}, other) => ({} => {})(1))(2, 3)", shadow, shadow, call),
        format!("later_{} = 5\n{}", i, call),
        format!("[1] into (l => {})", call),
    ];
    let src = format!("{}\n{}\n{}", prefix, def, contexts.join("\n"));
    rep.case(&src, true);
    let sess = match check_session(model, rep, &src, None, "c04") {
        Some(s) => s,
        None => return,
    };
    // outcomes of the context statements: the last statement of each context
    let stmts = statements(&src).unwrap();
    let n_ctx_stmts: usize = contexts.iter().map(|c| statements(c).map(|v| v.len()).unwrap_or(1)).sum();
    let base_idx = stmts.len() - n_ctx_stmts;
    let reference = &sess.outcomes[base_idx];
    if reference.contains("(lambda") {
        return;
    }
    match sess.env.get("clo") {
        Some(f) if hereditarily_closed(&f, &sess.heap.borrow(), &mut 5000) => rep.count("closed-after-capture"),
        _ => {
            rep.count("not-closed-after-capture");
            return;
        }
    }
    let mut idx = base_idx;
    for c in contexts.iter() {
        let k = statements(c).map(|v| v.len()).unwrap_or(1);
        idx += k;
        let got = &sess.outcomes[idx - 1];
        // contexts that wrap the result are unwrapped in the source, except `where`
        if c.contains(" where ") {
            continue;
        }
        // a call from inside a function or callback runs one or more call levels deeper: next to the
        // depth limit (property C18) the outcome may legitimately be the depth error at one site only
        if got.contains("(err depth)") || reference.contains("(err depth)") {
            rep.count("depth-limit-band");
            continue;
        }
        if got != reference {
            rep.finding("oracle", "call-site-dependent", &format!("{}\n{}\n-- context --\n{}", prefix, def, c),
                &format!("at definition: {} in context: {}", short(reference), short(got)), "c04.call-site");
            break;
        }
    }
}
