use crate::util::{Ctx, Report};

pub mod c06; pub mod c19;
pub mod c02;
pub mod c07;
pub mod c08;
pub mod c09;
pub mod c10;
pub mod c12;
pub mod c16; pub mod c20;
pub mod c17;

pub fn run(prop: &str, ctx: &Ctx, report: &mut Report) {
    match prop {
        "C06" => c06::run(ctx, report), "C19" => c19::run(ctx, report),
        "C02" => c02::run(ctx, report),
        "C07" => c07::run(ctx, report),
        "C08" => c08::run(ctx, report),
        "C09" => c09::run(ctx, report),
        "C10" => c10::run(ctx, report),
        "C12" => c12::run(ctx, report),
        "C16" => c16::run(ctx, report), "C20" => c20::run(ctx, report),
        "C17" => c17::run(ctx, report),
        _ => {
            eprintln!("unknown property {}", prop);
            std::process::exit(2);
        }
    }
}
