use crate::util::{Ctx, Report};

pub mod c06; pub mod c19;
pub mod c01;
pub mod c02;
pub mod c03;
pub mod c04;
pub mod c05;
pub mod c07;
pub mod c08;
pub mod c09;
pub mod c10;
pub mod c11;
pub mod c12;
pub mod c13;
pub mod c14;
pub mod c15;
pub mod c16; pub mod c20;
pub mod c17;
pub mod c18;

pub fn run(prop: &str, ctx: &Ctx, report: &mut Report) {
    match prop {
        "C06" => c06::run(ctx, report), "C19" => c19::run(ctx, report),
        "C01" => c01::run(ctx, report),
        "C02" => c02::run(ctx, report),
        "C03" => c03::run(ctx, report),
        "C04" => c04::run(ctx, report),
        "C05" => c05::run(ctx, report),
        "C07" => c07::run(ctx, report),
        "C08" => c08::run(ctx, report),
        "C09" => c09::run(ctx, report),
        "C10" => c10::run(ctx, report),
        "C11" => c11::run(ctx, report),
        "C12" => c12::run(ctx, report),
        "C13" => c13::run(ctx, report),
        "C14" => c14::run(ctx, report),
        "C15" => c15::run(ctx, report),
        "C16" => c16::run(ctx, report), "C20" => c20::run(ctx, report),
        "C17" => c17::run(ctx, report),
        "C18" => c18::run(ctx, report),
        _ => {
            eprintln!("unknown property {}", prop);
            std::process::exit(2);
        }
    }
}
