use crate::util::{Ctx, Report};

pub mod c12;

pub fn run(prop: &str, ctx: &Ctx, report: &mut Report) {
    match prop {
        "C12" => c12::run(ctx, report),
        _ => {
            eprintln!("unknown property {}", prop);
            std::process::exit(2);
        }
    }
}
