//! C10 — parsing: fixed precedence table, layout-insensitive, all plain names usable.
//!  * oracle 1: for every ordered pair / triple of the 26 binary operators (and every
//!    prefix / postfix / binary combination) the text parenthesised MINIMALLY according to
//!    the documented table and the FULLY parenthesised text parse to the same tree;
//!  * oracle 2: optional layout (spaces, line breaks, inline comments, redundant
//!    parentheses, trailing commas) does not change the parsed program;
//!  * oracle 3: and/&&, or/||, not/! evaluate identically;
//!  * oracle 4: every identifier-shaped name other than a reserved word can be bound and
//!    referenced in every expression position;
//!  * correspondence: pest's Pratt parser vs the Lean `prattParse` on the real pairs;
//!  * correspondence: the character-level word model (`Ident.termWord`, `Ident.identifier`)
//!    vs what the real parser makes of a one-word program / of the word at the start of a text;
//!  * correspondence: the character-level model of the `expression` rule for the fragment
//!    operators + calls (spread arguments, trailing comma) + index + field + list literals +
//!    lambdas + conditionals + string literals + record literals (`ExprPeg.exprItems`) vs the real pest pairs, on printer output of random trees, on the
//!    same with random admissible layout and redundant parentheses, on every layout string at
//!    every position of the postfix forms, and on ill-formed texts (`c10.model.expr-peg`).

use crate::fmtcommon::*;
use crate::progen::{self, GE, GenCfg, BINOPS};
use crate::run::{eval_expr_src, new_heap};
use crate::util::{guarded, Ctx, Model, Report, Rng};
use blots_core::environment::Environment;
use blots_core::parser::{get_pairs, Rule};
use std::rc::Rc;

/// the documented table: level (higher binds tighter) and right-associativity
fn doc_level(op: &str) -> (u8, bool) {
    match op {
        "and" | "or" | "&&" | "||" | "via" | "into" | "where" => (1, false),
        "==" | "!=" | "<" | "<=" | ">" | ">=" | ".==" | ".!=" | ".<" | ".<=" | ".>" | ".>=" => (2, false),
        "+" | "-" => (3, false),
        "*" | "/" | "%" => (4, false),
        "^" => (5, true),
        "??" => (6, false),
        _ => unreachable!(),
    }
}

#[derive(Clone)]
enum T {
    Leaf(&'static str),
    Bin(&'static str, Box<T>, Box<T>),
    Neg(Box<T>),
    Not(Box<T>),
    Fact(Box<T>),
    Call(Box<T>),
    Idx(Box<T>),
    Dot(Box<T>),
    /// call with its arguments (spread flag, argument) — expression model tie
    CallN(Box<T>, Vec<(bool, T)>),
    /// index with its index expression
    IdxE(Box<T>, Box<T>),
    /// field access with its field name
    DotN(Box<T>, &'static str),
    /// list literal with its items (spread flag, item)
    ListN(Vec<(bool, T)>),
    /// lambda: arguments (kind 0 required / 1 optional / 2 rest, name) and body
    Lam(Vec<(u8, &'static str)>, Box<T>),
    /// conditional
    Cond(Box<T>, Box<T>, Box<T>),
    /// string literal with its content (never both kinds of quote: no literal denotes that)
    Str(&'static str),
    /// record literal
    Rec(Vec<RE>),
    /// do-block: statements (expressions) and the returned expression
    Do(Vec<T>, Box<T>),
    /// assignment `name = value`
    Asg(&'static str, Box<T>),
}

/// one record entry
#[derive(Clone)]
enum RE {
    /// static key (written bare when `bare`, else as a string literal) and value
    Pair(bool, &'static str, T),
    /// computed key and value
    Dyn(T, T),
    Short(&'static str),
    Spread(T),
}

fn rec_text(es: &[RE], f: &dyn Fn(&T) -> String) -> String {
    let parts: Vec<String> = es
        .iter()
        .map(|e| match e {
            RE::Pair(bare, k, v) => format!("{}: {}", if *bare { k.to_string() } else { str_lit(k) }, f(v)),
            RE::Dyn(k, v) => format!("[{}]: {}", f(k), f(v)),
            RE::Short(n) => n.to_string(),
            RE::Spread(e) => format!("...{}", f(e)),
        })
        .collect();
    format!("{{{}}}", parts.join(", "))
}

/// the literal `string_to_source` writes: double quotes unless the string contains one
fn str_lit(s: &str) -> String {
    if s.contains('"') { format!("'{}'", s) } else { format!("\"{}\"", s) }
}

fn lam_arg(a: &(u8, &'static str)) -> String {
    match a.0 {
        0 => a.1.to_string(),
        1 => format!("{}?", a.1),
        _ => format!("...{}", a.1),
    }
}

/// `ends_open` of the printer: the text ends with a lambda body, which extends as far right
/// as possible
fn ends_open(t: &T) -> bool {
    match t {
        T::Lam(..) | T::Cond(..) | T::Asg(..) => true,
        T::Bin(_, _, r) => ends_open(r),
        T::Neg(x) | T::Not(x) => ends_open(x),
        _ => false,
    }
}

/// `lambda_body_needs_parens`: `via` / `into` / `where` on the left spine at the chain level
fn body_needs_parens(t: &T) -> bool {
    match t {
        T::Bin(op, l, _) => matches!(*op, "via" | "into" | "where") || (doc_level(op).0 == 1 && body_needs_parens(l)),
        _ => false,
    }
}

fn args_text(args: &[(bool, T)], f: &dyn Fn(&T) -> String) -> String {
    args.iter().map(|(sp, a)| format!("{}{}", if *sp { "..." } else { "" }, f(a))).collect::<Vec<_>>().join(", ")
}

fn full(t: &T) -> String {
    match t {
        T::Leaf(s) => s.to_string(),
        T::Bin(op, l, r) => format!("({}) {} ({})", full(l), op, full(r)),
        T::Neg(x) => format!("-({})", full(x)),
        T::Not(x) => format!("!({})", full(x)),
        T::Fact(x) => format!("({})!", full(x)),
        T::Call(x) => format!("({})(k)", full(x)),
        T::Idx(x) => format!("({})[k]", full(x)),
        T::Dot(x) => format!("({}).k", full(x)),
        T::CallN(x, args) => format!("({})({})", full(x), args_text(args, &full)),
        T::IdxE(x, i) => format!("({})[{}]", full(x), full(i)),
        T::DotN(x, n) => format!("({}).{}", full(x), n),
        T::ListN(items) => format!("[{}]", args_text(items, &full)),
        T::Lam(args, b) => format!("({}) => ({})", args.iter().map(lam_arg).collect::<Vec<_>>().join(", "), full(b)),
        T::Cond(c, t, e) => format!("if ({}) then ({}) else ({})", full(c), full(t), full(e)),
        T::Str(s) => str_lit(s),
        T::Rec(es) => rec_text(es, &full),
        T::Do(ss, r) => do_text(ss, r, &|x| format!("({})", full(x))),
        T::Asg(n, v) => format!("{} = ({})", n, full(v)),
    }
}

/// a do-block as the printer lays it out: every statement on its own line, one that starts
/// with `-` in parentheses (`protect_statement_start`; the names here are never `via` / `into`
/// / `where`)
fn do_text(ss: &[T], r: &T, f: &dyn Fn(&T) -> String) -> String {
    let mut out = String::from("do {");
    for s in ss {
        let t = f(s);
        out.push_str("\n  ");
        if t.starts_with('-') {
            out.push_str(&format!("({})", t));
        } else {
            out.push_str(&t);
        }
    }
    out.push_str(&format!("\n  return {}\n}}", f(r)));
    out
}

/// strength classes of the documented table: binary 1..6, prefix 7, postfix `!` 8, call/index/field 9, leaf 10
fn strength(t: &T) -> u8 {
    match t {
        T::Leaf(_) | T::ListN(_) | T::Str(_) | T::Rec(_) | T::Do(..) => 10,
        // a lambda as an operand of a prefix / postfix operator is always parenthesised here
        T::Lam(..) | T::Cond(..) | T::Asg(..) => 0,
        T::Bin(op, _, _) => doc_level(op).0,
        T::Neg(_) | T::Not(_) => 7,
        T::Fact(_) => 8,
        T::Call(_) | T::Idx(_) | T::Dot(_) | T::CallN(..) | T::IdxE(..) | T::DotN(..) => 9,
    }
}

fn minimal(t: &T) -> String {
    let wrap = |c: &T, need: bool| if need { format!("({})", minimal(c)) } else { minimal(c) };
    match t {
        T::Leaf(s) => s.to_string(),
        T::Bin(op, l, r) => {
            let (p, right) = doc_level(op);
            let lneed = match &**l {
                T::Bin(lo, _, _) => {
                    let (lp, _) = doc_level(lo);
                    lp < p || (lp == p && right)
                }
                _ => false, // prefix and postfix forms bind tighter than any binary operator
            } || ends_open(l);
            let rneed = match &**r {
                T::Bin(ro, _, _) => {
                    let (rp, _) = doc_level(ro);
                    rp < p || (rp == p && !right)
                }
                _ => false,
            };
            format!("{} {} {}", wrap(l, lneed), op, wrap(r, rneed))
        }
        T::Neg(x) => format!("-{}", wrap(x, strength(x) < 7)),
        T::Not(x) => format!("!{}", wrap(x, strength(x) < 7)),
        // postfix operators chain left to right; anything looser needs parentheses
        T::Fact(x) => format!("{}!", wrap(x, strength(x) < 8)),
        T::Call(x) => format!("{}(k)", wrap(x, strength(x) < 8)),
        T::Idx(x) => format!("{}[k]", wrap(x, strength(x) < 8)),
        T::Dot(x) => format!("{}.k", wrap(x, strength(x) < 8)),
        T::CallN(x, args) => format!("{}({})", wrap(x, strength(x) < 8), args_text(args, &minimal)),
        T::IdxE(x, i) => format!("{}[{}]", wrap(x, strength(x) < 8), minimal(i)),
        T::DotN(x, n) => format!("{}.{}", wrap(x, strength(x) < 8), n),
        T::ListN(items) => format!("[{}]", args_text(items, &minimal)),
        T::Lam(args, b) => format!("({}) => {}", args.iter().map(lam_arg).collect::<Vec<_>>().join(", "), wrap(b, body_needs_parens(b))),
        // every part of a conditional is an `expression`: no parentheses needed
        T::Cond(c, t, e) => format!("if {} then {} else {}", minimal(c), minimal(t), minimal(e)),
        T::Str(s) => str_lit(s),
        T::Rec(es) => rec_text(es, &minimal),
        T::Do(ss, r) => do_text(ss, r, &minimal),
        // the value is an `expression`: no parentheses needed
        T::Asg(n, v) => format!("{} = {}", n, minimal(v)),
    }
}

fn leaf(s: &'static str) -> Box<T> {
    Box::new(T::Leaf(s))
}

fn check_tree(rep: &mut Report, t: &T) {
    let a = minimal(t);
    let b = full(t);
    rep.case(&a, true);
    let pa = guarded(|| parse_plain(&a));
    let pb = guarded(|| parse_plain(&b));
    match (pa, pb) {
        (Ok(Ok(x)), Ok(Ok(y))) => {
            if !asts_equal(&x, &y) {
                rep.finding("oracle", "grouping-differs-from-table", &a, &format!("minimal {:?} and reference {:?} parse differently", a, b), "c10.grouping");
            }
        }
        (Ok(Err(e)), _) => rep.finding("oracle", "minimal-text-rejected", &a, e.lines().next().unwrap_or(""), "c10.grouping"),
        (_, Ok(Err(e))) => rep.finding("oracle", "reference-text-rejected", &b, e.lines().next().unwrap_or(""), "c10.grouping"),
        _ => rep.finding("oracle", "panic", &a, "parser panicked", "c10.panic"),
    }
}

const RESERVED: &[&str] = &["if", "then", "else", "true", "false", "null", "and", "or", "not", "do", "return", "output"];

pub fn run(ctx: &Ctx, rep: &mut Report) {
    let mut rng = Rng::new(ctx.seed);
    let mut model = Model::spawn(&ctx.model_path);

    // ---- 1. grouping: pairs, triples, prefix/postfix combinations -----------------------
    for a in BINOPS.iter() {
        for b in BINOPS.iter() {
            check_tree(rep, &T::Bin(b, Box::new(T::Bin(a, leaf("x"), leaf("y"))), leaf("z")));
            check_tree(rep, &T::Bin(a, leaf("x"), Box::new(T::Bin(b, leaf("y"), leaf("z")))));
        }
        let ab = || Box::new(T::Bin(a, leaf("x"), leaf("y")));
        for t in [
            T::Neg(ab()), T::Not(ab()), T::Fact(ab()), T::Call(ab()), T::Idx(ab()), T::Dot(ab()),
            T::Bin(a, Box::new(T::Neg(leaf("x"))), leaf("y")), T::Bin(a, leaf("x"), Box::new(T::Neg(leaf("y")))),
            T::Bin(a, Box::new(T::Not(leaf("x"))), leaf("y")), T::Bin(a, leaf("x"), Box::new(T::Not(leaf("y")))),
            T::Bin(a, Box::new(T::Fact(leaf("x"))), leaf("y")), T::Bin(a, leaf("x"), Box::new(T::Fact(leaf("y")))),
            T::Bin(a, Box::new(T::Call(leaf("x"))), Box::new(T::Dot(leaf("y")))), T::Bin(a, Box::new(T::Idx(leaf("x"))), Box::new(T::Idx(leaf("y")))),
            T::Bin(a, Box::new(T::Neg(Box::new(T::Fact(leaf("x"))))), Box::new(T::Fact(Box::new(T::Dot(leaf("y")))))),
        ] {
            check_tree(rep, &t);
        }
    }
    for t in [
        T::Neg(Box::new(T::Fact(leaf("x")))), T::Fact(Box::new(T::Neg(leaf("x")))), T::Neg(Box::new(T::Call(leaf("x")))),
        T::Call(Box::new(T::Neg(leaf("x")))), T::Neg(Box::new(T::Dot(leaf("x")))), T::Dot(Box::new(T::Neg(leaf("x")))),
        T::Not(Box::new(T::Idx(leaf("x")))), T::Idx(Box::new(T::Not(leaf("x")))), T::Fact(Box::new(T::Fact(leaf("x")))),
        T::Call(Box::new(T::Fact(leaf("x")))), T::Fact(Box::new(T::Call(leaf("x")))), T::Dot(Box::new(T::Fact(leaf("x")))),
        T::Neg(Box::new(T::Neg(leaf("x")))), T::Not(Box::new(T::Neg(leaf("x")))), T::Idx(Box::new(T::Dot(Box::new(T::Call(leaf("x")))))),
    ] {
        check_tree(rep, &t);
    }
    // triples: exhaustive in the thorough tier, sampled in the quick tier
    let n_ops = BINOPS.len();
    let total = n_ops * n_ops * n_ops;
    let step = if ctx.thorough() { 1 } else { 7 };
    let mut idx = (ctx.seed as usize) % step;
    while idx < total {
        let (a, b, c) = (BINOPS[idx / (n_ops * n_ops)], BINOPS[(idx / n_ops) % n_ops], BINOPS[idx % n_ops]);
        let xy = |o| Box::new(T::Bin(o, leaf("x"), leaf("y")));
        let zw = |o| Box::new(T::Bin(o, leaf("z"), leaf("w")));
        check_tree(rep, &T::Bin(c, Box::new(T::Bin(b, xy(a), leaf("z"))), leaf("w")));
        check_tree(rep, &T::Bin(a, leaf("x"), Box::new(T::Bin(b, leaf("y"), zw(c)))));
        check_tree(rep, &T::Bin(b, xy(a), zw(c)));
        check_tree(rep, &T::Bin(c, Box::new(T::Bin(a, leaf("x"), Box::new(T::Bin(b, leaf("y"), leaf("z"))))), leaf("w")));
        check_tree(rep, &T::Bin(a, leaf("x"), Box::new(T::Bin(c, Box::new(T::Bin(b, leaf("y"), leaf("z"))), leaf("w")))));
        idx += step;
    }
    rep.notes.push(format!("operator triples: every {}th of {} (x5 shapes)", step, total));
    // model correspondence on the pair texts
    for a in BINOPS.iter() {
        for b in BINOPS.iter() {
            let t = T::Bin(a, leaf("x"), Box::new(T::Bin(b, leaf("y"), Box::new(T::Neg(Box::new(T::Fact(leaf("z"))))))));
            check_pratt(&mut model, rep, &minimal(&t), "c10");
        }
    }

    // ---- 2. layout ------------------------------------------------------------------------
    let n_lay = ctx.budget(600, 8000);
    for i in 0..n_lay {
        let cfg = GenCfg { comments: false, max_depth: 1 + rng.below(4) };
        let e = progen::gen_expr(&mut rng, &cfg, cfg.max_depth);
        let reference = progen::to_source(&e, 0);
        let refp = match parse_plain(&reference) {
            Ok(p) if p.len() == 1 => p,
            _ => {
                rep.count("generator-text-rejected");
                continue;
            }
        };
        for _ in 0..3 {
            let variant = progen::lay(&e, &mut rng);
            let variant = if variant.starts_with('-') || variant.starts_with('+') { format!("({})", variant) } else { variant };
            rep.case(&variant, variant != reference);
            match guarded(|| parse_plain(&variant)) {
                Ok(Ok(p)) => {
                    if !asts_equal(&p, &refp) {
                        let small = shrink_layout(&e, &mut rng);
                        rep.finding("oracle", "layout-changes-parse", &small.0, &format!("reference text {:?}", small.1), "c10.layout");
                    }
                }
                Ok(Err(er)) => {
                    let small = shrink_layout(&e, &mut rng);
                    rep.finding("oracle", "layout-rejected", &small.0, &format!("reference text {:?} :: {}", small.1, er.lines().next().unwrap_or("")), "c10.layout");
                }
                Err(p) => rep.finding("oracle", "panic", &variant, &p, "c10.panic"),
            }
        }
        if i % 6 == 0 {
            check_pratt(&mut model, rep, &progen::lay(&e, &mut rng), "c10");
        }
    }

    // fixed layout probes: line breaks before / after every operator spelling, in plain
    // expressions and in unparenthesised lambda bodies
    for op in BINOPS.iter() {
        let natural = matches!(*op, "and" | "or" | "via" | "into" | "where");
        let chain = matches!(*op, "via" | "into" | "where");
        let mut variants: Vec<(String, String)> = vec![
            (format!("a {} b", op), format!("a\n  {} b", op)),
            (format!("a {} b", op), format!("a // c\n  {} b", op)),
            (format!("[a {} b]", op), format!("[a\n{} b]", op)),
            (format!("f(a {} b)", op), format!("f(a\n    {} b)", op)),
        ];
        if !natural {
            variants.push((format!("a {} b", op), format!("a {}\n  b", op)));
            variants.push((format!("a {} b", op), format!("a\n{}\nb", op)));
        }
        if !chain {
            variants.push((format!("x => a {} b", op), format!("x => a\n  {} b", op)));
            variants.push((format!("g = (x, y) => x {} y {} 1", op, op), format!("g = (x, y) => x\n  {} y\n  {} 1", op, op)));
            variants.push((format!("[1] via x => a {} b", op), format!("[1] via x => a\n  {} b", op)));
        } else {
            variants.push((format!("l via x => a {} b", op), format!("l via x => a\n  {} b", op)));
        }
        for (reference, variant) in variants {
            rep.case(&variant, true);
            match (guarded(|| parse_plain(&reference)), guarded(|| parse_plain(&variant))) {
                (Ok(Ok(r)), Ok(Ok(v))) => {
                    if !asts_equal(&r, &v) {
                        rep.finding("oracle", "layout-changes-parse", &variant, &format!("reference text {:?}", reference), "c10.layout");
                    }
                }
                (Ok(Ok(_)), Ok(Err(e))) => rep.finding("oracle", "layout-rejected", &variant, &format!("reference text {:?} :: {}", reference, e.lines().next().unwrap_or("")), "c10.layout"),
                (Ok(Err(e)), _) => rep.finding("oracle", "reference-text-rejected", &reference, e.lines().next().unwrap_or(""), "c10.layout"),
                _ => rep.finding("oracle", "panic", &variant, "parser panicked", "c10.panic"),
            }
        }
    }

    // ---- 3. word and symbol spellings evaluate identically ----------------------------------
    let vals = ["true", "false", "[true, false]", "[false]", "[]", "1", "null", "\"s\"", "[true, 1]", "[[true]]", "(x => x)"];
    for a in vals.iter() {
        for b in vals.iter() {
            for (w, s) in [("and", "&&"), ("or", "||")] {
                let e1 = format!("({}) {} ({})", a, w, b);
                let e2 = format!("({}) {} ({})", a, s, b);
                rep.case(&e1, true);
                if !same_outcome(&e1, &e2) {
                    rep.finding("oracle", "spelling-evaluates-differently", &e1, &format!("vs {}", e2), "c10.spelling");
                }
            }
        }
        let e1 = format!("not ({})", a);
        let e2 = format!("!({})", a);
        if !same_outcome(&e1, &e2) {
            rep.finding("oracle", "spelling-evaluates-differently", &e1, &format!("vs {}", e2), "c10.spelling");
        }
    }

    // ---- 4. names ---------------------------------------------------------------------------
    let mut names: Vec<String> = vec![];
    for w in RESERVED {
        for suf in ["x", "s", "1", "_", "ish", "_1", "X", "9z"] {
            names.push(format!("{}{}", w, suf));
        }
        for pre in ["x", "_", "a_", "X"] {
            names.push(format!("{}{}", pre, w));
        }
        // a reserved word followed by another reserved word
        names.push(format!("{}{}", w, "or"));
        names.push(format!("{}_{}", w, "and"));
    }
    for n in ["_", "__", "a1", "A", "via1", "intox", "wherever", "input", "inputs2", "infinity_", "constant", "e", "pi", "x_y_z", "returnn", "d0"] {
        names.push(n.to_string());
    }
    for name in names.iter() {
        if blots_core::functions::BuiltInFunction::from_ident(name).is_some() {
            continue;
        }
        let contexts: Vec<(String, &str)> = vec![
            (format!("{} + 1", name), "8"),
            (format!("1 + {}", name), "8"),
            (format!("[{}][0]", name), "7"),
            (format!("{{k: {}}}.k", name), "7"),
            (format!("{{{}}}.{}", name, name), "7"),
            (format!("if {} == 7 then {} else 0", name, name), "7"),
            (format!("(q => q + {})(1)", name), "8"),
            (format!("-{}", name), "-7"),
            (format!("{}!", name), "5040"),
            (format!("[{}] via (q => q * 2)", name), "[14]"),
            (format!("max({}, 1)", name), "7"),
            (format!("do {{\n  t = {}\n  return t + {}\n}}", name, name), "14"),
            (format!("{} and true", name), "ERR"),
            (format!("not ({} == 7)", name), "false"),
        ];
        for (src, expect) in contexts {
            let heap = new_heap();
            let env = Rc::new(Environment::new());
            let bind = guarded(|| eval_expr_src(&format!("{} = 7", name), &heap, &env));
            rep.case(&format!("{} = 7; {}", name, src), true);
            match bind {
                Ok(Ok(_)) => {}
                _ => {
                    rep.finding("oracle", "name-cannot-be-bound", &format!("{} = 7", name), "", "c10.names");
                    break;
                }
            }
            let got = match guarded(|| eval_expr_src(&src, &heap, &env)) {
                Ok(Ok(v)) => v.stringify_internal(&heap.borrow()),
                Ok(Err(_)) => "ERR".to_string(),
                Err(_) => "PANIC".to_string(),
            };
            if got != expect {
                rep.finding("oracle", "name-cannot-be-referenced", &format!("{} = 7; {}", name, src), &format!("got {} expected {}", got, expect), "c10.names");
            }
        }
    }
    // the reserved words themselves are refused as names
    for w in RESERVED {
        let heap = new_heap();
        let env = Rc::new(Environment::new());
        if let Ok(Ok(_)) = guarded(|| eval_expr_src(&format!("{} = 7", w), &heap, &env)) {
            rep.finding("oracle", "reserved-word-bound", &format!("{} = 7", w), "", "c10.reserved-bound");
        }
    }

    // ---- 5. the word model vs the real parser ------------------------------------------------
    check_word_model(ctx, &mut model, rep, &mut rng);

    // ---- 6. the `expression` model (operator fragment) vs the real pairs ---------------------
    check_expr_peg(ctx, &mut model, rep, &mut rng);
    rep.model_requests = model.requests;
}

/// What the real parser makes of the one-word program `w`: exactly one statement that is an
/// expression consisting of exactly one term — a `bool`, `null`, `input_reference` or
/// `identifier` pair spanning the whole text — or "none" (no parse, no statement, or another
/// kind of term such as a number).
fn real_word_class(w: &str) -> Result<(String, &'static str), String> {
    guarded(|| {
        let pairs = match get_pairs(w) {
            Ok(p) => p,
            Err(_) => return ("none".to_string(), "no-parse"),
        };
        let stmts: Vec<_> = pairs.filter(|p| p.as_rule() == Rule::statement).collect();
        if stmts.len() != 1 {
            return ("none".to_string(), "no-statement");
        }
        let inner: Vec<_> = stmts[0].clone().into_inner().collect();
        if inner.len() != 1 || inner[0].as_rule() != Rule::expression {
            return ("none".to_string(), "other");
        }
        let terms: Vec<_> = inner[0].clone().into_inner().collect();
        if terms.len() != 1 || terms[0].as_str() != w {
            return ("none".to_string(), "other");
        }
        match (terms[0].as_rule(), terms[0].as_str()) {
            (Rule::bool, "true") => ("bool-t".to_string(), "bool"),
            (Rule::bool, "false") => ("bool-f".to_string(), "bool"),
            (Rule::null, _) => ("null".to_string(), "null"),
            (Rule::input_reference, _) => ("input".to_string(), "input"),
            (Rule::identifier, _) => ("ident".to_string(), "ident"),
            _ => ("none".to_string(), "other"),
        }
    })
}

/// number of characters of the `identifier` pair that starts at offset 0 of `text`
/// (wherever it sits in the tree: term, lambda argument, assignment target), "none" if the
/// parsed text has no such pair; Err if the text does not parse
fn real_ident_at_start(text: &str) -> Result<Option<String>, String> {
    guarded(|| {
        let pairs = match get_pairs(text) {
            Ok(p) => p,
            Err(_) => return None,
        };
        fn walk(p: pest::iterators::Pair<Rule>, found: &mut Option<usize>) {
            if found.is_none() && p.as_rule() == Rule::identifier && p.as_span().start() == 0 {
                *found = Some(p.as_str().chars().count());
            }
            for c in p.into_inner() {
                walk(c, found);
            }
        }
        let mut found = None;
        for p in pairs {
            walk(p, &mut found);
        }
        Some(found.map(|n| n.to_string()).unwrap_or_else(|| "none".to_string()))
    })
}

fn check_word_model(ctx: &Ctx, model: &mut Model, rep: &mut Report, rng: &mut Rng) {
    const NEAR: &[&str] = &["via", "into", "where", "input", "inputs", "constants", "inf", "infinity", "e", "pi", "max", "sum"];
    let mut words: Vec<String> = vec![];
    let upper_variants = |w: &str| -> Vec<String> {
        let mut v = vec![w.to_uppercase()];
        let mut cs: Vec<char> = w.chars().collect();
        cs[0] = cs[0].to_ascii_uppercase();
        v.push(cs.iter().collect());
        let mut cs: Vec<char> = w.chars().collect();
        let n = cs.len() - 1;
        cs[n] = cs[n].to_ascii_uppercase();
        v.push(cs.iter().collect());
        v
    };
    const AFFIX: &[&str] = &["a", "e", "s", "x", "z", "A", "Z", "0", "1", "9", "_", "__", "_1", "1_", "x9_"];
    for w in RESERVED.iter().chain(NEAR.iter()) {
        words.push(w.to_string());
        words.push(format!("#{}", w));
        words.extend(upper_variants(w));
        for a in AFFIX {
            words.push(format!("{}{}", w, a));
            words.push(format!("{}{}", a, w));
            words.push(format!("#{}{}", w, a));
        }
        // every proper prefix of the word, and the word with one letter removed / doubled
        for k in 1..w.len() {
            words.push(w[..k].to_string());
            words.push(format!("{}{}", &w[..k], &w[k + 1..]));
            words.push(format!("{}{}", &w[..k], &w[k - 1..]));
        }
        for w2 in RESERVED {
            words.push(format!("{}{}", w, w2));
            words.push(format!("{}_{}", w, w2));
        }
        // a character that is not an ASCII letter / digit / underscore after or before the word
        for x in ["é", "ß", "и", "中", "ｔ", "ı", "\u{212A}", "٣", "²"] {
            words.push(format!("{}{}", w, x));
            words.push(format!("{}{}", x, w));
        }
    }
    for w in [
        "", "_", "__", "_1", "_a", "a", "Z", "a1", "a_", "a_1", "a1_b2__c3", "A9", "x__", "aB1_", "if_", "_9",
        "1", "12", "1a", "1_000", "1__0", "0x1f", "0b1", "0b2", "1e5", "1e", "9true", "0if", "1_", "007x",
        "é", "aé", "éa", "ｔrue", "tru\u{435}", "ı", "\u{212A}", "٣", "a٣", "_é", "ﬁ", "a\u{301}",
        "#", "#a", "#_", "#1", "#1a", "##a", "a#", "a#b", "#a#", "#é", "#aé", "#_1", "#A_", "#a1_b",
    ] {
        words.push(w.to_string());
    }
    // random identifier-shaped words (keyword fragments over-represented) and near misses
    let starts: Vec<char> = ('a'..='z').chain('A'..='Z').chain(['_']).collect();
    let rests: Vec<char> = ('a'..='z').chain('A'..='Z').chain('0'..='9').chain(['_', '_', '_']).collect();
    let n_rand = ctx.budget(3000, 60000);
    for _ in 0..n_rand {
        let mut w = String::new();
        if rng.chance(1, 12) {
            w.push('#');
        }
        if rng.chance(1, 40) {
            w.push(*rng.pick(&['0', '7', 'é', '#']));
        }
        let parts = 1 + rng.below(3);
        for i in 0..parts {
            match rng.below(4) {
                0 => w.push_str(*rng.pick(RESERVED)),
                1 => {
                    let r = *rng.pick(RESERVED);
                    w.push_str(&r[..1 + rng.below(r.len())]);
                }
                _ => {
                    let n = 1 + rng.below(5);
                    for j in 0..n {
                        w.push(if i == 0 && j == 0 { *rng.pick(&starts) } else { *rng.pick(&rests) });
                    }
                }
            }
        }
        if rng.chance(1, 40) {
            w.push(*rng.pick(&['é', 'ß', '中', '#']));
        }
        words.push(w);
    }
    let reserved_or_literal = |w: &str| RESERVED.contains(&w);
    for w in words.iter() {
        let shaped = !w.is_empty()
            && w.chars().all(|c| c.is_ascii_alphanumeric() || c == '_')
            && !w.chars().next().unwrap().is_ascii_digit();
        rep.case(&format!("word {}", w), true);
        let m = model.ask(&format!("ident-class {}", crate::wire::hs(w)));
        match real_word_class(w) {
            Ok((real, how)) => {
                rep.count(&format!("word-class.{}", how));
                if real != m {
                    rep.finding("model", "word-class", w, &format!("impl={} ({}) model={}", real, how, m), "c10.model.ident");
                }
                // model-free: the property itself on this word
                if shaped && !reserved_or_literal(w) && real != "ident" {
                    rep.finding("oracle", "plain-name-is-not-an-identifier", w, &format!("parses as {} ({})", real, how), "c10.names");
                }
                if reserved_or_literal(w) && real == "ident" {
                    rep.finding("oracle", "reserved-word-is-an-identifier", w, "", "c10.reserved-bound");
                }
            }
            Err(p) => rep.finding("oracle", "panic", w, &p, "c10.panic"),
        }
    }
    // maximal munch: the word at the start of a longer text
    const TAILS: &[&str] = &[
        "+1", " + 1", "-1", "*y", "(1)", " (1)", "[0]", ".k", "!", " and y", " or y", " via y", "\n1", " // c", "==1",
        "<=y", "??0", " = 1", "=1", " => 1", "=>1", "? => 1", " then", " x", "\ty", "&&y", "^2", ", y", ")", ".1", "#y", "é",
    ];
    let step = if ctx.thorough() { 1 } else { 5 };
    for (i, w) in words.iter().enumerate() {
        if i % step != (ctx.seed as usize) % step {
            continue;
        }
        let tail = TAILS[(i / step) % TAILS.len()];
        let text = format!("{}{}", w, tail);
        match real_ident_at_start(&text) {
            Ok(Some(real)) => {
                rep.case(&format!("munch {}", text), true);
                let m = model.ask(&format!("ident-munch {}", crate::wire::hs(&text)));
                rep.count(if real == "none" { "word-munch.none" } else { "word-munch.ident" });
                if real != m {
                    rep.finding("model", "word-munch", &text, &format!("impl={} model={}", real, m), "c10.model.ident");
                }
            }
            Ok(None) => rep.count("word-munch.text-rejected"),
            Err(p) => rep.finding("oracle", "panic", &text, &p, "c10.panic"),
        }
    }
}

// ------------------------------------------------------------------ expression model tie

/// what the real parser makes of `text` as ONE expression of the fragment
enum RealItems {
    /// no parse, or not exactly one statement that is one `expression` pair spanning the text
    None,
    /// parsed, but with a rule outside the fragment (record, do-block, assignment, …, a number
    /// that is not a plain digit run): the model does not claim anything
    Outside(&'static str),
    /// the item sequence in wire form
    Items(String),
}

const FRAGMENT_OPS: &[&str] = &[
    "add", "subtract", "multiply", "divide", "modulo", "power", "dot_equal", "dot_not_equal", "dot_less_eq", "dot_less",
    "dot_greater_eq", "dot_greater", "equal", "not_equal", "less_eq", "less", "greater_eq", "greater", "and", "or",
    "coalesce", "natural_and", "natural_or", "via", "into", "where_", "negation", "invert", "natural_not", "factorial",
];

fn in_fragment(p: pest::iterators::Pair<Rule>) -> Result<(), &'static str> {
    let name = format!("{:?}", p.as_rule());
    match p.as_rule() {
        Rule::expression => {
            for c in p.into_inner() {
                in_fragment(c)?;
            }
            Ok(())
        }
        Rule::identifier | Rule::bool | Rule::null | Rule::string => Ok(()),
        Rule::number => {
            if p.as_str().bytes().all(|b| b.is_ascii_digit()) {
                Ok(())
            } else {
                Err("number-form")
            }
        }
        _ if FRAGMENT_OPS.contains(&name.as_str()) => Ok(()),
        // postfix forms: the payload is made of `expression` / `spread_expression` /
        // `identifier` pairs
        // … and list literals: `list_item` pairs with their `eol_comment`, `comment` pairs (the
        // conversion used here, without `preserve_comments`, drops the comments — so does the model)
        Rule::comment | Rule::eol_comment => Ok(()),
        Rule::conditional | Rule::lambda | Rule::lambda_expression | Rule::argument_list | Rule::required_arg | Rule::optional_arg | Rule::rest_arg
        | Rule::call_list | Rule::access | Rule::dot_access | Rule::spread_expression | Rule::list | Rule::list_item
        | Rule::record | Rule::record_item | Rule::record_pair | Rule::record_key_static | Rule::record_key_dynamic | Rule::record_shorthand
        | Rule::do_block | Rule::do_statement | Rule::return_statement | Rule::assignment => {
            for c in p.into_inner() {
                in_fragment(c)?;
            }
            Ok(())
        }
        Rule::spread_operator => Ok(()),
        _ => Err("other-rule"),
    }
}

fn real_expr_items(text: &str) -> Result<RealItems, String> {
    guarded(|| {
        let pairs = match get_pairs(text) {
            Ok(p) => p,
            Err(_) => return RealItems::None,
        };
        let stmts: Vec<_> = pairs.filter(|p| p.as_rule() == Rule::statement).collect();
        if stmts.len() != 1 {
            return RealItems::None;
        }
        let inner: Vec<_> = stmts[0].clone().into_inner().collect();
        if inner.len() != 1 || inner[0].as_rule() != Rule::expression || inner[0].as_str() != text {
            // an `output` declaration, a trailing comment, blanks around the expression, …
            return if inner.len() == 1 && inner[0].as_rule() == Rule::output_declaration { RealItems::Outside("output") } else { RealItems::None };
        }
        if let Err(why) = in_fragment(inner[0].clone()) {
            return RealItems::Outside(why);
        }
        match pitems(inner[0].clone()) {
            Ok(w) => RealItems::Items(w),
            Err(_) => RealItems::Outside("conversion-error"),
        }
    })
}

const PEG_ATOMS: &[&str] = &[
    "x", "y", "z", "w", "a1", "_t", "n", "no", "trueish", "nota", "not_x", "andy", "orb", "intox", "via_", "whereabouts",
    "iffy", "do_it", "true", "false", "null", "0", "7", "42", "1000", "007", "sqrt", "max", "e", "inf", "F", "_",
];
const LAY_ANY: &[&str] = &["", "", " ", " ", "  ", "\t", "\n", "\r\n", " \n  ", "\n\n", "\t \t", " // c\n", "\n// c /\r\n "];
const LAY_SOME: &[&str] = &[" ", " ", "  ", "\t", "\n", "\r\n", " \n  ", "\n\t", " // c\n", "//c\n "];
const LAY_WS: &[&str] = &[" ", " ", "  ", "\t", " \t "];

const PEG_FIELDS: &[&str] = &["k", "x", "_t", "a1", "iffy", "nota", "e", "sqrt", "trueish", "do_it", "F", "n0_"];
/// layout the atomic `access` admits inside its brackets: `NEWLINE*` (line breaks and their
/// comments), no blanks
const LAY_NL: &[&str] = &["", "", "", "\n", "\r\n", "\n\n", "// c\n", "\n//c /\r\n"];
/// the line break the grammar wants behind a trailing comma (`("," ~ NEWLINE)?`)
const LAY_BREAK: &[&str] = &["\n", "\r\n", "// c\n", " \n", "\t// c\r\n"];
const LAY_WS0: &[&str] = &["", "", "", " ", "  ", "\t"];
/// layout the non-atomic `list` admits behind `[`, behind a comma and in front of `]`: blanks,
/// PLAIN line breaks, comments that are followed by a line break
const LAY_LIST: &[&str] = &["", "", " ", " ", "  ", "\t", "\n", "\r\n", "\n  ", " \n\t", "\n\n", " // c\n", "\n// c /\r\n ", "// c\n// d\n"];

/// contents of string literals: blanks, the other quote, `//`, line breaks, brackets, keywords,
/// operators, `=>`, non-ASCII — anything but the literal's own quote (no escapes)
const PEG_STRS: &[&str] = &[
    "", "s", "a b", "it's", "say \"hi\"", "a // c", "x\ny", "x\r\n", "(", ")", "]", ",", " => ", "if", "then", "1 + 2", "é", "\\",
    "\\n", "'", "\"", "''", " ", "\t", "a\"b\"c", "...", "!", "not ", "/* */",
];

fn gen_ft(rng: &mut Rng, depth: usize) -> T {
    if depth == 0 || rng.chance(1, 4) {
        if rng.chance(1, 5) {
            return T::Str(PEG_STRS[rng.below(PEG_STRS.len())]);
        }
        return T::Leaf(PEG_ATOMS[rng.below(PEG_ATOMS.len())]);
    }
    match rng.below(18) {
        17 => {
            const TARGETS: &[&str] = &["x", "y", "k", "_a", "n0", "sqrt", "iffy", "nota", "e", "trueish", "do_it", "F"];
            T::Asg(TARGETS[rng.below(TARGETS.len())], Box::new(gen_ft(rng, depth - 1)))
        }
        16 => {
            let n = [0, 0, 1, 1, 2, 3][rng.below(6)];
            T::Do((0..n).map(|_| gen_ft(rng, depth - 1)).collect(), Box::new(gen_ft(rng, depth - 1)))
        }
        0 => T::Neg(Box::new(gen_ft(rng, depth - 1))),
        1 => T::Not(Box::new(gen_ft(rng, depth - 1))),
        2 => T::Fact(Box::new(gen_ft(rng, depth - 1))),
        3 | 4 => {
            let f = gen_ft(rng, depth - 1);
            let n = [0, 1, 1, 2, 2, 3][rng.below(6)];
            let args = (0..n).map(|_| (rng.chance(1, 5), gen_ft(rng, depth - 1))).collect();
            T::CallN(Box::new(f), args)
        }
        5 => T::IdxE(Box::new(gen_ft(rng, depth - 1)), Box::new(gen_ft(rng, depth - 1))),
        7 | 8 => {
            let n = [0, 1, 1, 2, 2, 3][rng.below(6)];
            T::ListN((0..n).map(|_| (rng.chance(1, 5), gen_ft(rng, depth - 1))).collect())
        }
        9 | 10 => {
            const NAMES: &[&str] = &["x", "y", "k", "_a", "n0", "sqrt", "iffy", "nota", "e"];
            let n = [0, 1, 1, 1, 2, 3][rng.below(6)];
            let args = (0..n).map(|_| ([0u8, 0, 0, 1, 2][rng.below(5)], NAMES[rng.below(NAMES.len())])).collect();
            T::Lam(args, Box::new(gen_ft(rng, depth - 1)))
        }
        11 => T::Cond(Box::new(gen_ft(rng, depth - 1)), Box::new(gen_ft(rng, depth - 1)), Box::new(gen_ft(rng, depth - 1))),
        12 => {
            let n = [0, 1, 1, 2, 2, 3][rng.below(6)];
            T::Rec(
                (0..n)
                    .map(|_| match rng.below(8) {
                        0 | 1 | 2 => RE::Pair(true, PEG_FIELDS[rng.below(PEG_FIELDS.len())], gen_ft(rng, depth - 1)),
                        3 | 4 => RE::Pair(false, PEG_STRS[rng.below(PEG_STRS.len())], gen_ft(rng, depth - 1)),
                        5 => RE::Dyn(gen_ft(rng, depth - 1), gen_ft(rng, depth - 1)),
                        6 => RE::Short(PEG_FIELDS[rng.below(PEG_FIELDS.len())]),
                        _ => RE::Spread(gen_ft(rng, depth - 1)),
                    })
                    .collect(),
            )
        }
        6 => T::DotN(Box::new(gen_ft(rng, depth - 1)), PEG_FIELDS[rng.below(PEG_FIELDS.len())]),
        _ => T::Bin(BINOPS[rng.below(BINOPS.len())], Box::new(gen_ft(rng, depth - 1)), Box::new(gen_ft(rng, depth - 1))),
    }
}

/// `minimal` with a random ADMISSIBLE layout string at every position where the grammar admits
/// one (around binary operators, inside parentheses, inside a call's parentheses, inside an
/// index's brackets), for a string literal either quote character that does not occur in it, and, with probability `extra`/8, an extra pair of parentheses around a
/// sub-expression.  Admissible: anything (also nothing) around a symbol operator, but something
/// in front of an operator starting with `!`; at least one layout atom in front of a word
/// operator and blanks (no line break) behind it; in a call anything behind `(`, behind a comma
/// and in front of `)`, blanks only in front of a comma, optionally a trailing comma followed
/// (after blanks) by a line break; inside `[ ]` line breaks (with comments) only; nothing
/// between an operand and its postfix operator.
fn laid(t: &T, rng: &mut Rng, extra: u64) -> String {
    fn wrapl(c: &T, need: bool, rng: &mut Rng, extra: u64) -> String {
        let inner = laid(c, rng, extra);
        if need || rng.chance(extra, 8) {
            format!("({}{}{})", LAY_ANY[rng.below(LAY_ANY.len())], inner, LAY_ANY[rng.below(LAY_ANY.len())])
        } else {
            inner
        }
    }
    let s = match t {
        T::Leaf(s) => s.to_string(),
        // either quote character that does not occur in the string
        T::Str(s) => {
            let dq_ok = !s.contains('"');
            let sq_ok = !s.contains('\'');
            if dq_ok && (!sq_ok || rng.chance(1, 2)) { format!("\"{}\"", s) } else { format!("'{}'", s) }
        }
        T::Bin(op, l, r) => {
            let (p, right) = doc_level(op);
            let lneed = matches!(&**l, T::Bin(lo, _, _) if { let (lp, _) = doc_level(lo); lp < p || (lp == p && right) }) || ends_open(l);
            let rneed = matches!(&**r, T::Bin(ro, _, _) if { let (rp, _) = doc_level(ro); rp < p || (rp == p && !right) });
            let word = op.chars().next().unwrap().is_ascii_alphabetic();
            let (a, b) = if word {
                (LAY_SOME[rng.below(LAY_SOME.len())], LAY_WS[rng.below(LAY_WS.len())])
            } else if op.starts_with('!') {
                (LAY_SOME[rng.below(LAY_SOME.len())], LAY_ANY[rng.below(LAY_ANY.len())])
            } else {
                (LAY_ANY[rng.below(LAY_ANY.len())], LAY_ANY[rng.below(LAY_ANY.len())])
            };
            let ls = wrapl(l, lneed, rng, extra);
            let rs = wrapl(r, rneed, rng, extra);
            // `/` directly followed by a comment would read `///…`
            let b = if *op == "/" && b.starts_with('/') { " " } else { b };
            format!("{}{}{}{}{}", ls, a, op, b, rs)
        }
        T::Neg(x) => format!("-{}", wrapl(x, strength(x) < 7, rng, extra)),
        T::Not(x) => format!("!{}", wrapl(x, strength(x) < 7, rng, extra)),
        T::Fact(x) => format!("{}!", wrapl(x, strength(x) < 8, rng, extra)),
        T::CallN(x, args) => {
            let mut out = wrapl(x, strength(x) < 8, rng, extra);
            out.push('(');
            out.push_str(LAY_ANY[rng.below(LAY_ANY.len())]);
            for (k, (sp, a)) in args.iter().enumerate() {
                if k > 0 {
                    out.push_str(LAY_WS0[rng.below(LAY_WS0.len())]);
                    out.push(',');
                    out.push_str(LAY_ANY[rng.below(LAY_ANY.len())]);
                }
                if *sp {
                    out.push_str("...");
                }
                out.push_str(&laid(a, rng, extra));
            }
            if !args.is_empty() && rng.chance(1, 3) {
                // trailing comma: blanks, `,`, blanks, a line break
                out.push_str(LAY_WS0[rng.below(LAY_WS0.len())]);
                out.push(',');
                out.push_str(LAY_BREAK[rng.below(LAY_BREAK.len())]);
            }
            out.push_str(LAY_ANY[rng.below(LAY_ANY.len())]);
            out.push(')');
            out
        }
        T::IdxE(x, i) => format!(
            "{}[{}{}{}]",
            wrapl(x, strength(x) < 8, rng, extra),
            LAY_NL[rng.below(LAY_NL.len())],
            laid(i, rng, extra),
            LAY_NL[rng.below(LAY_NL.len())]
        ),
        T::DotN(x, n) => format!("{}.{}", wrapl(x, strength(x) < 8, rng, extra), n),
        T::ListN(items) => {
            let mut out = String::from("[");
            out.push_str(LAY_LIST[rng.below(LAY_LIST.len())]);
            for (k, (sp, a)) in items.iter().enumerate() {
                if k > 0 {
                    out.push_str(LAY_WS0[rng.below(LAY_WS0.len())]);
                    out.push(',');
                    out.push_str(LAY_LIST[rng.below(LAY_LIST.len())]);
                }
                if *sp {
                    out.push_str("...");
                }
                out.push_str(&laid(a, rng, extra));
            }
            if !items.is_empty() && rng.chance(1, 3) {
                // trailing comma: blanks, `,` (no line break needed, unlike a call)
                out.push_str(LAY_WS0[rng.below(LAY_WS0.len())]);
                out.push(',');
            }
            out.push_str(LAY_LIST[rng.below(LAY_LIST.len())]);
            out.push(']');
            out
        }
        // the layout of a list; in a pair blanks in front of the colon and any layout behind it;
        // blanks only inside the brackets of a computed key; a bare key may be written as a
        // string literal, a string key in either quote character that does not occur in it
        T::Rec(es) => {
            let mut out = String::from("{");
            out.push_str(LAY_LIST[rng.below(LAY_LIST.len())]);
            for (k, e) in es.iter().enumerate() {
                if k > 0 {
                    out.push_str(LAY_WS0[rng.below(LAY_WS0.len())]);
                    out.push(',');
                    out.push_str(LAY_LIST[rng.below(LAY_LIST.len())]);
                }
                match e {
                    RE::Pair(bare, key, v) => {
                        if *bare && rng.chance(3, 4) {
                            out.push_str(key);
                        } else {
                            let dq_ok = !key.contains('"');
                            let sq_ok = !key.contains('\'');
                            if dq_ok && (!sq_ok || rng.chance(1, 2)) {
                                out.push_str(&format!("\"{}\"", key));
                            } else {
                                out.push_str(&format!("'{}'", key));
                            }
                        }
                        out.push_str(LAY_WS0[rng.below(LAY_WS0.len())]);
                        out.push(':');
                        out.push_str(LAY_ANY[rng.below(LAY_ANY.len())]);
                        out.push_str(&laid(v, rng, extra));
                    }
                    RE::Dyn(key, v) => {
                        out.push('[');
                        out.push_str(LAY_WS0[rng.below(LAY_WS0.len())]);
                        out.push_str(&laid(key, rng, extra));
                        out.push_str(LAY_WS0[rng.below(LAY_WS0.len())]);
                        out.push(']');
                        out.push_str(LAY_WS0[rng.below(LAY_WS0.len())]);
                        out.push(':');
                        out.push_str(LAY_ANY[rng.below(LAY_ANY.len())]);
                        out.push_str(&laid(v, rng, extra));
                    }
                    RE::Short(n) => out.push_str(n),
                    RE::Spread(x) => {
                        out.push_str("...");
                        out.push_str(&laid(x, rng, extra));
                    }
                }
            }
            if !es.is_empty() && rng.chance(1, 3) {
                out.push_str(LAY_WS0[rng.below(LAY_WS0.len())]);
                out.push(',');
            }
            out.push_str(LAY_LIST[rng.below(LAY_LIST.len())]);
            out.push('}');
            out
        }
        T::Cond(c, t, e) => format!(
            "if{}{}{}then{}{}{}else{}{}",
            LAY_WS[rng.below(LAY_WS.len())],
            laid(c, rng, extra),
            LAY_SOME[rng.below(LAY_SOME.len())],
            LAY_SOME[rng.below(LAY_SOME.len())],
            laid(t, rng, extra),
            LAY_SOME[rng.below(LAY_SOME.len())],
            LAY_SOME[rng.below(LAY_SOME.len())],
            laid(e, rng, extra)
        ),
        T::Lam(args, b) => {
            let mut out = String::new();
            if args.len() == 1 && args[0].0 != 2 && rng.chance(1, 2) {
                // a single required / optional parameter without parentheses
                out.push_str(&lam_arg(&args[0]));
            } else {
                out.push('(');
                out.push_str(LAY_ANY[rng.below(LAY_ANY.len())]);
                for (k, a) in args.iter().enumerate() {
                    if k > 0 {
                        out.push_str(LAY_WS0[rng.below(LAY_WS0.len())]);
                        out.push(',');
                        out.push_str(LAY_ANY[rng.below(LAY_ANY.len())]);
                    }
                    out.push_str(&lam_arg(a));
                }
                if !args.is_empty() && rng.chance(1, 4) {
                    out.push_str(LAY_WS0[rng.below(LAY_WS0.len())]);
                    out.push(',');
                    out.push_str(LAY_BREAK[rng.below(LAY_BREAK.len())]);
                }
                out.push_str(LAY_ANY[rng.below(LAY_ANY.len())]);
                out.push(')');
            }
            out.push_str(LAY_WS0[rng.below(LAY_WS0.len())]);
            out.push_str("=>");
            out.push_str(LAY_ANY[rng.below(LAY_ANY.len())]);
            out.push_str(&wrapl(b, body_needs_parens(b), rng, extra));
            out
        }
        // `do_block` is compound-atomic, its layout is spelled out by the rule: blanks and PLAIN
        // line breaks (at least one) between `do` and `{`; the layout of a list behind `{`;
        // behind a statement blanks, optionally a comment, then `;` or plain line breaks, then
        // the layout of a list; blanks behind `return`; blanks and plain line breaks in front of
        // `}`.  A statement behind a line break must not start with `-` (it would continue the
        // statement before it): it is parenthesised then, as the printer does.
        T::Do(ss, r) => {
            const LAY_DO: &[&str] = &[" ", " ", "  ", "\t", "\n", "\r\n", " \n  ", "\n\n"];
            const LAY_END: &[&str] = &["", " ", " ", "\n", "\r\n", "\n  ", " \n\t", "\n\n"];
            const LINE: &[&str] = &["\n", "\n", "\r\n", "\n\n", "\n\r\n"];
            let mut out = String::from("do");
            out.push_str(LAY_DO[rng.below(LAY_DO.len())]);
            out.push('{');
            out.push_str(LAY_LIST[rng.below(LAY_LIST.len())]);
            let mut fresh = true; // nothing in front that a leading `-` could continue
            for st in ss {
                let text = laid(st, rng, extra);
                if text.starts_with('-') && !fresh {
                    out.push_str(&format!("({}{}{})", LAY_ANY[rng.below(LAY_ANY.len())], text, LAY_ANY[rng.below(LAY_ANY.len())]));
                } else {
                    out.push_str(&text);
                }
                out.push_str(LAY_WS0[rng.below(LAY_WS0.len())]);
                if rng.chance(1, 3) {
                    out.push(';');
                    fresh = true;
                } else {
                    if rng.chance(1, 4) {
                        out.push_str("// c");
                    }
                    out.push_str(LINE[rng.below(LINE.len())]);
                    fresh = false;
                }
                out.push_str(LAY_LIST[rng.below(LAY_LIST.len())]);
            }
            out.push_str("return");
            out.push_str(LAY_WS[rng.below(LAY_WS.len())]);
            out.push_str(&laid(r, rng, extra));
            out.push_str(LAY_END[rng.below(LAY_END.len())]);
            out.push('}');
            out
        }
        // `assignment` is non-atomic: blanks (no line break) around `=`
        T::Asg(n, v) => format!("{}{}={}{}", n, LAY_WS0[rng.below(LAY_WS0.len())], LAY_WS0[rng.below(LAY_WS0.len())], laid(v, rng, extra)),
        _ => unreachable!(),
    };
    s
}

fn peg_compare(model: &mut Model, rep: &mut Report, text: &str, class: &str) -> Option<String> {
    rep.case(&format!("expr-peg {:?}", text), true);
    let m = model.ask(&format!("expr-items {}", crate::wire::hs(text)));
    match real_expr_items(text) {
        Ok(RealItems::Items(real)) => {
            rep.count(&format!("expr-peg.{}.items", class));
            if real != m {
                rep.finding("model", "expr-items", text, &format!("impl={} model={}", real, m), "c10.model.expr-peg");
            }
            Some(real)
        }
        Ok(RealItems::None) => {
            rep.count(&format!("expr-peg.{}.none", class));
            if m != "none" {
                rep.finding("model", "expr-items", text, &format!("impl=none model={}", m), "c10.model.expr-peg");
            }
            None
        }
        Ok(RealItems::Outside(why)) => {
            rep.count(&format!("expr-peg.{}.outside.{}", class, why));
            None
        }
        Err(p) => {
            rep.finding("oracle", "panic", text, &p, "c10.panic");
            None
        }
    }
}

fn check_expr_peg(ctx: &Ctx, model: &mut Model, rep: &mut Report, rng: &mut Rng) {
    // fixed probes: the corners of the layout rules and of the fragment
    const PROBES: &[&str] = &[
        "a", "a + b", "a+b", "a!=b", "a !=b", "a != b", "a! !=b", "a!!=b", "a!==b", "a.!=b", "a.==b", "a .== b", "1.==2",
        "1 .< 2", "a<-b", "a--b", "a - -b", "a- -b", "--a", "- a", "-\na", "!a", "!!a", "! a", "a!", "a!!", "a! !", "a !",
        "(a)!", "-a!", "(-a)!", "-(a)!", "a and b", "a\nand b", "a\r\nand\tb", "a and\nb", "a and\tb", "a andb", "(a)and b",
        "(a) and(b)", "(a) and (b)", "a  or  b", "a via b", "a into b", "a where b", "a where\tb", "a wherever", "a or_b",
        "not a", "not  a", "not\ta", "not\na", "nota", "not(a)", "not (a)", "!not a", "not !a", "not not a", "a not b",
        "a and not b", "a + not b", "-not a", "not -a", "a /\nb", "a / // c\nb", "a ///c\nb", "a // c", "a // c\n+ b",
        "a + // c\n b", "a +// c\r\nb", "(// c\n a)", "( a // c\n)", "( a // c)", "a and // c\n b", "a // c\n and b",
        "a \r b", "a\r+b", "a + b ", " a", "a\n", "()", "( )", "(a", "a)", "((a))", "( ( a ) )", "(a)(b)", "a(b)", "a (b)",
        "a[0]", "a [0]", "a.b", "a .b", "a. b", "1.5", "1.", ".5", "1e5", "1e", "1_000", "1__0", "0x1f", "0b1", "0b2", "007",
        "9999999999999999999999", "123456789012345678", "+1", "a + +1", "a +1", "a+-1", "-1", "1-1", "1 -1", "true1",
        "truex", "nullx", "true", "!true", "null ?? a", "a ?? null", "a??b", "a ? b", "a ?? ?? b", "a &&b", "a & b", "a||b",
        "a | b", "a<=b", "a< =b", "a<= =b", "a=b", "a = b", "a==b", "a == =b", "a=>b", "(a)=>b", "a >= b", "a => b", "x>=y",
        "a ^ b ^ c", "a^-b", "a ** b", "a % b", "a%b", "a %% b", "a .> b", "a.>b", "a .>= b", "a.<=b", "if", "if a", "do",
        "output", "output a", "then", "a then b", "#a", "a + #b", "\"s\" + a", "[a] + b", "{a} + b", "a + [b]", "sqrt", "sqrt(a)",
        "sqrt + max", "e ^ e", "inf", "infinity + 1", "a +", "+ a", "a + * b", "a b", "a, b", "a;b", "", " ", "\n", "é", "a + é",
        "a\u{a0}+ b", "a +\u{2028}b", "x\t+\ty", "a via\nb", "a\n\n\nvia b", "a where b where c", "a and b or c", "-a and !b",
        // postfix forms: call_list (non-atomic), access / dot_access (atomic)
        "f()", "f( )", "f(\n)", "f(// c\n)", "f(a)", "f( a )", "f(a,b)", "f(a, b)", "f(a ,b)", "f(a\n,b)", "f(a,\nb)", "f(a , \n b)",
        "f(a,)", "f(a, )", "f(a,\n)", "f(a, \n)", "f(a,// c\n)", "f(a , // c\n )", "f(a,\n\n)", "f(a,b,)", "f(a,b,\n)", "f(,)", "f(,\n)",
        "f(,\n,\n)", "f(a,,b)", "f(a,\n,b)", "f(\n  a,\n  b,\n)", "f(\r\n\ta,\r\n\tb,\r\n)", "f(a b)", "f(a;b)", "f((a))", "f((a),(b))", "f(a)(b)",
        "f(a)!", "f!(a)", "f (a)", "f\n(a)", "f(a) (b)", "(f)(a)", "-f(a)", "(-f)(a)", "!f(a)!", "not f(a)", "f(not a)", "f(a and b)",
        "f(a andb)", "f(...a)", "f(... a)", "f(...a, ...b)", "f(a, ...b)", "f(....a)", "f(..a)", "f(...)", "f(...-a)", "f(...(a))",
        "f(... )", "...a", "f(a...)", "f(a ...b)", "f(-a, !b, c!)", "f(a + b, c * d)", "f(a,\n// c\n b)", "f(a // c\n, b)", "f(a // c\n)",
        "f(a, // c\n b // d\n)", "f(a /\n b)", "f(g(h(a)))", "f(g(a), h(b, c))", "sqrt(4)", "max(1, 2)", "true(a)", "1(a)", "(a)(b)",
        "a[0]", "a[b]", "a[ b]", "a[b ]", "a[\nb]", "a[b\n]", "a[\n\nb\n\n]", "a[\r\nb\r\n]", "a[// c\nb]", "a[b// c\n]", "a[b // c\n]",
        "a[\n b]", "a[b\n ]", "a[\tb]", "a[]", "a[b,c]", "a[b][c]", "a[b[c]]", "a[b]!", "a![b]", "a [b]", "a\n[b]", "a[b].c", "a.b[c]",
        "a[b + c]", "a[b\n+ c]", "a[b +\nc]", "a[-b]", "a[(b)]", "a[( b )]", "a[b and c]", "a[...b]", "(a)[b]", "-a[b]", "(-a)[b]",
        "a.b", "a.b.c", "a. b", "a .b", "a.\nb", "a\n.b", "a.b!", "a!.b", "a.if", "a.iffy", "a.not", "a.nota", "a.true", "a.null1",
        "a.sqrt", "a.e", "a._", "a.1", "a.b1", "a.b_c", "a..b", "a...b", "a.(b)", "(a).b", "-a.b", "(-a).b", "a.b(c)", "a.b(c)[d].e!",
        "1.x", "1.e5", "1.e", "1.5.x", "a.==b", "a.== b", "a .== b", "a.<b", "a.b<c", "a.b.==c", "a.b .== c", "f(a).b", "f(a)[b]", "f(a).b(c)",
        "a + f(b)", "f(a) + b", "a+f(b)*c[d]", "f(a)and b", "f(a) and b", "a and f(b)", "a[b]and c", "a.b and c", "a.band c",
        // list literals (non-atomic; comments become pairs that the plain conversion drops)
        "[]", "[ ]", "[\n]", "[\t\r\n ]", "[a]", "[ a ]", "[a,b]", "[a, b]", "[a ,b]", "[a\n,b]", "[a,\nb]", "[a , \n b]", "[a,]", "[a, ]",
        "[a,\n]", "[a ,]", "[a\n,]", "[a,,]", "[,]", "[ , ]", "[,a]", "[a b]", "[a;b]", "[\n  a,\n  b,\n]", "[\r\n\ta,\r\n\tb\r\n]", "[[a]]", "[[], []]",
        "[[a], [b, c]]", "[a, [b, [c]]]", "[(a)]", "[(a), (b)]", "[-a, !b, c!]", "[a + b, c * d]", "[a and b]", "[a andb]", "[not a]",
        "[...a]", "[... a]", "[...a, ...b]", "[a, ...b]", "[...[a]]", "[...-a]", "[....a]", "[..a]", "[...]", "[a...]",
        "[// c\n]", "[// c]", "[// c\n a]", "[a // c\n]", "[a // c]", "[a, // c\n b]", "[a // c\n, b]", "[a, b // c\n]", "[a,// c\n]",
        "[a // c\n // d\n]", "[// c\n// d\n a]", "[a /\n b]", "[a // c\n\n, b]", "[a, // c\r\n b // d\r\n]", "[a //\n]", "[a /// c\n]",
        "[a][0]", "[a, b][1]", "[a].b", "[a](b)", "[a]!", "[a] [0]", "[a]\n[0]", "-[a]", "![a]", "not [a]", "not[a]", "a + [b]", "a+[b]",
        "a [b]", "[a] + [b]", "[a]+[b]", "[a] and [b]", "[a]and [b]", "a and[b]", "[a] == [b]", "f([a])", "f([a], [b])", "f([a,\n b])",
        "f(...[a])", "[f(a)]", "[f(a), g(b)]", "[a[0]]", "[a.b]", "[a[b], c.d, e(f)]", "a[[b]]", "a[[b][0]]", "[", "]", "[a", "a]", "[a)", "(a]",
        "[a, b", "[a,\n", "[1, 2, 3]", "[1,2,3,]", "[true, null, sqrt]", "[1.5]", "[\"s\"]", "[{a}]", "[if a then b else c]",
        // lambdas: `lambda` comes first among the alternatives of `term`; `argument_list` is non-atomic
        "x => x", "x=>x", "x =>x", "x=> x", "x  =>  x", "x\t=>\tx", "x =>\nx", "x => // c\n x", "x\n=> x", "x // c\n=> x", "(x) => x",
        "(x)=>x", "( x ) => x", "(\nx\n) => x", "(x,) => x", "(x, ) => x", "(x,\n) => x", "(x , \n ) => x", "(x\n,y) => x", "(x,\ny) => x",
        "(x, y) => x", "(x,y)=>x+y", "() => 1", "( ) => 1", "(\n) => 1", "(,) => 1", "(,\n) => 1", "(x y) => 1", "(x;y) => 1", "((x)) => 1",
        "x? => 1", "x ? => 1", "x?=>1", "(x?) => 1", "(x ?) => 1", "(x?, y?) => 1", "(x, y?) => 1", "(x?, y) => 1", "x?? => 1", "x ?? y",
        "x ?? y => 1", "...r => 1", "... r => 1", "(...r) => 1", "(... r) => 1", "(x, ...r) => 1", "(...r, x) => 1", "(....r) => 1", "(..r) => 1",
        "true => 1", "null => 1", "if => 1", "not => 1", "1 => 1", "sqrt => 1", "(sqrt) => sqrt", "(true) => 1", "x.y => 1", "x y => 1",
        "x => ", "x =>", "=> x", "x = > x", "x > = x", "x >= x", "x == > x", "x => => x", "x => y => x", "x => y => x + y", "(x) => (y) => (x + y)",
        "x => x via f", "x => (x via f)", "x => x into f", "x => x where y", "x => x and y", "x => x or y", "x => x && y", "x => a and b via c",
        "x => a via b and c", "x => (a via b and c)", "x => a + b via c", "x => a and (b via c)", "(x => x) via f", "f via x => x",
        "f via (x => x)", "a via x => x via g", "a into (x) => x + 1", "x => x, 1", "x => -x", "x => !x", "x => not x", "x => x!", "x => x(1)",
        "(x => x)(1)", "x => x[0]", "x => x.y", "x => [x]", "x => [x, y => y]", "x => (x)", "x => ((x))", "(x => x)", "((x) => x)", "-x => x",
        "-(x => x)", "!x => x", "a + x => x", "a + x => x + b", "(a + x => x) + b", "a and x => x and b", "x => x\n+ y", "x => x +\ny",
        "f(x => x)", "f(x => x, y)", "f(x => x,\n)", "f((x) => x, (y) => y)", "f(x, y => x)", "f(...x => x)", "f(...(x => x))", "[x => x]",
        "[x => x, 1]", "[x => x,]", "a[x => x]", "(x) + y", "(x) * (y)", "(x)", "(x, y)", "(x,\n)", "( x )", "(x) (y)", "(x).y", "(x)[y]",
        "(x)!", "(x) == y", "(x) = > y", "(x)== >y", "(a and b) => 1", "(a.b) => 1", "(a + b) => 1", "((a)) => 1", "(a)(b) => 1",
        // conditionals: atomic, explicit layout
        "if a then b else c", "if  a  then  b  else  c", "if\ta\tthen\tb\telse\tc", "if a\nthen b\nelse c", "if a then\n  b\nelse\n  c",
        "if\na then b else c", "if // c\n a then b else c", "if a // c\n then b else c", "if a then // c\n b else c", "if a then b // c\n else c",
        "if a then b else // c\n c", "if a then b else c // c", "ifa then b else c", "if a thenb else c", "if athen b else c", "if a then b elsec",
        "if a then belse c", "if(a) then b else c", "if (a) then b else c", "if (a)then b else c", "if a then(b) else c", "if a then (b)else c",
        "if a then b else(c)", "if a then b else (c)", "if a then b", "if a then b else", "if a then else c", "if then b else c", "if a b else c",
        "if a then b else c else d", "if a then b then c else d", "if a then if b then c else d else e", "if a then b else if c then d else e",
        "if if a then b else c then d else e", "if a then if b then c else d", "(if a then b else c)", "(if a then b else c) + d",
        "if a then b else c + d", "a + if b then c else d", "a + if b then c else d + e", "(a + if b then c else d) + e", "-if a then b else c",
        "if a then b else c!", "(if a then b else c)!", "(if a then b else c)(d)", "if a then b else c(d)", "f(if a then b else c)",
        "f(if a then b else c, d)", "[if a then b else c]", "[if a then b else c, d]", "a[if b then c else d]", "if a and b then c else d",
        "if a or b then c or d else e and f", "if not a then b else c", "if a via b then c else d", "if a then b via c else d", "if a then b else c via d",
        "if a == b then c else d", "if a then x => y else z", "if a then b else x => y", "if x => y then a else b", "x => if a then b else c",
        "x => if a then b else c via f", "x => (if a then b else c) via f", "if a then b else c and d", "iffy", "if_", "if", "if ", "if a",
        "ifthen", "if then then then else else", "then", "else", "a then b", "a else b", "if a then b else\n\nc", "if a then b\n\nelse c",
        "if true then null else 0", "if a! then b! else c!", "if -a then -b else -c", "if a.b then c[0] else d(1)",
        // string literals: no escapes, the literal ends at the first occurrence of its opening quote
        "\"\"", "''", "\"a\"", "'a'", "\"a b\"", "\"it's\"", "'say \"hi\"'", "\"a", "a\"", "'a", "\"a'", "'a\"", "\"a\"b", "a\"b\"", "\"a\"\"b\"",
        "\"a\" \"b\"", "\"a\"'b'", "\"a\\\"", "\"a\\\"b\"", "\"a\nb\"", "\"a\r\nb\"", "\"a // c\"", "\"a // c\nb\"", "\"// c\"", "'\n'", "\"\t\"",
        "\"a\" + \"b\"", "\"a\"+'b'", "\"a\"+\"b\"", "\"a\" +\"b\"", "\"a\"and \"b\"", "\"a\" and\"b\"", "\"a\" and \"b\"", "\"a\" !=\"b\"", "\"a\"!=\"b\"",
        "\"a\"!", "-\"a\"", "!\"a\"", "not \"a\"", "not\"a\"", "\"a\"[0]", "\"a\" [0]", "\"a\".b", "\"a\".length", "\"a\"(b)", "\"a\"()", "(\"a\")",
        "( \"a\" )", "(\"a)\")", "(\"a\")(\"b\")", "f(\"a\")", "f(\"a\", 'b')", "f(\"a,b\")", "f(\"a\",\n)", "f(...\"a\")", "[\"a\"]", "[\"a\", 'b',]",
        "[\"]\"]", "[\"a\" // c\n]", "a[\"k\"]", "a[\n\"k\"\n]", "a[ \"k\"]", "x => \"a\"", "x => \"a\" + x", "\"x\" => 1", "(\"x\") => 1", "x => \"=>\"",
        "if \"a\" then \"b\" else \"c\"", "if\"a\" then b else c", "if \"a\"then b else c", "if a then\"b\" else c", "if a then \"b\"else c",
        "if a then b else\"c\"", "\"if a then b else c\"", "\"a\" ?? \"b\"", "\"a\" via f", "\"a\"via f", "a via\"f\"", "\"é\"", "\"\u{a0}\"", "'\u{2028}'",
        // record literals (non-atomic; `record_pair` non-atomic; keys: identifier | string | [expression])
        "{}", "{ }", "{\n}", "{\t\r\n }", "{a}", "{ a }", "{a,b}", "{a, b}", "{a ,b}", "{a\n,b}", "{a,\nb}", "{a,}", "{a, }", "{a,\n}", "{a ,}",
        "{a,,}", "{,}", "{ , }", "{,a}", "{a b}", "{a;b}", "{a: 1}", "{a:1}", "{a :1}", "{a : 1}", "{a\n: 1}", "{a:\n1}", "{a: \n 1}", "{a: // c\n 1}",
        "{a // c\n: 1}", "{a: 1 // c\n}", "{a: 1 // c\n, b: 2}", "{a: 1, // c\n b: 2}", "{// c\n a: 1}", "{// c\n}", "{// c}", "{a: 1 // c}",
        "{a: 1, b: 2}", "{a: 1,b: 2,}", "{\n  a: 1,\n  b: 2,\n}", "{\r\n\ta: 1,\r\n\tb: 2\r\n}", "{a: 1 b: 2}", "{a: 1; b: 2}", "{a: }", "{a:}", "{: 1}",
        "{a: 1, }", "{a: 1,\n\n}", "{a: 1\n}", "{a: 1\n,}", "{\"k\": 1}", "{'k': 1}", "{\"k 2\": x}", "{\"k\" : 1}", "{\"k\"\n: 1}", "{\"k\"}", "{\"a\"b: 1}",
        "{\"\": 1}", "{'it\"s': 1}", "{\"a: 1}", "{[a]: 1}", "{[ a ]: 1}", "{[\na]: 1}", "{[a\n]: 1}", "{[a] : 1}", "{[a]:1}", "{[a]}", "{[a + b]: c}",
        "{[\"k\"]: 1}", "{[a][b]: 1}", "{[[a]]: 1}", "{[a, b]: 1}", "{[]: 1}", "{[a]: [b]}", "{[if a then b else c]: 1}", "{[x => x]: 1}", "{[a // c\n]: 1}",
        "{...a}", "{... a}", "{...a, b}", "{a, ...b}", "{...a, ...b}", "{...a.b}", "{...f(a)}", "{...{a: 1}}", "{...[a]}", "{....a}", "{..a}", "{...}", "{...a: 1}",
        "{a...}", "{if: 1}", "{true: 1}", "{null}", "{not: 1}", "{iffy: 1}", "{sqrt: 1}", "{sqrt}", "{_: 1}", "{a1: 1}", "{1: 1}", "{1}", "{a.b}", "{a.b: 1}",
        "{a(b)}", "{a + b}", "{-a}", "{(a)}", "{(a): 1}", "{a: b: c}", "{a: {b: 1}}", "{a: {b: {c: 1}}}", "{a: {}}", "{a: [1, 2]}", "{a: x => x}", "{a: x => x, b: 1}",
        "{a: (x) => {b: x}}", "{a: if b then c else d}", "{a: if b then c else d, e: 1}", "{a: b via c}", "{a: b and c}", "{a: not b}", "{a: -b}", "{a: b!}",
        "{a: b}.a", "{a: b}[\"a\"]", "{a: b}!", "{a: b}(c)", "{a: b} + 1", "1 + {a: b}", "-{a: b}", "!{}", "f({a: 1})", "f({})", "f(...{a: 1})", "[{a: 1}, {}]",
        "[{}]", "{a: [{}]}", "x => {a: x}", "x => {}", "if {} then {} else {}", "{} == {}", "{}{}", "{} {}", "{a}{b}", "a{b}", "a {b}", "{", "}", "{a", "a}", "{a)", "(a}",
        "{a: 1", "{a: 1,", "{a: 1}}", "{{a: 1}}", "{{}}", "{a: 1, b}", "{b, a: 1}", "{a, b: 1, ...c, [d]: 2, \"e f\": 3}", "{a:: 1}", "{a = 1}", "{a => 1}",
        "{a: 1 }", "{ a: 1 }", "{a: 1\t}", "{\"k\": \"v\"}", "{k: 'v'}", "{a: 1, \"b\": 2, [c]: 3, d, ...e}", "{a ?? b}", "{a: b ?? c}", "{a?: 1}", "{a ?: 1}",
        // do-blocks (compound-atomic: all layout spelled out by the rule)
        "do {return 1}", "do { return 1 }", "do{return 1}", "do {\nreturn 1\n}", "do\n{\n  return 1\n}", "do \t{ return 1 }", "do // c\n{ return 1 }",
        "do { return 1 } ", "do { return  1 }", "do { return\n1 }", "do { return\t1 }", "do { return1 }", "do { returns }", "do { return }", "do { return 1 // c\n}",
        "do { return 1\n// c\n}", "do { // c\n return 1 }", "do { // c\n// d\n return 1 }", "do { // c }", "do { return 1; }", "do { a\n return 1 }", "do { a; return 1 }",
        "do { a ; return 1 }", "do {a;return 1}", "do { a;; return 1 }", "do { a;\n\n return 1 }", "do { a\n\n\n return 1 }", "do { a\r\n return 1 }", "do { a return 1 }",
        "do { a, return 1 }", "do { a\n b\n return a + b }", "do { a; b; return c }", "do { a; b\n return c }", "do {\n  a\n  b\n  return c\n}", "do {\n  a // c\n  return 1\n}",
        "do {\n  a  // c\n  b // d\n  return 1\n}", "do {\n  // c\n  a\n  return 1\n}", "do {\n  a\n  // c\n  return 1\n}", "do {\n  a // c\n  // d\n  return 1\n}",
        "do { a // c }", "do { a // c\n }", "do { a; // c\n return 1 }", "do { a // c\n; return 1 }", "do { // c\n ; return 1 }", "do { ; return 1 }", "do { ;a; return 1 }",
        "do {\n  a\n  - b\n  return 1\n}", "do {\n  a\n  (-b)\n  return 1\n}", "do {\n  a\n  + b\n  return 1\n}", "do {\n  a\n  [b]\n  return 1\n}", "do {\n  a\n  (b)\n  return 1\n}",
        "do {\n  a\n  !b\n  return 1\n}", "do {\n  a\n  not b\n  return 1\n}", "do {\n  a\n  and b\n  return 1\n}", "do {\n  a\n  via b\n  return 1\n}", "do {\n  a\n  via + b\n  return 1\n}",
        "do {\n  a\n  via(b)\n  return 1\n}", "do {\n  a\n  via into b\n  return 1\n}", "do { a; via into b\n  return 1\n}", "do { a; where into x\n return 1 }", "do {\n  a\n  where into x\n  return 1\n}",
        "do {\n  via into b\n  return 1\n}", "do {\n  a\n  (where into x)\n  return 1\n}", "do {\n  a\n  into => 1\n  return 1\n}", "do {\n  a\n  viaduct + 1\n  return 1\n}",
        "do {\n  x => x\n  y\n  return 1\n}", "do {\n  if a then b else c\n  d\n  return 1\n}", "do {\n  a\n  return if b then c else d\n}", "do {\n  a\n  return x => x\n}",
        "do { return a } + 1", "1 + do { return a }", "do { return a }(b)", "do { return a }.b", "do { return a }[0]", "do { return a }!", "-do { return a }", "(do { return a })",
        "f(do { return a })", "f(do { return a }, b)", "[do { return a }]", "{a: do { return 1 }}", "x => do { return x }", "x => do {\n  y\n  return x\n}", "(x) => do { return x } via f",
        "if a then do { return 1 } else do { return 2 }", "do { return do { return 1 } }", "do { do { return 1 }\n return 2 }", "do {\n  do {\n    a\n    return 1\n  }\n  return 2\n}",
        "do { return 1 }}", "do { return 1", "do { return", "do {", "do", "do {}", "do { }", "do { a }", "do { a\n}", "do { a; }", "do return 1", "do {return 1} {return 2}",
        "don't", "done", "do_ { return 1 }", "dodo", "do{", "return 1", "return", "a; b", "do { return a; b }", "do { return a\n b }", "do { return a b }", "do { return return 1 }",
        "do { returnx\n return 1 }", "do { return_1 = 2\n return 1 }", "do { \"return\"\n return 1 }", "do { \"a;b\"; return 1 }", "do { [a; b]; return 1 }", "do { f(a; b); return 1 }",
        "do { a\n\t return 1 }", "do { a \n return 1 }", "do { a\n return 1\n\n}", "do { a\n return 1 \t }", "do {\n\n  a\n\n\n  b\n\n  return 1\n\n}", "do { a\n; return 1 }", "do { a;\n; return 1 }",
        // assignment as a term (non-atomic: blanks around `=`; the value is an `expression`)
        "a = 1", "a=1", "a =1", "a= 1", "a  =  1", "a\t=\t1", "a\n= 1", "a =\n1", "a = // c\n 1", "a // c\n = 1", "a == 1", "a = = 1", "a === 1", "a = == 1",
        "a = b = 1", "a = b == 1", "a == b = 1", "a = b => 1", "a => b = 1", "a = (b) => b", "(a) = 1", "(a = 1)", "( a = 1 )", "a = (1)", "a = 1 + 2", "a = 1\n+ 2",
        "a = b via c", "a = b and c", "1 + a = 2", "1 + (a = 2)", "(a = 2) + 1", "a = 2 + 1", "-a = 1", "!a = 1", "not a = 1", "a! = 1", "a != 1", "a ! = 1", "a[0] = 1",
        "a.b = 1", "a() = 1", "f(a = 1)", "f(a = 1, b = 2)", "f(a = 1,\n)", "f(...a = 1)", "[a = 1]", "[a = 1, b]", "{a = 1}", "{a: b = 1}", "{[a = 1]: 2}", "a[b = 1]",
        "x => a = 1", "x => a = x via f", "(x => a = 1) via f", "x = y => y", "x = (y) => y via f", "if a = 1 then b else c", "if a then b = 1 else c", "if a then b else c = 1",
        "a = if b then c else d", "a = do { return 1 }", "do { a = 1; return a }", "do {\n  a = 1\n  b = a + 1\n  return b\n}", "do { a = 1\n -b\n return 1 }", "do { return a = 1 }",
        "true = 1", "null = 1", "if = 1", "not = 1", "do = 1", "return = 1", "output = 1", "via = 1", "into = 1", "where = 1", "sqrt = 1", "e = 1", "_ = 1", "a1 = 1", "1 = 1", "\"a\" = 1",
        "trueish = 1", "iffy = 1", "a = true", "a = \"s\"", "a = [1, 2]", "a = {b: 1}", "a = {}", "a = -1", "a = -b", "a = b!", "a = b.c", "a = b(c)", "a = ", "a =", "= 1", "a = 1 = 2",
        "a = b\n= 1", "a = (b = 1)", "a = (b = 1) + 1", "a = 1 // c", "a =1+2", "a = b ?? c", "a ?= 1", "a += 1", "a := 1", "a = 1;", "a = 1, b = 2", "a = 1 b = 2", "(a = 1)(b)", "(a = 1)!", "(a = 1).b",
        "\"a\" == 'a'", "\"1\" + 1", "1 + \"1\"", "1\"a\"", "a'b'", "true\"a\"", "\"a\"true", "\"a\"1", "\"a\"_", "\"a\" // c", "\"a\" // \"c\nb",
    ];
    for t in PROBES {
        peg_compare(model, rep, t, "probe");
    }
    // every operator spelling with every combination of (no layout / blank / line break) on its sides
    for op in BINOPS.iter() {
        for a in ["", " ", "\n", "\t", "\r\n", " // c\n"] {
            for b in ["", " ", "\n", "\t", "\r\n", " // c\n"] {
                peg_compare(model, rep, &format!("x{}{}{}y", a, op, b), "op-layout");
                peg_compare(model, rep, &format!("(x){}{}{}(y)", a, op, b), "op-layout");
                peg_compare(model, rep, &format!("x!{}{}{}-y", a, op, b), "op-layout");
            }
        }
    }
    // every layout string at every position of the postfix forms
    const PL: &[&str] = &["", " ", "\t", "\n", "\r\n", " // c\n", "\n ", " \n", "// c\n"];
    for a in PL {
        for b in PL {
            for t in [
                format!("f({}x{})", a, b),
                format!("f(x{},{}y)", a, b),
                format!("f(x,{}y{})", a, b),
                format!("f(x{},{})", a, b),
                format!("f(x,{}...y{})", a, b),
                format!("f({}{})", a, b),
                format!("f[{}x{}]", a, b),
                format!("f{}.{}g", a, b),
                format!("f{}(x){}", a, b),
                format!("f{}[x]{}!", a, b),
                format!("f(x){}+{}y[z]", a, b),
                format!("[{}x{}]", a, b),
                format!("[x{},{}y]", a, b),
                format!("[x,{}y{}]", a, b),
                format!("[x{},{}]", a, b),
                format!("[x,{}...y{}]", a, b),
                format!("[{}{}]", a, b),
                format!("z{}[{}x]", a, b),
                format!("x{}=>{}y", a, b),
                format!("(x){}=>{}y", a, b),
                format!("({}x{}) => y", a, b),
                format!("(x{},{}y) => x", a, b),
                format!("(x,{}y{}) => x", a, b),
                format!("(x{},{}) => x", a, b),
                format!("({}{}) => x", a, b),
                format!("x{}?{}=> y", a, b),
                format!("(...{}r{}) => y", a, b),
                format!("if{}x{}then y else z", a, b),
                format!("if x then{}y{}else z", a, b),
                format!("if x then y else{}z{}", a, b),
                format!("if x{}then{}y else z", a, b),
                format!("if x then y{}else{}z", a, b),
                format!("{{{}x{}}}", a, b),
                format!("{{x{},{}y}}", a, b),
                format!("{{x{}:{}y}}", a, b),
                format!("{{x: 1{},{}}}", a, b),
                format!("{{{}{}}}", a, b),
                format!("{{[{}x{}]: y}}", a, b),
                format!("{{\"k\"{}:{}y, z}}", a, b),
                format!("{{...{}x{}}}", a, b),
                format!("{{x: y{}}}{}", a, b),
                format!("\"x\"{}+{}'y'", a, b),
                format!("\"x\"{}and{}'y'", a, b),
                format!("f({}\"x\"{})", a, b),
                format!("[\"x\"{},{}'y']", a, b),
                format!("\"x{}y\"{}", a, b),
                format!("\"x\"{}[0]{}", a, b),
                format!("if{}\"x\"{}then y else z", a, b),
                format!("x{}=>{}\"y\"", a, b),
                format!("do{}{{{}return 1 }}", a, b),
                format!("do {{{}x{};return 1}}", a, b),
                format!("do {{ x{};{}return 1 }}", a, b),
                format!("do {{ x{}\n{}return 1 }}", a, b),
                format!("do {{ x;{}y{}\n return 1 }}", a, b),
                format!("do {{ x\n{}-y{}\n return 1 }}", a, b),
                format!("do {{ x{}-y{}\n return 1 }}", a, b),
                format!("do {{{}return{}1 }}", a, b),
                format!("do {{ return 1{}}}{}", a, b),
                format!("do {{ x{}// c\n{}return 1 }}", a, b),
                format!("x => do {{{}x{}\n return x }}", a, b),
                format!("do {{ x{}via{}y\n return 1 }}", a, b),
                format!("x{}={}y", a, b),
                format!("x ={}={}y", a, b),
                format!("x{}= y{}+ z", a, b),
                format!("f(x{}={}y)", a, b),
                format!("z + x{}={}y", a, b),
                format!("do {{ x{}={}1\n return x }}", a, b),
                format!("x{}=>{}y = 1", a, b),
            ] {
                peg_compare(model, rep, &t, "postfix-layout");
            }
        }
    }
    // random trees: printer output, admissible re-layout, redundant parentheses
    let n = ctx.budget(500, 6000);
    const ALPHABET: &[char] = &[
        ' ', ' ', '\t', '\n', 'a', 'n', 'o', 't', 'd', 'r', 'z', '0', '1', '9', '_', '(', ')', '+', '-', '*', '/', '%', '^', '.',
        '=', '!', '<', '>', '&', '|', '?', ',', ',', '[', ']', '.', '(', ')', '"', '\'', '{', '}', ':', ':', ';', ';', 'e', 'u',
    ];
    for _ in 0..n {
        let d = 1 + rng.below(4);
        let t = gen_ft(rng, d);
        let min = minimal(&t);
        // the printer's text of the parsed tree (the real `expr_to_source`)
        let printed = match guarded(|| parse_plain(&min)) {
            Ok(Ok(p)) if p.len() == 1 => match guarded(|| blots_core::ast_to_source::expr_to_source(&p[0])) {
                Ok(s) => s,
                Err(pn) => {
                    rep.finding("oracle", "panic", &min, &pn, "c10.panic");
                    continue;
                }
            },
            _ => {
                rep.finding("oracle", "minimal-text-rejected", &min, "fragment tree", "c10.grouping");
                continue;
            }
        };
        let ref_items = peg_compare(model, rep, &printed, "printed");
        let ref_ast = parse_plain(&printed).ok();
        if ref_items.is_none() {
            rep.finding("oracle", "printed-text-rejected", &printed, &format!("from {:?}", min), "c10.grouping");
            continue;
        }
        for k in 0..3 {
            // k = 0: layout only; k > 0: layout and extra parentheses
            let v = laid(&t, rng, if k == 0 { 0 } else { 2 });
            let got = peg_compare(model, rep, &v, if k == 0 { "relayout" } else { "extra-parens" });
            // model-free: admissible layout / redundant parentheses do not change the parse
            match (guarded(|| parse_plain(&v)), &ref_ast) {
                (Ok(Ok(p)), Some(r)) => {
                    if !asts_equal(&p, r) {
                        rep.finding("oracle", "layout-changes-parse", &v, &format!("reference text {:?}", printed), "c10.layout");
                    }
                }
                (Ok(Err(er)), Some(_)) => rep.finding("oracle", "layout-rejected", &v, &format!("reference text {:?} :: {}", printed, er.lines().next().unwrap_or("")), "c10.layout"),
                (Err(pn), _) => rep.finding("oracle", "panic", &v, &pn, "c10.panic"),
                _ => {}
            }
            if k == 0 {
                // pure re-layout: the very same items
                if let (Some(g), Some(r)) = (&got, &ref_items) {
                    if g != r {
                        rep.finding("oracle", "layout-changes-items", &v, &format!("reference text {:?}", printed), "c10.layout");
                    }
                }
            }
            // ill-formed neighbours of the laid-out text
            let cs: Vec<char> = v.chars().collect();
            for _ in 0..2 {
                let mut m = cs.clone();
                match rng.below(5) {
                    0 if !m.is_empty() => {
                        m.remove(rng.below(m.len()));
                    }
                    1 => {
                        let at = rng.below(m.len() + 1);
                        m.insert(at, *rng.pick(ALPHABET));
                    }
                    2 if !m.is_empty() => {
                        let at = rng.below(m.len());
                        m[at] = *rng.pick(ALPHABET);
                    }
                    3 if !m.is_empty() => {
                        m.truncate(rng.below(m.len()));
                    }
                    _ => {
                        let at = rng.below(m.len() + 1);
                        m.insert(at, *rng.pick(ALPHABET));
                        let at = rng.below(m.len() + 1);
                        m.insert(at, *rng.pick(ALPHABET));
                    }
                }
                let mt: String = m.into_iter().collect();
                peg_compare(model, rep, &mt, "mutated");
            }
        }
    }
}

fn same_outcome(a: &str, b: &str) -> bool {
    let run = |s: &str| {
        let heap = new_heap();
        let env = Rc::new(Environment::new());
        match guarded(|| eval_expr_src(s, &heap, &env)) {
            Ok(Ok(v)) => format!("ok {}", crate::wire::value(&v, &heap.borrow())),
            Ok(Err(_)) => "err".to_string(),
            Err(_) => "panic".to_string(),
        }
    };
    run(a) == run(b)
}

/// smaller failing instance: descend while some layout variant of a child still parses
/// differently from its reference text
fn shrink_layout(e: &GE, rng: &mut Rng) -> (String, String) {
    let fails = |g: &GE, rng: &mut Rng| -> Option<String> {
        let reference = progen::to_source(g, 0);
        let refp = parse_plain(&reference).ok()?;
        for _ in 0..12 {
            let v = progen::lay(g, rng);
            let v = if v.starts_with('-') || v.starts_with('+') { format!("({})", v) } else { v };
            match guarded(|| parse_plain(&v)) {
                Ok(Ok(p)) if asts_equal(&p, &refp) => {}
                _ => return Some(v),
            }
        }
        None
    };
    let mut cur = e.clone();
    let mut cur_v = fails(&cur, rng).unwrap_or_else(|| progen::lay(&cur, rng));
    'outer: loop {
        for c in progen::children(&cur) {
            if matches!(c, GE::Spread(_)) {
                continue;
            }
            if let Some(v) = fails(&c, rng) {
                cur = c;
                cur_v = v;
                continue 'outer;
            }
        }
        return (cur_v, progen::to_source(&cur, 0));
    }
}
