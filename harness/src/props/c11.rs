//! C11 — scalar operator semantics and the broadcasting law.
//!  * oracle: for each of the 17 broadcasting operators, `L op s`, `s op L`, `L op M` on the
//!    real evaluator equal the list of scalar results obtained by evaluating the operator on
//!    each element (pair) separately, in order, and fail exactly when some element operation
//!    fails or the lengths differ; scalar arithmetic equals the IEEE result computed by the
//!    harness; and/or require booleans; ?? returns the right operand iff the left is null;
//!    dot comparisons never broadcast;
//!  * correspondence: every case against the Lean `evalBin`.

use crate::evalcommon::*;
use crate::tv::TV;
use crate::util::{Ctx, Model, Report, Rng};
use crate::wire;

const BCAST: &[(&str, &str)] = &[
    ("+", "add"), ("-", "sub"), ("*", "mul"), ("/", "div"), ("%", "mod"), ("^", "pow"), ("==", "eq"), ("!=", "ne"), ("<", "lt"),
    ("<=", "le"), (">", "gt"), (">=", "ge"), ("and", "nand"), ("&&", "and"), ("or", "nor"), ("||", "or"), ("??", "coalesce"),
];
const DOTS: &[(&str, &str)] = &[(".==", "deq"), (".!=", "dne"), (".<", "dlt"), (".<=", "dle"), (".>", "dgt"), (".>=", "dge")];

fn elem_pool() -> Vec<TV> {
    let mut p = vec![];
    for n in [f64::NAN, f64::INFINITY, f64::NEG_INFINITY, 0.0, -0.0, 1.0, -1.0, 2.0, 0.5, -2.5, 3.0, 1e30, 7.0, 0.1] {
        p.push(TV::Num(n));
    }
    for s in ["", "a", "b", "é", "B", "\u{ff5e}", "\u{1f600}"] {
        p.push(TV::Str(s.into()));
    }
    p.push(TV::Bool(true));
    p.push(TV::Bool(false));
    p.push(TV::Null);
    p.push(TV::List(vec![]));
    p.push(TV::List(vec![TV::Num(1.0), TV::Num(2.0)]));
    p.push(TV::Record(vec![("a".into(), TV::Num(1.0))]));
    p
}

/// outcome of `a op b` on the real evaluator with a, b bound as values
fn real_op(op: &str, a: &TV, b: &TV) -> String {
    eval_with(&[("a", a), ("b", b)], &format!("a {} b", op)).0
}

/// the scalar rule applied to one element (pair): what a broadcast applies to its elements.
/// An element that is itself a list is NOT broadcast again: comparisons compare it as a
/// value (the dot spelling), `??` keeps it, everything else is a type error.
fn elem_ref(op: &str, a: &TV, b: &TV) -> String {
    if matches!(a, TV::List(_)) || matches!(b, TV::List(_)) {
        match op {
            "==" | "!=" | "<" | "<=" | ">" | ">=" => real_op(&format!(".{}", op), a, b),
            "??" => eval_with(&[("a", if matches!(a, TV::Null) { b } else { a })], "a").0,
            _ => "(err)".to_string(),
        }
    } else {
        real_op(op, a, b)
    }
}

fn model_op(model: &mut Model, wire_op: &str, a: &TV, b: &TV) -> String {
    model.ask(&format!("binop {} {} {}", wire_op, a.wire(), b.wire()))
}

fn list_of(outs: &[String]) -> String {
    // expected broadcast result from per-element outcomes: first failure wins
    let mut items = vec![];
    for o in outs {
        if let Some(rest) = o.strip_prefix("(ok ") {
            items.push(rest[..rest.len() - 1].to_string());
        } else {
            return o.clone();
        }
    }
    if items.is_empty() { "(ok (list))".to_string() } else { format!("(ok (list {}))", items.join(" ")) }
}

pub fn run(ctx: &Ctx, rep: &mut Report) {
    let mut rng = Rng::new(ctx.seed);
    let mut model = Model::spawn(&ctx.model_path);
    let pool = elem_pool();
    let scalars: Vec<&TV> = pool.iter().filter(|t| !matches!(t, TV::List(_))).collect();

    // ---- scalar semantics ---------------------------------------------------------------------
    for a in pool.iter() {
        for b in pool.iter() {
            for (op, wop) in BCAST.iter().chain(DOTS.iter()) {
                let r = real_op(op, a, b);
                let desc = format!("{} {} {}", a.to_source(), op, b.to_source());
                rep.case(&desc, true);
                let m = model_op(&mut model, wop, a, b);
                if m != r {
                    rep.finding("model", "binop", &desc, &format!("impl={} model={}", short(&r), short(&m)), "c11.model.binop");
                }
                if r == "(panic)" {
                    rep.finding("oracle", "panic", &desc, "", "c11.panic");
                }
                let a_list = matches!(a, TV::List(_));
                let b_list = matches!(b, TV::List(_));
                if a_list || b_list {
                    continue;
                }
                // independent expectations on scalars
                if let (TV::Num(x), TV::Num(y)) = (a, b) {
                    let exp = match *op {
                        "+" => Some(x + y),
                        "-" => Some(x - y),
                        "*" => Some(x * y),
                        "/" => Some(x / y),
                        "%" => Some(x % y),
                        "^" => Some(x.powf(*y)),
                        _ => None,
                    };
                    if let Some(e) = exp {
                        let want = format!("(ok {})", wire::num(e));
                        if r != want {
                            rep.finding("oracle", "arithmetic-not-ieee", &desc, &format!("got {} expected {}", r, want), "c11.arith");
                        }
                    }
                    // comparisons follow the IEEE order of the two numbers (-0 = 0, NaN unordered:
                    // == false, != true, ordering comparisons are refused or false, never true)
                    let cmp = match op.trim_start_matches('.') {
                        "<" => Some(x < y),
                        "<=" => Some(x <= y),
                        ">" => Some(x > y),
                        ">=" => Some(x >= y),
                        "==" => Some(x == y),
                        "!=" => Some(x != y),
                        _ => None,
                    };
                    if let Some(e) = cmp {
                        let want = format!("(ok (bool {}))", if e { "t" } else { "f" });
                        let unordered = x.is_nan() || y.is_nan();
                        if (r.starts_with("(ok") && r != want) || (!unordered && r != want) {
                            rep.finding("oracle", "comparison-not-ieee", &desc, &format!("got {} expected {}", r, want), "c11.compare");
                        }
                    }
                }
                if let (TV::Str(x), TV::Str(y)) = (a, b) {
                    // strings are ordered character by character (code points)
                    let cmp = match op.trim_start_matches('.') {
                        "<" => Some(x.chars().lt(y.chars())),
                        "<=" => Some(x.chars().le(y.chars())),
                        ">" => Some(x.chars().gt(y.chars())),
                        ">=" => Some(x.chars().ge(y.chars())),
                        "==" => Some(x == y),
                        "!=" => Some(x != y),
                        _ => None,
                    };
                    if let Some(e) = cmp {
                        let want = format!("(ok (bool {}))", if e { "t" } else { "f" });
                        if r != want {
                            rep.finding("oracle", "string-comparison-not-by-characters", &desc, &format!("got {} expected {}", r, want), "c11.compare");
                        }
                    }
                    if *op == "+" && r != format!("(ok (str {}))", wire::hs(&format!("{}{}", x, y))) {
                        rep.finding("oracle", "string-concat", &desc, &r, "c11.concat");
                    }
                }
                if matches!(*op, "and" | "&&" | "or" | "||") {
                    match (a, b) {
                        (TV::Bool(x), TV::Bool(y)) => {
                            let e = if matches!(*op, "and" | "&&") { *x && *y } else { *x || *y };
                            if r != format!("(ok (bool {}))", if e { "t" } else { "f" }) {
                                rep.finding("oracle", "logical-result", &desc, &r, "c11.logical");
                            }
                        }
                        _ => {
                            if r.starts_with("(ok") {
                                rep.finding("oracle", "logical-accepts-non-boolean", &desc, &r, "c11.logical");
                            }
                        }
                    }
                }
                if *op == "??" {
                    let want = if matches!(a, TV::Null) { b } else { a };
                    let (w, _) = eval_with(&[("a", want)], "a");
                    if r != w {
                        rep.finding("oracle", "coalesce", &desc, &format!("got {} expected {}", r, w), "c11.coalesce");
                    }
                }
            }
        }
    }

    // ---- broadcasting, systematic part: every operator x every scalar of the pool x a fixed list of
    // each flavour, in both operand orders
    {
        let fixed_lists: Vec<Vec<TV>> = vec![
            vec![TV::Num(1.0), TV::Num(-2.5), TV::Num(0.0)],
            vec![TV::Num(-0.0), TV::Num(f64::INFINITY), TV::Num(3.0), TV::Num(f64::NAN)],
            vec![TV::Str("a".into()), TV::Str("b".into())],
            vec![TV::Str("".into()), TV::Str("é".into()), TV::Str("xy".into())],
            vec![TV::Bool(true), TV::Bool(false)],
            vec![TV::Null, TV::Num(1.0), TV::Str("s".into())],
            vec![TV::Num(7.0)],
        ];
        for (op, wop) in BCAST.iter() {
            for l in fixed_lists.iter() {
                for s in scalars.iter() {
                    for list_first in [true, false] {
                        let lv = TV::List(l.clone());
                        let (x, y): (&TV, &TV) = if list_first { (&lv, *s) } else { (*s, &lv) };
                        let desc = format!("{} {} {}", x.to_source(), op, y.to_source());
                        rep.case(&desc, true);
                        let got = real_op(op, x, y);
                        let per: Vec<String> = l.iter().map(|e| if list_first { elem_ref(op, e, s) } else { elem_ref(op, s, e) }).collect();
                        let want = list_of(&per);
                        if got != want {
                            rep.finding("oracle", if list_first { "broadcast-list-scalar" } else { "broadcast-scalar-list" }, &desc, &format!("got {} expected {}", short(&got), short(&want)), "c11.broadcast");
                        }
                        let m = model_op(&mut model, wop, x, y);
                        if m != got {
                            rep.finding("model", "binop", &desc, &format!("impl={} model={}", short(&got), short(&m)), "c11.model.binop");
                        }
                    }
                }
            }
        }
    }

    // ---- broadcasting ---------------------------------------------------------------------------
    let n_cases = ctx.budget(1500, 20000);
    for _ in 0..n_cases {
        let len = rng.below(9);
        // element flavours: numbers, strings, booleans / null, or anything from the pool
        let flavour = rng.below(6);
        let pick = |rng: &mut Rng| -> TV {
            match flavour {
                0 | 1 | 2 => TV::Num(*rng.pick(&[1.0, 2.0, -3.5, 0.0, -0.0, 0.5, f64::INFINITY, 7.0, f64::NAN])),
                3 => TV::Str(rng.pick(&["", "a", "b", "é", "xy", "a b"]).to_string()),
                4 => rng.pick(&[TV::Bool(true), TV::Bool(false), TV::Null, TV::Bool(true)]).clone(),
                _ => rng.pick(&pool).clone(),
            }
        };
        // the scalar operand is mostly of the flavour of the elements
        let same_flavour: Vec<&TV> = scalars.iter().copied().filter(|t| match flavour {
            0 | 1 | 2 => matches!(t, TV::Num(_)),
            3 => matches!(t, TV::Str(_)),
            4 => matches!(t, TV::Bool(_) | TV::Null),
            _ => true,
        }).collect();
        let scalars: Vec<&TV> = if rng.chance(3, 4) { same_flavour } else { scalars.clone() };
        let l: Vec<TV> = (0..len).map(|_| pick(&mut rng)).collect();
        let (op, wop) = *rng.pick(BCAST);
        match rng.below(4) {
            0 => {
                // list op scalar
                let s = (*rng.pick(&scalars)).clone();
                let desc = format!("{} {} {}", TV::List(l.clone()).to_source(), op, s.to_source());
                rep.case(&desc, len > 0);
                let got = real_op(op, &TV::List(l.clone()), &s);
                let per: Vec<String> = l.iter().map(|x| elem_ref(op, x, &s)).collect();
                let want = list_of(&per);
                if got != want {
                    rep.finding("oracle", "broadcast-list-scalar", &desc, &format!("got {} expected {}", short(&got), short(&want)), "c11.broadcast");
                }
                let m = model_op(&mut model, wop, &TV::List(l.clone()), &s);
                if m != got {
                    rep.finding("model", "binop", &desc, &format!("impl={} model={}", short(&got), short(&m)), "c11.model.binop");
                }
            }
            1 => {
                let s = (*rng.pick(&scalars)).clone();
                let desc = format!("{} {} {}", s.to_source(), op, TV::List(l.clone()).to_source());
                rep.case(&desc, len > 0);
                let got = real_op(op, &s, &TV::List(l.clone()));
                let per: Vec<String> = l.iter().map(|x| elem_ref(op, &s, x)).collect();
                let want = list_of(&per);
                if got != want {
                    rep.finding("oracle", "broadcast-scalar-list", &desc, &format!("got {} expected {}", short(&got), short(&want)), "c11.broadcast");
                }
                let m = model_op(&mut model, wop, &s, &TV::List(l.clone()));
                if m != got {
                    rep.finding("model", "binop", &desc, &format!("impl={} model={}", short(&got), short(&m)), "c11.model.binop");
                }
            }
            2 => {
                let r: Vec<TV> = (0..len).map(|_| pick(&mut rng)).collect();
                let desc = format!("{} {} {}", TV::List(l.clone()).to_source(), op, TV::List(r.clone()).to_source());
                rep.case(&desc, len > 0);
                let got = real_op(op, &TV::List(l.clone()), &TV::List(r.clone()));
                let per: Vec<String> = l.iter().zip(r.iter()).map(|(x, y)| elem_ref(op, x, y)).collect();
                let want = list_of(&per);
                if got != want {
                    rep.finding("oracle", "broadcast-list-list", &desc, &format!("got {} expected {}", short(&got), short(&want)), "c11.broadcast");
                }
                let m = model_op(&mut model, wop, &TV::List(l.clone()), &TV::List(r.clone()));
                if m != got {
                    rep.finding("model", "binop", &desc, &format!("impl={} model={}", short(&got), short(&m)), "c11.model.binop");
                }
            }
            _ => {
                // mismatched lengths fail; dot operators never broadcast
                let len2 = (len + 1 + rng.below(3)) % 9;
                let r: Vec<TV> = (0..len2).map(|_| pick(&mut rng)).collect();
                if len2 != len {
                    let desc = format!("{} {} {}", TV::List(l.clone()).to_source(), op, TV::List(r.clone()).to_source());
                    rep.case(&desc, true);
                    let got = real_op(op, &TV::List(l.clone()), &TV::List(r.clone()));
                    if got.starts_with("(ok") {
                        rep.finding("oracle", "length-mismatch-accepted", &desc, &short(&got), "c11.length");
                    }
                    let m = model_op(&mut model, wop, &TV::List(l.clone()), &TV::List(r.clone()));
                    if m != got {
                        rep.finding("model", "binop", &desc, &format!("impl={} model={}", short(&got), short(&m)), "c11.model.binop");
                    }
                }
                let (dop, dw) = *rng.pick(DOTS);
                let s = (*rng.pick(&scalars)).clone();
                for (x, y) in [(TV::List(l.clone()), s.clone()), (s.clone(), TV::List(l.clone())), (TV::List(l.clone()), TV::List(r.clone()))] {
                    let desc = format!("{} {} {}", x.to_source(), dop, y.to_source());
                    let got = real_op(dop, &x, &y);
                    rep.case(&desc, true);
                    if got.starts_with("(ok (list") {
                        rep.finding("oracle", "dot-operator-broadcasts", &desc, &short(&got), "c11.dot");
                    }
                    let m = model_op(&mut model, dw, &x, &y);
                    if m != got {
                        rep.finding("model", "binop", &desc, &format!("impl={} model={}", short(&got), short(&m)), "c11.model.binop");
                    }
                }
            }
        }
    }
    rep.model_requests = model.requests;
}
