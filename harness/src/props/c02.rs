//! C02 — evaluation is deterministic and has no effect on values.
//!  * correspondence: whole sessions (outcome of every statement + final root environment)
//!    vs the Lean evaluator model;
//!  * oracles: two evaluations of the same program in one process (with unrelated work in
//!    between) and in two processes agree; evaluating a statement never changes the value
//!    observed through an already bound name; binding a sub-expression to a fresh name and
//!    using the name in its place gives an equal result.

use crate::evalcommon::*;
use crate::evgen::{self, Scope, Ty};
use crate::tv::TV;
use crate::util::{Ctx, Model, Report, Rng};
use crate::wire;

fn has_lambda(w: &str) -> bool {
    w.contains("(lambda ")
}

pub fn run(ctx: &Ctx, rep: &mut Report) {
    let mut rng = Rng::new(ctx.seed);
    let mut model = Model::spawn(&ctx.model_path);
    let inputs = TV::Record(vec![("k".into(), TV::Num(4.0)), ("name".into(), TV::Str("in".into())), ("xs".into(), TV::List(vec![TV::Num(1.0), TV::Num(2.0)]))]);
    let n_prog = ctx.budget(400, 5000);
    let mut cli_progs: Vec<String> = vec![];
    for i in 0..n_prog {
        let (ns, dp) = (3 + rng.below(6), 1 + rng.below(3));
        let (src, _sc) = evgen::gen_program(&mut rng, ns, dp);
        let inp = if i % 3 == 0 { Some(&inputs) } else { None };
        rep.case(&src, true);
        let sess = match check_session(&mut model, rep, &src, inp, "c02") {
            Some(s) => s,
            None => continue,
        };
        // same process, fresh heap, unrelated evaluation in between
        let stmts = statements(&src).unwrap();
        let _noise = run_real(&statements("q = [3, 1, 2]\nsort(q)\nw = {a: q}").unwrap(), None, "");
        let again = run_real(&stmts, inp, &src);
        if again.outcomes != sess.outcomes || env_wire(&again) != env_wire(&sess) {
            rep.finding("oracle", "nondeterministic", &src, &format!("first={} second={}", short(&sess.outcomes.join(" ")), short(&again.outcomes.join(" "))), "c02.nondeterministic");
        }
        // no statement changes the value seen through an earlier binding
        {
            let heap = crate::run::new_heap();
            let env = std::rc::Rc::new(blots_core::environment::Environment::new());
            if let Some(iv) = inp {
                let v = iv.to_value(&heap);
                env.insert("inputs".into(), v);
            }
            let source: std::rc::Rc<str> = src.as_str().into();
            let mut snapshot: std::collections::BTreeMap<String, String> = Default::default();
            for (k, e) in stmts.iter().enumerate() {
                let _ = crate::util::guarded(|| blots_core::expressions::evaluate_ast(e, heap.clone(), env.clone(), 0, source.clone()).map_err(|x| x.message.clone()));
                let now: std::collections::BTreeMap<String, String> =
                    env.iter().map(|(n, v)| (n, wire::value(&v, &heap.borrow()))).collect();
                for (n, v) in snapshot.iter() {
                    match now.get(n) {
                        Some(v2) if v2 == v => {}
                        other => rep.finding("oracle", "binding-changed", &src,
                            &format!("after statement {} the value of {} changed from {} to {:?}", k, n, short(v), other.map(|s| short(s))), "c02.binding-changed"),
                    }
                }
                snapshot = now;
            }
        }
        if cli_progs.len() < ctx.budget(12, 120) && i % 9 == 0 && !src.contains("time_now") {
            cli_progs.push(src.clone());
        }
    }

    // let-abstraction: C[e'] vs t = e'; C[t]
    let n_let = ctx.budget(300, 4000);
    for _ in 0..n_let {
        let ns = 2 + rng.below(3);
        let (prefix, sc) = evgen::gen_program(&mut rng, ns, 1);
        let ty = *rng.pick(&[Ty::Num, Ty::Num, Ty::Str, Ty::ListNum, Ty::Bool, Ty::Rec]);
        let sub = evgen::gexpr(&mut rng, ty, &sc, 2);
        let mut sc2: Scope = sc.clone();
        sc2.vars.push(("hole__".into(), ty));
        // make sure the hole is used: generate until the context mentions it
        let mut ctxt = String::new();
        for _ in 0..8 {
            let ct = *rng.pick(&[Ty::Num, Ty::ListNum, Ty::Str, Ty::Any, Ty::Bool]);
            ctxt = evgen::gexpr(&mut rng, ct, &sc2, 3);
            if ctxt.contains("hole__") {
                break;
            }
        }
        if !ctxt.contains("hole__") {
            continue;
        }
        // text derived from a function's source legitimately shows the expression vs its value
        if ctxt.contains("=>") && (ctxt.contains("to_string") || ctxt.contains("join(") || ctxt.contains("format(")) {
            continue;
        }
        let direct = format!("{}\n{}", prefix, ctxt.replace("hole__", &format!("({})", sub)));
        let bound = format!("{}\nhole__ = {}\n{}", prefix, sub, ctxt);
        let (sd, sb) = match (statements(&direct), statements(&bound)) {
            (Ok(a), Ok(b)) => (a, b),
            _ => continue,
        };
        let rd = run_real(&sd, None, &direct);
        let rb = run_real(&sb, None, &bound);
        let sub_outcome = &rb.outcomes[rb.outcomes.len() - 2];
        if !sub_outcome.starts_with("(ok") {
            rep.count("let.subexpression-fails");
            continue;
        }
        let (a, b) = (rd.outcomes.last().unwrap(), rb.outcomes.last().unwrap());
        if has_lambda(a) || has_lambda(b) {
            rep.count("let.function-valued");
            continue;
        }
        rep.case(&bound, true);
        if a != b {
            rep.finding("oracle", "let-abstraction-differs", &bound, &format!("direct={} bound={}", short(a), short(b)), "c02.let-abstraction");
        }
    }

    // two processes (different hash seeds): same stdout and exit status
    for (k, src) in cli_progs.iter().enumerate() {
        let run = |tag: &str| -> (Option<i32>, String) {
            use std::process::{Command, Stdio};
            let dir = std::env::temp_dir().join(format!("vharness-{}-c02-{}-{}", std::process::id(), k, tag));
            let _ = std::fs::create_dir_all(&dir);
            let f = dir.join("p.blots");
            let _ = std::fs::write(&f, src);
            let out = Command::new("timeout").arg("20").arg(&ctx.blots_bin).arg(&f).stdin(Stdio::null()).output();
            let _ = std::fs::remove_dir_all(&dir);
            match out {
                Ok(o) => (o.status.code(), String::from_utf8_lossy(&o.stdout).to_string()),
                Err(_) => (None, String::new()),
            }
        };
        let a = run("a");
        let b = run("b");
        rep.count("cli-runs");
        if a != b {
            rep.finding("oracle", "process-nondeterministic", src, &format!("first={:?} second={:?}", a, b), "c02.process-nondeterministic");
        }
    }
    rep.model_requests = model.requests;
}
