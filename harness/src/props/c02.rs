//! C02 — evaluation is deterministic and has no effect on values.
//!  * correspondence: whole sessions (outcome of every statement + final root environment)
//!    vs the Lean evaluator model;
//!  * oracles: two evaluations of the same program in one process (with unrelated work in
//!    between) and in two processes agree; evaluating a statement never changes the value
//!    observed through an already bound name; binding a sub-expression to a fresh name and
//!    using the name in its place gives an equal result.

use crate::evalcommon::*;
use crate::evgen::{self, Scope, Ty};
use crate::tv::TV;
use crate::util::{Ctx, Model, Report, Rng};
use crate::wire;

/// "unrelated earlier evaluations" that are most likely to interfere: a copy of the program
/// with every name it binds renamed (prefix `zq_`) and every literal perturbed (string
/// literals change the case of their letters, numbers get one added), so that the same
/// built-ins run on near-identical arguments without touching the program's own names
fn noise_copy(src: &str, names: &[String]) -> String {
    let cs: Vec<char> = src.chars().collect();
    let mut out = String::new();
    let mut i = 0;
    while i < cs.len() {
        let c = cs[i];
        if c == '"' || c == '\'' {
            out.push(c);
            i += 1;
            while i < cs.len() && cs[i] != c {
                let ch = cs[i];
                if ch.is_lowercase() { out.extend(ch.to_uppercase()); } else if ch.is_uppercase() { out.extend(ch.to_lowercase()); } else { out.push(ch); }
                i += 1;
            }
            if i < cs.len() { out.push(c); i += 1; }
        } else if c.is_ascii_alphabetic() || c == '_' {
            let st = i;
            while i < cs.len() && (cs[i].is_ascii_alphanumeric() || cs[i] == '_') { i += 1; }
            let w: String = cs[st..i].iter().collect();
            if names.contains(&w) { out.push_str("zq_"); }
            out.push_str(&w);
        } else if c.is_ascii_digit() {
            let st = i;
            while i < cs.len() && (cs[i].is_ascii_digit()) { i += 1; }
            let w: String = cs[st..i].iter().collect();
            let plain_int = (st == 0 || !(cs[st - 1] == '.' || cs[st - 1] == 'e' || cs[st - 1].is_ascii_alphanumeric() || cs[st - 1] == '_')) && (i >= cs.len() || !(cs[i] == '.' || cs[i] == 'e' || cs[i] == 'x' || cs[i] == 'b'));
            match (plain_int, w.parse::<u64>()) {
                (true, Ok(n)) if n < 1000 => out.push_str(&format!("{}", n + 1)),
                _ => out.push_str(&w),
            }
        } else {
            out.push(c);
            i += 1;
        }
    }
    out
}

/// evaluate in a fresh thread (pristine thread-local state), returning the outcomes of the last `keep` statements
fn in_fresh_thread(src: String, keep: usize, inputs: Option<TV>) -> Option<Vec<String>> {
    std::thread::Builder::new().stack_size(256 << 20).spawn(move || {
        let stmts = statements(&src).ok()?;
        let sess = run_real(&stmts, inputs.as_ref(), &src);
        let n = sess.outcomes.len();
        Some(sess.outcomes[n.saturating_sub(keep)..].to_vec())
    }).ok()?.join().ok()?
}

fn has_lambda(w: &str) -> bool {
    w.contains("(lambda ")
}

pub fn run(ctx: &Ctx, rep: &mut Report) {
    let mut rng = Rng::new(ctx.seed);
    let mut model = Model::spawn(&ctx.model_path);
    let inputs = TV::Record(vec![("k".into(), TV::Num(4.0)), ("name".into(), TV::Str("in".into())), ("xs".into(), TV::List(vec![TV::Num(1.0), TV::Num(2.0)]))]);
    let n_prog = ctx.budget(400, 5000);
    let mut cli_progs: Vec<String> = vec![];
    for i in 0..n_prog {
        let (ns, dp) = (3 + rng.below(6), 1 + rng.below(3));
        let (src, _sc) = evgen::gen_program(&mut rng, ns, dp);
        let inp = if i % 3 == 0 { Some(&inputs) } else { None };
        rep.case(&src, true);
        let sess = match check_session(&mut model, rep, &src, inp, "c02") {
            Some(s) => s,
            None => continue,
        };
        // same process, fresh heap, unrelated evaluation in between
        let stmts = statements(&src).unwrap();
        let _noise = run_real(&statements("q = [3, 1, 2]\nsort(q)\nw = {a: q}").unwrap(), None, "");
        let again = run_real(&stmts, inp, &src);
        if again.outcomes != sess.outcomes || env_wire(&again) != env_wire(&sess) {
            rep.finding("oracle", "nondeterministic", &src, &format!("first={} second={}", short(&sess.outcomes.join(" ")), short(&again.outcomes.join(" "))), "c02.nondeterministic");
        }
        // unrelated earlier evaluations: the program alone vs after a renamed, perturbed copy of
        // itself, each in a fresh thread (pristine thread-local state)
        if i % 2 == 0 && !src.contains("time_now") && !src.contains("random") {
            // every name the program binds anywhere (`name =`), so that the copy binds none of them
            let mut names: Vec<String> = _sc.vars.iter().map(|(n, _)| n.clone()).collect();
            {
                let cs: Vec<char> = src.chars().collect();
                let mut j = 0;
                while j < cs.len() {
                    if cs[j].is_ascii_alphabetic() || cs[j] == '_' {
                        let st = j;
                        while j < cs.len() && (cs[j].is_ascii_alphanumeric() || cs[j] == '_') { j += 1; }
                        let mut k2 = j;
                        while k2 < cs.len() && cs[k2] == ' ' { k2 += 1; }
                        if k2 + 1 < cs.len() && cs[k2] == '=' && cs[k2 + 1] != '=' && cs[k2 + 1] != '>' {
                            let w: String = cs[st..j].iter().collect();
                            if !names.contains(&w) { names.push(w); }
                        }
                    } else if cs[j] == '"' || cs[j] == '\'' {
                        let q = cs[j];
                        j += 1;
                        while j < cs.len() && cs[j] != q { j += 1; }
                        j += 1;
                    } else {
                        j += 1;
                    }
                }
            }
            let noisy = format!("{}\n{}", noise_copy(&src, &names), src);
            if let (Ok(_), n_own) = (statements(&noisy), stmts.len()) {
                let alone = in_fresh_thread(src.clone(), n_own, inp.cloned());
                let after = in_fresh_thread(noisy.clone(), n_own, inp.cloned());
                rep.count("noise-pairs");
                if let (Some(a), Some(b)) = (alone, after) {
                    let strip = |v: &Vec<String>| v.iter().map(|o| if has_lambda(o) { "(fn)".to_string() } else { o.clone() }).collect::<Vec<_>>();
                    if strip(&a) != strip(&b) {
                        let k = a.iter().zip(b.iter()).position(|(x, y)| x != y).unwrap_or(0);
                        rep.finding("oracle", "earlier-evaluation-changes-result", &noisy,
                            &format!("statement {} of the program: alone={} after unrelated statements={}", k, short(&a[k]), short(&b[k])), "c02.earlier-evaluation");
                    }
                }
            }
        }
        // no statement changes the value seen through an earlier binding
        {
            let heap = crate::run::new_heap();
            let env = std::rc::Rc::new(blots_core::environment::Environment::new());
            if let Some(iv) = inp {
                let v = iv.to_value(&heap);
                env.insert("inputs".into(), v);
            }
            let source: std::rc::Rc<str> = src.as_str().into();
            let mut snapshot: std::collections::BTreeMap<String, String> = Default::default();
            for (k, e) in stmts.iter().enumerate() {
                let _ = crate::util::guarded(|| blots_core::expressions::evaluate_ast(e, heap.clone(), env.clone(), 0, source.clone()).map_err(|x| x.message.clone()));
                let now: std::collections::BTreeMap<String, String> =
                    env.iter().map(|(n, v)| (n, wire::value(&v, &heap.borrow()))).collect();
                for (n, v) in snapshot.iter() {
                    match now.get(n) {
                        Some(v2) if v2 == v => {}
                        other => rep.finding("oracle", "binding-changed", &src,
                            &format!("after statement {} the value of {} changed from {} to {:?}", k, n, short(v), other.map(|s| short(s))), "c02.binding-changed"),
                    }
                }
                snapshot = now;
            }
        }
        if cli_progs.len() < ctx.budget(12, 120) && i % 9 == 0 && !src.contains("time_now") {
            cli_progs.push(src.clone());
        }
    }

    // let-abstraction: C[e'] vs t = e'; C[t]
    let n_let = ctx.budget(300, 4000);
    for li in 0..n_let {
        let ns = 2 + rng.below(3);
        let (prefix, sc) = evgen::gen_program(&mut rng, ns, 1);
        let ty = *rng.pick(&[Ty::Num, Ty::Num, Ty::Str, Ty::ListNum, Ty::Bool, Ty::Rec]);
        let mut sub = evgen::gexpr(&mut rng, ty, &sc, 2);
        // containers whose equality is not reflexive (NaN inside), -0, nested empties
        if li % 6 == 5 {
            sub = rng.pick(&["{a: 0/0}", "[0/0]", "[1, [0/0, 2]]", "{a: {b: 0/0}, c: 1}", "[0 * -1]", "{k: []}", "[[], {}]", "0/0", "[\"a\", 0/0]"]).to_string();
        }
        let mut sc2: Scope = sc.clone();
        sc2.vars.push(("hole__".into(), ty));
        // make sure the hole is used: generate until the context mentions it
        let mut ctxt = String::new();
        for _ in 0..8 {
            let ct = *rng.pick(&[Ty::Num, Ty::ListNum, Ty::Str, Ty::Any, Ty::Bool]);
            ctxt = evgen::gexpr(&mut rng, ct, &sc2, 3);
            if ctxt.contains("hole__") {
                break;
            }
        }
        // every third context uses the name more than once (the same value reached twice)
        if li % 3 == 2 {
            ctxt = rng.pick(&["(hole__ == hole__)", "(hole__ .== hole__)", "(hole__ != hole__)", "includes([hole__], hole__)", "unique([hole__, hole__])", "[hole__, hole__]",
                "(hole__ .<= hole__)", "{a: hole__, b: hole__}", "index_of([1, hole__], hole__)", "ugte(hole__, hole__)", "len(unique([hole__, hole__, 1]))", "[hole__] == [hole__]",
                "sort([hole__, hole__])", "({k: hole__} .== {k: hole__})", "count_by([hole__, hole__], x => typeof(x))"]).to_string();
        }
        if !ctxt.contains("hole__") {
            continue;
        }
        // text derived from a function's source legitimately shows the expression vs its value
        if ctxt.contains("=>") && (ctxt.contains("to_string") || ctxt.contains("join(") || ctxt.contains("format(")) {
            continue;
        }
        let direct = format!("{}\n{}", prefix, ctxt.replace("hole__", &format!("({})", sub)));
        let bound = format!("{}\nhole__ = {}\n{}", prefix, sub, ctxt);
        let (sd, sb) = match (statements(&direct), statements(&bound)) {
            (Ok(a), Ok(b)) => (a, b),
            _ => continue,
        };
        let rd = run_real(&sd, None, &direct);
        let rb = run_real(&sb, None, &bound);
        let sub_outcome = &rb.outcomes[rb.outcomes.len() - 2];
        if !sub_outcome.starts_with("(ok") {
            rep.count("let.subexpression-fails");
            continue;
        }
        let (a, b) = (rd.outcomes.last().unwrap(), rb.outcomes.last().unwrap());
        if has_lambda(a) || has_lambda(b) {
            rep.count("let.function-valued");
            continue;
        }
        // the call-depth limit is the one context an expression can observe (C18): a
        // sub-expression that recurses close to the limit succeeds at statement level and
        // fails inside a callback of the context, which is not a side effect on values
        if a != b && (a.starts_with("(err depth") || b.starts_with("(err depth")) {
            rep.count("let.depth-limit-band");
            continue;
        }
        rep.case(&bound, true);
        if a != b {
            rep.finding("oracle", "let-abstraction-differs", &bound, &format!("direct={} bound={}", short(a), short(b)), "c02.let-abstraction");
        }
    }

    // `random` is a function of its seed for every seed (the documented exceptions are time_now and print)
    for seed in ["0", "1", "-1", "2.5", "1e30", "-1e30", "0/0", "inf", "-inf", "0 * -1", "9007199254740993", "1e-320"] {
        let src = format!("a = random({})\nb = random({})\n[a == b, a]", seed, seed);
        let st = match statements(&src) { Ok(s) => s, Err(_) => continue };
        let r1 = run_real(&st, None, &src);
        let r2 = run_real(&st, None, &src);
        rep.case(&src, true);
        if r1.outcomes != r2.outcomes {
            rep.finding("oracle", "nondeterministic", &src, &format!("first={} second={}", short(&r1.outcomes.join(" ")), short(&r2.outcomes.join(" "))), "c02.nondeterministic");
        } else if let Some(l) = r1.outcomes.last() {
            if l.starts_with("(ok (list (bool f)") && !l.contains("7ff8") {
                rep.finding("oracle", "nondeterministic", &src, &format!("two calls with the same seed differ: {}", short(l)), "c02.nondeterministic");
            }
        }
        cli_progs.push(format!("output r = random({})", seed));
    }
    // two processes (different hash seeds): same stdout and exit status
    for (k, src) in cli_progs.iter().enumerate() {
        let run = |tag: &str| -> (Option<i32>, String) {
            use std::process::{Command, Stdio};
            let dir = std::env::temp_dir().join(format!("vharness-{}-c02-{}-{}", std::process::id(), k, tag));
            let _ = std::fs::create_dir_all(&dir);
            let f = dir.join("p.blots");
            let _ = std::fs::write(&f, src);
            let out = Command::new("timeout").arg("20").arg(&ctx.blots_bin).arg(&f).stdin(Stdio::null()).output();
            let _ = std::fs::remove_dir_all(&dir);
            match out {
                Ok(o) => (o.status.code(), String::from_utf8_lossy(&o.stdout).to_string()),
                Err(_) => (None, String::new()),
            }
        };
        let a = run("a");
        let b = run("b");
        rep.count("cli-runs");
        if a != b {
            rep.finding("oracle", "process-nondeterministic", src, &format!("first={:?} second={:?}", a, b), "c02.process-nondeterministic");
        }
    }
    // the order of the fields of `inputs` (many keys, -i and stdin) is the same in every process
    {
        use std::io::Write;
        use std::process::{Command, Stdio};
        let keys = ["zeta", "alpha", "m1", "k9", "Beta", "q", "omega", "b2", "aa", "x_y", "n", "delta"];
        let doc = format!("{{{}}}", keys.iter().enumerate().map(|(i, k)| format!("\"{}\": {}", k, i + 1)).collect::<Vec<_>>().join(", "));
        let prog = "output ks = keys(inputs)\noutput vs = values(inputs)\noutput first = entries(inputs)[0]\noutput joined = join(keys(inputs), \"-\")";
        let mut seen: Vec<(String, String)> = vec![];
        for round in 0..ctx.budget(6, 16) {
            for mode in ["-i", "stdin"] {
                let mut cmd = Command::new("timeout");
                cmd.arg("20").arg(&ctx.blots_bin).arg(prog);
                let out = if mode == "-i" {
                    cmd.arg("-i").arg(&doc).stdin(Stdio::null()).output().ok()
                } else {
                    cmd.stdin(Stdio::piped()).stdout(Stdio::piped()).stderr(Stdio::piped());
                    cmd.spawn().ok().and_then(|mut ch| { let _ = ch.stdin.take().unwrap().write_all(doc.as_bytes()); ch.wait_with_output().ok() })
                };
                let text = out.map(|o| format!("{:?} {}", o.status.code(), String::from_utf8_lossy(&o.stdout))).unwrap_or_default();
                rep.count("cli-input-order-runs");
                if let Some((_, t0)) = seen.iter().find(|(m, _)| m == mode) {
                    if *t0 != text {
                        rep.finding("oracle", "process-nondeterministic", &format!("{} with inputs {} ({})", prog, doc, mode), &format!("run 0: {} run {}: {}", short(t0), round, short(&text)), "c02.process-nondeterministic");
                        break;
                    }
                } else {
                    seen.push((mode.to_string(), text));
                }
            }
        }
    }
    rep.model_requests = model.requests;
}
