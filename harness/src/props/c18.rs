//! C18 — runaway recursion ends in a call-depth error, never in a crash.
//! oracle (the real optimised binary, default 8 MiB process stack): every unbounded
//! recursion shape from the recursion grammar (self / mutual / via-callback / map-callback /
//! reduce / do-block / conditional / nested-operator / list / record bodies with per-call
//! expression nesting 1..32) exits with status 1 and reports 'maximum call depth'; bounded
//! recursion a few hundred calls deep completes with the right value.
//! correspondence: the simple shapes against the Lean evaluator (outcome `err depth`,
//! and the value of the bounded recursions).

use crate::evalcommon::*;
use crate::util::{Ctx, Model, Report, Rng};
use std::process::{Command, Stdio};

fn nest(call: &str, kind: usize, n: usize) -> String {
    let mut b = format!("({})", call);
    for i in 0..n {
        b = match (kind + i) % 8 {
            0 => format!("(0 + {})", b),
            1 => format!("({} * 1)", b),
            2 => format!("[{}][0]", b),
            3 => format!("{{k: {}}}.k", b),
            4 => format!("(if true then {} else 0)", b),
            5 => format!("do {{\n  t = {}\n  return t\n}}", b),
            6 => format!("(-(-{}))", b),
            _ => format!("(q => q)({})", b),
        };
    }
    b
}

fn shapes(n: usize, kind: usize, bounded: Option<usize>) -> Vec<(String, String)> {
    // (name, program).  With `bounded = Some(d)` the recursion stops after d calls and the
    // program outputs the depth reached.
    let stop = |x: &str| match bounded {
        Some(d) => format!("if {} >= {} then {} else ", x, d, x),
        None => String::new(),
    };
    vec![
        ("self".into(), format!("f = x => {}{}\noutput r = f(0)", stop("x"), nest("f(x + 1)", kind, n))),
        ("mutual".into(), format!("f = x => {}{}\ng = x => {}\noutput r = f(0)", stop("x"), nest("g(x + 1)", kind, n), nest("f(x + 1)", kind + 1, n))),
        ("via".into(), format!("f = x => {}{}\noutput r = f(0)", stop("x"), nest("([x + 1] via f)[0]", kind, n))),
        ("map".into(), format!("f = x => {}{}\noutput r = f(0)", stop("x"), nest("map([x + 1], f)[0]", kind, n))),
        ("into".into(), format!("f = x => {}{}\noutput r = f(0)", stop("x"), nest("(x + 1) into f", kind, n))),
        ("reduce".into(), format!("f = x => {}{}\noutput r = f(0)", stop("x"), nest("reduce([x + 1], (a, y) => f(y), 0)", kind, n))),
        ("where".into(), format!("f = x => {}{}\noutput r = f(0)", stop("x"), nest("len([x + 1] where (y => f(y) >= 0)) + x", kind, n))),
        ("closure".into(), format!("mk = k => (x => {}{})\nh = mk(1)\nf = x => h(x)\noutput r = f(0)", stop("x"), nest("f(x + k)", kind, n))),
        // cycles that go through functions without a name: self application, a function passed to
        // itself, a fixed-point combinator, functions stored in a record field / a list
        ("selfapp".into(), { let w = format!("((s, x) => {}{})", stop("x"), nest("s(s, x + 1)", kind, n)); format!("output r = {}({}, 0)", w, w) }),
        ("param".into(), format!("run = (g, x) => g(g, x)\noutput r = run((g, x) => {}{}, 0)", stop("x"), nest("g(g, x + 1)", kind, n))),
        ("fixpoint".into(), format!("fix = g => (x => g(v => x(x)(v)))(x => g(v => x(x)(v)))\noutput r = fix(self => (x => {}{}))(0)", stop("x"), nest("self(x + 1)", kind, n))),
        ("field".into(), format!("obj = {{step: x => {}{}}}\noutput r = obj.step(0)", stop("x"), nest("obj.step(x + 1)", kind, n))),
        ("listfn".into(), format!("fs = [x => {}{}]\noutput r = fs[0](0)", stop("x"), nest("fs[0](x + 1)", kind, n))),
    ]
}

/// the program is given as a file, as an inline argument or on stdin with `-e`, in rotation
fn run_bin(bin: &str, src: &str, tag: &str) -> (Option<i32>, String, String) {
    use std::io::Write;
    let dir = std::env::temp_dir().join(format!("vharness-{}-c18-{}", std::process::id(), tag));
    let _ = std::fs::create_dir_all(&dir);
    let mode = tag.bytes().map(|b| b as usize).sum::<usize>() % 3;
    let out = match mode {
        0 => {
            let f = dir.join("p.blots");
            let _ = std::fs::write(&f, src);
            Command::new("timeout").arg("60").arg(bin).arg(&f).stdin(Stdio::null()).stdout(Stdio::piped()).stderr(Stdio::piped()).output()
        }
        1 => Command::new("timeout").arg("60").arg(bin).arg(src).stdin(Stdio::null()).stdout(Stdio::piped()).stderr(Stdio::piped()).output(),
        _ => Command::new("timeout").arg("60").arg(bin).arg("-e").stdin(Stdio::piped()).stdout(Stdio::piped()).stderr(Stdio::piped()).spawn().and_then(|mut ch| {
            let _ = ch.stdin.take().unwrap().write_all(src.as_bytes());
            ch.wait_with_output()
        }),
    };
    let _ = std::fs::remove_dir_all(&dir);
    match out {
        Ok(o) => (o.status.code(), String::from_utf8_lossy(&o.stdout).to_string(), String::from_utf8_lossy(&o.stderr).to_string()),
        Err(e) => (None, String::new(), e.to_string()),
    }
}

pub fn run(ctx: &Ctx, rep: &mut Report) {
    let mut rng = Rng::new(ctx.seed);
    let mut model = Model::spawn(&ctx.model_path);
    let nestings: Vec<usize> = if ctx.thorough() { vec![0, 1, 2, 3, 4, 6, 8, 12, 16, 24, 32] } else { vec![0, 2, 8, 32] };
    let mut k = 0usize;
    // shapes whose unbounded form did not end in a depth error on the binary are not evaluated
    // in-process afterwards (nothing could stop them there)
    let mut misbehaved: Vec<String> = vec![];
    for &n in nestings.iter() {
        let kinds: Vec<usize> = if ctx.thorough() { (0..8).collect() } else { vec![rng.below(8), rng.below(8)] };
        for kind in kinds {
            for (name, src) in shapes(n, kind, None) {
                k += 1;
                rep.case(&format!("{} nesting={} kind={}", name, n, kind), true);
                let (code, out, err) = run_bin(&ctx.blots_release_bin, &src, &format!("{}", k));
                let reported = out.contains("maximum call depth") || err.contains("maximum call depth");
                if code != Some(1) || !reported {
                    if !misbehaved.contains(&name) { misbehaved.push(name.clone()); }
                    rep.finding("oracle", "runaway-recursion-not-a-depth-error", &src,
                        &format!("exit {:?} stdout {:?} stderr {:?}", code, out.chars().take(160).collect::<String>(), err.chars().take(200).collect::<String>()), "c18.runaway");
                }
                rep.count(&format!("shape.{}", name));
            }
            // bounded recursion a few hundred calls deep completes
            for d in [150usize, 300, 900] {
                for (name, src) in shapes(n.min(8), kind, Some(d)) {
                    // close to the limit: only shapes that cost one call level per step, light bodies
                    if d == 900 && !(n <= 2 && matches!(name.as_str(), "self" | "mutual" | "into" | "param" | "field" | "listfn")) {
                        continue;
                    }
                    k += 1;
                    // callbacks of built-ins cost three call levels per recursion step
                    if name == "where" || name == "reduce" || ((name == "map" || name == "fixpoint") && d > 200) {
                        continue;
                    }
                    rep.case(&format!("bounded {} depth={} nesting={} kind={}", name, d, n, kind), true);
                    let (code, out, err) = run_bin(&ctx.blots_release_bin, &src, &format!("b{}", k));
                    let want = format!("{{\"r\":{}.0}}", d);
                    if code != Some(0) || out.trim() != want {
                        rep.finding("oracle", "bounded-recursion-fails", &src,
                            &format!("exit {:?} stdout {:?} stderr {:?} expected {}", code, out.chars().take(160).collect::<String>(), err.chars().take(200).collect::<String>(), want), "c18.bounded");
                    }
                }
            }
        }
    }
    // just below the limit, one wrapper of every kind around the recursive call: a wrapper that used
    // up call depth (or a deeper native frame per call) would show here
    for kind in 0..8usize {
        for (name, src) in shapes(1, kind, Some(900)) {
            if !matches!(name.as_str(), "self" | "into" | "param") {
                continue;
            }
            k += 1;
            rep.case(&format!("bounded {} depth=900 nesting=1 kind={}", name, kind), true);
            let (code, out, err) = run_bin(&ctx.blots_release_bin, &src, &format!("n{}", k));
            if code != Some(0) || out.trim() != "{\"r\":900.0}" {
                rep.finding("oracle", "bounded-recursion-fails", &src,
                    &format!("exit {:?} stdout {:?} stderr {:?} expected {{\"r\":900.0}}", code, out.chars().take(160).collect::<String>(), err.chars().take(200).collect::<String>()), "c18.bounded");
            }
        }
    }
    // correspondence on the plain shapes (the model's own recursion is bounded by its fuel)
    for (name, src) in shapes(0, 0, None).into_iter().chain(shapes(1, 0, Some(50)).into_iter()) {
        if misbehaved.contains(&name) {
            rep.count("model-correspondence-skipped");
            continue;
        }
        let stmts = match statements(&src) { Ok(s) => s, Err(_) => continue };
        let real = std::thread::Builder::new().stack_size(1 << 30).spawn({
            let stmts = stmts.clone();
            let src = src.clone();
            move || run_real(&stmts, None, &src).outcomes
        }).unwrap().join();
        let real = match real { Ok(r) => r, Err(_) => { rep.finding("oracle", "panic", &src, "evaluation panicked", "c18.panic"); continue; } };
        let m = model_session(&mut model, &stmts, None, 60000);
        rep.case(&format!("model {}", name), true);
        if m.contains("(fuel)") {
            rep.count("model-out-of-fuel");
            continue;
        }
        let real_s = format!("({})", real.join(" "));
        if !m.starts_with(&real_s) {
            rep.finding("model", "session", &src, &format!("impl={} model={}", short(&real_s), short(&m)), "c18.model.session");
        }
    }
    rep.model_requests = model.requests;
}
