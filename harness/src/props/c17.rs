//! C17 — unit conversion is consistent across the whole unit table.
//!
//! (i) correspondence with the Lean model (`Blots/Model/Units.lean`, table `Gen.units`
//!     translated from `get_all_units()` by tools/gen_units.py):
//!       * the translated table itself, field by field (category name, identifiers, kind,
//!         coefficient bit pattern, `to_lowercase` of every identifier);
//!       * the model's per-character lower-casing against `char::to_lowercase` for EVERY
//!         Unicode scalar value;
//!       * `resolve_unit` on every identifier, its case variants (upper, lower, title,
//!         swapped), prefixes/suffixes, unknown and random strings;
//!       * `units::convert` bit-for-bit on every ordered pair of units of every category ×
//!         the magnitude pool, and on cross-category pairs (errors);
//!       * the double result against the model's EXACT rational result (`unit-convert-q`).
//! (ii) model-free oracles on the real code (`kind = "oracle"`), listed at `oracles()`.
//!
//! Error classes.  `resolve_unit` returns `anyhow::Error`s that differ only in their text.
//! The text is never looked at: an `Err` is classified *behaviourally* through the public
//! `Unit::matches` of the real code — no unit of `get_all_units()` matches the string ⇒
//! "unknown", otherwise ⇒ "ambiguous".
//!
//! Floating point.  u = 2⁻⁵³ (unit round-off).  What is checked for doubles, and why:
//!   * linear/reciprocal conversion A→B is two correctly rounded operations
//!     (`x*a` then `/b`, or `c/x`): relative error ≤ 2u+u² against the real-number result
//!     with the same double coefficients.  There-and-back is four operations: the real-number
//!     composite is the identity, so |x'−x| ≤ ((1+u)⁴−1)|x| < 4.0000001u|x|; the bound used is
//!     8u|x| (factor 2 slack).  Triangle: 4 operations against 2: ≤ 6u → 8u used.
//!   * 0 round-trips exactly (0·c = 0; a reciprocal unit sends 0 to +∞ and +∞ back to 0).
//!   * self-conversion of a LINEAR unit is `(x*c)/c`: two roundings, so it is the identity
//!     only up to 2u|x| in general (e.g. 3 inches → 2.9999999999999996); it is exactly the
//!     identity when c = 1.0 (every category's base unit) and for kelvin→kelvin — those are
//!     checked for exact equality, the rest against 2.5u|x|.  Reciprocal units: `c/(c/x)`,
//!     same bound; temperature: absolute bound below.
//!   * temperature functions add/subtract offsets (273.15, 32), so errors are absolute: every
//!     intermediate is bounded by M = 2(|x|+500) and at most 16 roundings occur in a round
//!     trip, each amplified by at most 9/5 afterwards: |x'−x| ≤ 16·(9/5)·u·M < 64u(|x|+500).
//!   * against the exact rational model (literal coefficients): additionally each
//!     coefficient is off by ≤ u (≤ 2u for expression coefficients such as `1.0 / 3.6`) and
//!     the reference itself is rounded once: ≤ 2u+4u+u/2 → 8u used.

use crate::run::{eval_expr_src, new_heap};
use crate::tv::TV;
use crate::util::{guarded, Ctx, Model, Report, Rng};
use crate::wire::{hs, unhs};
use blots_core::environment::Environment;
use blots_core::units::{self, ConversionType, Unit};
use std::collections::{BTreeMap, BTreeSet, HashMap};
use std::rc::Rc;

const U: f64 = 1.1102230246251565e-16; // 2^-53

// ------------------------------------------------------------------------ S-expressions
#[derive(Debug, Clone)]
enum Sx {
    A(String),
    L(Vec<Sx>),
}

fn parse_sx(s: &str) -> Vec<Sx> {
    let mut stack: Vec<Vec<Sx>> = vec![vec![]];
    let mut cur = String::new();
    let flush = |cur: &mut String, stack: &mut Vec<Vec<Sx>>| {
        if !cur.is_empty() {
            stack.last_mut().unwrap().push(Sx::A(std::mem::take(cur)));
        }
    };
    for ch in s.chars() {
        match ch {
            '(' => {
                flush(&mut cur, &mut stack);
                stack.push(vec![]);
            }
            ')' => {
                flush(&mut cur, &mut stack);
                let l = stack.pop().unwrap_or_default();
                if stack.is_empty() {
                    stack.push(vec![]);
                }
                stack.last_mut().unwrap().push(Sx::L(l));
            }
            ' ' => flush(&mut cur, &mut stack),
            c => cur.push(c),
        }
    }
    flush(&mut cur, &mut stack);
    stack.pop().unwrap_or_default()
}

impl Sx {
    fn atom(&self) -> &str {
        match self {
            Sx::A(s) => s,
            _ => "",
        }
    }
    fn list(&self) -> &[Sx] {
        match self {
            Sx::L(l) => l,
            _ => &[],
        }
    }
}

// ------------------------------------------------------------------------ the real code, wrapped
#[derive(Clone, Copy, PartialEq, Eq, Debug)]
enum Res {
    Ok(usize),
    Unknown,
    Ambiguous,
    Panic,
}

impl Res {
    fn wire(&self) -> String {
        match self {
            Res::Ok(i) => format!("(ok {})", i),
            Res::Unknown => "(err unknown)".into(),
            Res::Ambiguous => "(err ambiguous)".into(),
            Res::Panic => "(panic)".into(),
        }
    }
    fn is_err(&self) -> bool {
        matches!(self, Res::Unknown | Res::Ambiguous)
    }
}

fn unit_index(all: &[Unit], u: &Unit) -> Option<usize> {
    all.iter().position(|w| w.category == u.category && w.identifiers == u.identifiers)
}

/// `resolve_unit` of the real code; errors classified through the real `Unit::matches`
fn impl_resolve(all: &[Unit], q: &str) -> Res {
    match guarded(|| units::resolve_unit(q)) {
        Err(_) => Res::Panic,
        Ok(Ok(u)) => match unit_index(all, &u) {
            Some(i) => Res::Ok(i),
            None => Res::Panic,
        },
        Ok(Err(_)) => {
            if all.iter().any(|u| u.matches(q)) {
                Res::Ambiguous
            } else {
                Res::Unknown
            }
        }
    }
}

/// The property's own reading of resolution, computed from the table alone: exactly one
/// unit lists the string ⇒ it; several ⇒ error; none ⇒ the units having an identifier equal
/// up to case (Rust's `to_lowercase` is the definition of "up to case"): one ⇒ it, several ⇒
/// ambiguous, none ⇒ unknown.
fn spec_resolve(all: &[Unit], lowers: &[Vec<String>], q: &str) -> Res {
    let exact: Vec<usize> = (0..all.len()).filter(|&i| all[i].identifiers.iter().any(|a| *a == q)).collect();
    if exact.len() == 1 {
        return Res::Ok(exact[0]);
    }
    if exact.len() > 1 {
        return Res::Ambiguous;
    }
    let ql = q.to_lowercase();
    let cm: Vec<usize> = (0..all.len()).filter(|&i| lowers[i].iter().any(|a| *a == ql)).collect();
    match cm.len() {
        0 => Res::Unknown,
        1 => Res::Ok(cm[0]),
        _ => Res::Ambiguous,
    }
}

#[derive(Clone, Copy, PartialEq, Debug)]
enum Cv {
    Ok(f64),
    Err,
    Panic,
}

fn impl_convert(x: f64, a: &str, b: &str) -> Cv {
    match guarded(|| units::convert(x, a, b)) {
        Err(_) => Cv::Panic,
        Ok(Ok(y)) => Cv::Ok(y),
        Ok(Err(_)) => Cv::Err,
    }
}

fn same(a: f64, b: f64) -> bool {
    a.to_bits() == b.to_bits() || (a.is_nan() && b.is_nan())
}

fn kind_of(u: &Unit) -> &'static str {
    match u.conversion {
        ConversionType::Linear { .. } => "linear",
        ConversionType::Reciprocal { .. } => "reciprocal",
        ConversionType::Temperature { .. } => "temperature",
    }
}

fn coef_of(u: &Unit) -> Option<f64> {
    match u.conversion {
        ConversionType::Linear { coefficient } => Some(coefficient),
        ConversionType::Reciprocal { coefficient } => Some(coefficient),
        ConversionType::Temperature { .. } => None,
    }
}

/// |got − want| within the tolerance for a chain of conversions whose inputs/intermediates
/// were `mags` (see the module comment).  `factor` multiplies u.
fn close(got: f64, want: f64, temperature: bool, factor: f64, mags: &[f64]) -> bool {
    if same(got, want) || got == want {
        return true;
    }
    if !got.is_finite() || !want.is_finite() {
        return false;
    }
    if temperature {
        let m = mags.iter().fold(want.abs().max(got.abs()), |a, b| a.max(b.abs()));
        (got - want).abs() <= 64.0 * U * (m + 500.0)
    } else {
        (got - want).abs() <= factor * U * want.abs().max(got.abs())
    }
}

fn swapcase(s: &str) -> String {
    let mut out = String::new();
    for c in s.chars() {
        if c.is_lowercase() {
            out.extend(c.to_uppercase());
        } else if c.is_uppercase() {
            out.extend(c.to_lowercase());
        } else {
            out.push(c);
        }
    }
    out
}

fn titlecase(s: &str) -> String {
    let mut out = String::new();
    for (n, c) in s.chars().enumerate() {
        if n == 0 {
            out.extend(c.to_uppercase());
        } else {
            out.extend(c.to_lowercase());
        }
    }
    out
}

const PREFIXES: &[(&str, i32)] = &[
    ("yotta", 24), ("zetta", 21), ("exa", 18), ("peta", 15), ("tera", 12), ("giga", 9), ("mega", 6),
    ("kilo", 3), ("hecto", 2), ("deca", 1), ("deka", 1), ("deci", -1), ("centi", -2), ("milli", -3),
    ("micro", -6), ("nano", -9), ("pico", -12), ("femto", -15), ("atto", -18), ("zepto", -21), ("yocto", -24),
];

fn pool(ctx: &Ctx, rng: &mut Rng) -> Vec<f64> {
    // quick: the ends and the middle of 1e-12..1e12, zero, negatives, fractions
    let mut p = vec![1.0, 0.0, -1.0, 1e-12, 1e12, 0.5, 3.0, -2.5e-7, 123.456, 1e6];
    if ctx.thorough() {
        p.extend_from_slice(&[1e-6, 1e3, 1e-3, 1e9, 1e-9, -273.15, 7.3, -1e12,
            -0.0, 2.0, 10.0, 100.0, 0.1, 1.0 / 3.0, -40.0, 32.0, 273.15, 98.6, 1e-10, 4.2e7, -6.02e11, 9.99e11, 1.000000000001e-12]);
        for _ in 0..12 {
            // log-uniform magnitude in [1e-12, 1e12], random sign
            let e = (rng.next() % 24_000) as f64 / 1000.0 - 12.0;
            let m = 10f64.powf(e);
            p.push(if rng.chance(1, 3) { -m } else { m });
        }
    }
    p
}

pub fn run(ctx: &Ctx, rep: &mut Report) {
    let mut rng = Rng::new(ctx.seed);
    let mut model = Model::spawn(&ctx.model_path);
    let t0 = std::time::Instant::now();
    let mut phases: Vec<String> = vec![];
    let mut mark = |name: &str, phases: &mut Vec<String>| phases.push(format!("{}@{:.1}s", name, t0.elapsed().as_secs_f64()));
    let all = units::get_all_units();
    let n = all.len();
    let lowers: Vec<Vec<String>> = all.iter().map(|u| u.identifiers.iter().map(|i| i.to_lowercase()).collect()).collect();
    let name = |i: usize| format!("#{} {} ({})", i, all[i].identifiers[0], all[i].category.name());
    rep.notes.push(format!("unit table: {} units, {} identifiers", n, all.iter().map(|u| u.identifiers.len()).sum::<usize>()));
    rep.notes.push("resolve_unit errors are classified behaviourally (Unit::matches), never by message text".into());

    // ================================================================= (i.a) translated table
    let table = parse_sx(&model.ask("unit-table"));
    let rows: Vec<Sx> = table.first().map(|t| t.list().to_vec()).unwrap_or_default();
    if rows.len() != n {
        rep.finding("model", "table", "unit-table", &format!("model table has {} units, get_all_units() has {}", rows.len(), n), "c17.model.table");
    }
    // The translator emits the table in a pinned order (the order of the rows in units.rs is not
    // observable), so a model row is matched with the unit of the code that lists its identifiers.
    let mut model_to_real: Vec<Option<usize>> = vec![];
    let mut matched = vec![false; n];
    for row in rows.iter() {
        let f = row.list();
        let first: Option<String> = if f.len() == 6 { f[4].list().first().and_then(|a| unhs(a.atom())) } else { None };
        let j = first.and_then(|id| all.iter().position(|u| u.identifiers.iter().any(|x| *x == id.as_str())));
        if let Some(j) = j {
            if matched[j] {
                rep.finding("model", "table", &format!("unit {}", name(j)), "two rows of the model table match this unit", "c17.model.table");
            }
            matched[j] = true;
        }
        model_to_real.push(j);
    }
    for (j, m) in matched.iter().enumerate() {
        if !*m {
            rep.finding("model", "table", &format!("unit {}", name(j)), "no row of the model table lists this unit's identifiers", "c17.model.table");
        }
    }
    for (k, row) in rows.iter().enumerate() {
        let f = row.list();
        let i = match model_to_real[k] { Some(i) => i, None => { rep.finding("model", "table", &format!("model row {}", k), "its first identifier is listed by no unit of the code", "c17.model.table"); continue; } };
        let u = &all[i];
        let mut bad = vec![];
        if f.len() != 6 {
            bad.push("row shape".to_string());
        } else {
            if unhs(f[0].atom()).as_deref() != Some(u.category.name()) {
                bad.push(format!("category {:?} vs {}", unhs(f[0].atom()), u.category.name()));
            }
            if f[1].atom() != kind_of(u) {
                bad.push(format!("kind {} vs {}", f[1].atom(), kind_of(u)));
            }
            if let Some(c) = coef_of(u) {
                if f[2].atom() != format!("{:016x}", c.to_bits()) {
                    bad.push(format!("coefficient bits {} vs {:016x} ({:e})", f[2].atom(), c.to_bits(), c));
                }
            }
            let ids: Vec<Option<String>> = f[4].list().iter().map(|a| unhs(a.atom())).collect();
            if ids.len() != u.identifiers.len() || ids.iter().zip(u.identifiers.iter()).any(|(a, b)| a.as_deref() != Some(*b)) {
                bad.push(format!("identifiers {:?} vs {:?}", ids, u.identifiers));
            }
            let lows: Vec<Option<String>> = f[5].list().iter().map(|a| unhs(a.atom())).collect();
            if lows.len() != lowers[i].len() || lows.iter().zip(lowers[i].iter()).any(|(a, b)| a.as_deref() != Some(b.as_str())) {
                bad.push(format!("to_lowercase {:?} vs {:?}", lows, lowers[i]));
            }
        }
        rep.case(&format!("table row {}", name(i)), true);
        if !bad.is_empty() {
            rep.finding("model", "table", &format!("unit {}", name(i)), &bad.join("; "), "c17.model.table");
        }
    }

    // ================================================================= (i.b) lower-casing, every scalar value
    let lt = parse_sx(&model.ask("unit-lower-table"));
    let mut ltab: HashMap<u32, String> = HashMap::new();
    let mut alphabet: BTreeSet<char> = BTreeSet::new();
    if lt.len() == 2 {
        for e in lt[0].list() {
            let l = e.list();
            if let Some(cp) = l.first().and_then(|a| a.atom().parse::<u32>().ok()) {
                let s: String = l[1..].iter().filter_map(|a| a.atom().parse::<u32>().ok().and_then(char::from_u32)).collect();
                ltab.insert(cp, s);
            }
        }
        for a in lt[1].list() {
            if let Some(c) = a.atom().parse::<u32>().ok().and_then(char::from_u32) {
                alphabet.insert(c);
            }
        }
    } else {
        rep.finding("model", "lowercase", "unit-lower-table", "unparsable answer", "c17.model.lowercase");
    }
    // the alphabet must be exactly the characters of the lower-cased identifiers
    let real_alpha: BTreeSet<char> = lowers.iter().flatten().flat_map(|s| s.chars()).collect();
    if real_alpha != alphabet {
        rep.finding("model", "lowercase", "alphabet of lower-cased identifiers", &format!("model {:?} vs code {:?}", alphabet, real_alpha), "c17.model.lowercase");
    }
    let mut scalars = 0u64;
    for cp in 0..=0x10FFFFu32 {
        let Some(c) = char::from_u32(cp) else { continue };
        scalars += 1;
        let lc: String = c.to_lowercase().collect();
        let model_lc: String = if c.is_ascii_uppercase() {
            ((cp + 32) as u8 as char).to_string()
        } else if cp < 128 {
            c.to_string()
        } else if let Some(s) = ltab.get(&cp) {
            s.clone()
        } else {
            c.to_string()
        };
        // exact agreement, or a harmless difference: Rust's lower-case contains a character that
        // occurs in no lower-cased identifier while the model keeps `c`, which (being changed
        // by lower-casing) cannot occur in one either
        let harmless = cp >= 128 && !ltab.contains_key(&cp) && lc.chars().any(|d| !real_alpha.contains(&d)) && !real_alpha.contains(&c);
        if lc != model_lc && !harmless {
            rep.finding("model", "lowercase", &format!("U+{:04X} {:?}", cp, c), &format!("to_lowercase {:?} vs model {:?}", lc, model_lc), "c17.model.lowercase");
        }
    }
    rep.counters.insert("scalar-values-lowercased".into(), scalars);
    rep.evaluations += scalars;

    mark("table+lowercase", &mut phases);
    // ================================================================= resolve: queries
    let mut queries: Vec<String> = vec![];
    for u in &all {
        for id in u.identifiers.iter() {
            queries.push(id.to_string());
            queries.push(id.to_uppercase());
            queries.push(id.to_lowercase());
            queries.push(titlecase(id));
            queries.push(swapcase(id));
            let cs: Vec<char> = id.chars().collect();
            if cs.len() > 1 {
                queries.push(cs[..cs.len() - 1].iter().collect());
                queries.push(cs[1..].iter().collect());
            }
            queries.push(format!("{} ", id));
            queries.push(format!(" {}", id));
            queries.push(format!("{}s", id));
        }
    }
    for s in ["", " ", "foobar", "xyz", "kilo", "meterss", "K", "\u{212A}", "\u{212A}M", "µ", "μ", "\u{39C}m", "\u{39C}M", "\u{2126}", "M\u{2126}", "m\u{2126}",
        "İ", "ß", "ǅ", "É", "Σ", "ΟΣ", "°C", "°c", "°F", "℃", "Å", "MA", "ma", "Ma", "mA", "C", "c", "F", "f", "MM", "KIB", "kIb", "µa", "ΜA", "ΜΩ", "mω", "Mω", "\u{0}", "m\u{0}", "🙂"] {
        queries.push(s.to_string());
    }
    let alpha_vec: Vec<char> = real_alpha.iter().copied().chain("ABCKMΩΜµ".chars()).collect();
    for _ in 0..ctx.budget(1500, 30000) {
        let len = 1 + rng.below(4);
        queries.push((0..len).map(|_| *rng.pick(&alpha_vec)).collect());
    }
    let mut seen = BTreeSet::new();
    queries.retain(|q| seen.insert(q.clone()));
    rep.counters.insert("resolve-queries".into(), queries.len() as u64);

    let mut resolved: BTreeMap<String, Res> = BTreeMap::new();
    for q in &queries {
        let desc = format!("resolve_unit({:?})", q);
        let r = impl_resolve(&all, q);
        let s = spec_resolve(&all, &lowers, q);
        let m = model.ask(&format!("unit-resolve {}", hs(q)));
        rep.case(&desc, true);
        rep.count(match r { Res::Ok(_) => "resolve.ok", Res::Unknown => "resolve.unknown", Res::Ambiguous => "resolve.ambiguous", Res::Panic => "resolve.panic" });
        if r == Res::Panic {
            rep.finding("oracle", "panic", &desc, "resolve_unit panicked or returned a unit that is not in get_all_units()", "c17.panic");
        }
        // ORACLE: the code does what the property says resolution is
        let agree = match (r, s) {
            (Res::Ok(i), Res::Ok(j)) => i == j,
            (a, b) => a.is_err() && b.is_err(),
        };
        if !agree && r != Res::Panic {
            rep.finding("oracle", "resolve-vs-spec", &desc, &format!("code {} but the table says {}", r.wire(), s.wire()), "c17.resolve-vs-spec");
        }
        // ORACLE: never guessed — whatever resolves lists the string exactly or up to case
        if let Res::Ok(i) = r {
            let ql = q.to_lowercase();
            if !all[i].identifiers.iter().any(|a| *a == q.as_str()) && !lowers[i].iter().any(|a| *a == ql) {
                rep.finding("oracle", "guessed", &desc, &format!("resolved to {} which lists nothing equal to it up to case", name(i)), "c17.guessed");
            }
        }
        // CORRESPONDENCE (full three-way class); the model's unit number is translated to the code's
        let m = match m.strip_prefix("(ok ").and_then(|x| x.strip_suffix(")")).and_then(|x| x.parse::<usize>().ok()) {
            Some(k) => match model_to_real.get(k).copied().flatten() { Some(i) => format!("(ok {})", i), None => format!("(ok model-row-{})", k) },
            None => m,
        };
        if m != r.wire() {
            rep.finding("model", "resolve", &desc, &format!("impl={} model={} spec={}", r.wire(), m, s.wire()), "c17.model.resolve");
        }
        resolved.insert(q.clone(), r);
    }

    // ORACLE: every identifier listed for a unit resolves to that unit
    for (i, u) in all.iter().enumerate() {
        for id in u.identifiers.iter() {
            let r = resolved.get(*id).copied().unwrap_or(Res::Panic);
            rep.case(&format!("own identifier {:?} of {}", id, name(i)), true);
            if r != Res::Ok(i) {
                rep.finding("oracle", "identifier-unresolvable",
                    &format!("resolve_unit({:?}) — identifier listed for {} ({})", id, u.identifiers[0], u.category.name()),
                    &format!("got {}", match r { Res::Ok(j) => format!("another unit: {}", name(j)), other => other.wire() }),
                    "c17.identifier-unresolvable");
            }
        }
    }
    // usable identifiers per unit (those that resolve to it)
    let usable: Vec<Vec<&str>> = (0..n).map(|i| all[i].identifiers.iter().copied().filter(|id| resolved.get(*id) == Some(&Res::Ok(i))).collect()).collect();
    let primary: Vec<&str> = (0..n).map(|i| usable[i].first().copied().unwrap_or(all[i].identifiers[0])).collect();

    // categories in table order
    let mut cats: Vec<Vec<usize>> = vec![];
    for i in 0..n {
        match cats.iter_mut().find(|c| all[c[0]].category == all[i].category) {
            Some(c) => c.push(i),
            None => cats.push(vec![i]),
        }
    }
    rep.counters.insert("categories".into(), cats.len() as u64);

    let xs = pool(ctx, &mut rng);
    let is_temp = |i: usize| kind_of(&all[i]) == "temperature";

    mark("resolve", &mut phases);
    // ================================================================= ORACLE: aliases behave identically
    for i in 0..n {
        let partner = cats.iter().find(|c| c.contains(&i)).map(|c| c[0]).unwrap();
        for &x in &[1.0, 37.5, -2.0e-3] {
            let r0 = impl_convert(x, primary[i], primary[partner]);
            let b0 = impl_convert(x, primary[partner], primary[i]);
            for id in usable[i].iter().skip(1) {
                let desc = format!("convert({:e}, {:?}, {:?}) vs alias {:?}", x, id, primary[partner], primary[i]);
                rep.case(&desc, true);
                let r = impl_convert(x, id, primary[partner]);
                let b = impl_convert(x, primary[partner], id);
                let eq = |p: Cv, q: Cv| match (p, q) { (Cv::Ok(a), Cv::Ok(b)) => same(a, b), (Cv::Err, Cv::Err) => true, _ => false };
                if !eq(r, r0) || !eq(b, b0) {
                    rep.finding("oracle", "alias-differs", &desc, &format!("{:?}/{:?} vs {:?}/{:?}", r, b, r0, b0), "c17.alias-differs");
                }
            }
        }
    }

    mark("aliases", &mut phases);
    // ================================================================= pairs within each category
    // conv[(a,b)][k] = convert(xs[k], a, b)
    let mut conv: HashMap<(usize, usize), Vec<Cv>> = HashMap::new();
    let mut inexact_self = 0u64;
    let mut first_inexact: Option<String> = None;
    for c in &cats {
        for &a in c {
            for &b in c {
                let mut v = Vec::with_capacity(xs.len());
                for &x in &xs {
                    let desc = format!("convert({:e}, {:?}, {:?})", x, primary[a], primary[b]);
                    let r = impl_convert(x, primary[a], primary[b]);
                    rep.case(&desc, a != b);
                    v.push(r);
                    let y = match r {
                        Cv::Ok(y) => y,
                        other => {
                            rep.finding("oracle", "same-category-fails", &desc, &format!("{:?}", other), "c17.same-category-fails");
                            continue;
                        }
                    };
                    // CORRESPONDENCE: bit for bit
                    let m = model.ask(&format!("unit-convert {:016x} {} {}", x.to_bits(), hs(primary[a]), hs(primary[b])));
                    let want = format!("(ok {:016x})", y.to_bits());
                    if m != want && !(y.is_nan() && m.starts_with("(ok 7ff") || y.is_nan() && m.starts_with("(ok fff")) {
                        rep.finding("model", "convert", &desc, &format!("impl={} ({:e}) model={}", want, y, m), "c17.model.convert");
                    }
                    let temp = is_temp(a);
                    // ORACLE: self-conversion
                    if a == b {
                        // exact where it must be: coefficient 1.0, zero through a reciprocal
                        // unit, and a temperature unit whose functions are the identity (kelvin)
                        let exact_expected = match all[a].conversion {
                            ConversionType::Linear { coefficient } => coefficient == 1.0,
                            ConversionType::Reciprocal { .. } => x == 0.0,
                            ConversionType::Temperature { .. } => [0.0, 1.0, -40.0, 1e6, x]
                                .iter()
                                .all(|t| all[a].convert_to_base(*t) == *t && all[a].convert_from_base(*t) == *t),
                        };
                        if !(y == x) {
                            inexact_self += 1;
                            if first_inexact.is_none() {
                                first_inexact = Some(format!("{} = {:e}", desc, y));
                            }
                            if exact_expected {
                                rep.finding("oracle", "self-not-identity", &desc, &format!("got {:e}; c = 1.0 / zero / kelvin must be exact", y), "c17.self-not-identity");
                            } else if !close(y, x, temp, 2.5, &[x]) {
                                rep.finding("oracle", "self-beyond-rounding", &desc, &format!("got {:e}, more than two roundings away", y), "c17.self-beyond-rounding");
                            }
                        }
                        continue;
                    }
                    // ORACLE: there and back
                    match impl_convert(y, primary[b], primary[a]) {
                        Cv::Ok(x2) => {
                            if !close(x2, x, temp, 8.0, &[x, y]) {
                                rep.finding("oracle", "there-and-back", &desc, &format!("→ {:e} → back {:e} (tolerance {})", y, x2, if temp { "64u(|x|+500)" } else { "8u|x|" }), "c17.there-and-back");
                            }
                        }
                        other => rep.finding("oracle", "there-and-back", &desc, &format!("→ {:e} → back {:?}", y, other), "c17.there-and-back"),
                    }
                }
                conv.insert((a, b), v);
            }
        }
    }
    rep.counters.insert("self-conversions-off-by-rounding".into(), inexact_self);
    if let Some(w) = first_inexact {
        rep.notes.push(format!("self-conversion is not bit-exact for {} (unit, value) cases, all within two roundings; first: {}", inexact_self, w));
    }

    mark("pairs", &mut phases);
    // ================================================================= exact-rational distance (assumption RoundingModel)
    {
        let stride = if ctx.thorough() { 1 } else { 3 };
        let mut cnt = 0u64;
        for c in &cats {
            for &a in c {
                for &b in c {
                    for (k, &x) in xs.iter().enumerate() {
                        if (k + a + b) % stride != 0 {
                            continue;
                        }
                        let Some(Cv::Ok(y)) = conv.get(&(a, b)).map(|v| v[k]) else { continue };
                        let m = model.ask(&format!("unit-convert-q {:016x} {} {}", x.to_bits(), hs(primary[a]), hs(primary[b])));
                        cnt += 1;
                        let desc = format!("convert({:e}, {:?}, {:?}) against exact rationals", x, primary[a], primary[b]);
                        let ok = if m == "(inf)" {
                            // a reciprocal unit sent 0 to +∞: outside the rational model (the
                            // double code may come back to a finite value, e.g. mpg → imp mpg)
                            rep.count("exact-q.outside-rational-model");
                            x == 0.0
                        } else if let Some(h) = m.strip_prefix("(ok ").and_then(|s| s.strip_suffix(")")) {
                            let q = f64::from_bits(u64::from_str_radix(h, 16).unwrap_or(0));
                            close(y, q, is_temp(a), 8.0, &[x])
                        } else {
                            false
                        };
                        if !ok {
                            rep.finding("model", "exact-distance", &desc, &format!("impl {:e} vs exact {}", y, m), "c17.model.exact-distance");
                        }
                    }
                }
            }
        }
        rep.counters.insert("exact-rational-comparisons".into(), cnt);
        rep.evaluations += cnt;
    }

    mark("exact-q", &mut phases);
    // ================================================================= ORACLE: triangle law
    {
        let per_triple = ctx.budget(1, 4);
        let mut triples = 0u64;
        for c in &cats {
            let exhaustive = ctx.thorough() || c.len() <= 12;
            let total = c.len() * c.len() * c.len();
            let take = if exhaustive { total } else { 1800 };
            for t in 0..take {
                let idx = if exhaustive { t } else { rng.below(total) };
                let (a, b, d) = (c[idx / (c.len() * c.len())], c[(idx / c.len()) % c.len()], c[idx % c.len()]);
                for s in 0..per_triple {
                    let k = (idx + s * 7) % xs.len();
                    let x = xs[k];
                    let (Some(Cv::Ok(y)), Some(Cv::Ok(direct))) = (conv.get(&(a, b)).map(|v| v[k]), conv.get(&(a, d)).map(|v| v[k])) else { continue };
                    triples += 1;
                    let desc = format!("convert(convert({:e}, {:?}, {:?}), {:?}, {:?}) vs convert({:e}, {:?}, {:?})", x, primary[a], primary[b], primary[b], primary[d], x, primary[a], primary[d]);
                    rep.case(&desc, a != b && b != d);
                    match impl_convert(y, primary[b], primary[d]) {
                        Cv::Ok(z) => {
                            if !close(z, direct, is_temp(a), 8.0, &[x, y]) {
                                rep.finding("oracle", "triangle", &desc, &format!("{:e} vs {:e}", z, direct), "c17.triangle");
                            }
                        }
                        other => rep.finding("oracle", "triangle", &desc, &format!("{:?} vs {:e}", other, direct), "c17.triangle"),
                    }
                }
            }
        }
        rep.counters.insert("triples".into(), triples);
    }

    mark("triangle", &mut phases);
    // ================================================================= ORACLE: categories never mix
    {
        let mut pairs: Vec<(usize, usize)> = vec![];
        if ctx.thorough() {
            for a in 0..n {
                for b in 0..n {
                    if all[a].category != all[b].category {
                        pairs.push((a, b));
                    }
                }
            }
        } else {
            // every ordered pair of categories (first units), plus a random sample
            for ca in &cats {
                for cb in &cats {
                    if ca[0] != cb[0] {
                        pairs.push((ca[0], cb[0]));
                        pairs.push((*rng.pick(ca), *rng.pick(cb)));
                    }
                }
            }
            for _ in 0..1500 {
                let (a, b) = (rng.below(n), rng.below(n));
                if all[a].category != all[b].category {
                    pairs.push((a, b));
                }
            }
        }
        for (k, (a, b)) in pairs.iter().enumerate() {
            let x = xs[k % xs.len()];
            let desc = format!("convert({:e}, {:?}, {:?}) [{} → {}]", x, primary[*a], primary[*b], all[*a].category.name(), all[*b].category.name());
            rep.case(&desc, true);
            let r = impl_convert(x, primary[*a], primary[*b]);
            if r != Cv::Err {
                rep.finding("oracle", "cross-category-converts", &desc, &format!("{:?}", r), "c17.cross-category-converts");
            }
            if k % 4 == 0 || ctx.thorough() && k % 2 == 0 {
                let m = model.ask(&format!("unit-convert {:016x} {} {}", x.to_bits(), hs(primary[*a]), hs(primary[*b])));
                if m != "(err category)" {
                    rep.finding("model", "convert", &desc, &format!("impl={:?} model={}", r, m), "c17.model.convert");
                }
            }
        }
        rep.counters.insert("cross-category-pairs".into(), pairs.len() as u64);
    }

    mark("cross-category", &mut phases);
    // ================================================================= ORACLE: unknown / ambiguous are errors in `convert`
    {
        let good = primary[cats[0][0]];
        let mut cnt = 0u64;
        for (q, r) in resolved.iter() {
            if !r.is_err() {
                continue;
            }
            cnt += 1;
            if !ctx.thorough() && cnt % 5 != 0 && cnt > 200 {
                continue;
            }
            for (a, b) in [(q.as_str(), good), (good, q.as_str()), (q.as_str(), q.as_str())] {
                let desc = format!("convert(1, {:?}, {:?})", a, b);
                rep.case(&desc, true);
                let c = impl_convert(1.0, a, b);
                if c != Cv::Err {
                    rep.finding("oracle", "unresolved-converts", &desc, &format!("{:?} although resolve_unit fails for {:?}", c, q), "c17.unresolved-converts");
                }
                let m = model.ask(&format!("unit-convert {:016x} {} {}", 1f64.to_bits(), hs(a), hs(b)));
                let want = match (a == q.as_str(), r) {
                    (true, Res::Unknown) => "(err from-unknown)",
                    (true, _) => "(err from-ambiguous)",
                    (false, Res::Unknown) => "(err to-unknown)",
                    (false, _) => "(err to-ambiguous)",
                };
                if m != want {
                    rep.finding("model", "convert", &desc, &format!("impl={:?} model={} expected {}", c, m, want), "c17.model.convert");
                }
            }
        }
    }

    mark("unresolved", &mut phases);
    // ================================================================= ORACLE: metric prefixes
    {
        let mut cnt = 0u64;
        for c in &cats {
            for &a in c {
                for ida in all[a].identifiers.iter() {
                    for (p, k) in PREFIXES {
                        let Some(rest) = ida.strip_prefix(p) else { continue };
                        for &b in c {
                            if !all[b].identifiers.iter().any(|i| *i == rest) {
                                continue;
                            }
                            cnt += 1;
                            let desc = format!("convert(1, {:?}, {:?}) must be 1e{}", ida, rest, k);
                            rep.case(&desc, true);
                            let want = 10f64.powi(*k);
                            match impl_convert(1.0, ida, rest) {
                                Cv::Ok(y) if ((y - want) / want).abs() <= 1e-12 => {}
                                other => rep.finding("oracle", "prefix-ratio", &desc, &format!("{:?}", other), "c17.prefix-ratio"),
                            }
                            // and on the coefficients themselves
                            if let (Some(ca), Some(cb)) = (coef_of(&all[a]), coef_of(&all[b])) {
                                if ((ca / cb - want) / want).abs() > 1e-12 || kind_of(&all[a]) != "linear" || kind_of(&all[b]) != "linear" {
                                    rep.finding("oracle", "prefix-ratio", &desc, &format!("coefficients {:e} / {:e}", ca, cb), "c17.prefix-ratio");
                                }
                            }
                        }
                    }
                }
            }
        }
        rep.counters.insert("prefix-pairs".into(), cnt);
        if cnt < 50 {
            rep.finding("model", "prefix-pairs", "prefix scan", &format!("only {} prefixed names found", cnt), "c17.model.prefix-pairs");
        }
    }

    mark("prefixes", &mut phases);
    // ================================================================= ORACLE: the `convert` built-in is `units::convert`
    {
        let mut cases: Vec<(f64, String, String)> = vec![
            (1.0, "km".into(), "m".into()),
            (100.0, "celsius".into(), "fahrenheit".into()),
            (1.0, "kg".into(), "meters".into()),
            (1.0, "foobar".into(), "m".into()),
            (1.0, "ma".into(), "amperes".into()),
            (1.0, "c".into(), "f".into()),
            (0.0, "mpg".into(), "l/100km".into()),
            (5.0, "KM".into(), "Mi".into()),
            (2.0, "Ω".into(), "kΩ".into()),
        ];
        for _ in 0..ctx.budget(250, 3000) {
            let c = rng.pick(&cats);
            let (a, b) = (*rng.pick(c), *rng.pick(c));
            let ia = *rng.pick(&all[a].identifiers[..]);
            let ib = *rng.pick(&all[b].identifiers[..]);
            cases.push((*rng.pick(&xs), ia.to_string(), ib.to_string()));
        }
        for _ in 0..ctx.budget(40, 400) {
            let (a, b) = (rng.below(n), rng.below(n));
            cases.push((*rng.pick(&xs), primary[a].to_string(), primary[b].to_string()));
        }
        for (x, a, b) in cases {
            let desc = format!("convert({:e}, {:?}, {:?}) through the interpreter", x, a, b);
            rep.case(&desc, true);
            let heap = new_heap();
            let env = Rc::new(Environment::new());
            env.insert("x".to_string(), TV::Num(x).to_value(&heap));
            env.insert("a".to_string(), TV::Str(a.clone()).to_value(&heap));
            env.insert("b".to_string(), TV::Str(b.clone()).to_value(&heap));
            let got = match guarded(|| eval_expr_src("convert(x, a, b)", &heap, &env)) {
                Err(_) => Cv::Panic,
                Ok(Err(_)) => Cv::Err,
                Ok(Ok(blots_core::values::Value::Number(y))) => Cv::Ok(y),
                Ok(Ok(_)) => Cv::Panic,
            };
            let direct = impl_convert(x, &a, &b);
            let eq = match (got, direct) {
                (Cv::Ok(p), Cv::Ok(q)) => same(p, q),
                (Cv::Err, Cv::Err) => true,
                _ => false,
            };
            if !eq {
                rep.finding("oracle", "builtin-differs", &desc, &format!("built-in {:?} vs units::convert {:?}", got, direct), "c17.builtin-differs");
            }
        }
        // literal call, as a user writes it
        let heap = new_heap();
        let env = Rc::new(Environment::new());
        let lit = match guarded(|| eval_expr_src("convert(1, \"km\", \"m\")", &heap, &env)) {
            Ok(Ok(blots_core::values::Value::Number(y))) => Cv::Ok(y),
            Ok(Err(_)) => Cv::Err,
            _ => Cv::Panic,
        };
        if lit != impl_convert(1.0, "km", "m") || lit != Cv::Ok(1000.0) {
            rep.finding("oracle", "builtin-differs", "convert(1, \"km\", \"m\")", &format!("{:?}", lit), "c17.builtin-differs");
        }
        rep.case("convert(1, \"km\", \"m\")", true);
    }

    mark("builtin", &mut phases);
    rep.notes.push(format!("phases (cumulative): {}", phases.join(" ")));
    rep.model_requests = model.requests;
}
