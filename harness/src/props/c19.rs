//! C19 — CLI contract: exit status, outputs object, input merging, `#name`.
//!
//! Generated scripts (0..6 output declarations in both forms, re-declarations, an optional
//! failing statement of several kinds at any position) × input sets (stdin and/or 0..4
//! `-i`, object and non-object, overlapping keys) × invocation modes (file, inline, `-e`
//! with the program on stdin, `-o` file) run through the real binary.
//!
//! Oracles (model-free; the expected behaviour is known by construction of the script):
//!   c19.exit-code          exit 0 ⇔ every statement parses and evaluates
//!   c19.object-on-failure  an outputs object although the run failed
//!   c19.object-missing     no (single) outputs object although the run succeeded
//!   c19.object-count       with -o: object on stdout too / file not a single object
//!   c19.output-missing     a declared output name is not a key of the object
//!   c19.output-extra       a key that was never declared
//!   c19.key-order          keys not in (first-)declaration order
//!   c19.output-value       a key does not hold the value the name had at its declaration
//!   c19.merge-order        an overlapping input key does not hold the LAST source's value
//!   c19.value-k            non-object inputs not named value_1, value_2, … in order
//!   c19.hash-name          `#name` differs from `inputs.name` / absent is not null
//! Correspondence: exit class and object vs the Lean state machine (`cli-run`), merged
//! inputs incl. key order vs `json-merge`, `#name` rules vs `inref`.

use super::c06::jt::{self, JT};
use super::c06::{gen_value, run_blots, scratch_dir, tv_vs_jt};
use crate::tv::{self, TV};
use crate::util::{Ctx, Model, Report, Rng};
use crate::wire;

const NAMES: &[&str] = &["alpha", "beta", "gamma", "delta", "eps", "zeta", "eta_1", "theta", "k9", "_u"];
const INPUT_KEYS: &[&str] = &["k", "m", "p", "value_1", "value_2", "value_3"];

#[derive(Clone, Copy, PartialEq, Debug)]
enum Mode {
    File,
    Inline,
    EvalStdin,
    OutFileFile,
    OutFileInline,
}

#[derive(Clone)]
struct Line {
    text: String,
    /// model event, `None` for lines the model is not asked about (parse errors)
    event: Option<String>,
    /// name and value declared by a successful `output`
    declares: Option<(String, TV)>,
    fails: bool,
    parse_error: bool,
}

fn ok_line(text: String, event: &str) -> Line {
    Line { text, event: Some(event.to_string()), declares: None, fails: false, parse_error: false }
}

fn gen_out_value(rng: &mut Rng) -> TV {
    match rng.below(14) {
        0 => TV::Lambda(rng.pick(tv::LAMBDAS).to_string()),
        1 => TV::BuiltIn(rng.pick(tv::BUILTINS).to_string()),
        _ => {
            let d = rng.below(4);
            let v = gen_value(rng, d, true);
            // the program travels as a command-line argument in inline mode: no NUL
            if format!("{:?}", v).contains("\\0") || v.to_source().contains('\u{0}') { TV::Num(rng.range(-50, 50) as f64) } else { v }
        }
    }
}

/// a literal the real parser reads as exactly the value (checked in process)
fn expressible(v: &TV) -> bool {
    if matches!(v, TV::Lambda(_) | TV::BuiltIn(_)) {
        return true;
    }
    let heap = crate::run::new_heap();
    let env = std::rc::Rc::new(blots_core::environment::Environment::new());
    match crate::util::guarded(|| crate::run::eval_expr_src(&v.to_source(), &heap, &env)) {
        Ok(Ok(val)) => wire::value(&val, &heap.borrow()) == v.wire(),
        _ => false,
    }
}

struct Script {
    lines: Vec<Line>,
}

impl Script {
    fn text(&self) -> String {
        self.lines.iter().map(|l| l.text.as_str()).collect::<Vec<_>>().join("\n")
    }
    fn parse_error(&self) -> bool {
        self.lines.iter().any(|l| l.parse_error)
    }
    fn ok(&self) -> bool {
        !self.lines.iter().any(|l| l.fails || l.parse_error)
    }
    /// expected (name, value) in first-declaration order; the value of the last declaration
    fn expected_outputs(&self) -> Vec<(String, TV)> {
        let mut out: Vec<(String, TV)> = vec![];
        for l in &self.lines {
            if l.fails || l.parse_error {
                break;
            }
            if let Some((n, v)) = &l.declares {
                if let Some(e) = out.iter_mut().find(|(k, _)| k == n) {
                    e.1 = v.clone();
                } else {
                    out.push((n.clone(), v.clone()));
                }
            }
        }
        out
    }
}

fn gen_script(rng: &mut Rng, probes: &[Line]) -> Script {
    let mut lines: Vec<Line> = probes.to_vec();
    let mut bound: Vec<(String, TV)> = vec![];
    let n_out = rng.below(7);
    let n_other = rng.below(4);
    let total = n_out + n_other;
    let fail_at = if rng.chance(2, 5) { Some(rng.below(total + 1)) } else { None };
    let mut outs_left = n_out;
    let mut fresh = NAMES.to_vec();
    for pos in 0..=total {
        if Some(pos) == fail_at {
            lines.push(gen_failing(rng, &bound));
        }
        if pos == total {
            break;
        }
        let want_out = outs_left > 0 && (rng.chance(2, 3) || total - pos <= outs_left);
        if want_out {
            outs_left -= 1;
            let redeclare = !bound.is_empty() && rng.chance(1, 3);
            if redeclare {
                let (n, v) = rng.pick(&bound).clone();
                lines.push(Line {
                    text: format!("output {}", n),
                    event: Some(format!("(out-ident {} ok bound {} p)", wire::hs(&n), v.wire())),
                    declares: Some((n, v)),
                    fails: false,
                    parse_error: false,
                });
            } else if !fresh.is_empty() {
                let n = fresh.remove(rng.below(fresh.len())).to_string();
                let mut v = gen_out_value(rng);
                if !expressible(&v) {
                    v = TV::Str("plain".into());
                }
                lines.push(Line {
                    text: format!("output {} = {}", n, v.to_source()),
                    event: Some(format!("(out-assign {} ok {} p)", wire::hs(&n), v.wire())),
                    declares: Some((n.clone(), v.clone())),
                    fails: false,
                    parse_error: false,
                });
                bound.push((n, v));
            }
        } else {
            match rng.below(4) {
                0 => lines.push(ok_line("// a comment".into(), "(comment)")),
                1 => lines.push(ok_line(format!("{} + {}", rng.range(0, 9), rng.range(0, 9)), "(expr ok)")),
                _ if !fresh.is_empty() => {
                    let n = fresh.remove(rng.below(fresh.len())).to_string();
                    let mut v = gen_out_value(rng);
                    if !expressible(&v) {
                        v = TV::Num(7.0);
                    }
                    lines.push(ok_line(format!("{} = {}", n, v.to_source()), "(expr ok)"));
                    bound.push((n, v));
                }
                _ => lines.push(ok_line("[1, 2] via (x => x * 2)".into(), "(expr ok)")),
            }
        }
    }
    Script { lines }
}

fn gen_failing(rng: &mut Rng, bound: &[(String, TV)]) -> Line {
    let fail = |text: String, event: &str| Line { text, event: Some(event.to_string()), declares: None, fails: true, parse_error: false };
    match rng.below(16) {
        0 => fail("zz_unknown + 1".into(), "(expr err)"),
        1 => fail("1 + \"a\"".into(), "(expr err)"),
        2 if !bound.is_empty() => fail(format!("{} = 2", rng.pick(bound).0), "(expr err)"),
        3 if !bound.is_empty() => {
            let n = &rng.pick(bound).0;
            fail(format!("output {} = 2", n), &format!("(out-assign {} err)", wire::hs(n)))
        }
        4 => fail("output zz_unknown".into(), &format!("(out-ident {} err unbound)", wire::hs("zz_unknown"))),
        5 => fail("output qq = zz_unknown".into(), &format!("(out-assign {} err)", wire::hs("qq"))),
        6 => fail("inputs = 1".into(), "(expr err)"),
        7 => fail("map = 1".into(), "(expr err)"),
        8 => {
            let v = TV::Lambda("x => x + zz_free".into());
            fail("output gg = x => x + zz_free".into(), &format!("(out-assign {} ok {} u)", wire::hs("gg"), v.wire()))
        }
        9 => fail("[1, 2] + [1]".into(), "(expr err)"),
        10 if rng.chance(1, 3) => fail("boom = n => boom(n + 1)\nboom(0)".into(), "(expr ok) (expr err)"),
        11 => {
            // an output that contains NaN / ±inf is refused: exit 1, no object
            let (src, v) = rng.pick(&[
                ("inf", TV::Num(f64::INFINITY)),
                ("0/0", TV::Num(f64::NAN)),
                ("[1, -inf]", TV::List(vec![TV::Num(1.0), TV::Num(f64::NEG_INFINITY)])),
                ("{k: [0/0]}", TV::Record(vec![("k".into(), TV::List(vec![TV::Num(f64::NAN)]))])),
            ]).clone();
            fail(format!("output nf = {}", src), &format!("(out-assign {} ok {} p)", wire::hs("nf"), v.wire()))
        }
        12 => fail("shadow = inputs => 1".into(), "(expr err)"),
        _ => {
            let text = rng.pick(&["x = = 3", "(1 + ", "output = 3", "1 +* 2", "]", "if 1 then 2", "output 5"]).to_string();
            Line { text, event: None, declares: None, fails: true, parse_error: true }
        }
    }
}

// ---------------------------------------------------------------- inputs

fn small_value(rng: &mut Rng, depth: usize) -> TV {
    match rng.below(if depth == 0 { 5 } else { 7 }) {
        0 => TV::Num(rng.range(-9, 9) as f64),
        1 => TV::Num((rng.range(-999, 999) as f64) / 8.0),
        2 => TV::Str(rng.pick(&["", "s", "two words", "é", "x\"y"]).to_string()),
        3 => TV::Bool(rng.chance(1, 2)),
        4 => TV::Null,
        5 => TV::List((0..rng.below(3)).map(|_| small_value(rng, depth - 1)).collect()),
        _ => {
            let mut r: Vec<(String, TV)> = vec![];
            for _ in 0..rng.below(3) {
                let k = rng.pick(&["x", "y", "k"]).to_string();
                if !r.iter().any(|(k2, _)| *k2 == k) {
                    r.push((k, small_value(rng, depth - 1)));
                }
            }
            TV::Record(r)
        }
    }
}

fn gen_source(rng: &mut Rng) -> TV {
    if rng.chance(3, 5) {
        let mut r: Vec<(String, TV)> = vec![];
        for _ in 0..rng.below(4) {
            let k = rng.pick(INPUT_KEYS).to_string();
            if !r.iter().any(|(k2, _)| *k2 == k) {
                r.push((k, small_value(rng, 2)));
            }
        }
        TV::Record(r)
    } else {
        loop {
            let v = small_value(rng, 2);
            if !matches!(v, TV::Record(_)) {
                return v;
            }
        }
    }
}

fn tv_jt(v: &TV) -> JT {
    match v {
        TV::Num(n) => JT::Num(format!("{:?}", n)),
        TV::Bool(b) => JT::Bool(*b),
        TV::Null => JT::Null,
        TV::Str(s) => JT::Str(s.clone()),
        TV::List(l) => JT::Arr(l.iter().map(tv_jt).collect()),
        TV::Record(r) => JT::Obj(r.iter().map(|(k, x)| (k.clone(), tv_jt(x))).collect()),
        TV::Lambda(_) | TV::BuiltIn(_) => JT::Null,
    }
}

/// the merge as the property states it: left to right, later overrides, non-objects are
/// value_1, value_2, … in order of appearance (key ORDER is not part of the statement)
fn expected_merge(sources: &[TV]) -> Vec<(String, TV)> {
    let mut m: Vec<(String, TV)> = vec![];
    let mut counter = 0;
    let mut set = |m: &mut Vec<(String, TV)>, k: String, v: TV| {
        if let Some(e) = m.iter_mut().find(|(k2, _)| *k2 == k) {
            e.1 = v;
        } else {
            m.push((k, v));
        }
    };
    for s in sources {
        match s {
            TV::Record(r) => {
                for (k, v) in r {
                    set(&mut m, k.clone(), v.clone());
                }
            }
            other => {
                counter += 1;
                set(&mut m, format!("value_{}", counter), other.clone());
            }
        }
    }
    m
}

/// value wire of a printed JSON member (object keys in printed order)
fn jt_value_wire(j: &JT) -> String {
    match j {
        JT::Null => "(null)".into(),
        JT::Bool(b) => format!("(bool {})", if *b { "t" } else { "f" }),
        JT::Num(t) => format!("(num {:016x})", jt::num_bits(t).unwrap_or(0)),
        JT::Str(s) => format!("(str {})", wire::hs(s)),
        JT::Arr(xs) => {
            let mut s = String::from("(list");
            for x in xs {
                s.push(' ');
                s.push_str(&jt_value_wire(x));
            }
            s.push(')');
            s
        }
        JT::Obj(ms) => {
            let mut s = String::from("(record");
            for (k, x) in ms {
                s.push_str(&format!(" ({} {})", wire::hs(k), jt_value_wire(x)));
            }
            s.push(')');
            s
        }
    }
}

/// `(obj (hk json)…)` of a printed object, as the model prints it
fn jt_obj_wire(j: &JT) -> String {
    match j {
        JT::Obj(ms) => {
            let mut s = String::from("(obj");
            for (k, x) in ms {
                s.push_str(&format!(" ({} {})", wire::hs(k), x.wire()));
            }
            s.push(')');
            s
        }
        _ => "?".into(),
    }
}

// ---------------------------------------------------------------- one case

struct Case {
    script: Script,
    stdin_src: Option<TV>,
    flags: Vec<TV>,
    mode: Mode,
    /// probes present (input checks apply)
    with_probes: bool,
}

impl Case {
    fn describe(&self) -> String {
        let st = self.script.text();
        if self.stdin_src.is_none() && self.flags.is_empty() && self.mode == Mode::Inline {
            st
        } else {
            format!(
                "{} || mode={:?} stdin={} flags=[{}]",
                st,
                self.mode,
                self.stdin_src.as_ref().map(|s| tv_jt(s).text()).unwrap_or_else(|| "-".into()),
                self.flags.iter().map(|f| tv_jt(f).text()).collect::<Vec<_>>().join(" ; ")
            )
        }
    }
}

fn probe_lines(merged: &[(String, TV)], rng: &mut Rng) -> Vec<Line> {
    let look = |k: &str| merged.iter().find(|(k2, _)| k2 == k).map(|(_, v)| v.clone()).unwrap_or(TV::Null);
    let mut ls = vec![];
    let merged_rec = TV::Record(merged.to_vec());
    ls.push(Line {
        text: "output in_all = inputs".into(),
        event: Some(format!("(out-assign {} ok {} p)", wire::hs("in_all"), merged_rec.wire())),
        declares: Some(("in_all".into(), merged_rec)),
        fails: false,
        parse_error: false,
    });
    // in_keys: the value is taken from the observed output when the model is asked
    ls.push(Line { text: "output in_keys = keys(inputs)".into(), event: Some("@in_keys".into()), declares: None, fails: false, parse_error: false });
    let k = rng.pick(&["k", "m", "value_1", "value_2", "nope"]).to_string();
    let v = look(&k);
    let mk = |name: &str, text: String, val: TV| Line {
        text,
        event: Some(format!("(out-assign {} ok {} p)", wire::hs(name), val.wire())),
        declares: Some((name.to_string(), val)),
        fails: false,
        parse_error: false,
    };
    ls.push(mk("h_top", format!("output h_top = #{}", k), v.clone()));
    ls.push(mk("d_top", format!("output d_top = inputs.{}", k), v.clone()));
    ls.push(mk("h_abs", "output h_abs = #zz_absent".into(), TV::Null));
    ls.push(mk("d_abs", "output d_abs = inputs.zz_absent".into(), TV::Null));
    ls.push(ok_line(format!("hf = () => #{}", k), "(expr ok)"));
    ls.push(mk("h_fn", "output h_fn = hf()".into(), v.clone()));
    ls.push(mk("h_do", format!("output h_do = do {{\n  t = 1\n  return #{}\n}}", k), v.clone()));
    // through two calls and a callback: `inputs` is handed down to every callee
    ls.push(ok_line(format!("hg = x => [hf(), inputs.{}]", k), "(expr ok)"));
    ls.push(mk("h_sh", "output h_sh = [0] via hg".into(), TV::List(vec![TV::List(vec![v.clone(), v.clone()])])));
    ls.push(mk("h_eq", format!("output h_eq = #{} .== inputs.{}", k, k), TV::Bool(true)));
    ls
}

fn run_case(ctx: &Ctx, c: &Case, dir: &std::path::Path, model: &mut Model, rep: &mut Report) {
    let input = c.describe();
    let text = c.script.text();
    let mut args: Vec<String> = vec![];
    for f in &c.flags {
        // `--input=<json>`: a bare negative number after `-i` would be taken for a flag
        args.push(format!("--input={}", tv_jt(f).text()));
    }
    let out_file = dir.join("out.json");
    let _ = std::fs::remove_file(&out_file);
    // every other -o run writes to a file that already holds the (much longer) object of an earlier run
    let previous = format!("{{\"previous_run\":\"{}\",\"n\":[{}]}}", "quarterly totals ".repeat(40), (0..200).map(|i| i.to_string()).collect::<Vec<_>>().join(","));
    let prefilled = matches!(c.mode, Mode::OutFileFile | Mode::OutFileInline) && (c.script.lines.len() + c.flags.len()) % 2 == 0;
    if prefilled {
        let _ = std::fs::write(&out_file, &previous);
    }
    let prog_file = dir.join("script.blots");
    let mut stdin_bytes: Option<Vec<u8>> = c.stdin_src.as_ref().map(|s| tv_jt(s).text().into_bytes());
    match c.mode {
        Mode::File | Mode::OutFileFile => {
            let _ = std::fs::write(&prog_file, &text);
            if c.mode == Mode::OutFileFile {
                args.push("-o".into());
                args.push(out_file.to_string_lossy().to_string());
            }
            args.push(prog_file.to_string_lossy().to_string());
        }
        Mode::Inline | Mode::OutFileInline => {
            if c.mode == Mode::OutFileInline {
                args.push("-o".into());
                args.push(out_file.to_string_lossy().to_string());
            }
            args.push(text.clone());
        }
        Mode::EvalStdin => {
            args.push("-e".into());
            stdin_bytes = Some(text.clone().into_bytes());
        }
    }
    let out = run_blots(&ctx.blots_bin, &args, stdin_bytes.as_deref(), dir);
    rep.count("binary.runs");
    rep.count(&format!("mode.{:?}", c.mode));
    rep.case(&input, !c.script.lines.is_empty());
    let to_file = matches!(c.mode, Mode::OutFileFile | Mode::OutFileInline);
    let stdout_obj = match jt::parse(&out.stdout) {
        Some(j @ JT::Obj(_)) => Some(j),
        _ => None,
    };
    let file_text = if to_file { std::fs::read_to_string(&out_file).ok() } else { None };
    // a file still holding exactly the earlier run's object was not written by this run
    let file_text = if prefilled && file_text.as_deref() == Some(previous.as_str()) { None } else { file_text };
    let file_obj = file_text.as_deref().and_then(jt::parse).filter(|j| matches!(j, JT::Obj(_)));
    let _ = std::fs::remove_file(&out_file);
    let expect_ok = c.script.ok();
    rep.count(if expect_ok { "expect.success" } else if c.script.parse_error() { "expect.parse-error" } else { "expect.eval-failure" });

    // exit status
    match out.code {
        Some(0) if !expect_ok => rep.finding("oracle", "exit-code", &input, "exit status 0 although a statement fails", "c19.exit-code"),
        Some(0) => {}
        other if expect_ok => rep.finding("oracle", "exit-code", &input,
            &format!("exit status {:?} although every statement is fine; stdout {} stderr {}", other,
                out.stdout.chars().take(200).collect::<String>(), out.stderr.chars().take(200).collect::<String>()), "c19.exit-code"),
        _ => {}
    }
    // the outputs object
    let object = if to_file { file_obj.clone() } else { stdout_obj.clone() };
    if !expect_ok {
        if stdout_obj.is_some() || file_obj.is_some() {
            rep.finding("oracle", "object-on-failure", &input, &format!("an outputs object is emitted although the run fails: {}",
                out.stdout.chars().take(200).collect::<String>()), "c19.object-on-failure");
        }
    } else {
        if object.is_none() {
            rep.finding("oracle", "object-missing", &input, &format!("no single JSON object in {}: stdout {:?} file {:?}",
                if to_file { "the -o file" } else { "stdout" }, out.stdout.chars().take(200).collect::<String>(), file_text), "c19.object-missing");
        }
        if to_file && stdout_obj.is_some() {
            rep.finding("oracle", "object-count", &input, "with -o the object is also on stdout", "c19.object-count");
        }
    }
    // contents
    if let (true, Some(obj @ JT::Obj(ms))) = (expect_ok, object.as_ref()) {
        let exp = c.script.expected_outputs();
        let got_keys: Vec<&String> = ms.iter().map(|(k, _)| k).collect();
        let mut dup = false;
        for (i, k) in got_keys.iter().enumerate() {
            if got_keys[..i].contains(k) {
                dup = true;
            }
        }
        if dup {
            rep.finding("oracle", "output-extra", &input, "a key occurs twice in the outputs object", "c19.output-extra");
        }
        let mut keys_ok = true;
        for (n, _) in &exp {
            if obj.get(n).is_none() {
                keys_ok = false;
                rep.finding("oracle", "output-missing", &input, &format!("declared output {:?} is not in the object {}", n, obj.text().chars().take(200).collect::<String>()), "c19.output-missing");
            }
        }
        for k in &got_keys {
            if k.as_str() != "in_keys" && !exp.iter().any(|(n, _)| n == *k) {
                keys_ok = false;
                rep.finding("oracle", "output-extra", &input, &format!("key {:?} was never declared", k), "c19.output-extra");
            }
        }
        if keys_ok && !dup {
            let want: Vec<&String> = exp.iter().map(|(n, _)| n).collect();
            let got: Vec<&String> = got_keys.iter().filter(|k| k.as_str() != "in_keys").cloned().collect();
            if want != got {
                rep.finding("oracle", "key-order", &input, &format!("keys {:?}, declared {:?}", got, want), "c19.key-order");
            }
        }
        for (n, v) in &exp {
            if let Some(j) = obj.get(n) {
                match v {
                    TV::Lambda(_) | TV::BuiltIn(_) => {
                        let shaped = matches!(j, JT::Obj(m) if m.len() == 1 && m[0].0 == "__blots_function" && matches!(m[0].1, JT::Str(_)));
                        if !shaped {
                            rep.finding("oracle", "output-value", &input, &format!("{}: a function is not emitted as a function object: {}", n, j.text()), "c19.output-value");
                        }
                    }
                    _ => {
                        if let Err((_, d)) = tv_vs_jt(v, j, n) {
                            let key = if n == "in_all" {
                                // which law of the merge?
                                if d.contains("value_") { "c19.value-k" } else { "c19.merge-order" }
                            } else if n.starts_with("h_") || n.starts_with("d_") {
                                // both spellings agree with each other: the merged inputs are off
                                if obj.get("h_top").map(|j| j.text()) == obj.get("d_top").map(|j| j.text())
                                    && obj.get("h_top").map(|j| j.text()) == obj.get("h_fn").map(|j| j.text())
                                    && n != "h_abs" && n != "d_abs" && n != "h_sh" && n != "h_eq" { "c19.merge-order" } else { "c19.hash-name" }
                            } else {
                                "c19.output-value"
                            };
                            rep.finding("oracle", &key[4..], &input, &format!("{} does not hold the value it had at its declaration: {}", n, d), key);
                        }
                    }
                }
            }
        }
        // `#name` against `inputs.name`, directly on the printed members
        if c.with_probes {
            if obj.get("h_top").map(|j| j.text()) != obj.get("d_top").map(|j| j.text()) {
                rep.finding("oracle", "hash-name", &input, "#name and inputs.name print differently", "c19.hash-name");
            }
            if obj.get("h_abs") != Some(&JT::Null) {
                rep.finding("oracle", "hash-name", &input, "#absent is not null", "c19.hash-name");
            }
        }
    }

    // correspondence with the state machine
    if !c.script.parse_error() {
        let in_keys_val = object.as_ref().and_then(|o| o.get("in_keys")).map(jt_value_wire);
        let mut evs: Vec<String> = vec![];
        let mut usable = true;
        for l in &c.script.lines {
            match l.event.as_deref() {
                Some("@in_keys") => match &in_keys_val {
                    Some(w) => evs.push(format!("(out-assign {} ok {} p)", wire::hs("in_keys"), w)),
                    None => {
                        // the run failed before printing: any value does, the object is not compared
                        evs.push(format!("(out-assign {} ok (null) p)", wire::hs("in_keys")));
                    }
                },
                Some(e) => evs.push(e.to_string()),
                None => usable = false,
            }
        }
        if usable {
            let m = model.ask(&format!("cli-run {}", evs.join(" ")));
            let (mexit, mobj) = m.split_once(' ').unwrap_or((&m, ""));
            let real_zero = out.code == Some(0);
            if (mexit == "0") != real_zero {
                rep.finding("model", "exit", &input, &format!("code exit {:?}, model {}", out.code, m.chars().take(120).collect::<String>()), "c19.model.exit");
            } else if real_zero {
                let r = object.as_ref().map(jt_obj_wire).unwrap_or_else(|| "none".into());
                if r != mobj {
                    rep.finding("model", "object", &input, &format!("code {} model {}", r.chars().take(300).collect::<String>(), mobj.chars().take(300).collect::<String>()), "c19.model.object");
                }
            } else if mobj != "none" {
                rep.finding("model", "object", &input, "model emits an object on failure", "c19.model.object");
            }
            rep.count("model.cli-run");
        }
    }
    // merged inputs incl. key order against the model
    if c.with_probes && expect_ok {
        if let Some(obj) = object.as_ref() {
            if let (Some(JT::Arr(keys)), Some(all)) = (obj.get("in_keys"), obj.get("in_all")) {
                let mut r = String::from("(record");
                for k in keys {
                    if let JT::Str(k) = k {
                        r.push_str(&format!(" ({} {})", wire::hs(k), all.get(k).map(jt_value_wire).unwrap_or_else(|| "?".into())));
                    }
                }
                r.push(')');
                let srcs: Vec<&TV> = c.stdin_src.iter().chain(c.flags.iter()).collect();
                let req = format!(
                    "json-merge (fns) {} {}",
                    if c.mode == Mode::EvalStdin { "-".to_string() } else { c.stdin_src.as_ref().map(|s| tv_jt(s).wire()).unwrap_or_else(|| "-".into()) },
                    c.flags.iter().map(|f| tv_jt(f).wire()).collect::<Vec<_>>().join(" ")
                );
                let _ = srcs;
                let m = model.ask(&req);
                if m != r {
                    rep.finding("model", "merge", &input, &format!("code {} model {}", r, m), "c19.model.merge");
                }
                rep.count("model.json-merge");
            }
        }
    }
}

fn fixed_case(script: Script) -> Case {
    Case { script, stdin_src: None, flags: vec![], mode: Mode::Inline, with_probes: false }
}

pub fn run(ctx: &Ctx, rep: &mut Report) {
    let mut rng = Rng::new(ctx.seed);
    let mut model = Model::spawn(&ctx.model_path);
    let dir = scratch_dir("c19");

    // fixed probes around the two repaired defects (commits b646a47, afa129b)
    let decl = |text: &str, name: &str, v: TV, event: String| Script {
        lines: vec![Line { text: text.into(), event: Some(event), declares: Some((name.into(), v)), fails: false, parse_error: false }],
    };
    let refused = |text: &str, event: String| Script {
        lines: vec![Line { text: text.into(), event: Some(event), declares: None, fails: true, parse_error: false }],
    };
    let assign_ev = |n: &str, v: &TV| format!("(out-assign {} ok {} p)", wire::hs(n), v.wire());
    let inf = TV::Num(f64::INFINITY);
    let nan = TV::Num(f64::NAN);
    let l_inf = TV::List(vec![TV::Num(1.0), inf.clone()]);
    let r_nan = TV::Record(vec![("k".into(), nan.clone())]);
    let f_inf = TV::Lambda("x => x + inf".into());
    let fixed: Vec<Script> = vec![
        // a name that evaluates without being a bound variable is emitted with that value
        decl("output map", "map", TV::BuiltIn("map".into()), format!("(out-ident {} ok unbound {} p)", wire::hs("map"), TV::BuiltIn("map".into()).wire())),
        decl("output constants", "constants", TV::Record(vec![]), format!("(out-ident {} ok unbound (record) p)", wire::hs("constants"))),
        // NaN / ±inf anywhere in numbers, lists, records: refused, exit 1, no object
        refused("output inf", format!("(out-ident {} ok unbound {} p)", wire::hs("inf"), inf.wire())),
        refused("output a = inf", assign_ev("a", &inf)),
        refused("output a = 0/0", assign_ev("a", &nan)),
        refused("output a = [1, inf]", assign_ev("a", &l_inf)),
        refused("output a = {k: 0/0}", assign_ev("a", &r_nan)),
        // … but not inside the source text of a function
        decl("output f = x => x + inf", "f", f_inf.clone(), assign_ev("f", &f_inf)),
        decl("output a = 1", "a", TV::Num(1.0), assign_ev("a", &TV::Num(1.0))),
        Script { lines: vec![] },
        Script { lines: vec![ok_line("// nothing but a comment".into(), "(comment)")] },
    ];
    for s in fixed {
        let c = fixed_case(s);
        // `output constants`: the value is the constants record; only the key is checked
        if c.script.text() == "output constants" {
            run_constants_probe(ctx, &c, &dir, rep);
            continue;
        }
        run_case(ctx, &c, &dir, &mut model, rep);
    }

    // `#name` rules against the model
    for (b, n) in [
        (Some(TV::Record(vec![("k".into(), TV::Num(1.0))])), "k"),
        (Some(TV::Record(vec![("k".into(), TV::Num(1.0))])), "absent"),
        (Some(TV::Num(3.0)), "k"),
        (Some(TV::List(vec![])), "k"),
        (None, "k"),
    ] {
        let heap = crate::run::new_heap();
        let env = std::rc::Rc::new(blots_core::environment::Environment::new());
        if let Some(v) = &b {
            env.insert("inputs".to_string(), v.to_value(&heap));
        }
        let cls = |r: Result<blots_core::values::Value, String>| match r {
            Ok(v) => format!("(ok {})", wire::value(&v, &heap.borrow())),
            Err(_) => "(err)".to_string(),
        };
        let r1 = cls(crate::run::eval_expr_src(&format!("#{}", n), &heap, &env));
        let r2 = cls(crate::run::eval_expr_src(&format!("inputs.{}", n), &heap, &env));
        let repr = format!("#{} / inputs.{} with inputs = {:?}", n, n, b);
        rep.case(&repr, true);
        if r1 != r2 {
            rep.finding("oracle", "hash-name", &repr, &format!("#name gives {} but inputs.name gives {}", r1, r2), "c19.hash-name");
        }
        let m = model.ask(&format!("inref {} {}", b.as_ref().map(|v| v.wire()).unwrap_or_else(|| "-".into()), wire::hs(n)));
        let norm = |s: &str| if s.starts_with("(err") { "(err)".to_string() } else { s.to_string() };
        let parts: Vec<String> = split_two(&m).into_iter().map(|s| norm(&s)).collect();
        if parts != vec![r1.clone(), r2.clone()] {
            rep.finding("model", "inref", &repr, &format!("code {} {} model {}", r1, r2, m), "c19.model.inref");
        }
    }

    let n = ctx.budget(2000, 30000);
    for i in 0..n {
        let with_inputs = i % 3 != 2;
        let mode = match rng.below(8) {
            0 | 1 => Mode::File,
            2 | 3 | 4 => Mode::Inline,
            5 => Mode::EvalStdin,
            6 => Mode::OutFileFile,
            _ => Mode::OutFileInline,
        };
        let flags: Vec<TV> = if with_inputs { (0..rng.below(5)).map(|_| gen_source(&mut rng)).collect() } else { vec![] };
        let stdin_src = if with_inputs && mode != Mode::EvalStdin && rng.chance(1, 2) { Some(gen_source(&mut rng)) } else { None };
        let with_probes = with_inputs || rng.chance(1, 4);
        let mut sources: Vec<TV> = vec![];
        if let Some(s) = &stdin_src {
            sources.push(s.clone());
        }
        sources.extend(flags.iter().cloned());
        let probes = if with_probes { probe_lines(&expected_merge(&sources), &mut rng) } else { vec![] };
        let script = gen_script(&mut rng, &probes);
        let c = Case { script, stdin_src, flags, mode, with_probes };
        run_case(ctx, &c, &dir, &mut model, rep);
    }

    let _ = std::fs::remove_dir_all(&dir);
    rep.model_requests = model.requests;
    rep.notes.push("error text is never compared; 'reports the error' is observed only as: non-zero exit and no JSON object on stdout / in the -o file".into());
    rep.notes.push("key order of the merged inputs is not part of the property statement: it is compared with the model only (json-merge)".into());
}

/// split "(a …) (b …)" at the top level
fn split_two(s: &str) -> Vec<String> {
    let mut out = vec![];
    let mut depth = 0;
    let mut cur = String::new();
    for ch in s.chars() {
        match ch {
            '(' => {
                depth += 1;
                cur.push(ch);
            }
            ')' => {
                depth -= 1;
                cur.push(ch);
                if depth == 0 {
                    out.push(cur.trim().to_string());
                    cur = String::new();
                }
            }
            _ => cur.push(ch),
        }
    }
    out
}

/// `output constants`: evaluates to the constants record although `constants` is not a
/// bound variable; the key must be there and hold a record (its members are not modelled)
fn run_constants_probe(ctx: &Ctx, c: &Case, dir: &std::path::Path, rep: &mut Report) {
    let input = c.describe();
    let out = run_blots(&ctx.blots_bin, &[c.script.text()], None, dir);
    rep.count("binary.runs");
    rep.case(&input, true);
    match (out.code, jt::parse(&out.stdout)) {
        (Some(0), Some(j @ JT::Obj(_))) => {
            if !matches!(j.get("constants"), Some(JT::Obj(_))) {
                rep.finding("oracle", "output-missing", &input, &format!("declared output \"constants\" is not in the object {}", j.text()), "c19.output-missing");
            }
        }
        (code, _) => rep.finding("oracle", "exit-code", &input, &format!("exit {:?}", code), "c19.exit-code"),
    }
}
